#!/usr/bin/env python3
"""tools/gen_cfuncs.py <repo> <outdir>

Regenerates lean/Pixman/Gen/CFuncs.lean: a Lean definition for each C function / statement block
listed in TARGETS below, translated from the *preprocessed* text (`gcc -E -P`, minimal hand-written
config.h, stubbed <assert.h>) of the file in <repo>'s working tree that defines it.

Accepted C: pointer-free integer code -- local declarations, assignment and compound assignment,
`++`/`--`, `if/else`, early `return`, `?:`, `&& || !`, comparisons (0/1), casts, `do {..} while (0)`,
`assert (e)`, calls of other translated functions, the two trivial loops `while (x >= s) x -= s;`
and `while (x < 0) x += s;`.  Pointers appear only as (a) *out-parameters* `T *p` used as `*p`
(become results), (b) a *struct parameter* `S *e` / `S e` whose members `e->f` / `e.f` are read
(become arguments) or assigned (become results), (c) `&x` passed for an out-parameter of a
translated callee, (d) memory operands named in the target's `mem` map (loop-body targets).

C integer semantics (host: LP64, gcc, two's complement), made explicit in the output:
  * every C value is a Lean `Int` in the range of its C type (mode "int"), or -- for functions whose
    values are all non-negative -- a `Nat` (mode "nat": all variables unsigned);
  * the type of every expression is computed by the C rules (integer promotion, usual arithmetic
    conversions, literal suffixes); arithmetic of an unsigned type wraps modulo 2^N at every
    operation; arithmetic of a signed type is exact (overflow is undefined in C) and is wrapped to
    two's complement exactly where C converts: assignment, initialisation, cast, argument, return;
  * `>>` of a signed value is the arithmetic shift (floor division), `/` `%` of signed operands
    truncate toward zero (`Int.tdiv`/`Int.tmod`), comparisons and `&& || !` give 0/1;
  * helper meanings (`u32`, `s64`, `band`, `sbor`, `subLoop`, ...) are in lean/Pixman/Lemmas/CSem.lean.
A function with `assert`s gets a companion `<name>_ok : Bool` (all assertions reached hold).

Fail closed: a directive, type, token, statement or expression form that is not understood, a
target that is not found, a variable read before it is assigned -- all exit non-zero (the engine
reports a broken extraction obligation)."""
import os, re, shutil, subprocess, sys, tempfile
from pathlib import Path
sys.path.insert(0, str(Path(__file__).resolve().parent))
from genlib import write_if_changed


class Fail(Exception):
    pass


class UndefInJoin(Exception):
    pass


def fail(msg):
    raise Fail(msg)


# =============================================================================== targets
# kind "func": a whole function.  Options:
#   mode     "int" | "nat"
#   out      {param: "out" | "inout"}   pointer parameters used as *p
#   structs  {param: struct-typedef}    struct (pointer) parameters; members become arguments/results
#   drop     [params]                   parameters that must not be referenced (e.g. unused pointers)
#   name     Lean name (default: the C name)
#   nonneg   [params]                   nat mode: signed parameters assumed >= 0 (precondition, stated in the docstring)
#   ranges   {param: (lo, hi)}          precondition lo <= param <= hi (stated in the docstring), used by the
#                                        interval analysis (e.g. the 7-bit bilinear weights)
#   ptrvals  [params]                   pointer parameters used only as integer values (`(size_t) p`)
#   ret      "malloc"                   the function returns NULL or malloc (n): result (called : 0/1, n : size_t)
#   loop     (i, width)                 the function is `for (i = 0; i < width; ++i) BODY` over independent
#                                        pixels: BODY is translated, as a function of the memory operands
#   mem      {"*(dest + i)": "d", ...}  memory operands (uint32_t) read -> arguments, assigned -> results
#   null     [pointer params]           `if (p)` on these is FALSE (the variant called with p == NULL)
#   calls    {C name: Lean name}        which translated variant a call refers to
#   xmacros  True                       keep the macros of pixman-combine32.h that gen_combine32.py translates
#                                        as calls of Pixman.Gen.Combine32Macros (nat mode)
#   out kind "in"                       pointer parameter that is only read
#   consts   {param: value}             specialise an integer parameter to a constant (e.g. the depth n)
#   nonnull  [pointer params]           `if (p)` on these is TRUE (caller always passes an address)
TARGETS = [
    dict(file="pixman/pixman-matrix.c", func="rounded_udiv_128_by_48", mode="int", out={"result_hi": "out"}),
    dict(file="pixman/pixman-matrix.c", func="rounded_sdiv_128_by_49", mode="int", out={"signed_result_hi": "out"},
         nonnull=["signed_result_hi"]),
    dict(file="pixman/pixman-matrix.c", func="fixed_64_16_to_int128", mode="int", out={"rhi": "out", "rlo": "out"}),
    dict(file="pixman/pixman-matrix.c", func="fixed_112_16_to_fixed_48_16", mode="int", out={"clampflag": "inout"}),
] + [
    dict(file="pixman/pixman-trap.c", func=f, name=f"{f}_{n}", mode="int", consts={"n": n})
    for f in ("pixman_sample_ceil_y", "pixman_sample_floor_y") for n in (1, 4, 8)
] + [
    dict(file="pixman/pixman-trap.c", func="pixman_edge_step", mode="int", structs={"e": "pixman_edge_t"}),
    dict(file="pixman/pixman-trap.c", func="_pixman_edge_multi_init", mode="int", structs={"e": "pixman_edge_t"},
         out={"stepx_p": "out", "dx_p": "out"}),
    # ---- pixman-inlines.h
    dict(file="pixman/pixman-inlines.h", func="repeat", name="repeat_", mode="int", out={"c": "inout"}),
    dict(file="pixman/pixman-inlines.h", func="pixman_fixed_to_bilinear_weight", mode="int"),
    dict(file="pixman/pixman-inlines.h", func="bilinear_interpolation", mode="nat",
         ranges={"distx": (0, 127), "disty": (0, 127)}),
    dict(file="pixman/pixman-inlines.h", func="pad_repeat_get_scanline_bounds", mode="int",
         out={"width": "inout", "left_pad": "out", "right_pad": "out"}),
    # ---- pixman-private.h / pixman-utils.c
    dict(file="pixman/pixman-utils.c", func="convert_8888_to_0565", mode="nat"),
    dict(file="pixman/pixman-utils.c", func="convert_0565_to_0888", mode="nat"),
    dict(file="pixman/pixman-utils.c", func="convert_0565_to_8888", mode="nat"),
    dict(file="pixman/pixman-utils.c", func="unorm_to_unorm", mode="nat", nonneg=["from_bits", "to_bits"]),
    dict(file="pixman/pixman-utils.c", func="_pixman_multiply_overflows_size", mode="int"),
    dict(file="pixman/pixman-utils.c", func="_pixman_multiply_overflows_int", mode="int"),
    dict(file="pixman/pixman-utils.c", func="_pixman_addition_overflows_int", mode="int"),
    dict(file="pixman/pixman-utils.c", func="pixman_malloc_ab", mode="int", ret="malloc"),
    dict(file="pixman/pixman-utils.c", func="pixman_malloc_abc", mode="int", ret="malloc"),
    dict(file="pixman/pixman-utils.c", func="pixman_malloc_ab_plus_c", mode="int", ret="malloc"),
    # ---- pixman.c, pixman-glyph.c
    dict(file="pixman/pixman.c", func="color_to_uint32", mode="nat", structs={"color": "pixman_color_t"}),
    dict(file="pixman/pixman-glyph.c", func="hash", name="glyph_hash", mode="nat", ptrvals=["font_key", "glyph_key"]),
]


C32 = "pixman/pixman-combine32.c"
MEM_U = {"*(src + i)": "src_i", "*(mask + i)": "mask_i", "*(dest + i)": "dest_i"}
COMB_DROP = ["imp", "op", "dest", "src", "mask", "width"]


def c32_targets():
    t = []
    # helpers
    t.append(dict(file=C32, func="combine_mask_ca", mode="nat", xmacros=True, out={"src": "inout", "mask": "inout"}))
    t.append(dict(file=C32, func="combine_mask_value_ca", mode="nat", xmacros=True, out={"src": "inout", "mask": "in"}))
    t.append(dict(file=C32, func="combine_mask_alpha_ca", mode="nat", xmacros=True, out={"src": "in", "mask": "inout"}))
    for v, key in (("m", "nonnull"), ("n", "null")):
        t.append(dict(file=C32, func="combine_mask", name=f"combine_mask_{v}", mode="nat", xmacros=True,
                      drop=["src", "mask", "i"], mem={"*(src + i)": "src_i", "*(mask + i)": "mask_i"}, **{key: ["mask"]}))
    # unified combiners: one variant per mask == NULL / != NULL
    for f in ("combine_src_u", "combine_over_u", "combine_over_reverse_u", "combine_in_u", "combine_in_reverse_u",
              "combine_out_u", "combine_out_reverse_u", "combine_atop_u", "combine_atop_reverse_u", "combine_xor_u",
              "combine_add_u", "combine_multiply_u"):
        for v, key in (("m", "nonnull"), ("n", "null")):
            if f == "combine_src_u" and v == "n":
                continue        # memcpy
            t.append(dict(file=C32, func=f, name=f"{f}_{v}", mode="nat", xmacros=True, drop=COMB_DROP, mem=MEM_U,
                          loop=("i", "width"), calls={"combine_mask": f"combine_mask_{v}"}, **{key: ["mask"]}))
    # component-alpha combiners (mask is never NULL)
    for f in ("combine_src_ca", "combine_over_ca", "combine_over_reverse_ca", "combine_in_ca", "combine_in_reverse_ca",
              "combine_out_ca", "combine_out_reverse_ca", "combine_atop_ca", "combine_atop_reverse_ca",
              "combine_xor_ca", "combine_add_ca", "combine_multiply_ca"):
        t.append(dict(file=C32, func=f, mode="nat", xmacros=True, drop=COMB_DROP, mem=MEM_U, loop=("i", "width"),
                      nonnull=["mask"]))
    return t


TARGETS += c32_targets()

LEAN_KEYWORDS = {"at", "from", "end", "open", "show", "have", "fun", "let", "then", "do", "in", "if", "else", "by",
                 "at", "with", "match", "where", "for", "def", "theorem", "instance", "structure", "class", "namespace",
                 "section", "import", "mut", "return", "repeat", "calc", "using", "from", "Type", "Prop", "Sort",
                 "local", "private", "protected", "variable", "universe", "example", "axiom", "opaque", "abbrev",
                 "macro", "syntax", "notation", "infix", "prefix", "postfix", "deriving", "extends", "unless", "try",
                 "catch", "finally", "break", "continue", "forall", "exists", "suffices", "obtain", "nomatch", "nofun"}


def lname(n):
    return n + "_" if n in LEAN_KEYWORDS else n


# =============================================================================== preprocessing
CONFIG_H = """/* minimal configuration for tools/gen_cfuncs.py: what meson defines on this host that the
   translated functions depend on */
#define PACKAGE pixman
#define SIZEOF_LONG __SIZEOF_LONG__
#define HAVE_BUILTIN_CLZ 1
#define TLS __thread
"""
ASSERT_H = "#undef assert\n#define assert(x) __verif_assert(x)\n"


def combine32_macros(repo):
    """name -> (params, inputs, outputs, is_stmt) of the macros that gen_combine32.py translates into
    Pixman.Gen.Combine32Macros (same translator, same header text)"""
    import gen_combine32 as g32
    try:
        macros, _ = g32.preprocess((Path(repo) / "pixman" / "pixman-combine32.h").read_text())
        g = g32.Gen(macros)
        out = {}
        for n in g32.WANT_FUNC:
            if n not in macros or macros[n][0] is None:
                fail(f"pixman-combine32.h: macro {n} missing")
            f = g.translate(n)
            out[n] = (list(f.params), list(f.inputs), list(f.outputs), f.is_stmt)
        return out
    except g32.Fail as ex:
        fail(f"pixman-combine32.h: {ex}")


def stub_combine32_header(repo, scratch, names):
    """copy of pixman-combine32.h without the #defines of `names` (function-like macros), so that
    their uses survive preprocessing as calls"""
    text = (Path(repo) / "pixman" / "pixman-combine32.h").read_text()
    out, skipping = [], False
    for line in text.split("\n"):
        if skipping:
            skipping = line.rstrip().endswith("\\")
            continue
        m = re.match(r"\s*#\s*define\s+(\w+)\(", line)
        if m and m.group(1) in names:
            skipping = line.rstrip().endswith("\\")
            continue
        out.append(line)
    d = scratch / "c32"
    d.mkdir(exist_ok=True)
    (d / "pixman-combine32.h").write_text("\n".join(out))
    return d


def preprocess(repo, rel, scratch, defs=(), keep_macros=None):
    inc = scratch / "inc"
    if not inc.exists():
        inc.mkdir()
        (inc / "config.h").write_text(CONFIG_H)
        (inc / "assert.h").write_text(ASSERT_H)
        vin = (Path(repo) / "pixman" / "pixman-version.h.in").read_text()
        vin = re.sub(r"@PIXMAN_VERSION_(MAJOR|MINOR|MICRO)@", "0", vin)
        (inc / "pixman-version.h").write_text(vin)
    src = Path(repo) / rel
    if not src.exists():
        fail(f"{rel}: no such file")
    cmd = ["gcc", "-E", "-P", "-DHAVE_CONFIG_H", "-DPIXMAN_VERIF", "-I", str(inc), "-I", str(Path(repo) / "pixman")]
    cmd += list(defs)
    if keep_macros is not None:
        d = stub_combine32_header(repo, scratch, keep_macros)
        cpy = d / Path(rel).name
        cpy.write_text(src.read_text())
        cmd.append(str(cpy))
    elif rel.endswith(".h"):
        wrapper = scratch / ("wrap_" + Path(rel).name.replace(".h", ".c"))
        wrapper.write_text('#include <config.h>\n#include "pixman-private.h"\n#include "%s"\n' % Path(rel).name)
        cmd.append(str(wrapper))
    else:
        cmd.append(str(src))
    r = subprocess.run(cmd, capture_output=True, text=True)
    if r.returncode != 0:
        fail(f"gcc -E {rel} failed:\n{r.stderr[-1500:]}")
    return r.stdout


# =============================================================================== lexer
TOK = re.compile(r"""\s*(?:
    (0[xX][0-9a-fA-F]+|\d+)([uUlL]*)(?![\w.])      # integer literal
  | ([A-Za-z_]\w*)                                 # identifier
  | (<<=|>>=|\+\+|--|->|<<|>>|\+=|-=|\*=|/=|%=|\|=|&=|\^=|==|!=|<=|>=|&&|\|\||[-+*/%&|^~!()<>=,;{}?:.\[\]])
)""", re.X)


def lex(text):
    out, i = [], 0
    n = len(text)
    while i < n:
        if text[i].isspace():
            i += 1
            continue
        m = TOK.match(text, i)
        if not m or m.end() == i:
            fail(f"cannot tokenize: {text[i:i+40]!r}")
        if m.group(1) is not None:
            out.append(("num", (int(m.group(1), 0), m.group(2).lower(), m.group(1)[:2].lower() == "0x" or (m.group(1)[0] == "0" and len(m.group(1)) > 1))))
        elif m.group(3) is not None:
            out.append(("id", m.group(3)))
        else:
            out.append(("op", m.group(4)))
        i = m.end()
    return out


# =============================================================================== C types
class CT:
    """integer type: bits, signed"""
    __slots__ = ("bits", "signed")

    def __init__(self, bits, signed):
        self.bits, self.signed = bits, signed

    def __eq__(self, o):
        return isinstance(o, CT) and (self.bits, self.signed) == (o.bits, o.signed)

    def __hash__(self):
        return hash((self.bits, self.signed))

    @property
    def lo(self):
        return -(1 << (self.bits - 1)) if self.signed else 0

    @property
    def hi(self):
        return (1 << (self.bits - 1)) - 1 if self.signed else (1 << self.bits) - 1

    @property
    def mod(self):
        return 1 << self.bits

    def wrapname(self):
        return ("s" if self.signed else "u") + str(self.bits)

    def cname(self):
        return ("int" if self.signed else "uint") + str(self.bits) + "_t"

    def wrap(self, v):
        v %= self.mod
        if self.signed and v > self.hi:
            v -= self.mod
        return v

    def __repr__(self):
        return self.cname()


INT = CT(32, True)
UINT = CT(32, False)
LONG = CT(64, True)
ULONG = CT(64, False)
TYPE_WORDS = {"int", "unsigned", "signed", "long", "short", "char"}
QUALS = {"const", "volatile", "register", "__extension__", "static", "inline", "__inline", "__inline__", "extern"}


def builtin_type(words):
    """['unsigned','long','int'] -> CT, or None"""
    ws = list(words)
    if not ws or any(w not in TYPE_WORDS for w in ws):
        return None
    uns = "unsigned" in ws
    if uns and "signed" in ws:
        return None
    nlong, nshort, nchar, nint = ws.count("long"), ws.count("short"), ws.count("char"), ws.count("int")
    if ws.count("unsigned") > 1 or ws.count("signed") > 1 or nint > 1 or nshort > 1 or nchar > 1 or nlong > 2:
        return None
    if nchar:
        if nlong or nshort or nint:
            return None
        return CT(8, not uns)       # plain char is signed on x86-64
    if nshort:
        if nlong:
            return None
        return CT(16, not uns)
    if nlong:
        return CT(64, not uns)
    return CT(32, not uns)


class Env:
    """typedefs, enums and structs of one preprocessed translation unit"""

    def __init__(self, text):
        self.text = text
        self.typedefs = {}
        for m in re.finditer(r"\btypedef\s+([^;{}()\[\]]+?)\s*\b(\w+)\s*;", text):
            self.typedefs.setdefault(m.group(2), m.group(1).strip())
        self.enum_of = {}       # enumerator -> (body text, name)
        self.enum_types = {}    # typedef name / "enum tag" -> body
        for m in re.finditer(r"\b(typedef\s+)?enum\s*(\w*)\s*\{([^{}]*)\}\s*(\w*)\s*;", text):
            body = m.group(3)
            if m.group(2):
                self.enum_types["enum " + m.group(2)] = body
            if m.group(1) and m.group(4):
                self.enum_types[m.group(4)] = body
            for item in body.split(","):
                nm = item.split("=")[0].strip()
                if nm:
                    self.enum_of.setdefault(nm, body)
        self.enum_cache = {}
        self.structs = {}
        for m in re.finditer(r"\bstruct\s+(\w+)\s*\{([^{}]*)\}", text):
            self.structs.setdefault(m.group(1), m.group(2))

    def enum_values(self, body):
        if body in self.enum_cache:
            return self.enum_cache[body]
        vals, nxt = {}, 0
        for item in body.split(","):
            item = item.strip()
            if not item:
                continue
            if "=" in item:
                nm, ex = item.split("=", 1)
                nm = nm.strip()
                p = Parser(lex(ex), self)
                e = p.expr()
                if p.i != len(p.t):
                    fail(f"enumerator {nm}: value not understood")
                tr = Translator(self, dict(mode="int", func="<enum>"), consts=vals)
                r = tr.ex(e)
                if r.const is None:
                    fail(f"enumerator {nm}: value is not constant")
                nxt = r.const
            else:
                nm = item
            if not re.fullmatch(r"\w+", nm):
                fail(f"enumerator {nm!r} not understood")
            vals[nm] = nxt
            nxt += 1
        self.enum_cache[body] = vals
        return vals

    def enum_type(self, body):
        vals = self.enum_values(body)
        return INT if any(v < 0 for v in vals.values()) else UINT

    def is_type_start(self, name):
        return name in TYPE_WORDS or name in QUALS or name in ("struct", "enum", "void") or name in self.typedefs \
            or name in self.enum_types

    def resolve(self, words, depth=0):
        """list of identifier words -> CT | ('struct', tag) ; fail closed"""
        if depth > 20:
            fail("typedef chain too deep")
        ws = [w for w in words if w not in QUALS]
        if ws == ["void"]:
            return ("void",)
        bt = builtin_type(ws)
        if bt:
            return bt
        if len(ws) == 2 and ws[0] == "struct":
            return ("struct", ws[1])
        if len(ws) == 2 and ws[0] == "enum":
            if "enum " + ws[1] in self.enum_types:
                return self.enum_type(self.enum_types["enum " + ws[1]])
            fail(f"unknown enum {ws[1]}")
        if len(ws) == 1:
            if ws[0] in self.enum_types:
                return self.enum_type(self.enum_types[ws[0]])
            if ws[0] in self.typedefs:
                return self.resolve(self.typedefs[ws[0]].split(), depth + 1)
        fail(f"unknown type {' '.join(words)!r}")

    def struct_fields(self, tyname):
        t = self.resolve([tyname]) if isinstance(tyname, str) else tyname
        if not (isinstance(t, tuple) and t[0] == "struct"):
            fail(f"{tyname} is not a struct type")
        if t[1] not in self.structs:
            fail(f"struct {t[1]} has no visible definition")
        fields = {}
        for decl in self.structs[t[1]].split(";"):
            decl = decl.strip()
            if not decl:
                continue
            m = re.fullmatch(r"([\w\s]+?)\s+(\w+(?:\s*,\s*\w+)*)", decl)
            if not m:
                fields[None] = decl     # something we do not understand; only matters if accessed
                continue
            for nm in m.group(2).split(","):
                fields[nm.strip()] = m.group(1).split()
        return fields


# =============================================================================== parser
BINPREC = {"||": 1, "&&": 2, "|": 3, "^": 4, "&": 5, "==": 6, "!=": 6, "<": 7, ">": 7, "<=": 7, ">=": 7,
           "<<": 8, ">>": 8, "+": 9, "-": 9, "*": 10, "/": 10, "%": 10}
ASSIGN_OPS = {"=", "+=", "-=", "*=", "/=", "%=", "<<=", ">>=", "&=", "|=", "^="}


class Parser:
    def __init__(self, toks, env):
        self.t, self.i, self.env = toks, 0, env

    def peek(self, k=0):
        return self.t[self.i + k] if self.i + k < len(self.t) else ("eof", None)

    def at(self, kind, val=None):
        k, v = self.peek()
        return k == kind and (val is None or v == val)

    def eat(self, kind=None, val=None):
        k, v = self.peek()
        if (kind and k != kind) or (val is not None and v != val):
            fail(f"expected {val or kind}, got {v!r} (token {self.i})")
        self.i += 1
        return v

    # ---- types
    def try_type(self):
        """parse a type name (with optional '*'s) at the cursor; returns (type, nptr) or None"""
        save = self.i
        words = []
        while self.peek()[0] == "id" and (self.env.is_type_start(self.peek()[1])):
            w = self.eat()
            words.append(w)
            if w in ("struct", "enum"):
                words.append(self.eat("id"))
            elif w in self.env.typedefs or w in self.env.enum_types:
                # a typedef name ends the specifier unless followed by qualifiers
                while self.peek()[0] == "id" and self.peek()[1] in QUALS:
                    self.eat()
                break
        if not [w for w in words if w not in QUALS]:
            self.i = save
            return None
        nptr = 0
        while self.at("op", "*"):
            self.eat()
            nptr += 1
            while self.peek()[0] == "id" and self.peek()[1] in QUALS:
                self.eat()
        return (self.env.resolve(words), nptr)

    # ---- expressions
    def expr(self):
        e = self.assign()
        while self.at("op", ","):
            self.eat()
            e = ("comma", e, self.assign())
        return e

    def assign(self):
        lhs = self.cond()
        k, v = self.peek()
        if k == "op" and v in ASSIGN_OPS:
            self.eat()
            rhs = self.assign()
            return ("assign", v, lhs, rhs)
        return lhs

    def cond(self):
        c = self.binary(1)
        if self.at("op", "?"):
            self.eat()
            a = self.expr()
            self.eat("op", ":")
            b = self.cond()
            return ("cond", c, a, b)
        return c

    def binary(self, minp):
        lhs = self.unary()
        while True:
            k, v = self.peek()
            if k != "op" or v not in BINPREC or BINPREC[v] < minp:
                return lhs
            self.eat()
            rhs = self.binary(BINPREC[v] + 1)
            lhs = ("bin", v, lhs, rhs)

    def unary(self):
        k, v = self.peek()
        if k == "op" and v in ("!", "-", "~", "+"):
            self.eat()
            return ("un", v, self.unary())
        if k == "op" and v in ("++", "--"):
            self.eat()
            return ("preinc", v[0], self.unary())
        if k == "op" and v == "*":
            self.eat()
            return ("deref", self.unary())
        if k == "op" and v == "&":
            self.eat()
            return ("addr", self.unary())
        if k == "id" and v == "sizeof":
            self.eat()
            self.eat("op", "(")
            t = self.try_type()
            if t is None:
                fail("sizeof of an expression is not supported")
            self.eat("op", ")")
            return ("sizeof", t)
        if k == "op" and v == "(":
            save = self.i
            self.eat()
            t = self.try_type()
            if t is not None and self.at("op", ")"):
                self.eat()
                return ("cast", t, self.unary())
            self.i = save
        return self.postfix()

    def postfix(self):
        k, v = self.peek()
        if k == "num":
            self.eat()
            e = ("num", v)
        elif k == "id":
            self.eat()
            e = ("id", v)
        elif k == "op" and v == "(":
            self.eat()
            e = self.expr()
            self.eat("op", ")")
        else:
            fail(f"unexpected token {v!r} in expression")
        while True:
            k, v = self.peek()
            if k == "op" and v in ("->", "."):
                self.eat()
                e = ("field", e, self.eat("id"))
            elif k == "op" and v == "(":
                self.eat()
                args = []
                if not self.at("op", ")"):
                    args.append(self.assign())
                    while self.at("op", ","):
                        self.eat()
                        args.append(self.assign())
                self.eat("op", ")")
                if e[0] != "id":
                    fail("call through an expression")
                e = ("call", e[1], args)
            elif k == "op" and v in ("++", "--"):
                self.eat()
                e = ("postinc", v[0], e)
            elif k == "op" and v == "[":
                self.eat()
                ix = self.expr()
                self.eat("op", "]")
                e = ("deref", ("bin", "+", e, ix))
            else:
                return e

    # ---- statements
    def stmt(self):
        k, v = self.peek()
        if k == "op" and v == "{":
            return self.block()
        if k == "op" and v == ";":
            self.eat()
            return ("block", [])
        if k == "id" and v == "if":
            self.eat()
            self.eat("op", "(")
            c = self.expr()
            self.eat("op", ")")
            a = self.stmt()
            b = None
            if self.at("id", "else"):
                self.eat()
                b = self.stmt()
            return ("if", c, a, b)
        if k == "id" and v == "return":
            self.eat()
            e = None
            if not self.at("op", ";"):
                e = self.expr()
            self.eat("op", ";")
            return ("return", e)
        if k == "id" and v == "while":
            self.eat()
            self.eat("op", "(")
            c = self.expr()
            self.eat("op", ")")
            return ("while", c, self.stmt())
        if k == "id" and v == "do":
            self.eat()
            body = self.stmt()
            self.eat("id", "while")
            self.eat("op", "(")
            c = self.expr()
            self.eat("op", ")")
            self.eat("op", ";")
            if c != ("num", (0, "", False)):
                fail("do-while whose condition is not the literal 0")
            return body
        if k == "id" and v == "for":
            self.eat()
            self.eat("op", "(")
            init = None if self.at("op", ";") else self.expr()
            self.eat("op", ";")
            c = None if self.at("op", ";") else self.expr()
            self.eat("op", ";")
            step = None if self.at("op", ")") else self.expr()
            self.eat("op", ")")
            return ("for", init, c, step, self.stmt())
        if k == "id" and v in ("switch", "goto", "break", "continue", "case", "default"):
            fail(f"statement `{v}` is not supported")
        if k == "id" and v == "__verif_assert":
            self.eat()
            self.eat("op", "(")
            e = self.expr()
            self.eat("op", ")")
            self.eat("op", ";")
            return ("assert", e)
        if k == "id" and self.env.is_type_start(v) and not (self.peek(1) == ("op", "(") and v not in QUALS):
            t = self.try_type()
            if t is None:
                fail(f"declaration not understood at {v}")
            ty, nptr = t
            decls = []
            while True:
                np = nptr
                while self.at("op", "*"):
                    self.eat()
                    np += 1
                nm = self.eat("id")
                if self.at("op", "["):
                    fail(f"array declaration of {nm}")
                init = None
                if self.at("op", "="):
                    self.eat()
                    init = self.assign()
                decls.append(("decl", (ty, np), nm, init))
                if self.at("op", ","):
                    self.eat()
                    nptr = 0
                    continue
                break
            self.eat("op", ";")
            return decls[0] if len(decls) == 1 else ("seq", decls)
        e = self.expr()
        self.eat("op", ";")
        return ("expr", e)

    def block(self):
        self.eat("op", "{")
        out = []
        while not self.at("op", "}"):
            s = self.stmt()
            if s[0] == "seq":
                out.extend(s[1])
            else:
                out.append(s)
        self.eat("op", "}")
        return ("block", out)


def find_function(text, name):
    """(return-type words, parameter text, body text) of the definition of `name` in preprocessed text"""
    for m in re.finditer(r"\b" + re.escape(name) + r"\s*\(", text):
        # brace depth at m.start() must be 0
        i = m.end()
        depth = 1
        while i < len(text) and depth:
            if text[i] == "(":
                depth += 1
            elif text[i] == ")":
                depth -= 1
            i += 1
        j = i
        while j < len(text) and text[j].isspace():
            j += 1
        if j >= len(text) or text[j] != "{":
            continue
        pre = text[:m.start()]
        if pre.count("{") != pre.count("}"):
            continue
        # header: back to the previous ';' or '}'
        h = max(pre.rfind(";"), pre.rfind("}"))
        header = pre[h + 1:]
        header = re.sub(r"__attribute__\s*\(\((?:[^()]|\([^()]*\))*\)\)", " ", header)
        params = text[m.end():i - 1]
        k = j + 1
        depth = 1
        while k < len(text) and depth:
            if text[k] == "{":
                depth += 1
            elif text[k] == "}":
                depth -= 1
            k += 1
        if depth:
            fail(f"{name}: unbalanced braces")
        return header.replace("*", " * ").split(), params, text[j:k]
    fail(f"function {name} not found")


# =============================================================================== typed expressions
class E:
    """translated expression: Lean text `s`, C type `ty`, value interval [lo, hi] (None = unknown
    beyond the type's range... always given), constant value if known"""
    __slots__ = ("s", "ty", "lo", "hi", "const")

    def __init__(self, s, ty, lo=None, hi=None, const=None):
        self.s, self.ty, self.const = s, ty, const
        if const is not None:
            lo = hi = const
        self.lo = ty.lo if lo is None else lo
        self.hi = ty.hi if hi is None else hi

    @property
    def inrange(self):
        return self.ty.lo <= self.lo and self.hi <= self.ty.hi


def atom(s):
    if re.fullmatch(r"[\w.]+", s) or (s.startswith("(") and s.endswith(")") and balanced(s[1:-1])):
        return s
    return f"({s})"


def balanced(s):
    d = 0
    for ch in s:
        if ch == "(":
            d += 1
        elif ch == ")":
            d -= 1
            if d < 0:
                return False
    return d == 0


def promote(t):
    return INT if t.bits < 32 else t


def common(a, b):
    a, b = promote(a), promote(b)
    if a == b:
        return a
    if a.signed == b.signed:
        return a if a.bits >= b.bits else b
    u, s = (a, b) if not a.signed else (b, a)
    if u.bits >= s.bits:
        return u
    return s


def imul(a, b):
    c = [a[0] * b[0], a[0] * b[1], a[1] * b[0], a[1] * b[1]]
    return min(c), max(c)


class Translator:
    def __init__(self, env, tgt, consts=None, funcs=None):
        self.env, self.tgt = env, tgt
        self.mode = tgt.get("mode", "int")
        self.nat = self.mode == "nat"
        self.consts = dict(consts or {})
        self.const_types = {}
        self.ptrvals = set()
        self.varrange = {}              # variable -> (lo, hi) known at this program point
        self.funcs = funcs or {}        # name -> FuncInfo of already translated functions
        self.vars = {}                  # visible variable -> CT
        self.defined = set()
        self.reads_first = []           # (variables that are inputs) in first-read order
        self.assigned = []
        self.mem = []                   # [(ast, varname)]
        self.tmp = 0
        self.xmacros = {}               # macros kept as calls of Pixman.Gen.Combine32Macros
        self.uses_ok = []               # _ok conjuncts from calls: filled by statement translation

    # ---- helpers
    def lit(self, v):
        if self.nat:
            if v < 0:
                return f"NEGATIVE_CONSTANT_{-v}"       # fails the run if it survives into the output
            return str(v)
        return str(v) if v >= 0 else f"({v})"

    def konst(self, v, ty):
        return E(self.lit(v), ty, const=v)

    def wrap_s(self, s, ty):
        if self.nat:
            if ty.signed:
                fail(f"{self.tgt['func']}: conversion to a signed type that may wrap, in nat mode")
            return f"{atom(s)} % {ty.mod}"
        return f"{ty.wrapname()} {atom(s)}"

    def conv(self, e, ty, explicit=False):
        """value of e converted to ty.  explicit: assignment / cast / argument / return (C converts
        here, so a signed value that may have left its range is wrapped)"""
        if e.const is not None:
            return self.konst(ty.wrap(e.const), ty)
        s = e.ty
        if ty.lo <= e.lo and e.hi <= ty.hi and (e.inrange or not explicit):
            # representable: value unchanged
            return E(e.s, ty, e.lo, e.hi)
        if not explicit and ty.signed and s.signed and s.bits <= ty.bits:
            # implicit widening of a signed operand inside an expression: exact arithmetic continues
            return E(e.s, ty, e.lo, e.hi)
        if self.nat and ty.signed:
            if s.signed and s.bits <= ty.bits and e.lo >= 0:
                # exact signed arithmetic that may overflow (undefined in C): kept exact in nat mode
                return E(e.s, ty, e.lo, e.hi)
            fail(f"{self.tgt['func']}: value of type {s} may not fit {ty} (nat mode)")
        return E(self.wrap_s(e.s, ty), ty)

    # ---- variables
    def read_var(self, name):
        if name not in self.vars:
            fail(f"{self.tgt['func']}: unknown identifier {name}")
        if name not in self.defined:
            fail(f"{self.tgt['func']}: {name} is read before it is assigned")
        ty = self.vars[name]
        if name in self.varrange:
            lo, hi = self.varrange[name]
            return E(lname(name), ty, max(lo, ty.lo), min(hi, ty.hi))
        if self.nat and ty.signed:
            return E(lname(name), ty, 0, ty.hi)
        return E(lname(name), ty)

    def lvalue(self, e):
        """C lvalue expression -> variable name"""
        if e[0] == "id":
            if e[1] in self.vars:
                return e[1]
            fail(f"{self.tgt['func']}: unknown identifier {e[1]}")
        if e[0] == "deref" and e[1][0] == "id" and e[1][1] in self.tgt.get("out", {}):
            return e[1][1]
        if e[0] == "field" and e[1][0] == "id" and e[1][1] in self.tgt.get("structs", {}):
            nm = e[1][1] + "_" + e[2]
            if nm not in self.vars:
                fail(f"{self.tgt['func']}: struct member {e[1][1]}.{e[2]} unknown")
            return nm
        for ast, nm in self.mem:
            if ast == e:
                return nm
        fail(f"{self.tgt['func']}: unsupported lvalue / memory operand {e!r}")

    # ---- expressions (pure: no side effects allowed here)
    def ex(self, e):
        k = e[0]
        if k == "num":
            v, suf, nondec = e[1]
            u = "u" in suf
            l = "l" in suf
            cands = []
            if not l:
                cands += [INT] if not u else []
                cands += [UINT] if (u or nondec) else []
            cands += [LONG] if not u else []
            cands += [ULONG] if (u or nondec) else []
            for t in cands:
                if t.lo <= v <= t.hi:
                    return self.konst(v, t)
            fail(f"integer literal {v} too large")
        if k == "id":
            n = e[1]
            if n in self.ptrvals:
                fail(f"{self.tgt['func']}: pointer {n} used other than under an integer cast")
            if n in self.vars:
                return self.read_var(n)
            if n in self.consts:
                return self.konst(self.consts[n], self.const_types.get(n, INT))
            if n in self.env.enum_of:
                vals = self.env.enum_values(self.env.enum_of[n])
                return self.konst(vals[n], INT)
            fail(f"{self.tgt['func']}: unknown identifier {n}")
        if k in ("deref", "field"):
            return self.read_var(self.lvalue(e))
        if k == "sizeof":
            ty, nptr = e[1]
            if nptr:
                return self.konst(8, ULONG)
            if isinstance(ty, CT):
                return self.konst(ty.bits // 8, ULONG)
            fail("sizeof of a struct type")
        if k == "cast":
            ty, nptr = e[1]
            if nptr or not isinstance(ty, CT):
                fail(f"{self.tgt['func']}: cast to a non-integer type")
            if e[2][0] == "id" and e[2][1] in self.ptrvals:
                return self.conv(E(lname(e[2][1]), ULONG), ty, explicit=True)
            return self.conv(self.ex(e[2]), ty, explicit=True)
        if k == "un":
            return self.unary(e[1], self.ex(e[2]))
        if k == "bin":
            if e[1] in ("&&", "||"):
                return self.boolval(e)
            if e[1] in ("<<", ">>"):
                return self.binary(e[1], self.ex(e[2]), self.ex_shift_count(e[3]))
            return self.binary(e[1], self.ex(e[2]), self.ex(e[3]))
        if k == "cond":
            a, b = self.ex(e[2]), self.ex(e[3])
            c = self.cond(e[1])
            if c in ("True", "False"):
                return a if c == "True" else b
            ty = common(a.ty, b.ty)
            a, b = self.conv(a, ty), self.conv(b, ty)
            return E(f"if {c} then {a.s} else {b.s}", ty, min(a.lo, b.lo), max(a.hi, b.hi))
        if k == "comma":
            fail(f"{self.tgt['func']}: comma operator inside an expression")
        if k == "call":
            return self.call_value(e)
        if k in ("assign", "preinc", "postinc"):
            fail(f"{self.tgt['func']}: side effect inside an expression ({k}) in a position that is not supported")
        fail(f"{self.tgt['func']}: expression form {k} not supported")

    def unary(self, op, a):
        if op == "!":
            return self.boolof(self.neg_cond(self.truth(a)))
        ty = promote(a.ty)
        a = self.conv(a, ty)
        if op == "+":
            return a
        if op == "-":
            if a.const is not None:
                v = -a.const
                if ty.signed:
                    if not ty.lo <= v <= ty.hi:
                        fail("constant negation overflows")
                    return self.konst(v, ty)
                return self.konst(ty.wrap(v), ty)
            if ty.signed:
                if self.nat:
                    fail(f"{self.tgt['func']}: signed negation in nat mode")
                return E(f"-{atom(a.s)}", ty, -a.hi, -a.lo)
            if self.nat:
                return E(f"({ty.mod} - {atom(a.s)}) % {ty.mod}", ty)
            return E(self.wrap_s(f"-{atom(a.s)}", ty), ty)
        if op == "~":
            if a.const is not None:
                return self.konst(ty.wrap(~a.const), ty)
            if ty.signed:
                if self.nat:
                    fail(f"{self.tgt['func']}: ~ on a signed value in nat mode")
                return E(f"-{atom(a.s)} - 1", ty, -a.hi - 1, -a.lo - 1)
            return E(f"{ty.mod - 1} - {atom(a.s)}", ty)
        fail(f"unary {op}")

    def binary(self, op, a, b):
        if op in ("<<", ">>"):
            return self.shift(op, a, b)
        if op in ("==", "!=", "<", ">", "<=", ">="):
            return self.boolof(self.compare(op, a, b))
        ty = common(a.ty, b.ty)
        a, b = self.conv(a, ty), self.conv(b, ty)
        A, B = atom(a.s), atom(b.s)
        if a.const is not None and b.const is not None:
            return self.fold(op, a.const, b.const, ty)
        if op in ("+", "-", "*"):
            if op == "+":
                lo, hi = a.lo + b.lo, a.hi + b.hi
            elif op == "-":
                lo, hi = a.lo - b.hi, a.hi - b.lo
            else:
                lo, hi = imul((a.lo, a.hi), (b.lo, b.hi))
            if ty.signed:
                if self.nat and op == "-" and lo < 0:
                    if getattr(self, "in_shift_count", False):
                        # a negative shift count is undefined in C: truncated subtraction
                        return E(f"{A} - {B}", ty, 0, max(hi, 0))
                    fail(f"{self.tgt['func']}: signed subtraction that may be negative, in nat mode")
                return E(f"{A} {op} {B}", ty, lo, hi)
            if self.nat:
                if op == "-":
                    return E(f"({A} + {ty.mod} - {B} % {ty.mod}) % {ty.mod}", ty)
                return E(f"({A} {op} {B}) % {ty.mod}", ty)
            return E(self.wrap_s(f"{A} {op} {B}", ty), ty)
        if op in ("/", "%"):
            if b.const == 0:
                fail("division by the constant 0")
            nonneg = a.lo >= 0 and b.lo >= 0
            if op == "/":
                rng = (0, a.hi) if nonneg else (None, None)
            else:
                rng = (0, min(a.hi, b.hi - 1) if b.hi > 0 else 0) if nonneg else (None, None)
            if nonneg or self.nat:
                if not nonneg:
                    fail(f"{self.tgt['func']}: signed division in nat mode")
                return E(f"{A} {op} {B}", ty, *rng)
            fn = "Int.tdiv" if op == "/" else "Int.tmod"
            if op == "%" and b.lo > 0:
                return E(f"{fn} {A} {B}", ty, -(b.hi - 1), b.hi - 1)
            return E(f"{fn} {A} {B}", ty, ty.lo, ty.hi + (1 if op == "/" else 0))
        if op in ("&", "|", "^"):
            return self.bitop(op, a, b, ty)
        fail(f"binary {op}")

    def fold(self, op, x, y, ty):
        if op == "+":
            v = x + y
        elif op == "-":
            v = x - y
        elif op == "*":
            v = x * y
        elif op in ("/", "%"):
            if y == 0:
                fail("constant division by zero")
            q = abs(x) // abs(y)
            if (x < 0) != (y < 0):
                q = -q
            v = q if op == "/" else x - q * y
        elif op == "&":
            v = x & y
        elif op == "|":
            v = x | y
        elif op == "^":
            v = x ^ y
        else:
            fail(f"fold {op}")
        if ty.signed:
            if not ty.lo <= v <= ty.hi:
                fail(f"constant expression overflows {ty}")
            return self.konst(v, ty)
        return self.konst(ty.wrap(v), ty)

    def bitop(self, op, a, b, ty):
        A, B = atom(a.s), atom(b.s)
        natop = {"&": "&&&", "|": "|||", "^": "^^^"}[op]
        nonneg = a.lo >= 0 and b.lo >= 0
        if op == "&":
            for x, y in ((a, b), (b, a)):
                if y.const is not None and y.const >= 0 and (y.const & (y.const + 1)) == 0 and not self.nat:
                    # x & (2^k - 1)  =  x mod 2^k   (two's complement, any sign of x)
                    return E(f"{atom(x.s)} % {y.const + 1}", ty, 0, y.const)
        if op == "&" and not self.nat:
            for x, y in ((a, b), (b, a)):
                if y.const is not None:
                    low = (-y.const) if ty.signed else (ty.mod - y.const)
                    if low > 1 and (low & (low - 1)) == 0 and low <= ty.hi:
                        # x & ~(2^k - 1)  =  x - x mod 2^k   (two's complement, any sign of x)
                        xs = x if x.inrange else E(self.wrap_s(x.s, ty), ty)
                        return E(f"{atom(xs.s)} - {atom(xs.s)} % {low}", ty, xs.lo - (xs.lo % low), xs.hi)
        if nonneg:
            if op == "&":
                hi = min(a.hi, b.hi)
            else:
                hi = (1 << max(a.hi.bit_length(), b.hi.bit_length())) - 1
            if self.nat:
                return E(f"{A} {natop} {B}", ty, 0, hi)
            fn = {"&": "band", "|": "bor", "^": "bxor"}[op]
            return E(f"{fn} {A} {B}", ty, 0, hi)
        if self.nat:
            fail(f"{self.tgt['func']}: bitwise operator on a possibly negative value in nat mode")
        if not ty.signed:
            fail("internal: unsigned operand with negative range")
        if not (a.inrange and b.inrange):
            # operands are exact signed results that may have left the type: wrap first (C would be UB)
            a, b = E(self.wrap_s(a.s, ty), ty), E(self.wrap_s(b.s, ty), ty)
            A, B = atom(a.s), atom(b.s)
        fn = {"&": "sband", "|": "sbor", "^": "sbxor"}[op]
        if op == "&" and (a.lo >= 0 or b.lo >= 0):
            return E(f"{fn} {A} {B}", ty, 0, a.hi if a.lo >= 0 else b.hi)
        return E(f"{fn} {A} {B}", ty)

    def ex_shift_count(self, e):
        self.in_shift_count = True
        try:
            return self.ex(e)
        finally:
            self.in_shift_count = False

    def shift(self, op, a, b):
        ty = promote(a.ty)
        a = self.conv(a, ty)
        b = self.conv(b, promote(b.ty))
        A = atom(a.s)
        if b.const is not None:
            k = b.const
            if not 0 <= k < ty.bits:
                fail(f"shift count {k} out of range for {ty}")
            if a.const is not None:
                v = a.const << k if op == "<<" else a.const >> k
                if ty.signed:
                    if not ty.lo <= v <= ty.hi:
                        fail("constant shift overflows")
                    return self.konst(v, ty)
                return self.konst(ty.wrap(v), ty)
            if self.nat:
                if op == ">>":
                    return E(f"{A} >>> {k}", ty, a.lo >> k, a.hi >> k)
                if ty.signed:
                    return E(f"{A} <<< {k}", ty, a.lo << k, a.hi << k)
                return E(f"({A} <<< {k}) % {ty.mod}", ty)
            p = 1 << k
            if op == ">>":
                return E(f"{A} / {p}", ty, a.lo >> k, a.hi >> k)
            if ty.signed:
                return E(f"{A} * {p}", ty, a.lo << k, a.hi << k)
            return E(self.wrap_s(f"{A} * {p}", ty), ty)
        # variable count
        if b.lo < 0 and self.nat:
            fail(f"{self.tgt['func']}: shift count may be negative (nat mode)")
        if self.nat:
            if op == ">>":
                return E(f"{A} >>> {atom(b.s)}", ty, 0, a.hi)
            if ty.signed:
                return E(f"{A} <<< {atom(b.s)}", ty, a.lo, a.hi << min(b.hi, 64))
            return E(f"({A} <<< {atom(b.s)}) % {ty.mod}", ty)
        pw = f"2 ^ ({b.s}).toNat"
        if op == ">>":
            lo = min(a.lo, 0) if a.lo < 0 else 0
            return E(f"{A} / {pw}", ty, min(a.lo, 0), max(a.hi, 0))
        if ty.signed:
            m = 1 << max(0, min(b.hi, 64))
            return E(f"{A} * {pw}", ty, min(a.lo * m, a.lo, 0), max(a.hi * m, a.hi, 0))
        return E(self.wrap_s(f"{A} * {pw}", ty), ty)

    # ---- conditions: Lean `Prop` text (decidable), or the literals "True"/"False"
    def compare(self, op, a, b):
        ty = common(a.ty, b.ty)
        a, b = self.conv(a, ty), self.conv(b, ty)
        if a.const is not None and b.const is not None:
            r = {"==": a.const == b.const, "!=": a.const != b.const, "<": a.const < b.const,
                 ">": a.const > b.const, "<=": a.const <= b.const, ">=": a.const >= b.const}[op]
            return "True" if r else "False"
        if op in ("==", "!="):
            # (comparison result) == 0/1
            for x, y in ((a, b), (b, a)):
                m = re.fullmatch(r"if (.*) then 1 else 0", x.s)
                if m and " then " not in m.group(1) and y.const in (0, 1):
                    pos = (y.const == 1) == (op == "==")
                    return m.group(1) if pos else self.neg_cond(m.group(1))
        lop = {"==": "=", "!=": "≠", "<": "<", ">": ">", "<=": "≤", ">=": "≥"}[op]
        return f"{a.s} {lop} {b.s}"

    def truth(self, a):
        if a.const is not None:
            return "True" if a.const != 0 else "False"
        m = re.fullmatch(r"if (.*) then 1 else 0", a.s)
        if m and " then " not in m.group(1):
            return m.group(1)
        return f"{a.s} ≠ 0"

    def neg_cond(self, c):
        if c == "True":
            return "False"
        if c == "False":
            return "True"
        m = re.fullmatch(r"(.*) ≠ (\S+)", c)
        if m and balanced(m.group(1)) and " then " not in c and "∧" not in c and "∨" not in c:
            return f"{m.group(1)} = {m.group(2)}"
        return f"¬({c})"

    def boolof(self, c):
        if c == "True":
            return self.konst(1, INT)
        if c == "False":
            return self.konst(0, INT)
        return E(f"if {c} then 1 else 0", INT, 0, 1)

    def cond(self, e):
        """C expression used as a condition -> Prop text"""
        if e[0] == "bin" and e[1] in ("&&", "||"):
            a, b = self.cond(e[2]), self.cond(e[3])
            if e[1] == "&&":
                if a == "False" or b == "False":
                    return "False"
                if a == "True":
                    return b
                if b == "True":
                    return a
                return f"({a}) ∧ ({b})"
            if a == "True":
                return "True"
            if a == "False":
                return b
            if b == "False":
                return a
            if b == "True":
                return "True"
            return f"({a}) ∨ ({b})"
        if e[0] == "un" and e[1] == "!":
            return self.neg_cond(self.cond(e[2]))
        if e[0] == "bin" and e[1] in ("==", "!=", "<", ">", "<=", ">="):
            return self.compare(e[1], self.ex(e[2]), self.ex(e[3]))
        if e[0] == "id" and e[1] in self.tgt.get("nonnull", []):
            return "True"
        if e[0] == "id" and e[1] in self.tgt.get("null", []):
            return "False"
        return self.truth(self.ex(e))

    def boolval(self, e):
        return self.boolof(self.cond(e))

    def xmacro_args(self, name, args):
        params, inputs, outputs, is_stmt = self.xmacros[name]
        if len(args) != len(params):
            fail(f"{self.tgt['func']}: macro {name} used with {len(args)} arguments")
        amap = dict(zip(params, args))
        outs = []
        for o in outputs:
            outs.append(self.lvalue(amap[o]))
            if self.vars[outs[-1]] != UINT:
                fail(f"{self.tgt['func']}: {name} assigns {outs[-1]}, which is not a uint32_t")
            for q in params:
                if q != o and q in inputs + outputs and mentions(amap[q], amap[o]):
                    fail(f"{self.tgt['func']}: {name}: assigned argument also occurs in another argument")
        ins = []
        for q in inputs:
            if side_effect(amap[q]):
                fail(f"{self.tgt['func']}: side effect in a macro argument")
            ins.append(atom(self.conv(self.ex(amap[q]), UINT, explicit=True).s))
        return ins, outs

    def call_value(self, e):
        name, args = e[1], e[2]
        if name in self.xmacros:
            if not self.nat:
                fail(f"{self.tgt['func']}: combine32 macros are available in nat mode only")
            if self.xmacros[name][3]:
                fail(f"{self.tgt['func']}: statement macro {name} used as a value")
            ins, _ = self.xmacro_args(name, args)
            return E(f"Combine32Macros.{name} " + " ".join(ins), UINT)
        name = self.tgt.get("calls", {}).get(name, name)
        if name not in self.funcs:
            fail(f"{self.tgt['func']}: call of {name}, which is not a translated function")
        fi = self.funcs[name]
        if fi.outs:
            fail(f"{self.tgt['func']}: {name} has out-parameters; call it as a statement `x = {name} (...)`")
        if fi.mode != self.mode:
            fail(f"{self.tgt['func']}: {name} is translated in mode {fi.mode}")
        if fi.ret is None:
            fail(f"{self.tgt['func']}: value of void function {name}")
        s = self.call_text(fi, args, {})
        return E(s, fi.ret)

    def call_text(self, fi, args, outmap):
        """Lean application text; outmap receives out-parameter -> caller variable"""
        if len(args) != len(fi.cparams):
            fail(f"{self.tgt['func']}: {fi.cname} called with {len(args)} arguments")
        vals = {}
        for (pn, pk, pt), a in zip(fi.cparams, args):
            if pk == "val":
                vals[pn] = atom(self.conv(self.ex(a), pt, explicit=True).s)
            elif pk in ("out", "inout"):
                if a[0] != "addr":
                    fail(f"{self.tgt['func']}: argument for out-parameter {pn} of {fi.cname} must be &variable")
                v = self.lvalue(a[1])
                if self.vars[v] != pt:
                    fail(f"{self.tgt['func']}: &{v} has type {self.vars[v]}, {fi.cname} expects {pt}")
                outmap[pn] = v
                if pk == "inout":
                    vals[pn] = atom(self.read_var(v).s)
            elif pk == "in":
                if a[0] != "addr":
                    fail(f"{self.tgt['func']}: argument for pointer parameter {pn} of {fi.cname} must be &variable")
                vals[pn] = atom(self.conv(self.read_var(self.lvalue(a[1])), pt, explicit=True).s)
            elif pk == "drop":
                if fi.mem and a != ("id", pn):
                    fail(f"{self.tgt['func']}: {fi.cname} reads memory through {pn}; the argument must be the caller's {pn}")
            elif pk == "const":
                c = self.ex(a)
                if c.const is None or pt.wrap(c.const) != fi.consts[pn]:
                    fail(f"{self.tgt['func']}: {fi.cname} is specialised to {pn} = {fi.consts[pn]}; argument differs")
            elif pk == "struct":
                if not (a[0] == "id" and a[1] in self.tgt.get("structs", {})):
                    fail(f"{self.tgt['func']}: struct argument for {pn} of {fi.cname} must be a struct parameter of the caller")
                pre = pn + "_"
                for i in fi.inputs:
                    if i.startswith(pre):
                        vals[i] = atom(self.read_var(a[1] + "_" + i[len(pre):]).s)
                for o in fi.outs:
                    if o.startswith(pre) and o not in fi.param_outs:
                        outmap[o] = a[1] + "_" + o[len(pre):]
                        if outmap[o] not in self.vars:
                            fail(f"{self.tgt['func']}: no member {outmap[o]}")
            else:
                fail(f"{self.tgt['func']}: cannot pass parameter {pn} of {fi.cname} (kind {pk})")
        for i in fi.inputs:
            if i in fi.mem:
                # memory operand of the callee = the caller's memory operand of the same name
                if i not in [nm for _, nm in self.mem]:
                    fail(f"{self.tgt['func']}: {fi.cname} reads memory operand {i}, unknown to the caller")
                vals[i] = atom(self.read_var(i).s)
        ins = [vals[i] for i in fi.inputs]
        if fi.has_ok:
            self.uses_ok.append(f"{fi.lean}_ok " + " ".join(ins))
        return f"{fi.lean} " + " ".join(ins)


class FuncInfo:
    def __init__(self):
        self.cname = self.lean = None
        self.mode = "int"
        self.cparams = []     # (name, kind, type)   kind: val | out | inout | struct | drop
        self.inputs = []      # names of Lean arguments, in order
        self.input_types = {}
        self.outs = []        # names of extra results (after the return value)
        self.out_types = {}
        self.ret = None
        self.has_ok = False
        self.text = ""
        self.consts = {}
        self.param_outs = []
        self.mem = []


# =============================================================================== statements
def contains_exit(st, ok_mode):
    k = st[0]
    if k == "return":
        return True
    if k == "assert":
        return ok_mode
    if k == "block":
        return any(contains_exit(s, ok_mode) for s in st[1])
    if k == "if":
        return contains_exit(st[2], ok_mode) or (st[3] is not None and contains_exit(st[3], ok_mode))
    if k in ("while", "for"):
        return contains_exit(st[-1], ok_mode)
    return False


def has_call(e, names):
    if not isinstance(e, tuple):
        return False
    if e and e[0] == "call" and e[1] in names:
        return True
    return any(has_call(x, names) for x in e if isinstance(x, (tuple, list))) or \
        any(has_call(y, names) for x in e if isinstance(x, list) for y in x)


def has_any_call(e):
    if not isinstance(e, tuple) or not e or e[0] == "num":
        return False
    if e[0] == "call":
        return True
    return any(has_any_call(x) for x in e[1:] if isinstance(x, tuple)) or \
        any(has_any_call(y) for x in e[1:] if isinstance(x, list) for y in x)


def side_effect(e):
    if not isinstance(e, tuple) or not e:
        return False
    if e[0] in ("assign", "preinc", "postinc"):
        return True
    if e[0] == "num":
        return False
    for x in e[1:]:
        if isinstance(x, tuple) and side_effect(x):
            return True
        if isinstance(x, list) and any(side_effect(y) for y in x):
            return True
    return False


def mentions(e, e2):
    """does AST e contain sub-AST e2"""
    if e == e2:
        return True
    if not isinstance(e, tuple):
        return False
    for x in e[1:]:
        if isinstance(x, tuple) and mentions(x, e2):
            return True
        if isinstance(x, list) and any(mentions(y, e2) for y in x):
            return True
    return False


def peep(t):
    """`let v := X` newline `v`  ->  `X`"""
    m = re.fullmatch(r"let (\w+) := ([^\n]*)\n\1", t)
    return m.group(2) if m else t


class Body:
    """translation of a statement list into a Lean term, continuation style"""

    def __init__(self, tr, ok_mode, ret_text):
        self.tr, self.ok, self.ret_text = tr, ok_mode, ret_text
        self.okfuncs = {n for n, f in tr.funcs.items() if f.has_ok}

    def ind(self, s, n=2):
        pad = " " * n
        return "\n".join(pad + l if l else l for l in s.split("\n"))

    def assigned_in(self, st, acc):
        """outer variables possibly assigned by statement st (names), in order"""
        k = st[0]
        tr = self.tr

        def walk_e(e):
            if not isinstance(e, tuple) or not e:
                return
            if e[0] == "assign":
                walk_e(e[3])
                add(lv(e[2]))
                return
            if e[0] in ("preinc", "postinc"):
                add(lv(e[2]))
                return
            if e[0] == "call" and e[1] in tr.xmacros:
                params, inputs, outputs, _ = tr.xmacros[e[1]]
                for q, a in zip(params, e[2]):
                    if q in outputs:
                        add(lv(a))
                return
            if e[0] == "call" and tr.tgt.get("calls", {}).get(e[1], e[1]) in tr.funcs:
                for (pn, pk, pt), a in zip(tr.funcs[tr.tgt.get("calls", {}).get(e[1], e[1])].cparams, e[2]):
                    if pk in ("out", "inout") and a[0] == "addr":
                        add(lv(a[1]))
                    else:
                        walk_e(a)
                return
            if e[0] == "num":
                return
            for x in e[1:]:
                if isinstance(x, tuple):
                    walk_e(x)
                elif isinstance(x, list):
                    for y in x:
                        walk_e(y)

        def lv(e):
            if e[0] == "id" and e[1] in self._local:
                return None
            return tr.lvalue(e)

        def add(v):
            if v is not None and v not in acc and v not in self._local:
                acc.append(v)
        if k == "decl":
            self._local.add(st[2])
            if st[3] is not None:
                walk_e(st[3])
        elif k == "expr":
            walk_e(st[1])
        elif k == "block":
            saved = set(self._local)
            for s in st[1]:
                self.assigned_in(s, acc)
            self._local = saved
        elif k == "if":
            walk_e(st[1])
            self.assigned_in(st[2], acc)
            if st[3] is not None:
                self.assigned_in(st[3], acc)
        elif k == "while":
            walk_e(st[1])
            self.assigned_in(st[2], acc)
        elif k in ("return", "assert"):
            pass
        else:
            fail(f"{tr.tgt['func']}: statement {k} not supported here")

    def cheap_cont(self, rest, k):
        """is the continuation (rest; k) cheap to duplicate: nothing but building the result"""
        return (not rest and getattr(k, "cheap", False)) or \
               (len(rest) == 1 and rest[0][0] == "return" and not self.ok and
                (rest[0][1] is None or not has_any_call(rest[0][1])))

    # ---- the core: translate stmts then continue with k()
    def seq(self, stmts, k):
        if not stmts:
            return k()
        st, rest = stmts[0], stmts[1:]
        tr = self.tr
        kind = st[0]
        fn = tr.tgt["func"]
        if kind == "block":
            saved_vars = dict(tr.vars)
            inner = st[1]

            def after():
                # leave scope: forget block-local declarations
                for v in list(tr.vars):
                    if v not in saved_vars:
                        del tr.vars[v]
                        tr.defined.discard(v)
                        tr.varrange.pop(v, None)
                return self.seq(rest, k)
            after.cheap = self.cheap_cont(rest, k)
            return self.seq(inner, after)
        if kind == "decl":
            (ty, nptr), nm, init = st[1], st[2], st[3]
            if nptr or not isinstance(ty, CT):
                fail(f"{fn}: declaration of {nm}: only integer locals are supported")
            if nm in tr.vars:
                fail(f"{fn}: local {nm} shadows another variable")
            if tr.nat and ty.signed:
                tr.signed_locals = getattr(tr, "signed_locals", set()) | {nm}
            tr.vars[nm] = ty
            if init is None:
                return self.seq(rest, k)
            return self.seq([("expr", ("assign", "=", ("id", nm), init))] + rest, k)
        if kind == "expr":
            return self.expr_stmt(st[1], rest, k)
        if kind == "return":
            if self.ok:
                return "true"
            if tr.ret == "malloc":
                r = st[1]
                if r == ("cast", (("void",), 1), ("num", (0, "", False))):
                    return self.ret_text(["0", "0"])
                if r is not None and r[0] == "call" and r[1] == "malloc" and len(r[2]) == 1 and not side_effect(r[2][0]):
                    v = tr.conv(tr.ex(r[2][0]), ULONG, explicit=True)
                    return self.ret_text(["1", v.s])
                fail(f"{fn}: return value is neither NULL nor malloc (n)")
            if st[1] is None:
                if tr.ret is not None:
                    fail(f"{fn}: `return;` in a non-void function")
                return self.ret_text(None)
            if tr.ret is None:
                fail(f"{fn}: return with a value in a void function")
            if side_effect(st[1]):
                fail(f"{fn}: side effect in a return expression")
            pre = self.call_prefix(st[1])
            v = tr.conv(tr.ex(st[1]), tr.ret, explicit=True)
            return pre + self.ret_text(v.s)
        if kind == "assert":
            if not self.ok:
                return self.seq(rest, k)
            c = tr.cond(st[1])
            r = self.seq(rest, k)
            if c == "True":
                return r
            if r == "true":
                return f"decide ({c})"
            return f"decide ({c}) &&\n{r}"
        if kind == "if":
            return self.if_stmt(st, rest, k)
        if kind == "while":
            return self.while_stmt(st, rest, k)
        if kind == "for":
            # `for (i = 0; i < width; ++i) BODY` over independent pixels: translate BODY, with the
            # memory operands of the target's `mem` map as variables
            lp = tr.tgt.get("loop")
            if not lp:
                fail(f"{fn}: for loop in a target without a `loop` description")
            iv, bound = lp
            init, c, step, body = st[1], st[2], st[3], st[4]
            z = ("num", (0, "", False))
            if init != ("assign", "=", ("id", iv), z) or c != ("bin", "<", ("id", iv), ("id", bound)) or \
                    step not in (("preinc", "+", ("id", iv)), ("postinc", "+", ("id", iv))):
                fail(f"{fn}: loop header is not `for ({iv} = 0; {iv} < {bound}; ++{iv})`")
            if rest or getattr(tr, "seen_loop", False):
                fail(f"{fn}: statements after the pixel loop / a second loop")
            tr.seen_loop = True
            if tr.assigned:
                fail(f"{fn}: state assigned before the pixel loop")
            return self.seq([body], k)
        fail(f"{fn}: statement {kind} not supported")

    def call_prefix(self, e):
        """in ok mode: conjuncts for the assertions of functions called inside e"""
        return ""

    def okwrap(self, mark, body):
        """prefix `body` with the _ok conjuncts collected since mark"""
        tr = self.tr
        new = tr.uses_ok[mark:]
        del tr.uses_ok[mark:]
        if self.ok and new:
            pre = " &&\n".join(atom(x) for x in new)
            if body == "true":
                return pre
            return f"{pre} &&\n{body}"
        return body

    def bind(self, v, rhs_s, rest, k, mark, rng=None):
        tr = self.tr
        if rng is not None and tr.tgt.get("ranges") and tr.vars[v].lo <= rng[0] and rng[1] <= tr.vars[v].hi:
            tr.varrange[v] = rng
        else:
            tr.varrange.pop(v, None)
        if v not in tr.assigned:
            tr.assigned.append(v)
        tr.defined.add(v)
        body = self.seq(rest, k)
        if self.ok and body == "true":
            return self.okwrap(mark, "true")
        return self.okwrap(mark, f"let {lname(v)} := {rhs_s}\n{body}")

    def expr_stmt(self, e, rest, k):
        tr = self.tr
        fn = tr.tgt["func"]
        mark = len(tr.uses_ok)
        if e[0] == "comma":
            return self.seq([("expr", e[1]), ("expr", e[2])] + rest, k)
        if e[0] == "assign":
            op, lhs, rhs = e[1], e[2], e[3]
            v = tr.lvalue(lhs)
            ty = tr.vars[v]
            if side_effect(rhs):
                fail(f"{fn}: side effect inside the right-hand side of an assignment")
            if rhs[0] == "call" and tr.tgt.get("calls", {}).get(rhs[1], rhs[1]) in tr.funcs and \
                    tr.funcs[tr.tgt.get("calls", {}).get(rhs[1], rhs[1])].outs:
                if op != "=":
                    fail(f"{fn}: compound assignment from a call with out-parameters")
                return self.call_stmt(rhs, v, rest, k)
            if op == "=":
                val = tr.conv(tr.ex(rhs), ty, explicit=True)
            else:
                cur = tr.read_var(v)
                r = tr.ex(rhs)
                val = tr.conv(tr.binary(op[:-1], cur, r), ty, explicit=True)
            return self.bind(v, val.s, rest, k, mark, (val.lo, val.hi))
        if e[0] in ("preinc", "postinc"):
            v = tr.lvalue(e[2])
            ty = tr.vars[v]
            cur = tr.read_var(v)
            val = tr.conv(tr.binary(e[1], cur, tr.konst(1, INT)), ty, explicit=True)
            return self.bind(v, val.s, rest, k, mark)
        if e[0] == "call" and e[1] in tr.xmacros:
            if not tr.nat:
                fail(f"{fn}: combine32 macros are available in nat mode only")
            if not tr.xmacros[e[1]][3]:
                fail(f"{fn}: expression macro {e[1]} used as a statement")
            ins, outs = tr.xmacro_args(e[1], e[2])
            app = f"Combine32Macros.{e[1]} " + " ".join(ins)
            if len(outs) == 1:
                return self.bind(outs[0], app, rest, k, mark)
            tr.tmp += 1
            t = f"r{tr.tmp}"
            lines = [f"let {t} := {app}"]
            n = len(outs)
            for idx, v in enumerate(outs):
                lines.append(f"let {lname(v)} := " + t + "".join(".2" for _ in range(idx)) + (".1" if idx < n - 1 else ""))
                tr.varrange.pop(v, None)
                tr.defined.add(v)
                if v not in tr.assigned:
                    tr.assigned.append(v)
            return "\n".join(lines) + "\n" + self.seq(rest, k)
        if e[0] == "call" and tr.tgt.get("calls", {}).get(e[1], e[1]) in tr.funcs:
            return self.call_stmt(e, None, rest, k)
        if e[0] == "cast" and e[1] == (None, 0):
            return self.seq(rest, k)
        fail(f"{fn}: expression statement without effect or of unsupported form: {e[0]}")

    def call_stmt(self, call, target, rest, k):
        tr = self.tr
        fn = tr.tgt["func"]
        fi = tr.funcs[tr.tgt.get("calls", {}).get(call[1], call[1])]
        if fi.mode != tr.mode:
            fail(f"{fn}: {fi.cname} is translated in mode {fi.mode}")
        mark = len(tr.uses_ok)
        outmap = {}
        app = tr.call_text(fi, call[2], outmap)
        results = []       # caller variables receiving, in tuple order
        if fi.ret is not None:
            results.append(("ret", target))
        for o in fi.outs:
            if o not in outmap:
                fail(f"{fn}: out-parameter {o} of {fi.cname} not bound")
            results.append((o, outmap[o]))
        n = len(results)
        tr.tmp += 1
        t = f"r{tr.tmp}"
        lines = [f"let {t} := {app}"]
        for idx, (what, v) in enumerate(results):
            if v is None:
                continue
            proj = t if n == 1 else t + "".join(".2" for _ in range(idx)) + (".1" if idx < n - 1 else "")
            if what == "ret":
                val = tr.conv(E(proj, fi.ret), tr.vars[v], explicit=True).s
            else:
                val = proj
            lines.append(f"let {lname(v)} := {val}")
            tr.varrange.pop(v, None)
            if v not in tr.assigned:
                tr.assigned.append(v)
            tr.defined.add(v)
        body = self.seq(rest, k)
        if self.ok and body == "true":
            return self.okwrap(mark, "true")
        return self.okwrap(mark, "\n".join(lines) + "\n" + body)

    def hoist(self, c):
        """condition with one pre-increment `++x`/`--x` evaluated unconditionally: returns
        (prefix statements, new condition) or None"""
        found = []

        def walk(e, uncond):
            if not isinstance(e, tuple) or not e or e[0] == "num":
                return e
            if e[0] == "preinc":
                if not uncond:
                    fail(f"{self.tr.tgt['func']}: conditional side effect inside a condition")
                found.append(e)
                return e[2]
            if e[0] in ("assign", "postinc"):
                fail(f"{self.tr.tgt['func']}: assignment / post-increment inside a condition")
            if e[0] == "bin" and e[1] in ("&&", "||"):
                return ("bin", e[1], walk(e[2], uncond), walk(e[3], False))
            if e[0] == "cond":
                return ("cond", walk(e[1], uncond), walk(e[2], False), walk(e[3], False))
            return tuple(walk(x, uncond) if isinstance(x, tuple) else x for x in e)
        c2 = walk(c, True)
        if not found:
            return None
        if len(found) > 1:
            fail(f"{self.tr.tgt['func']}: several side effects in one condition")
        lv = found[0][2]
        # the variable must not occur elsewhere in the condition
        cnt = [0]

        def count(e):
            if e == lv:
                cnt[0] += 1
                return
            if isinstance(e, tuple):
                for x in e[1:]:
                    if isinstance(x, tuple):
                        count(x)
        count(c2)
        if cnt[0] != 1:
            fail(f"{self.tr.tgt['func']}: variable modified and read in the same condition")
        return [("expr", found[0])], c2

    def if_stmt(self, st, rest, k):
        tr = self.tr
        fn = tr.tgt["func"]
        c, A, B = st[1], st[2], st[3]
        # `if (a && <side effect>) S [else T]`  ->  `if (a) { if (<..>) S else T } else T`
        if c[0] == "bin" and c[1] == "&&" and side_effect(c[3]) and not side_effect(c[2]):
            inner = ("if", c[3], A, B)
            return self.seq([("if", c[2], ("block", [inner]), B)] + rest, k)
        if side_effect(c):
            h = self.hoist(c)
            if h is None:
                fail(f"{fn}: unsupported side effect in a condition")
            pre, c2 = h
            return self.seq(pre + [("if", c2, A, B)] + rest, k)
        mark = len(tr.uses_ok)
        cs = tr.cond(c)
        if cs in ("True", "False"):
            chosen = A if cs == "True" else B
            return self.okwrap(mark, self.seq(([chosen] if chosen is not None else []) + rest, k))
        Bs = B if B is not None else ("block", [])
        exits = contains_exit(A, self.ok) or contains_exit(Bs, self.ok)
        # continuation cheap to duplicate: nothing follows but building the result
        exits = exits or self.cheap_cont(rest, k)
        state = (dict(tr.vars), set(tr.defined), dict(tr.varrange))

        def restore():
            tr.vars = dict(state[0])
            tr.defined = set(state[1])
            tr.varrange = dict(state[2])
        if exits:
            # continuation is placed in every branch that falls through
            ta = self.seq([A] + rest, k)
            restore()
            tb = self.seq([Bs] + rest, k)
            restore_defined = None
            return self.okwrap(mark, f"if {cs} then\n{self.ind(ta)}\nelse\n{self.ind(tb)}")
        # join: the variables assigned in either branch
        W = []
        self._local = set()
        self.assigned_in(A, W)
        self._local = set()
        self.assigned_in(Bs, W)
        W = [v for v in W if v in state[0]]
        if not W:
            # no visible effect (only possible with calls/asserts in ok mode)
            ta = self.seq([A], lambda: "true") if self.ok else None
            restore()
            tb = self.seq([Bs], lambda: "true") if self.ok else None
            restore()
            r = self.seq(rest, k)
            if self.ok and (ta != "true" or tb != "true"):
                return self.okwrap(mark, f"(if {cs} then\n{self.ind(ta)}\nelse\n{self.ind(tb)}) &&\n{r}")
            return self.okwrap(mark, r)

        def tup():
            return tup0()

        def tup0():
            for v in W:
                if v not in tr.defined:
                    raise UndefInJoin(v)
            return lname(W[0]) if len(W) == 1 else "(" + ", ".join(lname(v) for v in W) + ")"
        if self.ok:
            # assertions inside the branches cannot occur here (exits would be true); calls with _ok may
            pass
        tup.cheap = True
        okmark = len(tr.uses_ok)
        tmp0 = tr.tmp
        while True:
            # a variable without a value before the `if` that only one branch assigns is dead after
            # the join (a later read fails as "read before it is assigned"): leave it out of the join
            try:
                ta = self.seq([A], tup)
                da = set(tr.defined)
                restore()
                tb = self.seq([Bs], tup)
                db = set(tr.defined)
                restore()
                break
            except UndefInJoin as u:
                restore()
                tr.tmp = tmp0
                del tr.uses_ok[okmark:]
                W.remove(u.args[0])
                if not W:
                    return self.seq(rest, k)
        for v in W:
            tr.varrange.pop(v, None)
            if v in da and v in db:
                tr.defined.add(v)
                if v not in tr.assigned:
                    tr.assigned.append(v)
        ta, tb = peep(ta), peep(tb)
        if len(W) == 1:
            head = f"let {lname(W[0])} := if {cs} then\n{self.ind(ta, 4)}\n  else\n{self.ind(tb, 4)}"
        else:
            tr.tmp += 1
            t = f"j{tr.tmp}"
            head = f"let {t} := if {cs} then\n{self.ind(ta, 4)}\n  else\n{self.ind(tb, 4)}"
            n = len(W)
            for idx, v in enumerate(W):
                proj = t + "".join(".2" for _ in range(idx)) + (".1" if idx < n - 1 else "")
                head += f"\nlet {lname(v)} := {proj}"
        r = self.seq(rest, k)
        if self.ok and r == "true" and len(tr.uses_ok) == mark:
            return "true"
        return self.okwrap(mark, head + "\n" + r)

    def while_stmt(self, st, rest, k):
        tr = self.tr
        fn = tr.tgt["func"]
        c, body = st[1], st[2]
        while body[0] == "block" and len(body[1]) == 1:
            body = body[1][0]
        if not (body[0] == "expr" and body[1][0] == "assign" and c[0] == "bin"):
            fail(f"{fn}: while loop is not one of the two supported forms")
        op, lhs, rhs = body[1][1], body[1][2], body[1][3]
        x = tr.lvalue(lhs)
        if tr.nat:
            fail(f"{fn}: while loop in nat mode")
        if tr.vars[x] != INT:
            fail(f"{fn}: loop variable must be an int")
        if side_effect(rhs) or side_effect(c) or mentions(rhs, lhs):
            fail(f"{fn}: while loop is not one of the two supported forms")
        s = tr.ex(rhs)
        if s.ty != INT:
            fail(f"{fn}: loop step must be an int")
        mark = len(tr.uses_ok)
        cur = tr.read_var(x)
        if c[1] == ">=" and c[2] == lhs and c[3] == rhs and op == "-=":
            val = f"s32 (subLoop {atom(cur.s)} {atom(s.s)})"
        elif c[1] == "<" and c[2] == lhs and c[3] == ("num", (0, "", False)) and op == "+=":
            val = f"s32 (addLoop {atom(cur.s)} {atom(s.s)})"
        else:
            fail(f"{fn}: while loop is not one of the two supported forms")
        return self.bind(x, val, rest, k, mark)


# =============================================================================== one function
def parse_params(ptext, env):
    ptext = ptext.strip()
    if ptext in ("", "void"):
        return []
    out = []
    for part in split_top(ptext):
        p = Parser(lex(part), env)
        t = p.try_type()
        if t is None:
            fail(f"parameter not understood: {part!r}")
        nm = p.eat("id")
        if p.i != len(p.t):
            fail(f"parameter not understood: {part!r}")
        out.append((nm, t[0], t[1]))
    return out


def split_top(s):
    parts, d, cur = [], 0, ""
    for ch in s:
        if ch == "(":
            d += 1
        elif ch == ")":
            d -= 1
        if ch == "," and d == 0:
            parts.append(cur)
            cur = ""
        else:
            cur += ch
    parts.append(cur)
    return parts


def translate_function(env, tgt, funcs):
    name = tgt["func"]
    header, ptext, btext = find_function(env.text, name)
    hw = [w for w in header if w not in QUALS]
    fi = FuncInfo()
    fi.cname, fi.lean, fi.mode = name, lname(tgt.get("name", name)), tgt.get("mode", "int")
    if tgt.get("ret") == "malloc":
        if hw != ["void", "*"]:
            fail(f"{name}: expected a function returning void *")
        ret = "malloc"
    elif hw == ["void"]:
        ret = None
    else:
        ret = env.resolve(hw)
        if not isinstance(ret, CT):
            fail(f"{name}: return type is not an integer type")
    params = parse_params(ptext, env)
    body_ast = Parser(lex(btext), env)
    blk = body_ast.block()
    if body_ast.i != len(body_ast.t):
        fail(f"{name}: trailing tokens after the body")

    outs_cfg = tgt.get("out", {})
    structs_cfg = tgt.get("structs", {})
    drop = set(tgt.get("drop", []))

    def setup(tr):
        tr.ret = ret
        cparams = []
        for nm, ty, nptr in params:
            if nm in drop:
                cparams.append((nm, "drop", None))
                continue
            if nm in outs_cfg:
                if nptr != 1 or not isinstance(ty, CT):
                    fail(f"{name}: out-parameter {nm} is not a pointer to an integer")
                if tr.nat and ty.signed:
                    fail(f"{name}: pointer to a signed integer in nat mode")
                tr.vars[nm] = ty
                if outs_cfg[nm] in ("inout", "in"):
                    tr.defined.add(nm)
                cparams.append((nm, outs_cfg[nm], ty))
                continue
            if nm in structs_cfg:
                if nptr > 1 or isinstance(ty, CT):
                    fail(f"{name}: struct parameter {nm} has an unexpected type")
                if env.resolve([structs_cfg[nm]]) != ty:
                    fail(f"{name}: parameter {nm} is not a {structs_cfg[nm]}")
                fields = env.struct_fields(ty)
                for f, words in fields.items():
                    if f is None:
                        continue
                    try:
                        fty = env.resolve(words)
                    except Fail:
                        continue
                    if isinstance(fty, CT):
                        tr.vars[nm + "_" + f] = fty
                        tr.defined.add(nm + "_" + f)
                cparams.append((nm, "struct", ty))
                continue
            if nm in tgt.get("ptrvals", []):
                if nptr != 1:
                    fail(f"{name}: {nm} is not a pointer")
                tr.vars[nm] = ULONG
                tr.defined.add(nm)
                tr.ptrvals.add(nm)
                cparams.append((nm, "val", ULONG))
                continue
            if nptr or not isinstance(ty, CT):
                fail(f"{name}: parameter {nm} is not an integer (declare it out/struct/drop in TARGETS)")
            if nm in tgt.get("consts", {}):
                v = tgt["consts"][nm]
                if not ty.lo <= v <= ty.hi:
                    fail(f"{name}: constant for {nm} out of range")
                tr.consts[nm] = v
                tr.const_types[nm] = ty
                cparams.append((nm, "const", ty))
                continue
            if tr.nat and ty.signed and nm not in tgt.get("nonneg", []) and \
                    not (nm in tgt.get("ranges", {}) and tgt["ranges"][nm][0] >= 0):
                fail(f"{name}: signed parameter {nm} in nat mode (list it under `nonneg` to assume {nm} >= 0)")
            tr.vars[nm] = ty
            tr.defined.add(nm)
            if nm in tgt.get("ranges", {}):
                lo, hi = tgt["ranges"][nm]
                if not (ty.lo <= lo <= hi <= ty.hi):
                    fail(f"{name}: range given for {nm} is outside its type")
                tr.varrange[nm] = (lo, hi)
            cparams.append((nm, "val", ty))
        for cexpr, nm in tgt.get("mem", {}).items():
            pp = Parser(lex(cexpr), env)
            ast = pp.expr()
            if pp.i != len(pp.t):
                fail(f"{name}: memory operand {cexpr!r} not understood")
            tr.mem.append((ast, nm))
            tr.vars[nm] = UINT
            tr.defined.add(nm)
        tr.xmacros = tgt.get("_xmacros", {})
        return cparams

    def run(ok_mode, final_outs):
        tr = Translator(env, tgt, funcs=funcs)
        cparams = setup(tr)
        param_vars = dict(tr.vars)

        def ret_text(v):
            parts = (list(v) if isinstance(v, (list, tuple)) else [v] if v is not None else []) + [lname(o) for o in final_outs]
            for o in final_outs:
                if o not in tr.defined:
                    fail(f"{name}: result {o} has no value on some path")
            if not parts:
                fail(f"{name}: void function without results")
            return parts[0] if len(parts) == 1 else "(" + ", ".join(parts) + ")"

        def end():
            if ok_mode:
                return "true"
            if ret is not None:
                fail(f"{name}: control reaches the end of a non-void function")
            return ret_text(None)
        end.cheap = not ok_mode
        b = Body(tr, ok_mode, ret_text)
        text = b.seq([blk], end)
        return tr, cparams, param_vars, text

    # pass 1: discover which parameter-variables are assigned (results)
    # results: out params in declaration order, then assigned struct members
    probe = Translator(env, tgt, funcs=funcs)
    cparams = setup(probe)
    b = Body(probe, False, lambda v: "0")
    saved_ret = probe.ret
    b.seq([blk], lambda: "0")
    final_outs = [nm for nm, k, _ in cparams if k in ("out", "inout") and (k == "out" or nm in probe.assigned)]
    cparams = [(nm, ("in" if k == "inout" and nm not in probe.assigned else k), t) for nm, k, t in cparams]
    final_outs += [nm for _, nm in probe.mem if nm in probe.assigned]
    fi.param_outs = list(final_outs)
    fi.mem = [nm for _, nm in probe.mem]
    fi.consts = dict(tgt.get("consts", {}))
    for nm, k, _ in cparams:
        if k == "struct":
            final_outs += [v for v in probe_param_vars(probe, nm, env) if v in probe.assigned]
    adj = {nm: k for nm, k, _ in cparams}
    tr, cparams2, param_vars, text = run(False, final_outs)
    has_assert = "__verif_assert" in btext or any(funcs[c].has_ok for c in funcs if re.search(r"\b" + re.escape(c) + r"\s*\(", btext))
    # inputs: value params + inout + struct members that exist, in declaration order; only those used
    if "NEGATIVE_CONSTANT" in text:
        fail(f"{name}: a negative constant survives in nat mode")
    used = set(re.findall(r"[A-Za-z_]\w*", text))
    inputs = []
    for nm, k, ty in cparams:
        if k == "val":
            inputs.append(nm)
        elif k in ("inout", "in"):
            inputs.append(nm)
        elif k == "struct":
            for v in param_vars:
                if v.startswith(nm + "_") and lname(v) in used and v not in inputs:
                    inputs.append(v)
    for _, nm in tr.mem:
        if lname(nm) in used:
            inputs.append(nm)
    oktext = None
    if has_assert:
        tr2, _, _, oktext = run(True, final_outs)
        used2 = set(re.findall(r"[A-Za-z_]\w*", oktext))
        for nm, k, ty in cparams:
            if k == "struct":
                for v in param_vars:
                    if v.startswith(nm + "_") and lname(v) in used2 and v not in inputs:
                        inputs.append(v)
    fi.cparams = cparams
    fi.inputs = inputs
    fi.input_types = {v: param_vars[v] for v in inputs}
    fi.outs = final_outs
    fi.out_types = {v: param_vars[v] for v in final_outs}
    fi.ret = ret
    fi.has_ok = has_assert
    T = "Nat" if fi.mode == "nat" else "Int"
    nres = (2 if ret == "malloc" else 1 if ret is not None else 0) + len(final_outs)
    rty = " × ".join([T] * nres)
    args = " ".join(f"({lname(v)} : {T})" for v in inputs)
    sig_c = ", ".join([f"{v} : {param_vars[v].cname()}" for v in inputs] +
                      [f"{c} = {v} (specialised)" for c, v in tgt.get("consts", {}).items()])
    res_c = ", ".join((["malloc called : 0/1, size : uint64_t"] if ret == "malloc" else [f"return : {ret.cname()}"] if ret is not None else []) + [f"{o} : {param_vars[o].cname()}" for o in final_outs])
    pre = "".join(f"  Precondition: {v} >= 0." for v in tgt.get("nonneg", [])) + \
          "".join(f"  Precondition: {lo} <= {v} <= {hi}." for v, (lo, hi) in tgt.get("ranges", {}).items())
    doc = f"/-- `{tgt['file']}:{name}` ({fi.mode} mode).  Arguments: {sig_c}.  Result: ({res_c}).{pre} -/"
    out = f"{doc}\ndef {fi.lean} {args} : {rty} :=\n{Body.ind(None, text)}\n"
    if has_assert:
        out += f"\n/-- every `assert` reached by `{name}` holds (`false` = the C function aborts) -/\n" \
               f"def {fi.lean}_ok {args} : Bool :=\n{Body.ind(None, oktext)}\n"
    fi.text = out
    return fi


def probe_param_vars(tr, nm, env):
    """member variables of struct parameter nm, in declaration order"""
    return [nm + "_" + f for f in env.struct_fields(tr.tgt["structs"][nm]) if f is not None and nm + "_" + f in tr.vars]


# =============================================================================== main
HEADER = """import Pixman.Lemmas.CSem
import Pixman.Gen.Combine32Macros
/-! REGENERATED on every run by tools/gen_cfuncs.py from the preprocessed C sources — never edit.
One definition per C function / statement block; the docstring names `file:function`, the C type of
every argument and result.  Integer semantics: see tools/gen_cfuncs.py and Pixman/Lemmas/CSem.lean. -/
set_option linter.unusedVariables false
namespace Pixman.Gen.CFuncs
open Pixman.CSem Pixman.Gen

"""


def main():
    repo, outdir = sys.argv[1], sys.argv[2]
    base = Path(os.environ.get("VERIF_SCRATCH", "/var/tmp"))
    scratch = Path(tempfile.mkdtemp(prefix="pixman-verif-gen.", dir=str(base)))
    try:
        envs = {}
        funcs = {}
        chunks = []
        xm = None
        for tgt in TARGETS:
            key = (tgt["file"], tuple(tgt.get("defs", ())), bool(tgt.get("xmacros")))
            if tgt.get("xmacros"):
                if xm is None:
                    xm = combine32_macros(repo)
                tgt = dict(tgt, _xmacros=xm)
            if key not in envs:
                envs[key] = Env(preprocess(repo, tgt["file"], scratch, tgt.get("defs", ()),
                                           keep_macros=set(xm) if tgt.get("xmacros") else None))
            env = envs[key]
            fi = translate_function(env, tgt, funcs)
            funcs[tgt.get("name", tgt["func"])] = fi
            chunks.append(fi.text)
        text = HEADER + "\n".join(chunks) + "\nend Pixman.Gen.CFuncs\n"
        write_if_changed(Path(outdir) / "CFuncs.lean", text)
    finally:
        shutil.rmtree(scratch, ignore_errors=True)


if __name__ == "__main__":
    try:
        main()
    except Fail as ex:
        print(f"gen_cfuncs: {ex}")
        sys.exit(1)

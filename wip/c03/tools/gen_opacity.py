#!/usr/bin/env python3
"""tools/gen_opacity.py <repo> <outdir>

Regenerates lean/Pixman/Gen/OpacityBlock.lean from pixman/pixman.c: the part of
`pixman_image_composite32` that decides opacity,
  * the macros NEAREST_OPAQUE / BILINEAR_OPAQUE (ORs of FAST_PATH_* names),
  * the promotion block: the `if (COND) { info.X_flags |= FAST_PATH_IS_OPAQUE; }` statements between
    those macros and the call of optimize_operator, each COND a `||` of `(info.Y_flags & M) == M`,
    translated statement by statement (so a condition reading the wrong flag word is reproduced),
  * the mask elision (`mask && !(mask->common.flags & FAST_PATH_IS_OPAQUE)` ... else
    `PIXMAN_null`, `FAST_PATH_IS_OPAQUE | FAST_PATH_NO_ALPHA_MAP`), the call of optimize_operator and
    `info.mask_image = (mask_format == PIXMAN_null) ? NULL : mask` are compared with the expected
    text (the hand-written `Model/Opacity.lean` mirrors exactly that text).
Fails closed (non-zero exit) on anything it does not recognise."""
import re, sys
from pathlib import Path
sys.path.insert(0, str(Path(__file__).resolve().parent))
from genlib import write_if_changed


def fail(msg):
    print(f"gen_opacity: {msg}")
    sys.exit(1)


def strip_comments(s):
    return re.sub(r"/\*.*?\*/", " ", s, flags=re.S)


def squash(s):
    return re.sub(r"\s+", "", s)


def main():
    repo, out = Path(sys.argv[1]), Path(sys.argv[2])
    src = strip_comments((repo / "pixman" / "pixman.c").read_text())
    f = re.search(r"\npixman_image_composite32\s*\((.*?)\)\s*\{(.*?)\n\}", src, flags=re.S)
    if not f:
        fail("pixman_image_composite32 not found")
    body = f.group(2)

    macros = {}
    for name in ("NEAREST_OPAQUE", "BILINEAR_OPAQUE"):
        m = re.search(r"#define\s+" + name + r"\s*\(((?:[^\n\\]|\\\n)*)\)\s*\n", body)
        if not m:
            fail(f"macro {name} not found inside pixman_image_composite32")
        parts = [p for p in squash(m.group(1).replace("\\", " ")).split("|")]
        for p in parts:
            if not re.fullmatch(r"FAST_PATH_[A-Z0-9_]+", p):
                fail(f"macro {name}: operand not understood: {p!r}")
        macros[name] = parts

    # ---- the promotion block
    a = re.search(r"#define\s+BILINEAR_OPAQUE(?:[^\n\\]|\\\n)*\n", body)
    b = re.search(r"info\.op\s*=\s*optimize_operator\s*\(", body)
    if not a or not b or b.start() < a.end():
        fail("promotion block not located")
    block = body[a.end():b.start()]
    stmts = []
    pos = 0
    rx = re.compile(r"\s*if\s*\((.*?)\)\s*\{\s*info\.(src|mask|dest)_flags\s*\|=\s*FAST_PATH_IS_OPAQUE\s*;\s*\}", flags=re.S)
    while block[pos:].strip():
        m = rx.match(block, pos)
        if not m:
            fail(f"promotion block: statement not understood near {block[pos:pos + 80]!r}")
        cond, target = squash(m.group(1)), m.group(2)
        terms = []
        for t in cond.split("||"):
            mm = re.fullmatch(r"\(info\.(src|mask|dest)_flags&(\w+)\)==(\w+)", t)
            if not mm or mm.group(2) != mm.group(3) or mm.group(2) not in macros:
                fail(f"promotion condition not understood: {t!r}")
            terms.append((mm.group(1), mm.group(2)))
        stmts.append((terms, target))
        pos = m.end()
    if not stmts:
        fail("promotion block is empty")

    # ---- text that the hand-written model mirrors
    pre = squash(body)
    expect = [
        "src_format=src->common.extended_format_code;info.src_flags=src->common.flags;"
        "if(mask&&!(mask->common.flags&FAST_PATH_IS_OPAQUE)){mask_format=mask->common.extended_format_code;"
        "info.mask_flags=mask->common.flags;}else{mask_format=PIXMAN_null;"
        "info.mask_flags=FAST_PATH_IS_OPAQUE|FAST_PATH_NO_ALPHA_MAP;}"
        "dest_format=dest->common.extended_format_code;info.dest_flags=dest->common.flags;",
        "if(!analyze_extent(src,&extents,&info.src_flags))gotoout;",
        "if(!analyze_extent(mask,&extents,&info.mask_flags))gotoout;",
        "info.op=optimize_operator(op,info.src_flags,info.mask_flags,info.dest_flags);"
        "_pixman_implementation_lookup_composite(get_implementation(),info.op,src_format,info.src_flags,"
        "mask_format,info.mask_flags,dest_format,info.dest_flags,&imp,&func);",
        "info.mask_image=(mask_format==PIXMAN_null)?NULL:mask;",
    ]
    last = -1
    for e in expect:
        i = pre.find(e)
        if i < 0 or i < last:
            fail("pixman_image_composite32: expected text not found (or out of order): " + e[:70])
        last = i

    L = ["/- REGENERATED on every run by tools/gen_opacity.py from pixman/pixman.c",
         "(`pixman_image_composite32`) — never edit. -/",
         "import Pixman.Gen.ImageFlags",
         "namespace Pixman.Gen.OpacityBlock",
         "open Pixman.Gen.ImageFlags", ""]
    for name, parts in macros.items():
        L.append(f"def {name} : Nat := " + " ||| ".join(parts))
    L += ["",
          "/-- the statements between the two macros and `info.op = optimize_operator (...)`, in order;",
          "returns `(info.src_flags, info.mask_flags, info.dest_flags)` -/",
          "def promotionBlock (src_flags mask_flags dest_flags : Nat) : Nat × Nat × Nat :="]
    for terms, target in stmts:
        c = " || ".join(f"(({w}_flags &&& {mname}) == {mname})" for w, mname in terms)
        L.append(f"  let {target}_flags := if {c} then {target}_flags ||| FAST_PATH_IS_OPAQUE else {target}_flags")
    L += ["  (src_flags, mask_flags, dest_flags)", "", "end Pixman.Gen.OpacityBlock"]
    write_if_changed(out / "OpacityBlock.lean", "\n".join(L) + "\n")


if __name__ == "__main__":
    main()

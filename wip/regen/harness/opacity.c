/* Correspondence + oracle harness for the `opacity` domain (C09, flag part).
 *   opacity gen  <seed> <ngroups> <ops_out> <impl_out> <oracle_out>
 *   opacity exec <ops_in> <impl_out> <oracle_out>
 * One line = one pixman_image_composite32 call:
 *   op dw dh dx dy w h sx sy mx my IMG(src) IMG(mask) IMG(dest) # gid role cmp HIMG(src) HIMG(mask) HIMG(dest)
 *   IMG  = kind fmt w h solidA radialA rep filter nparams p0 p1 ca amfmt T m00..m22 nstops a1..an   (what the Lean model reads;
 *          T and radialA are read back from the image: common.transform != NULL, sign of radial.a)
 *   HIMG = seed content q565 r16 g16 b16 a16 kern setT       (what only the harness needs to rebuild the pixels)
 * Reply line: the arguments of _pixman_implementation_lookup_composite as pixman_image_composite32 passed
 * them (captured through -Wl,--wrap): `run op sfmt sflags mfmt mflags dfmt dflags elided`, or `out`.
 * Lines with equal gid form a group: presentations of ONE logical request; the destinations must agree
 * (`pair` oracle; cmp 0: every defined bit, 1: colour channels only).
 * Flag oracle, independent of the model: whenever the looked-up flags (or the mask's own flags, for an elided
 * mask) carry FAST_PATH_IS_OPAQUE, every sample that can contribute to the request is located with the
 * harness's own arithmetic and must exist (inside the image unless it repeats) and have all alpha bits set;
 * solid: 16-bit alpha 0xffff; gradient: rendered alone it is opaque everywhere in the request. */
#ifdef HAVE_CONFIG_H
#include <config.h>
#endif
#include <stdio.h>
#include <stdlib.h>
#include <string.h>
#include <math.h>
#include "pixman-private.h"
#include "rng.h"

typedef long long ll;

/* ------------------------------------------------------------------ capture of the lookup */
static struct { int armed, called; int op; uint32_t sfmt, sfl, mfmt, mfl, dfmt, dfl; } cap;
void __real__pixman_implementation_lookup_composite (pixman_implementation_t *, pixman_op_t, pixman_format_code_t, uint32_t,
        pixman_format_code_t, uint32_t, pixman_format_code_t, uint32_t, pixman_implementation_t **, pixman_composite_func_t *);
void __wrap__pixman_implementation_lookup_composite (pixman_implementation_t *t, pixman_op_t op, pixman_format_code_t sf, uint32_t sfl,
        pixman_format_code_t mf, uint32_t mfl, pixman_format_code_t df, uint32_t dfl, pixman_implementation_t **oi, pixman_composite_func_t *of)
{
    if (cap.armed && !cap.called) { cap.called = 1; cap.op = op; cap.sfmt = sf; cap.sfl = sfl; cap.mfmt = mf; cap.mfl = mfl; cap.dfmt = df; cap.dfl = dfl; }
    __real__pixman_implementation_lookup_composite (t, op, sf, sfl, mf, mfl, df, dfl, oi, of);
}

/* ------------------------------------------------------------------ descriptors */
enum { K_NONE = -1, K_BITS = 0, K_LINEAR = 1, K_CONICAL = 2, K_RADIAL = 3, K_SOLID = 4 };
/* content: 0 random colours, alpha 255   1 uniform colour (col)   2 random colours, alpha 0xfe
            3 random colours, arbitrary alpha (premultiplied, edge-biased) */
typedef struct {
    int kind; uint32_t fmt; int w, h, rep, filter, kern, ca, setT; int32_t m[9];
    uint64_t seed; int content, q565; uint16_t col[4];      /* r g b a, 16 bit */
    int nstops; uint16_t sa[8];
} idesc_t;
typedef struct { int op, dx, dy, w, h, sx, sy, mx, my; idesc_t src, mask, dst; long gid; int role, cmp; } req_t;

#define MAXDW 16
#define MAXDH 8
typedef struct { int called; int op; uint32_t sfmt, sfl, mfmt, mfl, dfmt, dfl; int elided;
                 uint32_t own_sfl, own_mfl, own_dfl; int srcT, maskT, srcRa, maskRa;
                 uint32_t out[MAXDW * MAXDH * 4]; int nwords; } res_t;

static uint64_t mix64 (uint64_t z) { z += 0x9E3779B97F4A7C15ULL; z = (z ^ (z >> 30)) * 0xBF58476D1CE4E5B9ULL; z = (z ^ (z >> 27)) * 0x94D049BB133111EBULL; return z ^ (z >> 31); }
static const int EDGE[] = { 0, 1, 2, 0x7f, 0x80, 0xfe, 0xff };
static int edge8 (uint64_t h) { return (h & 0xff) < 150 ? EDGE[(h >> 8) % 7] : (int) ((h >> 16) & 0xff); }
static int q5 (int v) { v >>= 3; return (v << 3) | (v >> 2); }
static int q6 (int v) { v >>= 2; return (v << 2) | (v >> 4); }

/* the logical picture: a8r8g8b8 value of pixel (x, y) */
static uint32_t logical (const idesc_t *d, int x, int y)
{
    int a, r, g, b;
    if (d->content == 1) { a = d->col[3] >> 8; r = d->col[0] >> 8; g = d->col[1] >> 8; b = d->col[2] >> 8; }
    else {
        uint64_t h = mix64 (d->seed ^ mix64 ((uint64_t) (x + 1000) * 65537u + (uint64_t) (y + 1000)));
        uint64_t h2 = mix64 (h);
        a = d->content == 0 ? 255 : d->content == 2 ? 0xfe : edge8 (h2 >> 40);
        r = edge8 (h); g = edge8 (h >> 24); b = edge8 (h2);
        if (d->content != 0) { if (r > a) r = a; if (g > a) g = a; if (b > a) b = a; }
    }
    if (d->q565) { r = q5 (r); g = q6 (g); b = q5 (b); }
    return (uint32_t) a << 24 | r << 16 | g << 8 | b;
}
static uint32_t junk (const idesc_t *d, int x, int y) { return (uint32_t) mix64 (d->seed * 3 + 77 + (uint64_t) x * 131 + (uint64_t) y * 7919); }
static int rep10 (int v) { return (v << 2) | (v >> 6); }

static int bpp_of (uint32_t f) { return PIXMAN_FORMAT_BPP (f); }
static int supported_fmt (uint32_t f)
{
    switch (f) { case PIXMAN_a8r8g8b8: case PIXMAN_x8r8g8b8: case PIXMAN_a8b8g8r8: case PIXMAN_x8b8g8r8: case PIXMAN_r5g6b5: case PIXMAN_a8:
                 case PIXMAN_a2r10g10b10: case PIXMAN_x2r10g10b10: case PIXMAN_rgba_float: return 1; }
    return 0;
}
static void put_pixel (const idesc_t *d, uint8_t *row, int x, int y)
{
    uint32_t v = logical (d, x, y), j = junk (d, x, y);
    int a = v >> 24, r = (v >> 16) & 0xff, g = (v >> 8) & 0xff, b = v & 0xff;
    switch (d->fmt) {
    case PIXMAN_a8r8g8b8: ((uint32_t *) row)[x] = v; break;
    case PIXMAN_x8r8g8b8: ((uint32_t *) row)[x] = (v & 0xffffff) | (j & 0xff000000u); break;
    case PIXMAN_a8b8g8r8: ((uint32_t *) row)[x] = (uint32_t) a << 24 | b << 16 | g << 8 | r; break;
    case PIXMAN_x8b8g8r8: ((uint32_t *) row)[x] = (j & 0xff000000u) | b << 16 | g << 8 | r; break;
    case PIXMAN_r5g6b5: ((uint16_t *) row)[x] = (uint16_t) ((r >> 3) << 11 | (g >> 2) << 5 | (b >> 3)); break;
    case PIXMAN_a8: row[x] = (uint8_t) a; break;
    case PIXMAN_a2r10g10b10: ((uint32_t *) row)[x] = (uint32_t) (a >> 6) << 30 | rep10 (r) << 20 | rep10 (g) << 10 | rep10 (b); break;
    case PIXMAN_x2r10g10b10: ((uint32_t *) row)[x] = (j & 0xc0000000u) | rep10 (r) << 20 | rep10 (g) << 10 | rep10 (b); break;
    case PIXMAN_rgba_float: {
        float *p = (float *) row + 4 * x;
        if (d->content == 1) {          /* exactly the floats a solid fill of colour `col` carries */
            p[0] = pixman_unorm_to_float (d->col[0], 16); p[1] = pixman_unorm_to_float (d->col[1], 16);
            p[2] = pixman_unorm_to_float (d->col[2], 16); p[3] = pixman_unorm_to_float (d->col[3], 16);
        } else { p[0] = r / 255.0f; p[1] = g / 255.0f; p[2] = b / 255.0f; p[3] = a / 255.0f; }
        break; }
    }
}

static const pixman_fixed_t KERN1[] = { 65536, 65536, 65536 };
static const pixman_fixed_t KERN2[] = { 2 * 65536, 2 * 65536, 16384, 16384, 16384, 16384 };
static const pixman_fixed_t KERN3[] = { 3 * 65536, 3 * 65536, 7282, 7282, 7282, 7282, 7280, 7282, 7282, 7282, 7282 };
static const pixman_fixed_t KERN4[] = { 3 * 65536, 3 * 65536, 4096, 4096, 4096, 4096, 0, 4096, 4096, 4096, 4096 };   /* sums to 1/2 */
static const pixman_fixed_t *kern_of (int k, int *n)
{
    switch (k) { case 1: *n = 3; return KERN1; case 2: *n = 6; return KERN2; case 3: *n = 11; return KERN3; default: *n = 11; return KERN4; }
}

static pixman_image_t *make_image (const idesc_t *d, void **store)
{
    pixman_image_t *img = NULL;
    *store = NULL;
    if (d->kind == K_SOLID) {
        pixman_color_t c = { d->col[0], d->col[1], d->col[2], d->col[3] };
        img = pixman_image_create_solid_fill (&c);
        if (img && d->ca) pixman_image_set_component_alpha (img, 1);
        return img;
    }
    if (d->kind == K_BITS) {
        int bpp = bpp_of (d->fmt);
        int stride = ((d->w * bpp + 31) / 32) * 4;
        uint8_t *bits = calloc (1, (size_t) stride * d->h + 64);
        for (int y = 0; y < d->h; y++) for (int x = 0; x < d->w; x++) put_pixel (d, bits + (size_t) y * stride, x, y);
        *store = bits;
        img = pixman_image_create_bits (d->fmt, d->w, d->h, (uint32_t *) bits, stride);
    } else {
        pixman_gradient_stop_t st[8];
        uint64_t h = d->seed;
        for (int i = 0; i < d->nstops; i++) {
            h = mix64 (h);
            st[i].x = d->nstops == 1 ? (pixman_fixed_t) (h % 65537) : (pixman_fixed_t) ((ll) i * 65536 / (d->nstops - 1));
            st[i].color.alpha = d->sa[i];
            st[i].color.red = (uint16_t) ((h >> 8) % (d->sa[i] + 1u)); st[i].color.green = (uint16_t) ((h >> 24) % (d->sa[i] + 1u)); st[i].color.blue = (uint16_t) ((h >> 40) % (d->sa[i] + 1u));
        }
        h = mix64 (d->seed ^ 0xabcdef);
        pixman_point_fixed_t p1 = { (int) (h % 8) * 65536, (int) ((h >> 8) % 8) * 65536 }, p2 = { (int) ((h >> 16) % 12 + 1) * 65536 + 32768, (int) ((h >> 24) % 12) * 65536 };
        if (d->kind == K_LINEAR) img = pixman_image_create_linear_gradient (&p1, &p2, st, d->nstops);
        else if (d->kind == K_CONICAL) img = pixman_image_create_conical_gradient (&p1, (pixman_fixed_t) ((h >> 32) % 360) * 65536, st, d->nstops);
        else {
            /* radial: one circle inside the other (a < 0), touching (a = 0) or apart (a > 0) */
            int cls = (int) ((h >> 40) % 3);
            pixman_fixed_t r1 = (pixman_fixed_t) ((h >> 44) % 4) * 65536, r2 = r1 + 65536 * (1 + (int) ((h >> 48) % 6));
            pixman_point_fixed_t c1 = { 4 * 65536, 4 * 65536 }, c2 = c1;
            if (cls == 1) c2.x += r2 - r1; else if (cls == 2) c2.x += 2 * (r2 - r1) + 65536;
            img = pixman_image_create_radial_gradient (&c1, &c2, r1, r2, st, d->nstops);
        }
    }
    if (!img) return NULL;
    pixman_image_set_repeat (img, (pixman_repeat_t) d->rep);
    if (d->filter == PIXMAN_FILTER_CONVOLUTION) { int n; const pixman_fixed_t *k = kern_of (d->kern, &n); pixman_image_set_filter (img, PIXMAN_FILTER_CONVOLUTION, k, n); }
    else pixman_image_set_filter (img, (pixman_filter_t) d->filter, NULL, 0);
    if (d->setT) { pixman_transform_t t; for (int i = 0; i < 9; i++) t.matrix[i / 3][i % 3] = d->m[i]; pixman_image_set_transform (img, &t); }
    if (d->ca) pixman_image_set_component_alpha (img, 1);
    return img;
}

/* ------------------------------------------------------------------ the harness's own sample geometry */
static ll fl16 (ll v) { return v >> 16; }
/* alpha of the stored pixel (x, y) of a bits image: 1 = every alpha bit set (or no alpha bits) */
static int stored_alpha_full (const idesc_t *d, const uint8_t *bits, int x, int y)
{
    int bpp = bpp_of (d->fmt), stride = ((d->w * bpp + 31) / 32) * 4;
    const uint8_t *row = bits + (size_t) y * stride;
    if (d->fmt == PIXMAN_rgba_float) return ((const float *) row)[4 * x + 3] >= 1.0f;
    int A = PIXMAN_FORMAT_A (d->fmt);
    if (!A) return 1;
    if (d->fmt == PIXMAN_a8) return row[x] == 0xff;
    if (d->fmt == PIXMAN_a2r10g10b10) return (((const uint32_t *) row)[x] >> 30) == 3;
    return (((const uint32_t *) row)[x] >> 24) == 0xff;            /* a8r8g8b8, a8b8g8r8 */
}
static int rep_coord (int rep, ll *c, int size)
{
    if (rep == PIXMAN_REPEAT_NONE) return *c >= 0 && *c < size;
    if (rep == PIXMAN_REPEAT_NORMAL) { *c %= size; if (*c < 0) *c += size; return 1; }
    if (rep == PIXMAN_REPEAT_PAD) { if (*c < 0) *c = 0; if (*c >= size) *c = size - 1; return 1; }
    ll m = *c % (2 * (ll) size); if (m < 0) m += 2 * (ll) size; if (m >= size) m = 2 * (ll) size - 1 - m; *c = m; return 1;
}
/* scans every sample of the image that contributes to the box [x1,x2) x [y1,y2) (image space, before the
   transform).  returns 0 = all exist and are alpha-full, 1 = one lies outside a non-repeating image,
   2 = one has alpha < 1, 3 = not decidable here (convolution, overflowing coordinates).  *where receives the pixel. */
static int scan_samples (const idesc_t *d, const pixman_image_t *img, const uint8_t *bits, int x1, int y1, int x2, int y2, int *wx, int *wy, int geometry_only, int strict)
{
    const pixman_transform_t *t = img->common.transform;
    int filter = d->filter;
    if (filter == PIXMAN_FILTER_CONVOLUTION || filter == PIXMAN_FILTER_SEPARABLE_CONVOLUTION) return 3;
    int proj = t && (t->matrix[2][0] != 0 || t->matrix[2][1] != 0 || t->matrix[2][2] != 65536);
    int bil = filter == PIXMAN_FILTER_BILINEAR || filter == PIXMAN_FILTER_GOOD || filter == PIXMAN_FILTER_BEST;
    for (int y = y1; y < y2; y++) for (int x = x1; x < x2; x++) {
        ll X = (ll) x * 65536 + 32768, Y = (ll) y * 65536 + 32768, vx = X, vy = Y;
        if (t && !proj) {
            vx = ((ll) t->matrix[0][0] * X + (ll) t->matrix[0][1] * Y + (ll) t->matrix[0][2] * 65536 + 0x8000) >> 16;
            vy = ((ll) t->matrix[1][0] * X + (ll) t->matrix[1][1] * Y + (ll) t->matrix[1][2] * 65536 + 0x8000) >> 16;
        } else if (proj) {
            /* the general fetcher: homogeneous coordinates of the first pixel of the scanline rounded to 16.16, stepped by the first
               matrix column, each pixel divided by w with C's truncating division */
            ll X0 = (ll) x1 * 65536 + 32768, h[3];
            for (int r = 0; r < 3; r++) h[r] = (((ll) t->matrix[r][0] * X0 + (ll) t->matrix[r][1] * Y + (ll) t->matrix[r][2] * 65536 + 0x8000) >> 16) + (ll) (x - x1) * t->matrix[r][0];
            if (h[0] != (int32_t) h[0] || h[1] != (int32_t) h[1] || h[2] != (int32_t) h[2]) return 3;
            if (h[2] != 0) { vx = (int32_t) ((h[0] * 65536) / h[2]); vy = (int32_t) ((h[1] * 65536) / h[2]); } else vx = vy = 0;
        }
        ll tx[2], ty[2]; int nx = 1, ny = 1;
        if (!bil) { tx[0] = fl16 (vx - 1); ty[0] = fl16 (vy - 1); }
        else {
            ll bx = vx - 32768, by = vy - 32768;
            tx[0] = fl16 (bx); ty[0] = fl16 (by);
            /* the second tap contributes only when its weight is non-zero: 8-bit pipeline (frac >> 9) & 0x7f, float pipeline
               frac / 65536.f.  strict: the float criterion (implies the other) */
            if (strict ? (bx & 0xffff) : ((bx >> 9) & 0x7f)) { tx[1] = tx[0] + 1; nx = 2; }
            if (strict ? (by & 0xffff) : ((by >> 9) & 0x7f)) { ty[1] = ty[0] + 1; ny = 2; }
            /* a first tap of weight zero does not exist (weights 0..127 of 128): it always contributes */
        }
        for (int j = 0; j < ny; j++) for (int i = 0; i < nx; i++) {
            ll cx = tx[i], cy = ty[j];
            if (!rep_coord (d->rep, &cx, d->w) || !rep_coord (d->rep, &cy, d->h)) { *wx = x; *wy = y; return 1; }
            if (!geometry_only && !stored_alpha_full (d, bits, (int) cx, (int) cy)) { *wx = x; *wy = y; return 2; }
        }
    }
    return 0;
}

/* ------------------------------------------------------------------ one request */
static FILE *forc;
static long lineno;          /* lines emitted before the current one */

static void img_tokens (const idesc_t *d, const pixman_image_t *img, char *o)
{
    int n = 0;
    if (d->kind == K_NONE) { sprintf (o, "-1 0 0 0 0 0 0 0 0 0 0 0 -1 0 0 0 0 0 0 0 0 0 0 0"); return; }
    int np = 0; ll p0 = 0, p1 = 0;
    if (img->common.filter_params) { np = img->common.n_filter_params; p0 = img->common.filter_params[0]; p1 = np > 1 ? img->common.filter_params[1] : 0; }
    int ra = 0;
    if (d->kind == K_RADIAL) ra = img->radial.a < 0 ? -1 : img->radial.a > 0 ? 1 : 0;
    n += sprintf (o + n, "%d %u %d %d %u %d %d %d %d %lld %lld %d -1", d->kind, d->kind == K_BITS ? d->fmt : 0u, d->kind == K_BITS ? d->w : 0, d->kind == K_BITS ? d->h : 0,
                  d->kind == K_SOLID ? (unsigned) d->col[3] : 0u, ra, d->rep, d->filter, np, p0, p1, d->ca);
    const pixman_transform_t *t = img->common.transform;
    n += sprintf (o + n, " %d", t ? 1 : 0);
    for (int i = 0; i < 9; i++) n += sprintf (o + n, " %d", t ? t->matrix[i / 3][i % 3] : 0);
    int ns = (d->kind == K_LINEAR || d->kind == K_CONICAL || d->kind == K_RADIAL) ? d->nstops : 0;
    n += sprintf (o + n, " %d", ns);
    for (int i = 0; i < ns; i++) n += sprintf (o + n, " %u", (unsigned) d->sa[i]);
}
static void himg_tokens (const idesc_t *d, char *o)
{
    int n = sprintf (o, "%llu %d %d %u %u %u %u %d %d", (unsigned long long) d->seed, d->content, d->q565, d->col[0], d->col[1], d->col[2], d->col[3], d->kern, d->setT);
    for (int i = 0; i < 9; i++) n += sprintf (o + n, " %d", d->m[i]);
}

static const char *kind_name (const idesc_t *d)
{
    static char b[4][48]; static int k; char *o = b[k++ & 3];
    switch (d->kind) { case K_NONE: return "none"; case K_SOLID: sprintf (o, "solid(a16=%04x)", d->col[3]); return o; case K_LINEAR: return "linear"; case K_CONICAL: return "conical"; case K_RADIAL: return "radial"; }
    sprintf (o, "bits(%08x %dx%d rep%d filt%d)", d->fmt, d->w, d->h, d->rep, d->filter); return o;
}

/* flag oracle for one image in role `who` */
static void flag_oracle (const char *who, const idesc_t *d, pixman_image_t *img, const uint8_t *bits, int x1, int y1, int x2, int y2, int strict)
{
    int wx = 0, wy = 0;
    if (d->kind == K_SOLID) {
        if (d->col[3] != 0xffff) fprintf (forc, "ORACLE %ld flag-%s solid fill with 16-bit alpha %04x is treated as opaque\n", lineno + 1, who, d->col[3]);
        return;
    }
    if (d->ca) { fprintf (forc, "ORACLE %ld flag-%s component-alpha image treated as opaque\n", lineno + 1, who); return; }
    if (d->kind == K_BITS) {
        if (d->filter == PIXMAN_FILTER_CONVOLUTION) { fprintf (forc, "ORACLE %ld flag-%s image with a convolution filter treated as opaque\n", lineno + 1, who); return; }
        int r = scan_samples (d, img, bits, x1, y1, x2, y2, &wx, &wy, 0, strict);
        if (r == 1) fprintf (forc, "ORACLE %ld flag-%s %s treated as opaque but the sample of pixel (%d,%d) lies outside the non-repeating image\n", lineno + 1, who, kind_name (d), wx, wy);
        if (r == 2) fprintf (forc, "ORACLE %ld flag-%s %s treated as opaque but a sample of pixel (%d,%d) has alpha < 1\n", lineno + 1, who, kind_name (d), wx, wy);
        return;
    }
    /* gradient: rendered alone (SRC onto a8r8g8b8) it must be opaque over the request */
    int w = x2 - x1, h = y2 - y1;
    uint32_t *tmp = calloc ((size_t) w * h, 4);
    pixman_image_t *ti = pixman_image_create_bits (PIXMAN_a8r8g8b8, w, h, tmp, w * 4);
    int was = cap.armed; cap.armed = 0;
    pixman_image_composite32 (PIXMAN_OP_SRC, img, NULL, ti, x1, y1, 0, 0, 0, 0, w, h);
    cap.armed = was;
    for (int i = 0; i < w * h; i++) if ((tmp[i] >> 24) != 0xff) {
        fprintf (forc, "ORACLE %ld flag-%s %s gradient treated as opaque but it renders alpha %02x at (%d,%d)\n", lineno + 1, who, kind_name (d), tmp[i] >> 24, x1 + i % w, y1 + i / w);
        break;
    }
    pixman_image_unref (ti); free (tmp);
}

static long n_flag_scans;
static void run_req (const req_t *q, res_t *r, char *srcTok, char *maskTok, char *dstTok)
{
    void *sb, *mb = NULL, *db;
    memset (r, 0, sizeof *r);
    pixman_image_t *si = make_image (&q->src, &sb), *mi = q->mask.kind == K_NONE ? NULL : make_image (&q->mask, &mb), *di = make_image (&q->dst, &db);
    if (!si || !di || (q->mask.kind != K_NONE && !mi)) { fprintf (stderr, "image creation failed\n"); exit (3); }
    cap.armed = 1; cap.called = 0;
    pixman_image_composite32 ((pixman_op_t) q->op, si, mi, di, q->sx, q->sy, q->mx, q->my, q->dx, q->dy, q->w, q->h);
    cap.armed = 0;
    r->called = cap.called; r->op = cap.op; r->sfmt = cap.sfmt; r->sfl = cap.sfl; r->mfmt = cap.mfmt; r->mfl = cap.mfl; r->dfmt = cap.dfmt; r->dfl = cap.dfl;
    r->elided = mi && cap.mfmt == PIXMAN_null;
    r->own_sfl = si->common.flags; r->own_mfl = mi ? mi->common.flags : 0; r->own_dfl = di->common.flags;
    img_tokens (&q->src, si, srcTok); img_tokens (&q->mask, mi, maskTok); img_tokens (&q->dst, di, dstTok);
    /* destination, defined bits only */
    int bpp = bpp_of (q->dst.fmt), stride = ((q->dst.w * bpp + 31) / 32) * 4, wpp = bpp == 128 ? 4 : 1;
    uint32_t undef = q->dst.fmt == PIXMAN_x8r8g8b8 || q->dst.fmt == PIXMAN_x8b8g8r8 ? 0xff000000u : q->dst.fmt == PIXMAN_x2r10g10b10 ? 0xc0000000u : 0;
    r->nwords = 0;
    for (int y = 0; y < q->dst.h; y++) for (int x = 0; x < q->dst.w; x++) {
        const uint8_t *row = (uint8_t *) db + (size_t) y * stride;
        if (bpp == 16) r->out[r->nwords++] = ((const uint16_t *) row)[x];
        else for (int k = 0; k < wpp; k++) r->out[r->nwords++] = ((const uint32_t *) row)[x * wpp + k] & ~undef;
    }
    /* flag oracle */
    if (r->called) {
        int x1 = q->dx < 0 ? 0 : q->dx, y1 = q->dy < 0 ? 0 : q->dy;
        int x2 = q->dx + q->w > q->dst.w ? q->dst.w : q->dx + q->w, y2 = q->dy + q->h > q->dst.h ? q->dst.h : q->dy + q->h;
        /* a wide destination is only handled by the float pipeline: there a bilinear tap contributes whenever its 16-bit fraction is non-zero */
        int strict = q->dst.fmt == PIXMAN_rgba_float || q->dst.fmt == PIXMAN_a2r10g10b10 || q->dst.fmt == PIXMAN_x2r10g10b10;
        if (r->sfl & FAST_PATH_IS_OPAQUE) { n_flag_scans++; flag_oracle ("src", &q->src, si, sb, x1 + q->sx - q->dx, y1 + q->sy - q->dy, x2 + q->sx - q->dx, y2 + q->sy - q->dy, strict); }
        if (mi && ((r->mfl & FAST_PATH_IS_OPAQUE) || r->elided)) { n_flag_scans++; flag_oracle ("mask", &q->mask, mi, mb, x1 + q->mx - q->dx, y1 + q->my - q->dy, x2 + q->mx - q->dx, y2 + q->my - q->dy, strict); }
        if ((r->dfl & FAST_PATH_IS_OPAQUE) && (PIXMAN_FORMAT_A (q->dst.fmt) || q->dst.fmt == PIXMAN_rgba_float))
            fprintf (forc, "ORACLE %ld flag-dest destination format %08x has an alpha channel and is treated as opaque\n", lineno + 1, q->dst.fmt);
    }
    pixman_image_unref (si); if (mi) pixman_image_unref (mi); pixman_image_unref (di);
    free (sb); free (mb); free (db);
}

static void emit (const req_t *q, const res_t *r, const char *st, const char *mt, const char *dt, FILE *fi, FILE *fr)
{
    char hs[256], hm[256], hd[256];
    himg_tokens (&q->src, hs); himg_tokens (&q->mask, hm); himg_tokens (&q->dst, hd);
    fprintf (fi, "%d %d %d %d %d %d %d %d %d %d %d %s %s %s # %ld %d %d %s %s %s\n", q->op, q->dst.w, q->dst.h, q->dx, q->dy, q->w, q->h, q->sx, q->sy, q->mx, q->my,
             st, mt, dt, q->gid, q->role, q->cmp, hs, hm, hd);
    if (r->called) fprintf (fr, "run %d %u %u %u %u %u %u %d\n", r->op, r->sfmt, r->sfl, r->mfmt, r->mfl, r->dfmt, r->dfl, r->elided);
    else fprintf (fr, "out\n");
}

/* largest per-channel difference between two destinations, in units of the last place of the destination format
   (float: absolute difference in units of 2^-24) */
static unsigned chdiff (uint32_t x, uint32_t y, int sh, int bits) { int a = (x >> sh) & ((1u << bits) - 1), b = (y >> sh) & ((1u << bits) - 1); return (unsigned) abs (a - b); }
static unsigned max_diff (const req_t *a, const res_t *ra, const res_t *rb, int cmp)
{
    unsigned m = 0, d;
    uint32_t f = a->dst.fmt;
    if (ra->nwords != rb->nwords) return 0xffffffffu;
    for (int i = 0; i < ra->nwords; i++) {
        uint32_t x = ra->out[i], y = rb->out[i];
        if (f == PIXMAN_rgba_float) {      /* absolute difference in units of 2^-24 (half an ulp of 1.0), rounded up */
            float fx, fy; memcpy (&fx, &x, 4); memcpy (&fy, &y, 4);
            double dd = fabs ((double) fx - (double) fy) * 16777216.0;
            d = x == y ? 0 : !(dd < 4e9) ? 0xffffffffu : (unsigned) ceil (dd); if (d > m) m = d; continue; }
        if (f == PIXMAN_r5g6b5) { d = chdiff (x, y, 11, 5); if (d > m) m = d; d = chdiff (x, y, 5, 6); if (d > m) m = d; d = chdiff (x, y, 0, 5); if (d > m) m = d; continue; }
        if (f == PIXMAN_a2r10g10b10 || f == PIXMAN_x2r10g10b10) { for (int c = 0; c < 3; c++) { d = chdiff (x, y, 10 * c, 10); if (d > m) m = d; } if (!cmp) { d = chdiff (x, y, 30, 2); if (d > m) m = d; } continue; }
        for (int c = 0; c < (cmp ? 3 : 4); c++) { d = chdiff (x, y, 8 * c, 8); if (d > m) m = d; }
    }
    return m;
}
/* colour-only comparison word of destination pixel words */
static long n_precision_skips;
static int needs_div (int op) { return op == 13 || (op >= 19 && op <= 27) || (op >= 35 && op <= 43) || op == 53 || op == 54 || op == 56 || (op >= 59 && op <= 62); }
static int same_dest (const req_t *a, const res_t *ra, const req_t *b, const res_t *rb, int cmp, int *at)
{
    /* SATURATE is replaced by OVER_REVERSE / DST for an opaque source / destination: the replacement runs in the
       8-bit pipeline, SATURATE itself in the float pipeline - not the same precision, no bit-identity claimed */
    if (ra->called && rb->called && needs_div (ra->op) != needs_div (rb->op)) { n_precision_skips++; return 1; }
    if (ra->nwords != rb->nwords) { *at = -1; return 0; }
    for (int i = 0; i < ra->nwords; i++) {
        uint32_t x = ra->out[i], y = rb->out[i];
        if (cmp == 1) {
            uint32_t m = (a->dst.fmt == PIXMAN_a2r10g10b10 || a->dst.fmt == PIXMAN_x2r10g10b10) ? 0x3fffffffu : bpp_of (a->dst.fmt) == 32 ? 0x00ffffffu : 0xffffffffu;
            x &= m; y &= m;
        }
        if (x != y) { *at = i; return 0; }
    }
    (void) b;
    return 1;
}

/* ------------------------------------------------------------------ generator */
static const int ALLOPS[] = { 0,1,2,3,4,5,6,7,8,9,10,11,12,13, 16,17,18,19,20,21,22,23,24,25,26,27, 32,33,34,35,36,37,38,39,40,41,42,43,
                              48,49,50,51,52,53,54,55,56,57,58,59,60,61,62 };
#define NALLOPS ((int) (sizeof ALLOPS / sizeof ALLOPS[0]))
static const int NODIV[] = { 0,1,2,3,4,5,6,7,8,9,10,11,12, 48,49,50,51,52,55,57,58 };      /* !operator_needs_division */
#define NNODIV ((int) (sizeof NODIV / sizeof NODIV[0]))
static int pick_op (int nodiv) { if (rng_chance (65)) return rng_n (13); return nodiv ? NODIV[rng_n (NNODIV)] : ALLOPS[rng_n (NALLOPS)]; }

static void gen_colour (uint16_t col[4], int alpha16)
{
    col[3] = (uint16_t) alpha16;
    for (int c = 0; c < 3; c++) { int v = rng_chance (30) ? alpha16 : rng_chance (20) ? 0 : rng_n (alpha16 + 1); col[c] = (uint16_t) v; }
}
/* an 8-bit-exact 16-bit colour: each channel v * 0x101 */
static void gen_colour8 (uint16_t col[4], int alpha8)
{
    col[3] = (uint16_t) (alpha8 * 0x101);
    for (int c = 0; c < 3; c++) { int v = rng_chance (30) ? alpha8 : rng_chance (20) ? 0 : rng_n (alpha8 + 1); col[c] = (uint16_t) (v * 0x101); }
}

/* transform for an image of size iw x ih sampled by a request of size w x h starting at image-space (ox, oy);
   cls: 0 none, 1 integer translation, 2 fractional translation, 3 scale, 4 rotation, 5 projective.
   inside: place the sampled area inside the image when it fits. */
static void gen_transform (idesc_t *d, int cls, int ox, int oy, int w, int h, int inside)
{
    double a = 1, b = 0, c = 0, e = 1;
    static const double nice[] = { 1, 2, 0.5, 1.5, 0.75, -1, 0.25, 3, 1.25 };
    d->setT = cls != 0;
    for (int i = 0; i < 9; i++) d->m[i] = (i % 4 == 0) ? 65536 : 0;
    if (!cls) return;
    if (cls == 3) { a = nice[rng_n (9)]; e = rng_chance (50) ? a : nice[rng_n (9)]; if (rng_chance (20)) { a += rng_range (-3, 3) / 65536.0; } }
    if (cls == 4 || cls == 5) {
        if (rng_chance (45)) { switch (rng_n (3)) { case 0: a = 0; b = -1; c = 1; e = 0; break; case 1: a = -1; e = -1; break; default: a = 0; b = 1; c = -1; e = 0; } }
        else { double th = rng_n (3600) / 3600.0 * 2 * M_PI, s = nice[rng_n (5)]; a = cos (th) * s; b = -sin (th) * s; c = sin (th) * s; e = cos (th) * s; }
    }
    d->m[0] = (int32_t) lrint (a * 65536); d->m[1] = (int32_t) lrint (b * 65536); d->m[3] = (int32_t) lrint (c * 65536); d->m[4] = (int32_t) lrint (e * 65536);
    /* bounding box of the linear image of the pixel centres */
    double xs[4] = { ox + 0.5, ox + w - 0.5, ox + 0.5, ox + w - 0.5 }, ys[4] = { oy + 0.5, oy + 0.5, oy + h - 0.5, oy + h - 0.5 };
    double lox = 1e30, hix = -1e30, loy = 1e30, hiy = -1e30;
    for (int i = 0; i < 4; i++) { double X = a * xs[i] + b * ys[i], Y = c * xs[i] + e * ys[i]; if (X < lox) lox = X; if (X > hix) hix = X; if (Y < loy) loy = Y; if (Y > hiy) hiy = Y; }
    double tx, ty;
    double roomx = d->w - (hix - lox) - 2, roomy = d->h - (hiy - loy) - 2;
    if (inside && roomx >= 0 && roomy >= 0) {
        tx = 1 + (roomx > 0 ? rng_n ((int) (roomx * 16) + 1) / 16.0 : 0) - lox; ty = 1 + (roomy > 0 ? rng_n ((int) (roomy * 16) + 1) / 16.0 : 0) - loy;
        if (rng_chance (25)) { tx = 0.5 - lox; ty = 0.5 - loy; }                               /* flush with the top-left edge: bilinear taps 0.. */
        if (rng_chance (10)) { tx = d->w - 0.5 - hix; ty = d->h - 0.5 - hiy; }                  /* flush with the bottom-right edge */
    } else {
        tx = rng_range (-d->w - 2, d->w + 2) - lox + rng_n (16) / 16.0; ty = rng_range (-d->h - 2, d->h + 2) - loy + rng_n (16) / 16.0;
        if (rng_chance (40)) { tx = rng_range (-2, 2) - lox; ty = rng_range (-2, 2) - loy; }      /* straddling an edge */
    }
    if (cls == 1 || ((cls == 3 || cls == 4) && rng_chance (35))) { tx = floor (tx); ty = floor (ty); }
    else if (rng_chance (15)) { tx = floor (tx) + rng_range (-2, 2) / 65536.0; ty = floor (ty) + 0.5 + rng_range (-2, 2) / 65536.0; }
    d->m[2] = (int32_t) lrint (tx * 65536); d->m[5] = (int32_t) lrint (ty * 65536);
    if (cls == 5) {
        d->m[6] = rng_range (-40, 40) * 16; d->m[7] = rng_range (-40, 40) * 16; d->m[8] = 65536 + rng_range (-2000, 2000);
        if (rng_chance (45)) {
            /* the sample of one corner pixel of the request lands within a few 1/65536 of an image edge (where rounding the
               homogeneous division to nearest or towards zero makes the difference between inside and outside) */
            int px = rng_chance (50) ? ox : ox + w - 1, py = rng_chance (50) ? oy : oy + h - 1;
            ll wantx = rng_chance (50) ? rng_range (-2, 4) : (ll) d->w * 65536 + rng_range (-3, 3), wanty = rng_chance (50) ? rng_range (-2, 4) : (ll) d->h * 65536 + rng_range (-3, 3);
            if (rng_chance (30)) wantx = (ll) rng_n (d->w) * 65536 + 32768;
            else if (rng_chance (40)) wanty = (ll) rng_n (d->h) * 65536 + 32768;
            for (int it = 0; it < 3; it++) {
                ll X = (ll) px * 65536 + 32768, Y = (ll) py * 65536 + 32768, hh[3];
                for (int r = 0; r < 3; r++) hh[r] = ((ll) d->m[3 * r] * X + (ll) d->m[3 * r + 1] * Y + (ll) d->m[3 * r + 2] * 65536 + 0x8000) >> 16;
                if (!hh[2]) break;
                ll vx = hh[0] * 65536 / hh[2], vy = hh[1] * 65536 / hh[2];
                d->m[2] += (int32_t) ((wantx - vx) * hh[2] / 65536); d->m[5] += (int32_t) ((wanty - vy) * hh[2] / 65536);
            }
        }
    }
}

static int pick_filter (void) { int k = rng_n (100); return k < 35 ? PIXMAN_FILTER_NEAREST : k < 45 ? PIXMAN_FILTER_FAST : k < 75 ? PIXMAN_FILTER_BILINEAR : k < 80 ? PIXMAN_FILTER_GOOD : k < 85 ? PIXMAN_FILTER_BEST : PIXMAN_FILTER_CONVOLUTION; }
static int pick_tcls (void) { int k = rng_n (100); return k < 15 ? 0 : k < 30 ? 1 : k < 45 ? 2 : k < 65 ? 3 : k < 88 ? 4 : 5; }

/* an arbitrary (translucent) operand that is not the one under test */
static void gen_other_source (idesc_t *d, const req_t *q)
{
    memset (d, 0, sizeof *d);
    int k = rng_n (100);
    d->seed = rng_u64 ();
    if (k < 20) { d->kind = K_SOLID; gen_colour8 (d->col, EDGE[rng_n (7)]); if (rng_chance (30)) gen_colour (d->col, rng_chance (50) ? rng_range (0xff00, 0xffff) : rng_n (65536)); return; }
    d->kind = K_BITS; d->fmt = rng_chance (75) ? PIXMAN_a8r8g8b8 : rng_chance (50) ? PIXMAN_x8r8g8b8 : rng_chance (50) ? PIXMAN_r5g6b5 : PIXMAN_a8b8g8r8;
    d->content = rng_chance (80) ? 3 : rng_chance (50) ? 2 : 0;
    d->w = q->w + rng_n (6); d->h = q->h + rng_n (6);
    d->rep = rng_chance (60) ? 0 : rng_n (4);
    d->filter = PIXMAN_FILTER_NEAREST;
    if (rng_chance (30)) { d->filter = pick_filter (); d->kern = 1 + rng_n (4); gen_transform (d, pick_tcls (), q->sx, q->sy, q->w, q->h, rng_chance (60)); }
}
static void gen_other_mask (idesc_t *d, const req_t *q)
{
    memset (d, 0, sizeof *d);
    int k = rng_n (100);
    d->seed = rng_u64 ();
    if (k < 40) { d->kind = K_NONE; return; }
    if (k < 55) { d->kind = K_SOLID; gen_colour8 (d->col, EDGE[rng_n (7)]); d->ca = rng_chance (30); return; }
    d->kind = K_BITS; d->fmt = rng_chance (50) ? PIXMAN_a8 : PIXMAN_a8r8g8b8; d->content = 3;
    d->ca = d->fmt == PIXMAN_a8r8g8b8 && rng_chance (50);
    d->w = q->w + rng_n (4); d->h = q->h + rng_n (4); d->rep = rng_chance (70) ? 0 : rng_n (4); d->filter = PIXMAN_FILTER_NEAREST;
}
static uint32_t pick_dest_fmt (int allow_wide)
{
    int k = rng_n (100);
    if (allow_wide && k < 22) return rng_chance (50) ? PIXMAN_rgba_float : rng_chance (60) ? PIXMAN_a2r10g10b10 : PIXMAN_x2r10g10b10;
    return k < 60 ? PIXMAN_a8r8g8b8 : k < 75 ? PIXMAN_x8r8g8b8 : k < 90 ? PIXMAN_r5g6b5 : PIXMAN_a8b8g8r8;
}
static void gen_dest (idesc_t *d, req_t *q, int allow_wide)
{
    memset (d, 0, sizeof *d);
    d->kind = K_BITS; d->fmt = pick_dest_fmt (allow_wide); d->seed = rng_u64 (); d->content = rng_chance (75) ? 3 : 0;
    d->w = q->w + rng_n (3); d->h = q->h + rng_n (3);
    if (d->w > MAXDW) d->w = MAXDW;
    if (d->h > MAXDH) d->h = MAXDH;
    q->dx = rng_chance (70) ? 0 : rng_range (-1, 2); q->dy = rng_chance (70) ? 0 : rng_range (-1, 1);
    d->filter = PIXMAN_FILTER_NEAREST;
    if (rng_chance (6)) d->rep = 1 + rng_n (3);
}

#define MAXV 8
static req_t V[MAXV]; static const char *VN[MAXV]; static int NV;
static void add_variant (const req_t *q, const char *name) { if (NV < MAXV) { V[NV] = *q; VN[NV++] = name; } }

static long gid_counter;
/* does every sample of image d (as q's source or mask) exist?  0 yes, 1 no, 3 unknown */
static int inside_query (const idesc_t *d, const req_t *q, int is_mask)
{
    void *st; idesc_t tmp = *d; tmp.rep = 0;
    pixman_image_t *img = make_image (&tmp, &st);
    int x1 = q->dx < 0 ? 0 : q->dx, y1 = q->dy < 0 ? 0 : q->dy;
    int x2 = q->dx + q->w > q->dst.w ? q->dst.w : q->dx + q->w, y2 = q->dy + q->h > q->dst.h ? q->dst.h : q->dy + q->h;
    int ox = (is_mask ? q->mx : q->sx) - q->dx, oy = (is_mask ? q->my : q->sy) - q->dy, wx, wy;
    int r = (x1 < x2 && y1 < y2) ? scan_samples (&tmp, img, st, x1 + ox, y1 + oy, x2 + ox, y2 + oy, &wx, &wy, 1, 1) : 0;
    pixman_image_unref (img); free (st);
    return r;
}

static int narrow_fmt (uint32_t f) { return f != PIXMAN_rgba_float && f != PIXMAN_a2r10g10b10 && f != PIXMAN_x2r10g10b10; }
/* the request certainly runs in the 8-bit pipeline whatever the presentation: narrow formats only, operator without division */
static int narrow_certain (const req_t *q)
{
    return !needs_div (q->op) && narrow_fmt (q->dst.fmt) && (q->mask.kind != K_BITS || narrow_fmt (q->mask.fmt)) && (q->src.kind != K_BITS || narrow_fmt (q->src.fmt));
}
static void gen_group (void)
{
    req_t q; memset (&q, 0, sizeof q);
    NV = 0;
    q.gid = ++gid_counter;
    q.w = 1 + rng_n (rng_chance (70) ? 5 : 12); q.h = 1 + rng_n (rng_chance (70) ? 3 : 6);
    int g = rng_n (100);
    q.sx = rng_chance (60) ? 0 : rng_range (-2, 3); q.sy = rng_chance (60) ? 0 : rng_range (-2, 3);
    q.mx = rng_chance (60) ? 0 : rng_range (-2, 3); q.my = rng_chance (60) ? 0 : rng_range (-2, 3);
    if (g < 30) {
        /* G1: opaque picture as SOURCE: a8r8g8b8 alpha 255 (never flagged: the unsimplified evaluation) / x8r8g8b8 /
           r5g6b5 / a8b8g8r8 / x8b8g8r8, any transform, filter, repeat; when every sample exists also under the other repeat modes */
        q.role = 0; q.op = pick_op (0);
        gen_dest (&q.dst, &q, 1); gen_other_mask (&q.mask, &q);
        idesc_t *s = &q.src; memset (s, 0, sizeof *s);
        s->kind = K_BITS; s->seed = rng_u64 (); s->content = 0; s->q565 = rng_chance (30);
        s->w = rng_chance (15) ? 1 + rng_n (3) : q.w + rng_n (10); s->h = rng_chance (15) ? 1 + rng_n (3) : q.h + rng_n (10);
        s->rep = rng_chance (45) ? 0 : rng_n (4); s->filter = pick_filter (); s->kern = 1 + rng_n (4);
        gen_transform (s, pick_tcls (), q.sx, q.sy, q.w, q.h, rng_chance (65));
        /* r5g6b5 has the precision of the 8-bit formats only in the 8-bit pipeline (the float pipeline reads its 5/6-bit
           channels directly): it is paired with a8r8g8b8 / x8r8g8b8 holding the widened values only when the request
           certainly runs there, otherwise only with itself under other repeat modes */
        int narrow = narrow_certain (&q);
        uint32_t base = PIXMAN_x8r8g8b8;
        if (s->q565 && !narrow) { base = PIXMAN_r5g6b5; s->fmt = base; add_variant (&q, "source r5g6b5"); }
        else {
            s->fmt = PIXMAN_a8r8g8b8; add_variant (&q, "source a8r8g8b8 alpha 255");
            s->fmt = PIXMAN_x8r8g8b8; add_variant (&q, "source x8r8g8b8");
            if (s->q565) { s->fmt = PIXMAN_r5g6b5; add_variant (&q, "source r5g6b5"); if (rng_chance (50)) base = PIXMAN_r5g6b5; }
            if (rng_chance (30)) { s->fmt = PIXMAN_x8b8g8r8; add_variant (&q, "source x8b8g8r8"); }
        }
        s->fmt = base;
        if (inside_query (s, &q, 0) == 0) {
            int r0 = s->rep;
            for (int r = 0; r < 4; r++) if (r != r0 && rng_chance (60)) { s->rep = r; add_variant (&q, r == 0 ? "source alpha-less REPEAT_NONE (samples inside)" : "source alpha-less other repeat mode (samples inside)"); }
            s->rep = r0;
        }
    } else if (g < 45) {
        /* G2: uniform opaque colour as SOURCE, narrow pipeline: solid / 1x1 repeating / WxH repeating uniform image */
        q.role = 0; q.op = pick_op (1);
        gen_dest (&q.dst, &q, 0); gen_other_mask (&q.mask, &q);
        if (q.mask.kind == K_BITS && q.mask.fmt != PIXMAN_a8 && q.mask.fmt != PIXMAN_a8r8g8b8) q.mask.kind = K_NONE;
        idesc_t *s = &q.src; memset (s, 0, sizeof *s);
        int a8 = rng_chance (70) ? 0xff : EDGE[rng_n (7)];
        gen_colour8 (s->col, a8); s->content = 1; s->seed = rng_u64 ();
        s->kind = K_SOLID; add_variant (&q, "source solid");
        s->kind = K_BITS; s->w = s->h = 1; s->rep = 1 + rng_n (3); s->filter = rng_chance (50) ? PIXMAN_FILTER_NEAREST : PIXMAN_FILTER_BILINEAR;
        s->fmt = PIXMAN_a8r8g8b8; add_variant (&q, "source 1x1 a8r8g8b8 repeating");
        if (a8 == 0xff) { s->fmt = PIXMAN_x8r8g8b8; add_variant (&q, "source 1x1 x8r8g8b8 repeating"); }
        s->w = 1 + rng_n (6); s->h = 1 + rng_n (6); s->rep = 1 + rng_n (3); s->filter = pick_filter (); s->kern = 1 + rng_n (3);
        gen_transform (s, pick_tcls (), q.sx, q.sy, q.w, q.h, rng_chance (50));
        s->fmt = PIXMAN_a8r8g8b8; add_variant (&q, "source uniform a8r8g8b8 image repeating, transformed");
        if (a8 == 0xff) { s->fmt = PIXMAN_x8r8g8b8; add_variant (&q, "source uniform x8r8g8b8 image repeating, transformed"); }
    } else if (g < 58) {
        /* G3: solid colour whose 16-bit alpha is 0xffff / just below, wide pipeline (wide destination): solid fill vs
           a 1x1 repeating rgba_float image holding exactly the floats of the solid; as source or as mask */
        int as_mask = rng_chance (40);
        q.role = as_mask; q.op = pick_op (0);
        gen_dest (&q.dst, &q, 1);
        q.dst.fmt = rng_chance (50) ? PIXMAN_rgba_float : rng_chance (70) ? PIXMAN_a2r10g10b10 : PIXMAN_x2r10g10b10;
        idesc_t u; memset (&u, 0, sizeof u);
        int k = rng_n (100);
        int a16 = k < 25 ? 0xffff : k < 45 ? 0xff00 : k < 55 ? 0xfffe : k < 75 ? rng_range (0xff00, 0xfffe) : k < 85 ? 0xfeff : rng_n (65536);
        gen_colour (u.col, a16); u.content = 1; u.seed = rng_u64 ();
        if (as_mask) { gen_other_source (&q.src, &q); if (rng_chance (50)) { q.src.kind = K_BITS; q.src.fmt = PIXMAN_x8r8g8b8; q.src.content = 0; q.src.w = q.w + 4; q.src.h = q.h + 4; q.src.setT = 0; q.src.filter = PIXMAN_FILTER_NEAREST; } u.ca = rng_chance (25); }
        else gen_other_mask (&q.mask, &q);
        idesc_t *s = as_mask ? &q.mask : &q.src;
        *s = u; s->kind = K_SOLID; add_variant (&q, as_mask ? "mask solid" : "source solid");
        s->kind = K_BITS; s->fmt = PIXMAN_rgba_float; s->w = s->h = 1; s->rep = 1 + rng_n (3); s->filter = PIXMAN_FILTER_NEAREST;
        add_variant (&q, as_mask ? "mask 1x1 rgba_float repeating (same floats)" : "source 1x1 rgba_float repeating (same floats)");
    } else if (g < 82) {
        /* G4: opaque MASK: a8r8g8b8 alpha 255 / x8r8g8b8 / r5g6b5 with any transform, filter, repeat; when every sample
           exists also: no mask at all, a8 0xff, solid alpha 0xffff, 1x1 repeating, other repeat modes (unified alpha only) */
        q.role = 1; q.op = pick_op (0);
        gen_dest (&q.dst, &q, 1); gen_other_source (&q.src, &q);
        if (rng_chance (60)) { q.src.kind = K_BITS; q.src.fmt = PIXMAN_a8r8g8b8; q.src.content = rng_chance (70) ? 3 : 2; if (q.src.w < q.w + q.sx || q.src.w < 1) q.src.w = q.w + 3; if (q.src.h < q.h + q.sy || q.src.h < 1) q.src.h = q.h + 3; }
        idesc_t *m = &q.mask; memset (m, 0, sizeof *m);
        m->kind = K_BITS; m->seed = rng_u64 (); m->content = 0; m->q565 = rng_chance (40); m->ca = rng_chance (25);
        m->w = q.w + rng_n (10); m->h = q.h + rng_n (10); m->rep = rng_chance (50) ? 0 : rng_n (4); m->filter = pick_filter (); m->kern = 1 + rng_n (3);
        gen_transform (m, pick_tcls (), q.mx, q.my, q.w, q.h, rng_chance (70));
        m->fmt = PIXMAN_a8r8g8b8; add_variant (&q, "mask a8r8g8b8 alpha 255");
        m->fmt = PIXMAN_x8r8g8b8; add_variant (&q, "mask x8r8g8b8");
        if (m->q565 && (!m->ca || narrow_certain (&q))) { m->fmt = PIXMAN_r5g6b5; add_variant (&q, "mask r5g6b5"); }
        m->fmt = PIXMAN_x8r8g8b8;
        int pipeline_safe = q.dst.fmt != PIXMAN_rgba_float && q.dst.fmt != PIXMAN_a2r10g10b10 && q.dst.fmt != PIXMAN_x2r10g10b10;
        if (!m->ca && m->filter != PIXMAN_FILTER_CONVOLUTION && inside_query (m, &q, 1) == 0) {
            idesc_t keep = *m;
            int r0 = m->rep; for (int r = 0; r < 4; r++) if (r != r0 && rng_chance (40)) { m->rep = r; add_variant (&q, "mask x8r8g8b8 other repeat mode (samples inside)"); }
            *m = keep;
            if (pipeline_safe) {
                m->kind = K_NONE; add_variant (&q, "no mask"); *m = keep;
                m->kind = K_SOLID; m->col[0] = 0x1234; m->col[1] = 0; m->col[2] = 0xffff; m->col[3] = 0xffff; add_variant (&q, "mask solid alpha 0xffff"); *m = keep;
                if (rng_chance (50)) { m->fmt = PIXMAN_a8; add_variant (&q, "mask a8 0xff"); *m = keep; }
            }
        }
    } else if (g < 94) {
        /* G5: opaque DESTINATION: x8r8g8b8 / a8r8g8b8 alpha 255 / with a repeat mode set (flagged opaque); r5g6b5 and
           x2r10g10b10 with and without repeat; a2r10g10b10 alpha 3 */
        q.role = 2; q.op = pick_op (0); q.cmp = 1;
        gen_dest (&q.dst, &q, 1); gen_other_source (&q.src, &q); gen_other_mask (&q.mask, &q);
        idesc_t *d = &q.dst; d->content = 0; d->rep = 0;
        int cls = rng_n (100);
        if (cls < 60) {
            d->fmt = PIXMAN_a8r8g8b8; add_variant (&q, "destination a8r8g8b8 alpha 255");
            d->fmt = PIXMAN_x8r8g8b8; add_variant (&q, "destination x8r8g8b8");
            d->rep = 1 + rng_n (3); add_variant (&q, "destination x8r8g8b8 with a repeat mode (flagged opaque)");
            d->fmt = PIXMAN_a8r8g8b8; add_variant (&q, "destination a8r8g8b8 alpha 255 with a repeat mode");
        } else if (cls < 80) {
            d->fmt = PIXMAN_r5g6b5; q.cmp = 0; add_variant (&q, "destination r5g6b5");
            d->rep = 1 + rng_n (3); add_variant (&q, "destination r5g6b5 with a repeat mode (flagged opaque)");
        } else {
            d->fmt = PIXMAN_a2r10g10b10; add_variant (&q, "destination a2r10g10b10 alpha 3");
            d->fmt = PIXMAN_x2r10g10b10; add_variant (&q, "destination x2r10g10b10");
            d->rep = 1 + rng_n (3); add_variant (&q, "destination x2r10g10b10 with a repeat mode (flagged opaque)");
        }
    } else {
        /* G6: gradients and translucent bits/solid sources: decision + flag oracle only (single presentation) */
        q.role = 0; q.op = pick_op (0);
        gen_dest (&q.dst, &q, 1); gen_other_mask (&q.mask, &q);
        idesc_t *s = &q.src; memset (s, 0, sizeof *s);
        s->seed = rng_u64 ();
        if (rng_chance (70)) {
            s->kind = 1 + rng_n (3); s->nstops = 1 + rng_n (4); s->rep = rng_n (4); s->filter = PIXMAN_FILTER_NEAREST;
            int allop = rng_chance (70);
            for (int i = 0; i < s->nstops; i++) s->sa[i] = allop || rng_chance (50) ? 0xffff : rng_chance (50) ? (uint16_t) rng_range (0xff00, 0xfffe) : (uint16_t) rng_n (65536);
            if (rng_chance (30)) gen_transform (s, pick_tcls (), q.sx, q.sy, q.w, q.h, 1);
        } else {
            s->kind = K_BITS; s->fmt = PIXMAN_a8r8g8b8; s->content = 2; s->w = q.w + rng_n (8); s->h = q.h + rng_n (8); s->rep = rng_n (4); s->filter = pick_filter (); s->kern = 1;
            gen_transform (s, pick_tcls (), q.sx, q.sy, q.w, q.h, 1);
        }
        add_variant (&q, "single");
    }
}

static FILE *fops, *fimpl;
static void run_group (void)
{
    static res_t R[MAXV];
    char st[512], mt[512], dt[512];
    long first = lineno;
    for (int k = 0; k < NV; k++) {
        run_req (&V[k], &R[k], st, mt, dt);
        emit (&V[k], &R[k], st, mt, dt, fops, fimpl);
        if (k > 0) {
            int at;
            if (!same_dest (&V[0], &R[0], &V[k], &R[k], V[k].cmp, &at))
                fprintf (forc, "ORACLE %ld pair '%s' differs from '%s' (line %ld) maxdiff=%u at destination word %d: %08x vs %08x\n", lineno + 1, VN[k], VN[0], first + 1,
                         max_diff (&V[0], &R[0], &R[k], V[k].cmp), at, at >= 0 ? R[k].out[at] : 0, at >= 0 ? R[0].out[at] : 0);
        }
        lineno++;
    }
}

/* ------------------------------------------------------------------ exec (replay) */
static int parse_img (char **tok, int *i, int n, idesc_t *d)
{
    if (*i + 24 > n) return 0;
    memset (d, 0, sizeof *d);
    d->kind = atoi (tok[*i]); d->fmt = (uint32_t) strtoul (tok[*i + 1], 0, 10); d->w = atoi (tok[*i + 2]); d->h = atoi (tok[*i + 3]);
    d->rep = atoi (tok[*i + 6]); d->filter = atoi (tok[*i + 7]); d->ca = atoi (tok[*i + 11]);
    int ns = atoi (tok[*i + 23]);
    if (ns < 0 || ns > 8 || *i + 24 + ns > n) return 0;
    d->nstops = ns;
    for (int k = 0; k < ns; k++) d->sa[k] = (uint16_t) atoi (tok[*i + 24 + k]);
    *i += 24 + ns;
    return 1;
}
static int parse_himg (char **tok, int *i, int n, idesc_t *d)
{
    if (*i + 18 > n) return 0;
    d->seed = strtoull (tok[*i], 0, 10); d->content = atoi (tok[*i + 1]); d->q565 = atoi (tok[*i + 2]);
    for (int k = 0; k < 4; k++) d->col[k] = (uint16_t) atoi (tok[*i + 3 + k]);
    d->kern = atoi (tok[*i + 7]); d->setT = atoi (tok[*i + 8]);
    for (int k = 0; k < 9; k++) d->m[k] = atoi (tok[*i + 9 + k]);
    *i += 18;
    return 1;
}
static int parse_req (char *line, req_t *q)
{
    static char *tok[400]; int n = 0;
    for (char *s = strtok (line, " \t\r\n"); s && n < 400; s = strtok (NULL, " \t\r\n")) tok[n++] = s;
    if (n < 11) return 0;
    memset (q, 0, sizeof *q);
    q->op = atoi (tok[0]); int dw = atoi (tok[1]), dh = atoi (tok[2]); q->dx = atoi (tok[3]); q->dy = atoi (tok[4]); q->w = atoi (tok[5]); q->h = atoi (tok[6]);
    q->sx = atoi (tok[7]); q->sy = atoi (tok[8]); q->mx = atoi (tok[9]); q->my = atoi (tok[10]);
    int i = 11;
    if (!parse_img (tok, &i, n, &q->src) || !parse_img (tok, &i, n, &q->mask) || !parse_img (tok, &i, n, &q->dst)) return 0;
    if (i >= n || strcmp (tok[i], "#")) return 0;
    i++;
    if (i + 3 > n) return 0;
    q->gid = atol (tok[i]); q->role = atoi (tok[i + 1]); q->cmp = atoi (tok[i + 2]); i += 3;
    if (!parse_himg (tok, &i, n, &q->src) || !parse_himg (tok, &i, n, &q->mask) || !parse_himg (tok, &i, n, &q->dst)) return 0;
    if (q->dst.kind != K_BITS || q->dst.w != dw || q->dst.h != dh || dw < 1 || dh < 1 || dw > MAXDW || dh > MAXDH) return 0;
    if (q->src.kind == K_NONE) return 0;
    for (int k = 0; k < 3; k++) { idesc_t *d = k == 0 ? &q->src : k == 1 ? &q->mask : &q->dst; if (d->kind == K_BITS && (!supported_fmt (d->fmt) || d->w < 1 || d->h < 1 || d->w > 64 || d->h > 64)) return 0; if (d->kind > K_SOLID || d->kind < K_NONE) return 0; }
    if (q->w < 0 || q->h < 0 || q->w > 64 || q->h > 64) return 0;
    return 1;
}

int main (int argc, char **argv)
{
    if (argc >= 7 && !strcmp (argv[1], "gen")) {
        rng_seed (strtoull (argv[2], 0, 10)); long n = atol (argv[3]);
        fops = fopen (argv[4], "w"); fimpl = fopen (argv[5], "w"); forc = fopen (argv[6], "w");
        if (!fops || !fimpl || !forc) return 2;
        for (long i = 0; i < n; i++) { gen_group (); run_group (); }
        fprintf (forc, "STATS flag_scans %ld precision_skips %ld\n", n_flag_scans, n_precision_skips);
        fclose (fops); fclose (fimpl); fclose (forc);
        return 0;
    }
    if (argc >= 5 && !strcmp (argv[1], "exec")) {
        FILE *fi = fopen (argv[2], "r"); fimpl = fopen (argv[3], "w"); forc = fopen (argv[4], "w");
        if (!fi || !fimpl || !forc) return 2;
        static char buf[8192]; static res_t ref, cur; req_t q, refq; long refgid = -1, refline = 0;
        char st[512], mt[512], dt[512];
        memset (&refq, 0, sizeof refq);
        while (fgets (buf, sizeof buf, fi)) {
            if (!parse_req (buf, &q)) { fprintf (fimpl, "bad-request\n"); lineno++; refgid = -1; continue; }
            run_req (&q, &cur, st, mt, dt);
            if (cur.called) fprintf (fimpl, "run %d %u %u %u %u %u %u %d\n", cur.op, cur.sfmt, cur.sfl, cur.mfmt, cur.mfl, cur.dfmt, cur.dfl, cur.elided);
            else fprintf (fimpl, "out\n");
            if (q.gid == refgid) {
                int at;
                if (!same_dest (&refq, &ref, &q, &cur, q.cmp, &at))
                    fprintf (forc, "ORACLE %ld pair presentation differs from the first of its group (line %ld) maxdiff=%u at destination word %d: %08x vs %08x\n", lineno + 1, refline,
                             max_diff (&refq, &ref, &cur, q.cmp), at, at >= 0 ? cur.out[at] : 0, at >= 0 ? ref.out[at] : 0);
            } else { ref = cur; refq = q; refgid = q.gid; refline = lineno + 1; }
            lineno++;
        }
        fclose (fimpl); fclose (forc);
        return 0;
    }
    fprintf (stderr, "usage: opacity gen <seed> <ngroups> <ops> <impl> <oracle> | opacity exec <ops> <impl> <oracle>\n");
    return 2;
}

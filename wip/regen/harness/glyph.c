/* Correspondence harness for the glyph cache (C17).  White-box: includes pixman-glyph.c itself
 * (compiled with -DPIXMAN_VERIF -DPIXMAN_VERIF_GLYPH_HIGH_WATER=h -DPIXMAN_VERIF_GLYPH_LOW_WATER=l
 * for small tables), so that counters and table slots are observable.
 *   glyph exec <ops_in> <impl_out>
 * one history per line:  hist <hashsize> <high> <low> F T I:f:k L:f:k R:f:k U:f:k X:f:k ...
 * X:f:k = an insertion that the cache cannot honour: the image is a 2^28-pixel-wide a8r8g8b8 bits
 * image over caller storage (legal to describe), whose private copy pixman_image_create_bits
 * (format, 1<<28, 1, NULL, -1) cannot be allocated (width * bpp overflows) -- the same failure path
 * as a failing malloc of the copy, reached through the public API.
 * A lookup that does not terminate is observed through an CPU-time interval timer ("H | HANG"). */
#include "pixman-glyph.c"
#include <stdio.h>
#include <string.h>
#include <signal.h>
#include <setjmp.h>
#include <sys/time.h>

static sigjmp_buf jb;
static void on_alarm(int s){ (void)s; siglongjmp(jb,1); }
static void arm(int ms){ struct itimerval it={{0,0},{ms/1000,(ms%1000)*1000}}; setitimer(ITIMER_VIRTUAL,&it,NULL); }

#define MAXOPS 4096
static glyph_t *ids[MAXOPS];   /* glyph object created by the i-th operation */

static int id_of(const void *g){ for (int i=0;i<MAXOPS;i++) if (ids[i]==g) return i; return -1; }

int main(int argc,char**argv)
{
    if (argc<4 || strcmp(argv[1],"exec")) { fprintf(stderr,"usage: glyph exec <ops> <out>\n"); return 2; }
    FILE *fi=fopen(argv[2],"r"),*fo=fopen(argv[3],"w"); if(!fi||!fo) return 2;
    signal(SIGVTALRM,on_alarm);
    static uint32_t px[4]={0xff,0,0,0};
    pixman_image_t *img=pixman_image_create_bits(PIXMAN_a8,1,1,px,4);
    static uint32_t dpx[16];
    pixman_image_t *dst=pixman_image_create_bits(PIXMAN_a8r8g8b8,2,2,dpx,8);
    static uint32_t hugepx[4];
    pixman_image_t *huge=pixman_image_create_bits(PIXMAN_a8r8g8b8,1<<28,1,hugepx,4);
    if(!img||!huge){ fprintf(stderr,"glyph: setup failed\n"); return 2; }
    pixman_color_t white={0xffff,0xffff,0xffff,0xffff};
    pixman_image_t *src=pixman_image_create_solid_fill(&white);
    static char buf[1<<16];
    while (fgets(buf,sizeof buf,fi)) {
        char *tok[MAXOPS+8]; int nt=0; for(char*s=strtok(buf," \r\n");s&&nt<MAXOPS+8;s=strtok(NULL," \r\n")) tok[nt++]=s;
        if (nt<4 || strcmp(tok[0],"hist") || atoi(tok[1])!=HASH_SIZE || atoi(tok[2])!=N_GLYPHS_HIGH_WATER || atoi(tok[3])!=N_GLYPHS_LOW_WATER) { fprintf(fo,"bad-op\n"); continue; }
        memset(ids,0,sizeof ids);
        pixman_glyph_cache_t *c=pixman_glyph_cache_create();
        volatile int hung=0; int first=1;
        if (sigsetjmp(jb,1)) { hung=1; }
        else {
            arm(25);
            for (int i=4;i<nt;i++) {
                char *t=tok[i]; int opi=i-4; unsigned long f=0,k=0;
                if (t[1]==':') sscanf(t+2,"%lu:%lu",&f,&k);
                if (!first) fputc(' ',fo);
                first=0;
                switch (t[0]) {
                case 'F': pixman_glyph_cache_freeze(c); fputc('-',fo); break;
                case 'T': pixman_glyph_cache_thaw(c); fputc('-',fo); break;
                case 'I': { const void *g=pixman_glyph_cache_insert(c,(void*)f,(void*)k,0,0,img); if(g){ for(int q=0;q<MAXOPS;q++) if(ids[q]==g) ids[q]=NULL; /* address reuse */ ids[opi]=(glyph_t*)g; fprintf(fo,"I%d",opi);} else fputc('N',fo); break; }
                case 'X': { const void *g=pixman_glyph_cache_insert(c,(void*)f,(void*)k,0,0,huge); if(g){ for(int q=0;q<MAXOPS;q++) if(ids[q]==g) ids[q]=NULL; ids[opi]=(glyph_t*)g; fprintf(fo,"I%d",opi);} else fputc('N',fo); break; }
                case 'L': { const void *g=pixman_glyph_cache_lookup(c,(void*)f,(void*)k); if(g) fprintf(fo,"L%d",id_of(g)); else fprintf(fo,"L-"); break; }
                case 'R': pixman_glyph_cache_remove(c,(void*)f,(void*)k); fputc('-',fo); break;
                case 'U': { const void *g=pixman_glyph_cache_lookup(c,(void*)f,(void*)k); if(g){ pixman_glyph_t pg={0,0,g}; pixman_composite_glyphs_no_mask(PIXMAN_OP_OVER,src,dst,0,0,0,0,c,1,&pg);} fputc('-',fo); break; }
                default: fputc('?',fo);
                }
                fflush(fo);
            }
            arm(0);
        }
        if (hung) { /* the token of the hanging operation was not printed */ fprintf(fo,"H | HANG\n"); fflush(fo); continue; }
        fprintf(fo," | %d %d %d | ",c->n_glyphs,c->n_tombstones,c->freeze_count);
        for (int i=0;i<HASH_SIZE;i++){ glyph_t*g=c->glyphs[i]; if(i) fputc(',',fo); if(!g) fputc('.',fo); else if(g==TOMBSTONE) fputc('x',fo); else fprintf(fo,"%d",id_of(g)); }
        fprintf(fo," | ");
        { int n=0; for (pixman_link_t *l=c->mru.head; l!=(pixman_link_t*)&c->mru; l=l->next){ glyph_t*g=CONTAINER_OF(glyph_t,mru_link,l); fprintf(fo,"%s%d",n++?",":"",id_of(g)); } }
        fprintf(fo,"\n");
        /* destroy requires freeze_count == 0; leak otherwise (small) */
        if (c->freeze_count==0) pixman_glyph_cache_destroy(c);
    }
    return 0;
}

/* Correspondence + spec-oracle harness for the `composite` domain (C01, C09).
 *   composite gen <seed> <nbatches> <mode> <ops_out> <impl_out> <oracle_out>
 *       mode 0: C01 stream (all 8-bit operators x mask kinds x formats, edge-biased pixels)
 *       mode 1: C09 stream (paired presentations of opaque content; pairs must be bit-identical)
 *   composite exec <ops_in> <impl_out>
 * Request line:  op ca srcfmt maskfmt dstfmt s m d   (decimal raw pixel values in their formats;
 *   fmt = pixman format name, optionally "+r" (REPEAT_NORMAL set on the image), or "solid"
 *   (solid fill whose 8-bit a8r8g8b8 colour is the value), maskfmt "none" = no mask).
 * Reply line:    the destination pixel afterwards, restricted to the bits the format defines.
 * Consecutive lines with the same configuration form one 1-row composite of that many pixels
 * (so SIMD head/body/tail code runs on mixed neighbours).  The implementation chain is whatever
 * PIXMAN_DISABLE selects for this process.
 * The oracle evaluates the C01 Spec (Render factor table, rnd(x*y)=(2xy+255)/510, saturating sum,
 * bit-replicated fetch, truncating store; for the 8 integer PDF blend modes the exact integer numerator rule on
 * every format and the real-valued PDF equation within the proved 127/255 (Multiply 381/255) of a step)
 * independently of the Lean model and of the library. */
#ifdef HAVE_CONFIG_H
#include <config.h>
#endif
#include <stdio.h>
#include <stdlib.h>
#include <string.h>
#include <math.h>
#include "pixman.h"
#include "rng.h"

typedef struct { const char *name; pixman_format_code_t code; } fmt_t;
static const fmt_t FMTS[] = {
    {"a8r8g8b8", PIXMAN_a8r8g8b8}, {"x8r8g8b8", PIXMAN_x8r8g8b8}, {"a8b8g8r8", PIXMAN_a8b8g8r8},
    {"x8b8g8r8", PIXMAN_x8b8g8r8}, {"b8g8r8a8", PIXMAN_b8g8r8a8}, {"b8g8r8x8", PIXMAN_b8g8r8x8},
    {"r8g8b8a8", PIXMAN_r8g8b8a8}, {"r8g8b8x8", PIXMAN_r8g8b8x8},
    {"r5g6b5", PIXMAN_r5g6b5}, {"b5g6r5", PIXMAN_b5g6r5}, {"a1r5g5b5", PIXMAN_a1r5g5b5},
    {"x1r5g5b5", PIXMAN_x1r5g5b5}, {"a4r4g4b4", PIXMAN_a4r4g4b4}, {"x4r4g4b4", PIXMAN_x4r4g4b4},
    {"a1b5g5r5", PIXMAN_a1b5g5r5}, {"a4b4g4r4", PIXMAN_a4b4g4r4},
    {"a8", PIXMAN_a8}, {"r3g3b2", PIXMAN_r3g3b2}, {"a2r2g2b2", PIXMAN_a2r2g2b2}, {"a2b2g2r2", PIXMAN_a2b2g2r2},
    {"x4a4", PIXMAN_x4a4},
};
#define NFMT ((int)(sizeof FMTS/sizeof FMTS[0]))
#define SOLID (-2)
#define NONE (-1)

typedef struct { int fmt; int rep; } pres_t;    /* fmt index, SOLID or NONE; rep = REPEAT_NORMAL set */

/* ---------------------------------------------------------------- independent format codec (spec) */
static void shifts(pixman_format_code_t f, int *a, int *r, int *g, int *b)
{
    int A = PIXMAN_FORMAT_A(f), R = PIXMAN_FORMAT_R(f), G = PIXMAN_FORMAT_G(f), B = PIXMAN_FORMAT_B(f), bpp = PIXMAN_FORMAT_BPP(f);
    switch (PIXMAN_FORMAT_TYPE(f)) {
    case PIXMAN_TYPE_A:    *a = *r = *g = *b = 0; break;
    case PIXMAN_TYPE_ARGB: *b = 0; *g = B; *r = B + G; *a = B + G + R; break;
    case PIXMAN_TYPE_ABGR: *r = 0; *g = R; *b = R + G; *a = R + G + B; break;
    case PIXMAN_TYPE_BGRA: *b = bpp - B; *g = *b - G; *r = *g - R; *a = *r - A; break;
    case PIXMAN_TYPE_RGBA: *r = bpp - R; *g = *r - G; *b = *g - B; *a = *b - A; break;
    default: *a = *r = *g = *b = 0; break;
    }
    (void)A;
}
static uint32_t widen(uint32_t v, int n)            /* n-bit channel -> 8 bits by bit replication */
{
    if (n == 0) return 0;
    v &= (1u << n) - 1;
    uint32_t r = 0; int filled = 0;
    while (filled < 8) { int sh = 8 - filled - n; r |= sh >= 0 ? v << sh : v >> -sh; filled += n; }
    return r & 0xff;
}
static uint32_t spec_fetch(pixman_format_code_t f, uint32_t p)
{
    int as, rs, gs, bs; shifts(f, &as, &rs, &gs, &bs);
    int A = PIXMAN_FORMAT_A(f), R = PIXMAN_FORMAT_R(f), G = PIXMAN_FORMAT_G(f), B = PIXMAN_FORMAT_B(f);
    uint32_t a = A ? widen(p >> as, A) : 0xff;
    uint32_t r = R ? widen(p >> rs, R) : 0, g = G ? widen(p >> gs, G) : 0, b = B ? widen(p >> bs, B) : 0;
    return a << 24 | r << 16 | g << 8 | b;
}
static uint32_t spec_store(pixman_format_code_t f, uint32_t p)   /* truncation; undefined bits 0 */
{
    int as, rs, gs, bs; shifts(f, &as, &rs, &gs, &bs);
    int A = PIXMAN_FORMAT_A(f), R = PIXMAN_FORMAT_R(f), G = PIXMAN_FORMAT_G(f), B = PIXMAN_FORMAT_B(f);
    uint32_t v = 0;
    if (A) v |= ((p >> 24) >> (8 - A)) << as;
    if (R) v |= (((p >> 16) & 0xff) >> (8 - R)) << rs;
    if (G) v |= (((p >> 8) & 0xff) >> (8 - G)) << gs;
    if (B) v |= ((p & 0xff) >> (8 - B)) << bs;
    return v;
}
static uint32_t defined_bits(pixman_format_code_t f)
{
    int as, rs, gs, bs; shifts(f, &as, &rs, &gs, &bs);
    int A = PIXMAN_FORMAT_A(f), R = PIXMAN_FORMAT_R(f), G = PIXMAN_FORMAT_G(f), B = PIXMAN_FORMAT_B(f);
    uint32_t m = 0;
    if (A) m |= ((1u << A) - 1) << as;
    if (R) m |= ((1u << R) - 1) << rs;
    if (G) m |= ((1u << G) - 1) << gs;
    if (B) m |= ((1u << B) - 1) << bs;
    return m;
}
static uint32_t all_bits(pixman_format_code_t f) { int bpp = PIXMAN_FORMAT_BPP(f); return bpp == 32 ? 0xffffffffu : (1u << bpp) - 1; }

/* ---------------------------------------------------------------- Spec of C01 */
static long n_blend_exact, n_blend_real, n_blend_real_claim;   /* requests judged by the blend-mode oracles */
static int rnd255(int x, int y) { return (2 * x * y + 255) / 510; }
/* factor kinds: 0 zero, 1 one, 2 alpha, 3 1-alpha */
static const int FA[13] = {0, 1, 0, 1, 3, 2, 0, 3, 0, 2, 3, 3, 1};
static const int FB[13] = {0, 0, 1, 3, 1, 0, 2, 0, 3, 3, 2, 3, 1};
static int fac(int k, int alpha) { return k == 0 ? 0 : k == 1 ? 255 : k == 2 ? alpha : 255 - alpha; }
static int ch(uint32_t p, int c) { return (p >> (8 * c)) & 0xff; }       /* c: 0 b,1 g,2 r,3 a */
static int is_pd(int op) { return op >= 0 && op <= 12; }
static int is_blend(int op) { return op == 0x30 || op == 0x31 || op == 0x32 || op == 0x33 || op == 0x34 || op == 0x37 || op == 0x39 || op == 0x3a; }
static const int OPS8[] = {0,1,2,3,4,5,6,7,8,9,10,11,12, 0x30,0x31,0x32,0x33,0x34,0x37,0x39,0x3a};
#define NOPS8 21

/* masked source channel / per-channel source alpha; has_mask 0: none */
static void masked(uint32_t s, int has_mask, int ca, uint32_t m, int c, int *sc, int *sac)
{
    if (!has_mask) { *sc = ch(s, c); *sac = ch(s, 3); }
    else if (!ca) { *sc = rnd255(ch(s, c), ch(m, 3)); *sac = rnd255(ch(s, 3), ch(m, 3)); }
    else { *sc = rnd255(ch(s, c), ch(m, c)); *sac = rnd255(ch(m, c), ch(s, 3)); }
}
static uint32_t spec_pd(int op, uint32_t s, int has_mask, int ca, uint32_t m, uint32_t d)
{
    uint32_t out = 0;
    for (int c = 0; c < 4; c++) {
        int sc, sac; masked(s, has_mask, ca, m, c, &sc, &sac);
        int v = rnd255(sc, fac(FA[op], ch(d, 3))) + rnd255(ch(d, c), fac(FB[op], sac));
        if (v > 255) v = 255;
        out |= (uint32_t)v << (8 * c);
    }
    return out;
}
/* ---- integer PDF blend modes (Spec.PdfInt, Props/C01.lean pdfSeparable{U,Ca}_exact, combineMultiply*_spec):
 * exact for ALL inputs.  num = (255-sa)*d + (255-da)*s + 255^2*as*ab*B(cb/ab, cs/as) as an integer polynomial;
 * channel = num/255 to nearest after clamping to 255^2; alpha = (255*da + 255*sa - sa*da)/255 to nearest.
 * Multiply: three products rounded separately, saturating sum. */
static long blend_num(int op, long d, long da, long s, long sa)
{
    long a = sa * d, b = da * s;
    switch (op) {
    case 0x31: return s * da + d * sa - s * d;
    case 0x32: return 2 * d < da ? 2 * s * d : sa * da - 2 * (da - d) * (sa - s);
    case 0x33: return a < b ? a : b;
    case 0x34: return a > b ? a : b;
    case 0x37: return 2 * s < sa ? 2 * s * d : sa * da - 2 * (da - d) * (sa - s);
    case 0x39: return a > b ? a - b : b - a;
    case 0x3a: return s * da + d * sa - 2 * d * s;
    }
    return 0;
}
static int rnd_div255(long x) { return (int)((2 * x + 255) / 510); }
/* the exact Spec pixel; *neg set if a numerator is negative (the theorem num_nonneg says: never) */
static uint32_t spec_blend_exact(int op, uint32_t s, int has_mask, int ca, uint32_t m, uint32_t d, int *neg)
{
    uint32_t out = 0;
    for (int c = 0; c < 4; c++) {
        int sc, sac; masked(s, has_mask, ca, m, c, &sc, &sac);
        int dc = ch(d, c), da = ch(d, 3), v;
        if (op == 0x30) {
            v = rnd255(sc, 255 - da) + rnd255(dc, 255 - sac) + rnd255(dc, sc);
            if (v > 255) v = 255;
        } else if (c == 3) {
            v = rnd_div255(255L * da + 255L * sc - (long)sc * da);
        } else {
            long n = (255L - sac) * dc + (255L - da) * sc + blend_num(op, dc, da, sc, sac);
            if (n < 0) { *neg = 1; n = 0; }
            if (n > 65025) n = 65025;
            v = rnd_div255(n);
        }
        out |= (uint32_t)v << (8 * c);
    }
    return out;
}
/* PDF 32000 11.3.5 blend functions B(cb, cs) on non-premultiplied colours in [0, 1] */
static double pdf_B(int op, double cb, double cs)
{
    switch (op) {
    case 0x30: return cb * cs;
    case 0x31: return cb + cs - cb * cs;
    case 0x32: return cb <= 0.5 ? cs * (2 * cb) : cs + (2 * cb - 1) - cs * (2 * cb - 1);      /* HardLight(cs, cb) */
    case 0x33: return cb < cs ? cb : cs;
    case 0x34: return cb > cs ? cb : cs;
    case 0x37: return cs <= 0.5 ? cb * (2 * cs) : cb + (2 * cs - 1) - cb * (2 * cs - 1);
    case 0x39: return fabs(cb - cs);
    case 0x3a: return cb + cs - 2 * cb * cs;
    }
    return 0;
}
/* real-valued PDF equation 11.3.6 on premultiplied operands (masked source as the 8-bit pipeline rounds it);
 * tolerance = the proved bound: 127/255 of a step (Props/C01Pdf.lean pdf_channel_near, pdf_alpha_near),
 * Multiply 381/255 (multiply_channel_near).  Returns 1 if fine or no claim (not premultiplied). */
static int spec_blend_real(int op, uint32_t s, int has_mask, int ca, uint32_t m, uint32_t d, uint32_t got, char *why)
{
    double tol = (op == 0x30 ? 381.0 : 127.0) / 255.0 + 1e-9;
    for (int c = 0; c < 4; c++) {
        int sc, sac; masked(s, has_mask, ca, m, c, &sc, &sac);
        int dc = ch(d, c), da = ch(d, 3);
        if (sc > sac || dc > da) return 1;                  /* not premultiplied: no claim */
    }
    n_blend_real_claim++;
    for (int c = 0; c < 4; c++) {
        int sc, sac; masked(s, has_mask, ca, m, c, &sc, &sac);
        double cs = sc / 255.0, as = sac / 255.0, cb = ch(d, c) / 255.0, ab = ch(d, 3) / 255.0, r;
        if (c == 3 && op != 0x30) r = as + ab - as * ab;
        else r = (1 - as) * cb + (1 - ab) * cs + ((as == 0 || ab == 0) ? 0 : as * ab * pdf_B(op, cb / ab, cs / as));
        r *= 255.0;
        if (fabs(r - ch(got, c)) > tol) { sprintf(why, "channel %d: real-valued PDF result %.6f, got %d (tolerance %.6f)", c, r, ch(got, c), tol); return 0; }
    }
    return 1;
}

/* ---------------------------------------------------------------- running one batch on the library */
#define MAXN 64
typedef struct { int op, ca; pres_t src, mask, dst; int n; uint32_t s[MAXN], m[MAXN], d[MAXN], out[MAXN]; } batch_t;

static pixman_image_t *mk_image(pres_t p, int n, const uint32_t *vals, uint32_t **store)
{
    *store = NULL;
    if (p.fmt == SOLID) {
        uint32_t v = vals[0]; pixman_color_t c;
        c.alpha = (v >> 24) * 0x101; c.red = ((v >> 16) & 0xff) * 0x101; c.green = ((v >> 8) & 0xff) * 0x101; c.blue = (v & 0xff) * 0x101;
        return pixman_image_create_solid_fill(&c);
    }
    pixman_format_code_t f = FMTS[p.fmt].code;
    int bpp = PIXMAN_FORMAT_BPP(f);
    int stride = ((n * bpp + 31) / 32) * 4;
    uint32_t *bits = calloc(1, stride + 16);
    for (int i = 0; i < n; i++) {
        if (bpp == 32) bits[i] = vals[i];
        else if (bpp == 16) ((uint16_t *)bits)[i] = (uint16_t)vals[i];
        else ((uint8_t *)bits)[i] = (uint8_t)vals[i];
    }
    *store = bits;
    pixman_image_t *img = pixman_image_create_bits(f, n, 1, bits, stride);
    if (img && p.rep) pixman_image_set_repeat(img, PIXMAN_REPEAT_NORMAL);
    return img;
}
static void run_batch(batch_t *b)
{
    uint32_t *sb, *mb, *db;
    pixman_image_t *si = mk_image(b->src, b->n, b->s, &sb);
    pixman_image_t *mi = b->mask.fmt == NONE ? NULL : mk_image(b->mask, b->n, b->m, &mb);
    pixman_image_t *di = mk_image(b->dst, b->n, b->d, &db);
    if (b->mask.fmt == NONE) mb = NULL;
    if (!si || !di || (b->mask.fmt != NONE && !mi)) { fprintf(stderr, "image creation failed\n"); exit(3); }
    if (mi && b->ca) pixman_image_set_component_alpha(mi, 1);
    pixman_image_composite32((pixman_op_t)b->op, si, mi, di, 0, 0, 0, 0, 0, 0, b->n, 1);
    pixman_format_code_t f = FMTS[b->dst.fmt].code;
    int bpp = PIXMAN_FORMAT_BPP(f);
    uint32_t def = defined_bits(f);
    for (int i = 0; i < b->n; i++) {
        uint32_t v = bpp == 32 ? db[i] : bpp == 16 ? ((uint16_t *)db)[i] : ((uint8_t *)db)[i];
        b->out[i] = v & def;
    }
    pixman_image_unref(si); if (mi) pixman_image_unref(mi); pixman_image_unref(di);
    free(sb); free(mb); free(db);
}

static void pres_str(pres_t p, char *o)
{
    if (p.fmt == SOLID) strcpy(o, "solid");
    else if (p.fmt == NONE) strcpy(o, "none");
    else sprintf(o, "%s%s", FMTS[p.fmt].name, p.rep ? "+r" : "");
}
static int parse_pres(const char *t, pres_t *p)
{
    char buf[64]; strncpy(buf, t, 63); buf[63] = 0; p->rep = 0;
    char *plus = strchr(buf, '+');
    if (plus) { if (strcmp(plus, "+r")) return 0; p->rep = 1; *plus = 0; }
    if (!strcmp(buf, "solid")) { p->fmt = SOLID; return !p->rep; }
    if (!strcmp(buf, "none")) { p->fmt = NONE; return !p->rep; }
    for (int i = 0; i < NFMT; i++) if (!strcmp(buf, FMTS[i].name)) { p->fmt = i; return 1; }
    return 0;
}
static uint32_t fetch_pres(pres_t p, uint32_t v) { return p.fmt == SOLID ? v : spec_fetch(FMTS[p.fmt].code, v); }

static long lineno;
static void emit_batch(batch_t *b, FILE *fi, FILE *fr)
{
    char ss[64], ms[64], ds[64]; pres_str(b->src, ss); pres_str(b->mask, ms); pres_str(b->dst, ds);
    for (int i = 0; i < b->n; i++) {
        fprintf(fi, "%d %d %s %s %s %u %u %u\n", b->op, b->ca, ss, ms, ds, b->s[i], b->mask.fmt == NONE ? 0 : b->m[i], b->d[i]);
        fprintf(fr, "%u\n", b->out[i]);
    }
}
/* spec oracle over a finished batch; lineno = number of lines before this batch */
static void oracle_batch(batch_t *b, FILE *fo)
{
    pixman_format_code_t df = FMTS[b->dst.fmt].code;
    uint32_t def = defined_bits(df);
    for (int i = 0; i < b->n; i++) {
        uint32_t s = fetch_pres(b->src, b->s[i]);
        uint32_t m = b->mask.fmt == NONE ? 0 : fetch_pres(b->mask, b->m[i]);
        uint32_t d = spec_fetch(df, b->d[i]);
        int has_mask = b->mask.fmt != NONE;
        if (is_pd(b->op)) {
            uint32_t want = spec_store(df, spec_pd(b->op, s, has_mask, b->ca, m, d)) & def;
            if (want != b->out[i])
                fprintf(fo, "ORACLE %ld spec %u got %u (fetched s=%08x m=%08x d=%08x)\n", lineno + i + 1, want, b->out[i], s, m, d);
        } else if (is_blend(b->op)) {
            int neg = 0;
            uint32_t px = spec_blend_exact(b->op, s, has_mask, b->ca, m, d, &neg);
            uint32_t want = spec_store(df, px) & def;
            n_blend_exact++;
            if (neg)
                fprintf(fo, "ORACLE %ld blend negative numerator (fetched s=%08x m=%08x d=%08x)\n", lineno + i + 1, s, m, d);
            else if (want != b->out[i])
                fprintf(fo, "ORACLE %ld blend exact integer rule %u got %u (fetched s=%08x m=%08x d=%08x)\n", lineno + i + 1, want, b->out[i], s, m, d);
            else if (PIXMAN_FORMAT_BPP(df) == 32 && PIXMAN_FORMAT_A(df) == 8) {
                /* only where the store loses nothing: compare the stored channels with the real-valued equation */
                uint32_t got = spec_fetch(df, b->out[i]); char why[160];
                n_blend_real++;
                if (!spec_blend_real(b->op, s, has_mask, b->ca, m, d, got, why))
                    fprintf(fo, "ORACLE %ld blend %s (fetched s=%08x m=%08x d=%08x)\n", lineno + i + 1, why, s, m, d);
            }
        }
    }
}

/* ---------------------------------------------------------------- generators */
static const int EDGE[] = {0, 1, 2, 0x7f, 0x80, 0xfe, 0xff};
static int edge_ch(void) { return rng_chance(80) ? EDGE[rng_n(7)] : rng_n(256); }
static uint32_t gen_argb(void)
{
    int k = rng_n(100);
    if (k < 6) return 0;
    if (k < 10) return 0xffffffffu;
    if (k < 45) {                                  /* valid premultiplied */
        int a = edge_ch(); uint32_t p = (uint32_t)a << 24;
        for (int c = 0; c < 3; c++) { int v = rng_chance(30) ? a : rng_chance(30) ? 0 : a ? rng_n(a + 1) : 0; p |= (uint32_t)v << (8 * c); }
        return p;
    }
    if (k < 55) { uint32_t p = 0xff000000u; for (int c = 0; c < 3; c++) p |= (uint32_t)edge_ch() << (8 * c); return p; }   /* opaque */
    if (k < 85) { uint32_t p = 0; for (int c = 0; c < 4; c++) p |= (uint32_t)edge_ch() << (8 * c); return p; }          /* any, super-luminescent included */
    return rng_u32();
}
static uint32_t gen_ca_mask(void)
{
    int k = rng_n(100);
    if (k < 8) return 0;
    if (k < 16) return 0xffffffffu;
    if (k < 50) { uint32_t p = 0; for (int c = 0; c < 4; c++) p |= (uint32_t)(rng_chance(40) ? 0 : edge_ch()) << (8 * c); return p; }   /* partly zero */
    if (k < 65) { uint32_t p = 0; for (int c = 0; c < 4; c++) p |= (uint32_t)(rng_chance(50) ? 0xff : edge_ch()) << (8 * c); return p; } /* partly one */
    return gen_argb();
}
/* raw pixel of presentation p carrying (the truncation of) colour v, random garbage in undefined bits */
static uint32_t raw_of(pres_t p, uint32_t v)
{
    if (p.fmt == SOLID) return v;
    pixman_format_code_t f = FMTS[p.fmt].code;
    uint32_t r = spec_store(f, v);
    uint32_t junk = all_bits(f) & ~defined_bits(f);
    if (junk && rng_chance(70)) r |= rng_u32() & junk;
    return r;
}
static int pick_fmt(int want_alpha_only_ok)
{
    (void)want_alpha_only_ok;
    int k = rng_n(100);
    if (k < 45) return 0;                       /* a8r8g8b8 */
    if (k < 55) return 1;                       /* x8r8g8b8 */
    if (k < 63) return 8;                       /* r5g6b5 */
    if (k < 70) return 16;                      /* a8 */
    return rng_n(NFMT);
}
static void gen_c01(batch_t *b)
{
    memset(b, 0, sizeof *b);
    b->op = rng_chance(75) ? rng_n(13) : OPS8[rng_n(NOPS8)];
    int mk = rng_n(100);     /* mask kind */
    b->src.fmt = rng_chance(15) ? SOLID : pick_fmt(1);
    b->dst.fmt = pick_fmt(1);
    if (rng_chance(4)) b->dst.rep = 1;
    if (b->src.fmt >= 0 && rng_chance(4)) b->src.rep = 1;
    if (mk < 25) b->mask.fmt = NONE;
    else if (mk < 45) { b->mask.fmt = rng_chance(70) ? 16 : pick_fmt(1); }            /* unified */
    else if (mk < 60) { b->mask.fmt = SOLID; }
    else if (mk < 90) { b->ca = 1; b->mask.fmt = rng_chance(75) ? 0 : pick_fmt(1); }  /* component alpha */
    else { b->ca = 1; b->mask.fmt = SOLID; }
    b->n = rng_chance(30) ? 1 + rng_n(4) : 1 + rng_n(19);
    uint32_t s0 = gen_argb(), m0 = b->ca ? gen_ca_mask() : gen_argb();
    int uniform = rng_chance(15);        /* rows of equal pixels hit the SIMD "all opaque / all zero" shortcuts */
    uint32_t us = gen_argb(), um = b->ca ? gen_ca_mask() : gen_argb();
    for (int i = 0; i < b->n; i++) {
        b->s[i] = raw_of(b->src, b->src.fmt == SOLID ? s0 : uniform ? us : gen_argb());
        if (b->mask.fmt != NONE) b->m[i] = raw_of(b->mask, b->mask.fmt == SOLID ? m0 : uniform ? um : b->ca ? gen_ca_mask() : gen_argb());
        b->d[i] = raw_of(b->dst, gen_argb());
    }
}

/* C09: one logical request (opaque source and/or mask and/or destination content) shown in several
 * presentations; every presentation is a batch; results must agree on the colour channels. */
static int c09_group(FILE *fi, FILE *fr, FILE *fo)
{
    batch_t base; memset(&base, 0, sizeof base);
    base.op = rng_chance(80) ? rng_n(13) : OPS8[rng_n(NOPS8)];
    base.n = 1 + rng_n(12);
    int which = rng_n(3);            /* 0: opaque source, 1: opaque mask, 2: opaque destination */
    uint32_t s0 = gen_argb() | 0xff000000u;
    base.src.fmt = 0; base.dst.fmt = 0; base.mask.fmt = NONE;
    if (which != 1 && rng_chance(50)) { base.mask.fmt = rng_chance(50) ? 16 : 0; base.ca = base.mask.fmt == 0 && rng_chance(50); }
    int solid_src = which == 0 && rng_chance(35);
    for (int i = 0; i < base.n; i++) {
        base.s[i] = which == 0 ? (solid_src ? s0 : (gen_argb() | 0xff000000u)) : gen_argb();
        base.m[i] = base.mask.fmt == NONE ? 0 : raw_of(base.mask, base.ca ? gen_ca_mask() : gen_argb());
        base.d[i] = which == 2 ? (gen_argb() | 0xff000000u) : gen_argb();
    }
    batch_t v[6]; int nv = 0; const char *vn[6];
    if (which == 0) {
        v[nv] = base; vn[nv++] = "src a8r8g8b8 alpha 255";
        v[nv] = base; v[nv].src.fmt = 1; for (int i = 0; i < base.n; i++) v[nv].s[i] = (base.s[i] & 0xffffff) | (rng_u32() & 0xff000000u); vn[nv++] = "src x8r8g8b8";
        v[nv] = base; v[nv].src.fmt = 1; v[nv].src.rep = 1; for (int i = 0; i < base.n; i++) v[nv].s[i] = base.s[i] & 0xffffff; vn[nv++] = "src x8r8g8b8 repeating";
        if (solid_src) { v[nv] = base; v[nv].src.fmt = SOLID; vn[nv++] = "src solid"; }
    } else if (which == 1) {
        /* unified opaque mask: absent / a8 0xff / a8r8g8b8 alpha 255 / x8r8g8b8 / solid */
        v[nv] = base; vn[nv++] = "no mask";
        v[nv] = base; v[nv].mask.fmt = 16; for (int i = 0; i < base.n; i++) v[nv].m[i] = 0xff; vn[nv++] = "mask a8 255";
        v[nv] = base; v[nv].mask.fmt = 0; for (int i = 0; i < base.n; i++) v[nv].m[i] = 0xff000000u | (rng_u32() & 0xffffff); vn[nv++] = "mask a8r8g8b8 alpha 255";
        v[nv] = base; v[nv].mask.fmt = 1; for (int i = 0; i < base.n; i++) v[nv].m[i] = rng_u32(); vn[nv++] = "mask x8r8g8b8";
        v[nv] = base; v[nv].mask.fmt = SOLID; for (int i = 0; i < base.n; i++) v[nv].m[i] = 0xff000000u | 0x123456; vn[nv++] = "mask solid alpha 255";
        v[nv] = base; v[nv].mask.fmt = SOLID; v[nv].ca = 1; for (int i = 0; i < base.n; i++) v[nv].m[i] = 0xffffffffu; vn[nv++] = "mask solid white component-alpha";
    } else {
        v[nv] = base; vn[nv++] = "dst a8r8g8b8 alpha 255";
        v[nv] = base; v[nv].dst.fmt = 1; for (int i = 0; i < base.n; i++) v[nv].d[i] = (base.d[i] & 0xffffff) | (rng_u32() & 0xff000000u); vn[nv++] = "dst x8r8g8b8";
        v[nv] = base; v[nv].dst.fmt = 1; v[nv].dst.rep = 1; for (int i = 0; i < base.n; i++) v[nv].d[i] = base.d[i] & 0xffffff; vn[nv++] = "dst x8r8g8b8 repeating (flagged opaque)";
        v[nv] = base; v[nv].dst.rep = 1; vn[nv++] = "dst a8r8g8b8 alpha 255 repeating";
    }
    long first[6];
    for (int k = 0; k < nv; k++) {
        run_batch(&v[k]);
        first[k] = lineno;
        emit_batch(&v[k], fi, fr);
        oracle_batch(&v[k], fo);
        lineno += v[k].n;
    }
    for (int k = 1; k < nv; k++)
        for (int i = 0; i < base.n; i++) {
            uint32_t a = v[0].out[i], b = v[k].out[i];
            /* compare what both presentations define: colour channels when a destination lacks alpha */
            uint32_t cmp = (PIXMAN_FORMAT_A(FMTS[v[0].dst.fmt].code) && PIXMAN_FORMAT_A(FMTS[v[k].dst.fmt].code)) ? 0xffffffffu : 0x00ffffffu;
            if ((a & cmp) != (b & cmp))
                fprintf(fo, "ORACLE %ld pair '%s' (line %ld: %u) differs from '%s' (%u)\n", first[k] + i + 1, vn[k], first[0] + i + 1, a, vn[0], b);
        }
    return nv;
}

static int split(char *line, char **tok, int max) { int n = 0; char *s = strtok(line, " \t\r\n"); while (s && n < max) { tok[n++] = s; s = strtok(NULL, " \t\r\n"); } return n; }

int main(int argc, char **argv)
{
    if (argc >= 8 && !strcmp(argv[1], "gen")) {
        rng_seed(strtoull(argv[2], 0, 10)); long n = atol(argv[3]); int mode = atoi(argv[4]);
        FILE *fi = fopen(argv[5], "w"), *fr = fopen(argv[6], "w"), *fo = fopen(argv[7], "w");
        if (!fi || !fr || !fo) return 2;
        for (long i = 0; i < n; i++) {
            if (mode == 1) { c09_group(fi, fr, fo); continue; }
            batch_t b; gen_c01(&b);
            run_batch(&b); emit_batch(&b, fi, fr); oracle_batch(&b, fo); lineno += b.n;
        }
        fprintf(fo, "STAT blend_exact %ld blend_real_compared %ld blend_real_premultiplied %ld\n", n_blend_exact, n_blend_real, n_blend_real_claim);
        fclose(fi); fclose(fr); fclose(fo); return 0;
    }
    if (argc >= 4 && !strcmp(argv[1], "exec")) {
        FILE *fi = fopen(argv[2], "r"), *fr = fopen(argv[3], "w"); if (!fi || !fr) return 2;
        FILE *fo = argc >= 5 ? fopen(argv[4], "w") : NULL;
        char buf[512], key[256], prev[256] = ""; char *tok[16];
        batch_t b; memset(&b, 0, sizeof b);
        #define FLUSH() do { if (b.n) { run_batch(&b); for (int q = 0; q < b.n; q++) fprintf(fr, "%u\n", b.out[q]); if (fo) oracle_batch(&b, fo); lineno += b.n; b.n = 0; } } while (0)
        while (fgets(buf, sizeof buf, fi)) {
            char copy[512]; strcpy(copy, buf);
            int nt = split(copy, tok, 16);
            batch_t nb; memset(&nb, 0, sizeof nb);
            if (nt != 8 || !parse_pres(tok[2], &nb.src) || !parse_pres(tok[3], &nb.mask) || !parse_pres(tok[4], &nb.dst) || nb.src.fmt == NONE || nb.dst.fmt < 0) {
                FLUSH(); prev[0] = 0; fprintf(fr, "bad-request\n"); lineno++; continue;
            }
            snprintf(key, sizeof key, "%s %s %s %s %s", tok[0], tok[1], tok[2], tok[3], tok[4]);
            int solid_change = b.n && ((nb.src.fmt == SOLID && strtoul(tok[5], 0, 10) != b.s[0]) || (nb.mask.fmt == SOLID && strtoul(tok[6], 0, 10) != b.m[0]));
            if (strcmp(key, prev) || b.n >= 32 || solid_change) { FLUSH(); strcpy(prev, key); b = nb; b.op = atoi(tok[0]); b.ca = atoi(tok[1]); b.n = 0; }
            b.s[b.n] = strtoul(tok[5], 0, 10); b.m[b.n] = strtoul(tok[6], 0, 10); b.d[b.n] = strtoul(tok[7], 0, 10); b.n++;
        }
        FLUSH();
        if (fo) fprintf(fo, "STAT blend_exact %ld blend_real_compared %ld blend_real_premultiplied %ld\n", n_blend_exact, n_blend_real, n_blend_real_claim);
        return 0;
    }
    fprintf(stderr, "usage: composite gen <seed> <nbatches> <mode> <ops> <impl> <oracle> | composite exec <ops> <impl> [oracle]\n");
    return 2;
}

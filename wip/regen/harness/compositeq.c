/* Correspondence harness for the `compositeq` domain: the float (wide) pipeline of C01.
 *   compositeq gen <seed> <nbatches> <ops_out> <impl_out>
 *   compositeq exec <ops_in> <impl_out>
 * Request line:  op ca srcfmt maskfmt dstfmt S M D
 *   fmt = pixman format name, "solid" (pixman_image_create_solid_fill) or, for the mask, "none";
 *   S M D = raw pixels, colon-separated decimal words: one word for packed formats, the binary32
 *   bit patterns r:g:b:a (r:g:b) for rgba_float (rgb_float), red:green:blue:alpha (16 bit each)
 *   for solid; M is 0 for "none".
 * Reply line:    the destination pixel afterwards in the same notation (packed formats: only the
 *   bits the format defines).
 * Consecutive lines with the same configuration (and the same solid colours) form one 1-row
 * composite of that many pixels through pixman_image_composite32.  The implementation chain is
 * whatever PIXMAN_DISABLE selects for this process.  The acceptance test (within one quantisation
 * step of the Rat model / of the Render-PDF equations) is done by `pixdrv compositeq`. */
#ifdef HAVE_CONFIG_H
#include <config.h>
#endif
#include <stdio.h>
#include <stdlib.h>
#include <string.h>
#include <math.h>
#include "pixman.h"
#include "rng.h"

enum { K_UNORM, K_SRGB, K_RGBAF, K_RGBF };
typedef struct { const char *name; pixman_format_code_t code; int kind; int wide; } fmt_t;
static const fmt_t FMTS[] = {
    {"a8r8g8b8", PIXMAN_a8r8g8b8, K_UNORM, 0},            /* 0 */
    {"x8r8g8b8", PIXMAN_x8r8g8b8, K_UNORM, 0},            /* 1 */
    {"a8", PIXMAN_a8, K_UNORM, 0},                        /* 2 */
    {"r5g6b5", PIXMAN_r5g6b5, K_UNORM, 0},                /* 3 */
    {"a8b8g8r8", PIXMAN_a8b8g8r8, K_UNORM, 0},            /* 4 */
    {"b8g8r8a8", PIXMAN_b8g8r8a8, K_UNORM, 0},            /* 5 */
    {"a1r5g5b5", PIXMAN_a1r5g5b5, K_UNORM, 0},            /* 6 */
    {"a4r4g4b4", PIXMAN_a4r4g4b4, K_UNORM, 0},            /* 7 */
    {"a2r10g10b10", PIXMAN_a2r10g10b10, K_UNORM, 1},      /* 8 */
    {"x2r10g10b10", PIXMAN_x2r10g10b10, K_UNORM, 1},      /* 9 */
    {"a2b10g10r10", PIXMAN_a2b10g10r10, K_UNORM, 1},      /* 10 */
    {"x2b10g10r10", PIXMAN_x2b10g10r10, K_UNORM, 1},      /* 11 */
    {"a8r8g8b8_sRGB", PIXMAN_a8r8g8b8_sRGB, K_SRGB, 1},   /* 12 */
    {"rgba_float", PIXMAN_rgba_float, K_RGBAF, 1},        /* 13 */
    {"rgb_float", PIXMAN_rgb_float, K_RGBF, 1},           /* 14 */
};
#define NFMT ((int)(sizeof FMTS/sizeof FMTS[0]))
#define F_ARGB32 0
#define F_A8 2
#define F_RGBAF 13
#define SOLID (-2)
#define NONE (-1)
static int no_srgb;     /* set by "nosrgb" in argv: leave the sRGB format out */

typedef struct { uint32_t w[4]; } pix_t;
static int nwords(int fmt) { return fmt == SOLID ? 4 : fmt == NONE ? 1 : FMTS[fmt].kind == K_RGBAF ? 4 : FMTS[fmt].kind == K_RGBF ? 3 : 1; }

static void shifts(pixman_format_code_t f, int *a, int *r, int *g, int *b)
{
    int R = PIXMAN_FORMAT_R(f), G = PIXMAN_FORMAT_G(f), B = PIXMAN_FORMAT_B(f), A = PIXMAN_FORMAT_A(f), bpp = PIXMAN_FORMAT_BPP(f);
    switch (PIXMAN_FORMAT_TYPE(f)) {
    case PIXMAN_TYPE_ARGB: case PIXMAN_TYPE_ARGB_SRGB: *b = 0; *g = B; *r = B + G; *a = B + G + R; break;
    case PIXMAN_TYPE_ABGR: *r = 0; *g = R; *b = R + G; *a = R + G + B; break;
    case PIXMAN_TYPE_BGRA: *b = bpp - B; *g = *b - G; *r = *g - R; *a = *r - A; break;
    case PIXMAN_TYPE_RGBA: *r = bpp - R; *g = *r - G; *b = *g - B; *a = *b - A; break;
    default: *a = *r = *g = *b = 0; break;
    }
}
static uint32_t defined_bits(pixman_format_code_t f)
{
    int as, rs, gs, bs; shifts(f, &as, &rs, &gs, &bs);
    int A = PIXMAN_FORMAT_A(f), R = PIXMAN_FORMAT_R(f), G = PIXMAN_FORMAT_G(f), B = PIXMAN_FORMAT_B(f);
    uint32_t m = 0;
    if (A) m |= ((1u << A) - 1) << as;
    if (R) m |= ((1u << R) - 1) << rs;
    if (G) m |= ((1u << G) - 1) << gs;
    if (B) m |= ((1u << B) - 1) << bs;
    return m;
}

/* ---------------------------------------------------------------- one batch on the library */
#define MAXN 32
typedef struct { int op, ca, src, mask, dst, n; pix_t s[MAXN], m[MAXN], d[MAXN], out[MAXN]; } batch_t;

static pixman_image_t *mk_image(int fmt, int n, const pix_t *vals, uint32_t **store)
{
    *store = NULL;
    if (fmt == SOLID) {
        pixman_color_t c; c.red = vals[0].w[0]; c.green = vals[0].w[1]; c.blue = vals[0].w[2]; c.alpha = vals[0].w[3];
        return pixman_image_create_solid_fill(&c);
    }
    pixman_format_code_t f = FMTS[fmt].code;
    int bpp = PIXMAN_FORMAT_BPP(f);
    int stride = ((n * bpp + 31) / 32) * 4;
    if (bpp == 128) stride = n * 16;
    uint32_t *bits = calloc(1, stride + 16);
    for (int i = 0; i < n; i++) {
        if (bpp == 128) memcpy(bits + 4 * i, vals[i].w, 16);
        else if (bpp == 96) memcpy(bits + 3 * i, vals[i].w, 12);
        else if (bpp == 32) bits[i] = vals[i].w[0];
        else if (bpp == 16) ((uint16_t *)bits)[i] = (uint16_t)vals[i].w[0];
        else ((uint8_t *)bits)[i] = (uint8_t)vals[i].w[0];
    }
    *store = bits;
    return pixman_image_create_bits(f, n, 1, bits, stride);
}
static void run_batch(batch_t *b)
{
    uint32_t *sb, *mb = NULL, *db;
    pixman_image_t *si = mk_image(b->src, b->n, b->s, &sb);
    pixman_image_t *mi = b->mask == NONE ? NULL : mk_image(b->mask, b->n, b->m, &mb);
    pixman_image_t *di = mk_image(b->dst, b->n, b->d, &db);
    if (!si || !di || (b->mask != NONE && !mi)) { fprintf(stderr, "image creation failed\n"); exit(3); }
    if (mi && b->ca) pixman_image_set_component_alpha(mi, 1);
    pixman_image_composite32((pixman_op_t)b->op, si, mi, di, 0, 0, 0, 0, 0, 0, b->n, 1);
    pixman_format_code_t f = FMTS[b->dst].code;
    int bpp = PIXMAN_FORMAT_BPP(f);
    for (int i = 0; i < b->n; i++) {
        memset(&b->out[i], 0, sizeof(pix_t));
        if (bpp == 128) memcpy(b->out[i].w, db + 4 * i, 16);
        else if (bpp == 96) memcpy(b->out[i].w, db + 3 * i, 12);
        else {
            uint32_t v = bpp == 32 ? db[i] : bpp == 16 ? ((uint16_t *)db)[i] : ((uint8_t *)db)[i];
            b->out[i].w[0] = v & defined_bits(f);
        }
    }
    pixman_image_unref(si); if (mi) pixman_image_unref(mi); pixman_image_unref(di);
    free(sb); free(mb); free(db);
}

static const char *fmt_str(int f) { return f == SOLID ? "solid" : f == NONE ? "none" : FMTS[f].name; }
static int parse_fmt(const char *t, int *f)
{
    if (!strcmp(t, "solid")) { *f = SOLID; return 1; }
    if (!strcmp(t, "none")) { *f = NONE; return 1; }
    for (int i = 0; i < NFMT; i++) if (!strcmp(t, FMTS[i].name)) { *f = i; return 1; }
    return 0;
}
static void pix_str(int fmt, const pix_t *p, char *o)
{
    int n = nwords(fmt); o[0] = 0;
    for (int i = 0; i < n; i++) sprintf(o + strlen(o), "%s%u", i ? ":" : "", fmt == NONE ? 0 : p->w[i]);
}
static int parse_pix(int fmt, const char *t, pix_t *p)
{
    memset(p, 0, sizeof *p);
    int n = nwords(fmt), i = 0; const char *s = t;
    while (i < 4) {
        char *e; unsigned long v = strtoul(s, &e, 10); if (e == s) return 0;
        p->w[i++] = (uint32_t)v; if (*e != ':') { if (*e) return 0; break; } s = e + 1;
    }
    return i == n;
}
static void emit_batch(batch_t *b, FILE *fi, FILE *fr)
{
    char ss[64], ms[64], ds[64], rs[64];
    for (int i = 0; i < b->n; i++) {
        pix_str(b->src, &b->s[i], ss); pix_str(b->mask, &b->m[i], ms); pix_str(b->dst, &b->d[i], ds); pix_str(b->dst, &b->out[i], rs);
        fprintf(fi, "%d %d %s %s %s %s %s %s\n", b->op, b->ca, fmt_str(b->src), fmt_str(b->mask), fmt_str(b->dst), ss, ms, ds);
        fprintf(fr, "%s\n", rs);
    }
}

/* ---------------------------------------------------------------- generators */
/* a logical colour: channels as fractions num/den of their own channel maximum, generated per
 * format so that every channel sits on edge values of ITS width. */
static uint32_t edge_val(uint32_t max)          /* 0, 1, max-1, max, the two middle values, or random */
{
    int k = rng_n(100);
    if (max <= 3) return rng_n(max + 1);
    if (k < 14) return 0;
    if (k < 24) return 1;
    if (k < 34) return max - 1;
    if (k < 50) return max;
    if (k < 60) return max / 2;            /* 0x7f */
    if (k < 70) return max / 2 + 1;        /* 0x80 */
    return (uint32_t)(rng_u64() % ((uint64_t)max + 1));
}
static float f_of(uint32_t k, uint32_t max) { return (float)((double)k / (double)max); }
static uint32_t fbits(float f) { uint32_t u; memcpy(&u, &f, 4); return u; }
static double srgb_to_linear(int c) { double x = c / 255.0; return x <= 0.04045 ? x / 12.92 : pow((x + 0.055) / 1.055, 2.4); }

/* kinds of pixel content */
enum { P_ZERO, P_WHITE, P_PREMUL, P_OPAQUE, P_GREY, P_ANY, P_RANDOM };
static int pick_kind(void)
{
    int k = rng_n(100);
    if (k < 5) return P_ZERO;
    if (k < 9) return P_WHITE;
    if (k < 50) return P_PREMUL;
    if (k < 60) return P_OPAQUE;
    if (k < 75) return P_GREY;
    if (k < 90) return P_ANY;
    return P_RANDOM;
}
/* channel maxima (a, r, g, b) of a packed/solid presentation; float formats use a virtual grid */
static void maxima(int fmt, uint32_t mx[4])
{
    if (fmt == SOLID) { mx[0] = mx[1] = mx[2] = mx[3] = 65535; return; }
    const fmt_t *F = &FMTS[fmt];
    if (F->kind == K_RGBAF || F->kind == K_RGBF) {
        static const uint32_t grids[] = {255, 1023, 65535, 4096, 3, 16};
        uint32_t g = grids[rng_n(6)]; mx[0] = mx[1] = mx[2] = mx[3] = g; return;
    }
    mx[0] = (1u << PIXMAN_FORMAT_A(F->code)) - 1; mx[1] = (1u << PIXMAN_FORMAT_R(F->code)) - 1;
    mx[2] = (1u << PIXMAN_FORMAT_G(F->code)) - 1; mx[3] = (1u << PIXMAN_FORMAT_B(F->code)) - 1;
}
/* largest channel value c (of maximum cm) with c/cm <= a/am, in the linear space of the format */
static uint32_t limit_for(int fmt, uint32_t a, uint32_t am, uint32_t cm)
{
    if (am == 0) return cm;                 /* no alpha channel: alpha is 1 */
    if (cm == 0) return 0;
    if (fmt >= 0 && FMTS[fmt].kind == K_SRGB) {
        int c = 255; while (c > 0 && srgb_to_linear(c) > (double)a / am + 1e-12) c--; return (uint32_t)c;
    }
    return (uint32_t)(((uint64_t)a * cm) / am);
}
static pix_t gen_pixel(int fmt, int kind)
{
    pix_t p; memset(&p, 0, sizeof p);
    uint32_t mx[4]; maxima(fmt, mx);
    uint32_t c[4];           /* a r g b */
    switch (kind) {
    case P_ZERO: c[0] = c[1] = c[2] = c[3] = 0; break;
    case P_WHITE: for (int i = 0; i < 4; i++) c[i] = mx[i]; break;
    case P_OPAQUE: c[0] = mx[0]; for (int i = 1; i < 4; i++) c[i] = edge_val(mx[i]); break;
    case P_PREMUL: case P_GREY: {
        c[0] = mx[0] ? edge_val(mx[0]) : 0;
        if (fmt == SOLID && rng_chance(35)) { static const uint32_t hi[] = {0xff00, 0xff01, 0xff7f, 0xff80, 0xfffe, 0xfeff, 0xffff}; c[0] = hi[rng_n(7)]; }
        uint32_t lim[4]; for (int i = 1; i < 4; i++) lim[i] = limit_for(fmt, c[0], mx[0], mx[i]);
        if (kind == P_GREY) {          /* exactly grey: the same fraction in every colour channel */
            uint32_t m = mx[1] < mx[2] ? mx[1] : mx[2]; if (mx[3] < m) m = mx[3];
            uint32_t l = lim[1] * (uint64_t)m / (mx[1] ? mx[1] : 1);
            uint32_t v = rng_chance(30) ? l : rng_chance(15) ? 0 : (uint32_t)(rng_u64() % ((uint64_t)l + 1));
            /* equal fractions need equal maxima (r5g6b5: only 0 and max are common) */
            if (mx[1] == mx[2] && mx[2] == mx[3]) c[1] = c[2] = c[3] = v;
            else { int top = rng_chance(50) && lim[1] == mx[1]; for (int i = 1; i < 4; i++) c[i] = top ? mx[i] : 0; }
        } else
            for (int i = 1; i < 4; i++) c[i] = rng_chance(30) ? lim[i] : rng_chance(20) ? 0 : rng_chance(20) && lim[i] ? lim[i] - 1 : (uint32_t)(rng_u64() % ((uint64_t)lim[i] + 1));
        break; }
    case P_ANY: for (int i = 0; i < 4; i++) c[i] = edge_val(mx[i]); break;          /* super-luminescent included */
    default: for (int i = 0; i < 4; i++) c[i] = (uint32_t)(rng_u64() % ((uint64_t)mx[i] + 1)); break;
    }
    if (fmt == SOLID) { p.w[0] = c[1]; p.w[1] = c[2]; p.w[2] = c[3]; p.w[3] = c[0]; return p; }
    const fmt_t *F = &FMTS[fmt];
    if (F->kind == K_RGBAF || F->kind == K_RGBF) {
        float v[4]; for (int i = 0; i < 4; i++) v[i] = f_of(c[i], mx[i]);
        if (kind == P_ANY && rng_chance(15)) v[1 + rng_n(3)] = rng_chance(50) ? 1.5f : 2.0f;      /* above 1: allowed in a float image */
        p.w[0] = fbits(v[1]); p.w[1] = fbits(v[2]); p.w[2] = fbits(v[3]); if (F->kind == K_RGBAF) p.w[3] = fbits(v[0]);
        return p;
    }
    int as, rs, gs, bs; shifts(F->code, &as, &rs, &gs, &bs);
    uint32_t v = 0;
    if (mx[0]) v |= c[0] << as;
    if (mx[1]) v |= c[1] << rs;
    if (mx[2]) v |= c[2] << gs;
    if (mx[3]) v |= c[3] << bs;
    uint32_t bpp = PIXMAN_FORMAT_BPP(F->code);
    uint32_t all = bpp == 32 ? 0xffffffffu : (1u << bpp) - 1, junk = all & ~defined_bits(F->code);
    if (junk && rng_chance(70)) v |= rng_u32() & junk;
    p.w[0] = v; return p;
}
static pix_t gen_ca_mask(int fmt)
{
    int k = rng_n(100);
    if (k < 8) return gen_pixel(fmt, P_ZERO);
    if (k < 16) return gen_pixel(fmt, P_WHITE);
    return gen_pixel(fmt, rng_chance(60) ? P_ANY : P_RANDOM);
}

static const int OPS_PD[] = {0,1,2,3,4,5,6,7,8,9,10,11,12,13};
static const int OPS_DIS[] = {0x10,0x11,0x12,0x13,0x14,0x15,0x16,0x17,0x18,0x19,0x1a,0x1b};
static const int OPS_CON[] = {0x20,0x21,0x22,0x23,0x24,0x25,0x26,0x27,0x28,0x29,0x2a,0x2b};
static const int OPS_SEP[] = {0x30,0x31,0x32,0x33,0x34,0x35,0x36,0x37,0x38,0x39,0x3a};
static const int OPS_HSL[] = {0x3b,0x3c,0x3d,0x3e};
static int pick_op(void)
{
    int k = rng_n(100);
    if (k < 22) return OPS_PD[rng_n(14)];
    if (k < 38) return OPS_DIS[rng_n(12)];
    if (k < 54) return OPS_CON[rng_n(12)];
    if (k < 80) return OPS_SEP[rng_n(11)];
    return OPS_HSL[rng_n(4)];
}
static int needs_division(int op)
{
    return op == 13 || (op >= 0x10 && op <= 0x1b) || (op >= 0x20 && op <= 0x2b) || op == 0x35 || op == 0x36 || op == 0x38 || (op >= 0x3b && op <= 0x3e);
}
static int pick_wide(void) { int f; do f = 8 + rng_n(7); while (no_srgb && FMTS[f].kind == K_SRGB); return f; }
static int pick_fmt(void)
{
    int k = rng_n(100);
    if (k < 30) return F_ARGB32;
    if (k < 36) return 1;
    if (k < 60) return pick_wide();
    if (k < 72) return F_RGBAF;
    if (k < 80) return 8;
    int f; do f = rng_n(NFMT); while (no_srgb && FMTS[f].kind == K_SRGB); return f;
}
static void gen_batch(batch_t *b)
{
    memset(b, 0, sizeof *b);
    b->op = pick_op();
    b->src = rng_chance(18) ? SOLID : pick_fmt();
    b->dst = pick_fmt();
    int mk = rng_n(100);
    if (mk < 25) b->mask = NONE;
    else if (mk < 45) b->mask = rng_chance(70) ? F_A8 : pick_fmt();                       /* unified */
    else if (mk < 60) b->mask = SOLID;
    else if (mk < 90) { b->ca = 1; b->mask = rng_chance(70) ? F_ARGB32 : pick_fmt(); }    /* component alpha */
    else { b->ca = 1; b->mask = SOLID; }
    /* make the request run in the wide pipeline: a division operator or a wide format somewhere
     * (an operator simplified by opacity may still end in the 8-bit pipeline: the driver then
     * compares with the narrow model) */
    int any_wide = (b->src >= 0 && FMTS[b->src].wide) || (b->mask >= 0 && FMTS[b->mask].wide) || FMTS[b->dst].wide;
    if (!needs_division(b->op) && !any_wide) {
        if (rng_chance(65)) b->dst = pick_wide(); else b->src = pick_wide();
    }
    b->n = rng_chance(40) ? 1 + rng_n(3) : 1 + rng_n(12);
    pix_t s0 = gen_pixel(b->src, pick_kind()), m0;
    if (b->mask != NONE) m0 = b->ca ? gen_ca_mask(b->mask) : gen_pixel(b->mask, pick_kind());
    for (int i = 0; i < b->n; i++) {
        b->s[i] = b->src == SOLID ? s0 : gen_pixel(b->src, pick_kind());
        if (b->mask != NONE) b->m[i] = b->mask == SOLID ? m0 : b->ca ? gen_ca_mask(b->mask) : gen_pixel(b->mask, pick_kind());
        b->d[i] = gen_pixel(b->dst, pick_kind());
    }
}

static int split(char *line, char **tok, int max) { int n = 0; char *s = strtok(line, " \t\r\n"); while (s && n < max) { tok[n++] = s; s = strtok(NULL, " \t\r\n"); } return n; }

int main(int argc, char **argv)
{
    for (int i = 1; i < argc; i++) if (!strcmp(argv[i], "nosrgb")) no_srgb = 1;
    if (argc >= 6 && !strcmp(argv[1], "gen")) {
        rng_seed(strtoull(argv[2], 0, 10)); long n = atol(argv[3]);
        FILE *fi = fopen(argv[4], "w"), *fr = fopen(argv[5], "w");
        if (!fi || !fr) return 2;
        for (long i = 0; i < n; i++) { batch_t b; gen_batch(&b); run_batch(&b); emit_batch(&b, fi, fr); }
        fclose(fi); fclose(fr); return 0;
    }
    if (argc >= 4 && !strcmp(argv[1], "exec")) {
        FILE *fi = fopen(argv[2], "r"), *fr = fopen(argv[3], "w"); if (!fi || !fr) return 2;
        char buf[1024], key[512], prev[512] = ""; char *tok[16];
        batch_t b; memset(&b, 0, sizeof b);
        #define FLUSH() do { if (b.n) { run_batch(&b); char rs[64]; for (int q = 0; q < b.n; q++) { pix_str(b.dst, &b.out[q], rs); fprintf(fr, "%s\n", rs); } b.n = 0; } } while (0)
        while (fgets(buf, sizeof buf, fi)) {
            char copy[1024]; strcpy(copy, buf);
            int nt = split(copy, tok, 16);
            batch_t nb; memset(&nb, 0, sizeof nb); pix_t ps, pm, pd;
            if (nt < 8 || !parse_fmt(tok[2], &nb.src) || !parse_fmt(tok[3], &nb.mask) || !parse_fmt(tok[4], &nb.dst) || nb.src == NONE || nb.dst < 0 ||
                !parse_pix(nb.src, tok[5], &ps) || !parse_pix(nb.mask, tok[6], &pm) || !parse_pix(nb.dst, tok[7], &pd)) {
                FLUSH(); prev[0] = 0; fprintf(fr, "bad-request\n"); continue;
            }
            snprintf(key, sizeof key, "%s %s %s %s %s %s %s", tok[0], tok[1], tok[2], tok[3], tok[4], nb.src == SOLID ? tok[5] : "", nb.mask == SOLID ? tok[6] : "");
            if (strcmp(key, prev) || b.n >= MAXN) { FLUSH(); strcpy(prev, key); b = nb; b.op = atoi(tok[0]); b.ca = atoi(tok[1]); b.n = 0; }
            b.s[b.n] = ps; b.m[b.n] = pm; b.d[b.n] = pd; b.n++;
        }
        FLUSH();
        fclose(fr); return 0;
    }
    fprintf(stderr, "usage: compositeq gen <seed> <nbatches> <ops> <impl> [nosrgb] | compositeq exec <ops> <impl>\n");
    return 2;
}

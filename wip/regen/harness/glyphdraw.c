/* Reference-composition harness for glyph drawing (C17, second phase).  Public API only.
 *   glyphdraw gen  <seed> <n> <ops_out>
 *   glyphdraw spots <ops_out>          (systematic absolute spot checks, see run_spot)
 *   glyphdraw exec <ops_in> <out>
 *
 * One request per line (all integers except the format names):
 *   draw E op dfmt dw dh  nclip (x1 y1 x2 y2)*  S ...source...  sx sy dx dy  mfmt mx my mw mh
 *        pixseed  ng (gfmt gw gh ox oy)*  nr (gi x y)*
 *   E      N = pixman_composite_glyphs_no_mask, M = pixman_composite_glyphs
 *   nclip  -1 = no clip region set on the destination, otherwise the clip is the union of the rectangles
 *   source "solid r g b a" (16-bit channels)  |  "bits fmt w h repeat" (repeat 0 none,1 normal,2 pad,3 reflect)
 *   mfmt.. only used by E = M (mask format, mask_x, mask_y, width, height)
 *   pixseed seeds the pixel contents (destination, bits source, every glyph, in this order)
 *   glyph set: format, size, origin; glyph run: index into the set and position
 *
 * For each request the library entry point draws into destination A and the reference composition
 * draws into an identical destination B:
 *   N: for each glyph of the run, in order,
 *        pixman_image_composite32 (op, src, glyph_img, B, sx + (x-ox), sy + (y-oy), 0, 0,
 *                                  dx + x-ox, dy + y-oy, gw, gh)
 *   M: mask := zeroed image of mfmt, mw x mh (component alpha for a8r8g8b8);
 *      for each glyph: pixman_image_composite32 (ADD, white, glyph_img, mask, 0,0,0,0, x-ox-mx, y-oy-my, gw, gh);
 *      pixman_image_composite32 (op, src, mask, B, sx, sy, 0, 0, dx, dy, mw, mh)
 * glyph_img is a separate image holding the same pixel data that was handed to the cache
 * (component alpha set for a8r8g8b8, as the cache does).  All bytes of A and B, including guard
 * rows above and below, must be equal.
 * Output: "ok <fnv of A> <changed bytes>"  or  "MISMATCH x y off a b nbad"  */
#ifdef HAVE_CONFIG_H
#include <config.h>
#endif
#include <stdio.h>
#include <stdlib.h>
#include <string.h>
#include <stdint.h>
#include "pixman.h"
#include "rng.h"

typedef struct { const char *name; pixman_format_code_t code; } fmt_t;
static const fmt_t FMTS[] = {
    {"a8r8g8b8", PIXMAN_a8r8g8b8}, {"x8r8g8b8", PIXMAN_x8r8g8b8}, {"a8b8g8r8", PIXMAN_a8b8g8r8},
    {"b8g8r8a8", PIXMAN_b8g8r8a8}, {"r5g6b5", PIXMAN_r5g6b5}, {"a1r5g5b5", PIXMAN_a1r5g5b5},
    {"a8", PIXMAN_a8}, {"a4", PIXMAN_a4}, {"a1", PIXMAN_a1}, {"r8g8b8", PIXMAN_r8g8b8},
    {"x8b8g8r8", PIXMAN_x8b8g8r8}, {"b8g8r8x8", PIXMAN_b8g8r8x8}, {"r8g8b8a8", PIXMAN_r8g8b8a8}, {"r8g8b8x8", PIXMAN_r8g8b8x8},
    {"a2r10g10b10", PIXMAN_a2r10g10b10}, {"x2r10g10b10", PIXMAN_x2r10g10b10}, {"a2b10g10r10", PIXMAN_a2b10g10r10},
    {"x14r6g6b6", PIXMAN_x14r6g6b6}, {"a8r8g8b8_sRGB", PIXMAN_a8r8g8b8_sRGB}, {"b8g8r8", PIXMAN_b8g8r8},
    {"b5g6r5", PIXMAN_b5g6r5}, {"x1r5g5b5", PIXMAN_x1r5g5b5}, {"a1b5g5r5", PIXMAN_a1b5g5r5},
    {"a4r4g4b4", PIXMAN_a4r4g4b4}, {"x4r4g4b4", PIXMAN_x4r4g4b4}, {"a4b4g4r4", PIXMAN_a4b4g4r4},
    {"r3g3b2", PIXMAN_r3g3b2}, {"b2g3r3", PIXMAN_b2g3r3}, {"a2r2g2b2", PIXMAN_a2r2g2b2}, {"a2b2g2r2", PIXMAN_a2b2g2r2},
    {"x4a4", PIXMAN_x4a4}, {"rgba_float", PIXMAN_rgba_float}, {"rgb_float", PIXMAN_rgb_float},
};
#define NFMT ((int)(sizeof FMTS/sizeof FMTS[0]))
static pixman_format_code_t fmt_code(const char *s){ for(int i=0;i<NFMT;i++) if(!strcmp(s,FMTS[i].name)) return FMTS[i].code; return 0; }

static const char *GFMT[] = {"a1","a4","a8","a8r8g8b8"};
static const char *DFMT[] = {"a8r8g8b8","x8r8g8b8","a8b8g8r8","r5g6b5","a8","a1","b8g8r8a8","a1r5g5b5","a4","r8g8b8"};
static const char *SFMT[] = {"a8r8g8b8","x8r8g8b8","r5g6b5","a8"};
/* every kind of mask format for pixman_composite_glyphs: alpha+colour (component alpha), alpha only, no alpha */
static const char *MFMT[] = {"a8r8g8b8","a8b8g8r8","b8g8r8a8","r8g8b8a8","a2r10g10b10","a2b10g10r10","a8r8g8b8_sRGB",
    "a1r5g5b5","a1b5g5r5","a4r4g4b4","a4b4g4r4","a2r2g2b2","a2b2g2r2","rgba_float",
    "a8","a4","a1","x4a4",
    "x8r8g8b8","x8b8g8r8","b8g8r8x8","r8g8b8x8","x2r10g10b10","x14r6g6b6","r8g8b8","b8g8r8","r5g6b5","b5g6r5",
    "x1r5g5b5","x4r4g4b4","r3g3b2","b2g3r3","rgb_float"};
#define NMFMT ((int)(sizeof MFMT/sizeof MFMT[0]))
/* unusual glyph formats (the cache accepts any bits image) */
static const char *GFMTX[] = {"a8b8g8r8","b8g8r8a8","x8r8g8b8","a4r4g4b4","r5g6b5","a1r5g5b5","a2r10g10b10","x4a4","r8g8b8a8"};
#define NGFMTX ((int)(sizeof GFMTX/sizeof GFMTX[0]))

/* private pixel-content generator (independent of the request generator) */
static uint64_t pst;
static uint64_t p64(void){ uint64_t z=(pst+=0x9E3779B97F4A7C15ULL); z=(z^(z>>30))*0xBF58476D1CE4E5B9ULL; z=(z^(z>>27))*0x94D049BB133111EBULL; return z^(z>>31); }

static int stride_of(pixman_format_code_t f,int w){ return ((w*PIXMAN_FORMAT_BPP(f)+31)/32)*4; }

/* style: 0 random, 1 all ones, 2 all zero, 3 mostly extreme bytes */
static void fill(uint8_t *p,size_t n){
    int style=(int)(p64()%8);
    for(size_t i=0;i<n;i++){
        uint8_t v=(uint8_t)p64();
        if(style==1) v=0xff; else if(style==2) v=0; else if(style==3){ int k=(int)(p64()%4); v = k==0?0:k==1?0xff:k==2?(uint8_t)(v&1?0x01:0xfe):v; }
        p[i]=v;
    }
}

#define GUARD_ROWS 2
typedef struct { pixman_image_t *img; uint8_t *buf; size_t total; int stride; } dimg_t;

static dimg_t make_dest(pixman_format_code_t f,int w,int h,const uint8_t *init){
    dimg_t d; d.stride=stride_of(f,w); d.total=(size_t)d.stride*(h+2*GUARD_ROWS);
    d.buf=malloc(d.total); memcpy(d.buf,init,d.total);
    d.img=pixman_image_create_bits(f,w,h,(uint32_t*)(d.buf+(size_t)d.stride*GUARD_ROWS),d.stride);
    return d;
}

#define MAXG 16
#define MAXR 32
#define MAXTOK 512

static int run_request(char **t,int nt,FILE *fo)
{
    int k=0;
#define NEXT() (k<nt? t[k++] : "0")
#define NI() atoi(NEXT())
    if (strcmp(NEXT(),"draw")) return -1;
    char E=NEXT()[0]; int op=NI();
    pixman_format_code_t dfmt=fmt_code(NEXT()); int dw=NI(),dh=NI();
    int nclip=NI(); pixman_box32_t clip[16]; if(nclip>16) return -1;
    for(int i=0;i<nclip;i++){ clip[i].x1=NI(); clip[i].y1=NI(); clip[i].x2=NI(); clip[i].y2=NI(); }
    const char *sk=NEXT(); int solid=!strcmp(sk,"solid");
    pixman_color_t col={0,0,0,0}; pixman_format_code_t sfmt=0; int sw=0,sh=0,srep=0;
    if(solid){ col.red=NI(); col.green=NI(); col.blue=NI(); col.alpha=NI(); }
    else { sfmt=fmt_code(NEXT()); sw=NI(); sh=NI(); srep=NI(); if(!sfmt) return -1; }
    int sx=NI(),sy=NI(),dx=NI(),dy=NI();
    pixman_format_code_t mfmt=fmt_code(NEXT()); int mx=NI(),my=NI(),mw=NI(),mh=NI();
    pst=strtoull(NEXT(),0,10)*0x9E3779B97F4A7C15ULL+77;
    int ng=NI(); if(ng<0||ng>MAXG||!dfmt||dw<1||dh<1) return -1;
    pixman_format_code_t gf[MAXG]; int gw[MAXG],gh[MAXG],gox[MAXG],goy[MAXG];
    for(int i=0;i<ng;i++){ gf[i]=fmt_code(NEXT()); gw[i]=NI(); gh[i]=NI(); gox[i]=NI(); goy[i]=NI(); if(!gf[i]||gw[i]<1||gh[i]<1) return -1; }
    int nr=NI(); if(nr<0||nr>MAXR) return -1;
    int ri[MAXR],rx[MAXR],ry[MAXR];
    for(int i=0;i<nr;i++){ ri[i]=NI(); rx[i]=NI(); ry[i]=NI(); if(ri[i]<0||ri[i]>=ng) return -1; }
    if (E=='M' && (!mfmt||mw<1||mh<1)) return -1;

    /* pixel contents */
    int dstride=stride_of(dfmt,dw); size_t dtotal=(size_t)dstride*(dh+2*GUARD_ROWS);
    uint8_t *dinit=malloc(dtotal); fill(dinit,dtotal);
    dimg_t A=make_dest(dfmt,dw,dh,dinit), B=make_dest(dfmt,dw,dh,dinit);
    pixman_image_t *src; uint8_t *sbuf=NULL;
    if(solid) src=pixman_image_create_solid_fill(&col);
    else {
        int ss=stride_of(sfmt,sw); sbuf=malloc((size_t)ss*sh); fill(sbuf,(size_t)ss*sh);
        src=pixman_image_create_bits(sfmt,sw,sh,(uint32_t*)sbuf,ss);
        pixman_image_set_repeat(src, srep==1?PIXMAN_REPEAT_NORMAL: srep==2?PIXMAN_REPEAT_PAD: srep==3?PIXMAN_REPEAT_REFLECT: PIXMAN_REPEAT_NONE);
    }
    if(nclip>=0){
        pixman_region32_t r; pixman_region32_init_rects(&r,clip,nclip);
        pixman_image_set_clip_region32(A.img,&r); pixman_image_set_clip_region32(B.img,&r);
        pixman_region32_fini(&r);
    }
    pixman_glyph_cache_t *cache=pixman_glyph_cache_create();
    pixman_glyph_cache_freeze(cache);
    pixman_image_t *gimg[MAXG]; uint8_t *gbuf[MAXG]; const void *gh_[MAXG];
    for(int i=0;i<ng;i++){
        int gs=stride_of(gf[i],gw[i]); gbuf[i]=malloc((size_t)gs*gh[i]); fill(gbuf[i],(size_t)gs*gh[i]);
        gimg[i]=pixman_image_create_bits(gf[i],gw[i],gh[i],(uint32_t*)gbuf[i],gs);
        gh_[i]=pixman_glyph_cache_insert(cache,(void*)(uintptr_t)1,(void*)(uintptr_t)(i+1),gox[i],goy[i],gimg[i]);
        if(!gh_[i]){ fprintf(fo,"insert-failed\n"); return 0; }
        if(PIXMAN_FORMAT_A(gf[i])!=0 && PIXMAN_FORMAT_RGB(gf[i])!=0) pixman_image_set_component_alpha(gimg[i],1);
    }
    pixman_glyph_t run[MAXR];
    for(int i=0;i<nr;i++){ run[i].x=rx[i]; run[i].y=ry[i]; run[i].glyph=gh_[ri[i]]; }

    if(E=='N'){
        pixman_composite_glyphs_no_mask((pixman_op_t)op,src,A.img,sx,sy,dx,dy,cache,nr,run);
        for(int i=0;i<nr;i++){
            int g=ri[i]; int X=rx[i]-gox[g], Y=ry[i]-goy[g];
            pixman_image_composite32((pixman_op_t)op,src,gimg[g],B.img,sx+X,sy+Y,0,0,dx+X,dy+Y,gw[g],gh[g]);
        }
    } else {
        pixman_composite_glyphs((pixman_op_t)op,src,A.img,mfmt,sx,sy,mx,my,dx,dy,mw,mh,cache,nr,run);
        pixman_image_t *mask=pixman_image_create_bits(mfmt,mw,mh,NULL,-1);
        if(PIXMAN_FORMAT_A(mfmt)!=0 && PIXMAN_FORMAT_RGB(mfmt)!=0) pixman_image_set_component_alpha(mask,1);
        pixman_color_t wc={0xffff,0xffff,0xffff,0xffff};
        pixman_image_t *white=pixman_image_create_solid_fill(&wc);
        for(int i=0;i<nr;i++){
            int g=ri[i];
            pixman_image_composite32(PIXMAN_OP_ADD,white,gimg[g],mask,0,0,0,0,rx[i]-gox[g]-mx,ry[i]-goy[g]-my,gw[g],gh[g]);
        }
        pixman_image_composite32((pixman_op_t)op,src,mask,B.img,sx,sy,0,0,dx,dy,mw,mh);
        pixman_image_unref(white); pixman_image_unref(mask);
    }

    size_t nbad=0,first=0,changed=0; uint64_t hsh=1469598103934665603ULL;
    for(size_t i=0;i<A.total;i++){
        if(A.buf[i]!=B.buf[i]){ if(!nbad) first=i; nbad++; }
        if(A.buf[i]!=dinit[i]) changed++;
        hsh=(hsh^A.buf[i])*1099511628211ULL;
    }
    if(nbad){
        long row=(long)(first/dstride)-GUARD_ROWS; int bpp=PIXMAN_FORMAT_BPP(dfmt);
        long colx=(long)((first%dstride)*8/bpp);
        fprintf(fo,"MISMATCH x=%ld y=%ld byte=%zu lib=%02x ref=%02x nbad=%zu\n",colx,row,first,A.buf[first],B.buf[first],nbad);
    } else fprintf(fo,"ok %016llx %zu\n",(unsigned long long)hsh,changed);

    pixman_glyph_cache_thaw(cache);
    pixman_glyph_cache_destroy(cache);
    for(int i=0;i<ng;i++){ pixman_image_unref(gimg[i]); free(gbuf[i]); }
    pixman_image_unref(src); free(sbuf);
    pixman_image_unref(A.img); pixman_image_unref(B.img); free(A.buf); free(B.buf); free(dinit);
    return 0;
}


/* ------------------------------------------------------------------ absolute spot checks
 *   spot E op mfmt gpix gw gh ox oy x y dx dy mx my mw mh
 * Destination a8r8g8b8 20x16, every pixel opaque black; source solid white; one a8r8g8b8 glyph whose
 * pixels are all `gpix` (alpha ff and exactly one colour channel ff: a colour glyph is a per-channel
 * mask).  op is SRC (1) or OVER (3).  The expected destination is computed here, without pixman:
 *   N: glyph box -> gpix, everything else untouched;
 *   M: inside the mask window: mask format with alpha and colour (component-alpha mask) -> gpix under
 *      the glyph; alpha-only mask -> white under the glyph; outside the glyph OVER leaves black,
 *      SRC writes 0; mask format without alpha = opaque mask -> white over the whole window. */
static int run_spot(char **t,int nt,FILE *fo)
{
    if(nt<17) return -1;
    char E=t[1][0]; int op=atoi(t[2]); pixman_format_code_t mfmt=fmt_code(t[3]);
    uint32_t gpix=(uint32_t)strtoul(t[4],0,16);
    int gw=atoi(t[5]),gh=atoi(t[6]),ox=atoi(t[7]),oy=atoi(t[8]),x=atoi(t[9]),y=atoi(t[10]);
    int dx=atoi(t[11]),dy=atoi(t[12]),mx=atoi(t[13]),my=atoi(t[14]),mw=atoi(t[15]),mh=atoi(t[16]);
    if(!mfmt||gw<1||gh<1||gw>32||gh>32||mw<1||mh<1||(op!=1&&op!=3)) return -1;
    enum { W=20, H=16 };
    static uint32_t dest[W*H], want[W*H], gp[32*32];
    for(int i=0;i<W*H;i++) dest[i]=want[i]=0xff000000u;
    for(int i=0;i<gw*gh;i++) gp[i]=gpix;
    pixman_image_t *d=pixman_image_create_bits(PIXMAN_a8r8g8b8,W,H,dest,W*4);
    pixman_image_t *g=pixman_image_create_bits(PIXMAN_a8r8g8b8,gw,gh,gp,gw*4);
    pixman_color_t wc={0xffff,0xffff,0xffff,0xffff};
    pixman_image_t *white=pixman_image_create_solid_fill(&wc);
    pixman_glyph_cache_t *cache=pixman_glyph_cache_create();
    pixman_glyph_cache_freeze(cache);
    const void *gl=pixman_glyph_cache_insert(cache,(void*)(uintptr_t)7,(void*)(uintptr_t)9,ox,oy,g);
    if(!gl){ fprintf(fo,"insert-failed\n"); return 0; }
    pixman_glyph_t run={x,y,gl};
    if(E=='N'){
        pixman_composite_glyphs_no_mask((pixman_op_t)op,white,d,0,0,dx,dy,cache,1,&run);
        for(int Y=0;Y<H;Y++) for(int X=0;X<W;X++){
            int gx=X-(dx+x-ox), gy=Y-(dy+y-oy);
            if(gx>=0&&gx<gw&&gy>=0&&gy<gh) want[Y*W+X]=gpix;
        }
    } else {
        pixman_composite_glyphs((pixman_op_t)op,white,d,mfmt,0,0,mx,my,dx,dy,mw,mh,cache,1,&run);
        int hasA=PIXMAN_FORMAT_A(mfmt)!=0, hasRGB=PIXMAN_FORMAT_RGB(mfmt)!=0;
        for(int Y=0;Y<H;Y++) for(int X=0;X<W;X++){
            int wx=X-dx, wy=Y-dy;                       /* mask coordinates */
            if(wx<0||wx>=mw||wy<0||wy>=mh) continue;    /* outside the composite window */
            int gx=wx-(x-ox-mx), gy=wy-(y-oy-my);
            int under=gx>=0&&gx<gw&&gy>=0&&gy<gh;
            uint32_t v;
            if(!hasA) v=0xffffffffu;
            else if(under) v= hasRGB? gpix : 0xffffffffu;
            else v= op==1? 0u : 0xff000000u;
            want[Y*W+X]=v;
        }
    }
    int nbad=0,fx=0,fy=0;
    for(int i=0;i<W*H;i++) if(dest[i]!=want[i]){ if(!nbad){fx=i%W;fy=i/W;} nbad++; }
    if(nbad) fprintf(fo,"SPOT-MISMATCH x=%d y=%d lib=%08x want=%08x nbad=%d\n",fx,fy,dest[fy*W+fx],want[fy*W+fx],nbad);
    else { int ch=0; for(int i=0;i<W*H;i++) if(dest[i]!=0xff000000u) ch++; fprintf(fo,"ok spot %d\n",ch); }
    pixman_glyph_cache_thaw(cache); pixman_glyph_cache_destroy(cache);
    pixman_image_unref(white); pixman_image_unref(g); pixman_image_unref(d);
    return 0;
}

static void gen_spots(FILE *fo)
{
    static const char *pix[]={"ffff0000","ff00ff00","ff0000ff"};
    static const int pos[][10]={ /* gw gh ox oy x y dx dy mx my */
        {5,4, 0,0, 3,2, 0,0, 0,0}, {6,6, 2,5, 1,3, 4,2, -1,-2}, {7,3, -2,-1, 14,12, 1,1, 3,0}, {3,9, 4,4, 0,0, 2,3, 0,2}, {1,1, 0,0, 19,15, 0,0, 1,1}};
    for(int e=0;e<2;e++) for(int o=0;o<2;o++) for(int c=0;c<3;c++) for(int q=0;q<5;q++){
        const int *P=pos[q];
        int nm = e? NMFMT : 1;
        for(int m=0;m<nm;m++) for(int wnd=0; wnd<(e?2:1); wnd++)
            fprintf(fo,"spot %c %d %s %s %d %d %d %d %d %d %d %d %d %d %d %d\n",e?'M':'N',o?3:1,MFMT[m],pix[c],
                    P[0],P[1],P[2],P[3],P[4],P[5],P[6],P[7],P[8],P[9], wnd?9:20, wnd?7:16);
    }
}

/* ------------------------------------------------------------------ generator */
static int edge(int lo,int hi){ /* edge-biased integer in [lo,hi] */
    int r=rng_n(10);
    if(r==0) return lo; if(r==1) return hi; if(r==2) return lo+1<=hi?lo+1:lo; if(r==3) return hi-1>=lo?hi-1:hi;
    return rng_range(lo,hi);
}

static void gen(FILE *fo,long n)
{
    for(long q=0;q<n;q++){
        char E = rng_chance(50)?'N':'M';
        int op=rng_range(0,13);
        const char *dfmt=DFMT[rng_chance(60)?rng_n(5):rng_n(10)];
        int dw=edge(1,40), dh=edge(1,24);
        fprintf(fo,"draw %c %d %s %d %d ",E,op,dfmt,dw,dh);
        int nclip = rng_chance(40)? -1 : rng_chance(8)? 0 : rng_range(1,4);
        fprintf(fo,"%d ",nclip);
        for(int i=0;i<nclip;i++){
            int x1=rng_range(-4,dw-1), y1=rng_range(-4,dh-1);
            int x2=x1+rng_range(rng_chance(5)?0:1,dw+6), y2=y1+rng_range(rng_chance(5)?0:1,dh+6);
            fprintf(fo,"%d %d %d %d ",x1,y1,x2,y2);
        }
        if(rng_chance(50)){
            int a = rng_chance(30)?0xffff: rng_chance(8)?0: (int)(rng_u32()&0xffff);
            fprintf(fo,"solid %d %d %d %d ",(int)(rng_u32()&0xffff),(int)(rng_u32()&0xffff),(int)(rng_u32()&0xffff),a);
        } else {
            fprintf(fo,"bits %s %d %d %d ",SFMT[rng_n(4)],edge(1,48),edge(1,32),rng_n(4));
        }
        int dx = rng_chance(50)?0:edge(-6,12), dy = rng_chance(50)?0:edge(-6,12);
        fprintf(fo,"%d %d %d %d ",rng_chance(40)?0:edge(-10,20),rng_chance(40)?0:edge(-10,20),dx,dy);
        int ng=rng_range(1,6);
        int gfi[MAXG]; const char *gname[MAXG];
        int uniform = rng_chance(35) ? rng_n(4) : -1;
        for(int i=0;i<ng;i++){ gfi[i]= uniform>=0?uniform:rng_n(4); gname[i]=GFMT[gfi[i]]; }
        for(int i=0;i<ng;i++) if(rng_chance(8)){ gname[i]=GFMTX[rng_n(NGFMTX)]; gfi[i]=3; }
        /* mask format: what pixman_glyph_get_mask_format would give (max alpha depth, argb if any colour glyph),
         * or one of the four usual ones, or any format at all */
        int mf=0; for(int i=0;i<ng;i++) if(gfi[i]>mf) mf=gfi[i];
        const char *mname=GFMT[mf];
        { int r=rng_n(100); if(r<15) mname=GFMT[rng_n(4)]; else if(r<55) mname=MFMT[rng_n(NMFMT)]; }
        int mx = rng_chance(40)?0:edge(-8,8), my = rng_chance(40)?0:edge(-8,8);
        int mw = rng_chance(50)? dw+rng_range(-2,4) : edge(1,44), mh = rng_chance(50)? dh+rng_range(-2,4) : edge(1,28);
        if(mw<1) mw=1; if(mh<1) mh=1;
        fprintf(fo,"%s %d %d %d %d ",mname,mx,my,mw,mh);
        fprintf(fo,"%llu ",(unsigned long long)(rng_u64()>>16));
        fprintf(fo,"%d ",ng);
        int gw[MAXG],gh[MAXG],ox[MAXG],oy[MAXG];
        for(int i=0;i<ng;i++){
            gw[i]=edge(1,12); gh[i]=edge(1,12); ox[i]=edge(-6,14); oy[i]=edge(-6,14);
            fprintf(fo,"%s %d %d %d %d ",gname[i],gw[i],gh[i],ox[i],oy[i]);
        }
        int nr=rng_range(1,10);
        fprintf(fo,"%d",nr);
        /* (tx,ty) = where the glyph's top-left corner lands in the destination */
        int px=rng_range(-4,dw/2), py=rng_range(-2,dh-1);
        int shiftx = E=='N' ? dx : dx-mx, shifty = E=='N' ? dy : dy-my;
        for(int i=0;i<nr;i++){
            int g=rng_n(ng);
            int tx,ty;
            if(rng_chance(65)){ tx=px; ty=py+rng_range(-1,1); px+=gw[g]+rng_range(-2,2); }   /* a text run: advancing pen */
            else if(rng_chance(15)){ tx=rng_chance(50)?-40:dw+40; ty=rng_range(-30,dh+30); }  /* wholly outside */
            else { tx=rng_range(-12,dw+2); ty=rng_range(-12,dh+2); }                         /* anywhere, often straddling an edge */
            fprintf(fo," %d %d %d",g,tx-shiftx+ox[g],ty-shifty+oy[g]);
        }
        fprintf(fo,"\n");
    }
}

int main(int argc,char **argv)
{
    if(argc>=5 && !strcmp(argv[1],"gen")){
        /* rng_seed(s) only shifts the one SplitMix64 sequence by s steps (state = (s+n)*K + c), so
         * nearby seeds would replay each other's requests: jump to a scrambled position instead */
        rng_seed(strtoull(argv[2],0,10)); rng_state = rng_u64() ^ (rng_u64()<<1);
        FILE *fo=fopen(argv[4],"w"); if(!fo) return 2;
        gen(fo,atol(argv[3])); fclose(fo); return 0;
    }
    if(argc>=3 && !strcmp(argv[1],"spots")){
        FILE *fo=fopen(argv[2],"w"); if(!fo) return 2; gen_spots(fo); fclose(fo); return 0;
    }
    if(argc>=4 && !strcmp(argv[1],"exec")){
        FILE *fi=fopen(argv[2],"r"),*fo=fopen(argv[3],"w"); if(!fi||!fo) return 2;
        static char buf[1<<15];
        while(fgets(buf,sizeof buf,fi)){
            char *tok[MAXTOK]; int nt=0; for(char *s=strtok(buf," \t\r\n");s&&nt<MAXTOK;s=strtok(NULL," \t\r\n")) tok[nt++]=s;
            if(nt==0){ fprintf(fo,"bad-op\n"); continue; }
            if(!strcmp(tok[0],"spot")){ if(run_spot(tok,nt,fo)<0) fprintf(fo,"bad-op\n"); continue; }
            if(run_request(tok,nt,fo)<0) fprintf(fo,"bad-op\n");
        }
        fclose(fo); return 0;
    }
    fprintf(stderr,"usage: glyphdraw gen <seed> <n> <ops_out> | exec <ops_in> <out>\n"); return 2;
}

"""C03 — drawing touches only the composite region; that region is the exact intersection."""
import collections, json, os, re, subprocess
from concurrent.futures import ThreadPoolExecutor
from engine.core import diff_streams, VERIF

REQUIRED = [
    "Pixman.Props.C03.compute_is_RCode",
    "Pixman.Props.C03.compute_points",
    "Pixman.Props.C03.compute_false_iff_empty",
    "Pixman.Props.C03.compute_canon",
    "Pixman.Props.C03.compute_subset_R",
    "Pixman.Props.C03.loop_boxes_cover",
    "Pixman.Props.C03.loop_origins_consistent",
    "Pixman.Props.C03.loop_covers_R",
    # RegionAlgebra discharged from Props/C05 + Props/C07 (Props/C03Final.lean): unconditional statements
    "Pixman.CompositeRegion.regionAlgebra",
    "Pixman.Props.C03.composite_region_exact",
    "Pixman.Props.C03.composite_region_false_iff_empty",
    "Pixman.Props.C03.composite_region_canon",
    "Pixman.Props.C03.composite_region_subset",
    "Pixman.Props.C03.composite_boxes_cover_R",
    # the drawing frame at model level (Props/C03Frame.lean on Lemmas/DrawFrame.lean): C10 scanline store x C03 region
    # x C17Draw glyph loops x C19 fills x C12 trapezoids
    "Pixman.DrawFrame.within_storeScanline",
    "Pixman.DrawFrame.within_bits",
    "Pixman.DrawFrame.composite_within",
    "Pixman.DrawFrame.compositeAlpha_bitsWithin",
    "Pixman.DrawFrame.glyphsNoMask_within",
    "Pixman.DrawFrame.FillFrame.fillBoxes_frame",
    "Pixman.DrawFrame.FillFrame.fillRectangles_frame",
    "Pixman.Props.C03Frame.composite_frame",
    "Pixman.Props.C03Frame.composite_alpha_frame",
    "Pixman.Props.C03Frame.fill_frame",
    "Pixman.Props.C03Frame.glyphs_frame",
    "Pixman.Props.C03Frame.glyphs_mask_frame",
    "Pixman.Props.C03Frame.trapezoid_frame_partial",
    "Pixman.Props.C03Frame.trapezoids_mask_frame",
    "Pixman.Props.C03Frame.drawing_touches_only_region_partial",
]


# ------------------------------------------------------------------ compregion streams
def parse_request(line):
    """Light parser of a compregion request (for statistics only)."""
    t = line.split()
    pos = [9]

    def region():
        k = t[pos[0]]
        n = int(t[pos[0] + 5])
        pos[0] += 6 + 4 * n
        return k, n

    def core():
        w, h, have, cs, cc = (int(v) for v in t[pos[0]:pos[0] + 5])
        pos[0] += 5
        k, n = region()
        return {"w": w, "h": h, "have": have, "cs": cs, "cc": cc, "kind": k, "n": n}

    def image():
        c = core()
        a = None
        has = int(t[pos[0]]); pos[0] += 1
        if has:
            pos[0] += 2
            a = core()
        c["alpha"] = a
        return c
    d = image(); s = image()
    m = None
    has = int(t[pos[0]]); pos[0] += 1
    if has:
        m = image()
    return {"op": t[0], "args": [int(v) for v in t[1:9]], "dest": d, "src": s, "mask": m}


def compregion_signature(kind, line, text):
    op = line.split(" ", 1)[0]
    t = re.sub(r"\(-?\d+,-?\d+\)", "(P)", text)
    t = re.sub(r"reported \d", "reported", t)
    t = re.sub(r"says \d", "says", t)
    t = re.sub(r"box \d+", "box", t)
    t = re.sub(r"^\S+: ", "", t)
    tag = text.split(":", 1)[0] if kind.startswith("oracle") else op
    if tag == "cr16-wide":
        return "cr16-wide|region16 cannot hold coordinates beyond 32767: truncated by pixman_region16_copy_from_region32"
    return f"{tag}|{kind}|{t}"


def run_compregion(ctx, nsteps, nstreams):
    b = ctx.build_pixman("plain")
    exe = ctx.cc("compregion", ["compregion.c"], b, extra=["-w"])
    cdir = VERIF / "corpus" / "compregion"
    corpus = sorted(cdir.glob("*.txt")) if cdir.exists() else []

    def one(i):
        d = ctx.scratch / f"cr{i}"
        d.mkdir(exist_ok=True)
        ops, impl, orc, model = d / "ops.txt", d / "impl.txt", d / "oracle.txt", d / "model.txt"
        if i < len(corpus):
            ops.write_text(corpus[i].read_text())
            subprocess.run([str(exe), "exec", str(ops), str(impl), str(orc)], stderr=subprocess.DEVNULL)
        else:
            subprocess.run([str(exe), "gen", str(ctx.seed * 1000 + i), str(nsteps), str(ops), str(impl), str(orc)],
                           stderr=subprocess.DEVNULL)
        ctx.pixdrv("compregion", ops, model)
        return ops, impl, orc, model

    with ThreadPoolExecutor(max_workers=16) as ex:
        results = list(ex.map(one, range(len(corpus) + nstreams)))

    findings = []
    probes = collections.Counter()
    hist = collections.Counter()
    flags = collections.Counter()
    total = 0
    nontrivial = set()
    samples = []
    for ops, impl, orc, model in results:
        n, dis = diff_streams(ops, impl, model, limit=5000)
        total += n
        lines = ops.read_text().split("\n")
        outs = impl.read_text().split("\n")
        for l, o in zip(lines, outs):
            if not l:
                continue
            op = l.split(" ", 1)[0]
            ot = o.split()
            ret = ot[0] if ot else "?"
            hist[f"{op}:ret={ret}"] += 1
            if ret == "1":
                multi = (len(ot) > 1 and ot[1] == "H") or (op == "loop" and len(ot) > 1 and int(ot[1]) > 1)
                hist[f"{op}:{'multi-rectangle result' if multi else 'single-rectangle result'}"] += 1
                if " H " in l:
                    nontrivial.add(hash(l))
                    if multi and len(samples) < 4 and len(l) < 260:
                        samples.append(l + "  ->  " + o)
        for l in lines[:4000]:
            if not l:
                continue
            try:
                r = parse_request(l)
            except Exception:
                continue
            for who in ("src", "mask"):
                im = r[who]
                if im:
                    flags[f"{who}: have_clip={im['have']} clip_sources={im['cs']} client_clip={im['cc']}"] += 1
                    if im["alpha"]:
                        a = im["alpha"]
                        flags[f"{who} alpha map: have_clip={a['have']} applies={int(a['have'] and a['cs'] and a['cc'])}"] += 1
            d = r["dest"]
            flags[f"dest: have_clip={d['have']} kind={d['kind'] if d['have'] else '-'}"] += 1
            if d["alpha"]:
                flags[f"dest alpha map: have_clip={d['alpha']['have']}"] += 1
        orc_lines = orc.read_text().splitlines()
        wild = {int(ol.split()[1]) for ol in orc_lines if ol.startswith("RANGE ")}
        probes["probed"] += len(wild)
        # a consulted clip that is not a region (not canonical): outside `Canon clip` of RangeOK, so no oracle
        # line; nothing in C is undefined there, so a model/implementation difference stays a finding
        probes["non-canonical clip consulted (model comparison binding)"] += sum(1 for ol in orc_lines if ol.startswith("NONCANON "))
        for (ln, op, a, m) in dis:
            if ln in wild:
                # outside the no-overflow range (signed overflow in C): informational only
                probes["model(wrap-around) differs"] += 1
                continue
            findings.append(("disagree", op, a, m, "model and implementation differ"))
        for ol in orc_lines:
            mm = re.match(r"ORACLE (\d+) (.*)", ol.strip())
            if not mm:
                continue
            ln, text = int(mm.group(1)), mm.group(2)
            opline = lines[ln - 1] if 0 < ln <= len(lines) else "?"
            findings.append(("oracle", opline, outs[ln - 1] if ln <= len(outs) else None, None, text))
    ctx.cov["evaluations"] += total
    ctx.cov["distinct_nontrivial"] += len(nontrivial)
    ctx.cov["traces_validated_against_impl"] += total
    ctx.cov["samples"] += samples
    ctx.extra["compregion_histogram"] = dict(hist)
    ctx.extra["excluded_points_probed"] = dict(probes, note="'probed': cr32 requests outside the theorem's no-overflow range (int overflow in "
                                               "dest+width, dest-src or clip box + translation): real code run and compared with the "
                                               "model's explicit wrap-around; not part of the verdict.  'non-canonical clip': requests whose "
                                               "consulted clip is not a region (e.g. data == NULL with x1 == x2, written field by field): "
                                               "outside `Canon clip` of RangeOK, no oracle line; the comparison with the model is part of "
                                               "the verdict")
    ctx.extra["compregion_flag_combinations_sampled"] = dict(flags)
    groups = collections.OrderedDict()
    for kind, line, a, m, text in findings:
        groups.setdefault(compregion_signature(kind, line, text), []).append((kind, line, a, m, text))
    shown = 0
    for sig, items in groups.items():
        kind, line, a, m, text = min(items, key=lambda it: len(it[1]))
        if shown >= 6:
            break
        if ctx.violation({"kind": kind, "request": line, "implementation": a, "model": m, "oracle": text,
                          "count_in_run": len(items),
                          "how_to_replay": "printf '%s\\n' \"<request>\" > ops.txt; compregion exec ops.txt impl.txt oracle.txt; "
                                           "lean/.lake/build/bin/pixdrv compregion < ops.txt"},
                         signature=sig, what=f"{line.split(' ', 1)[0]}: {text}", tag=line.split(" ", 1)[0]):
            shown += 1


# ------------------------------------------------------------------ drawing-frame oracle
FRAME_CONFIGS_QUICK = [("default", None), ("general-only", "fast mmx sse2 ssse3")]
FRAME_CONFIGS_THOROUGH = FRAME_CONFIGS_QUICK + [("fast+general", "mmx sse2 ssse3"), ("mmx+fast+general", "sse2 ssse3")]


def frame_signature(res):
    """VIOLATION <which>-buffer <where> changed xx->yy[ [cause: ...]] | <kind> <op> <fmt> WxH clip=n"""
    left, _, right = res.partition(" | ")
    kind = right.split(" ")[0] if right else "?"
    m = re.search(r"\[cause: ([^\]]*)\]", left)
    if m:
        k = "fill" if kind.startswith("fill_") else kind
        return f"frame|{k}|{m.group(1)}"
    where = re.sub(r"-?\d+", "N", re.sub(r" changed .*", "", left.replace("VIOLATION ", "")))
    return f"frame|{kind}|{where}"


def run_frame(ctx, nsteps, nstreams):
    b = ctx.build_pixman("plain")
    exe = ctx.cc("frame", ["frame.c"], b, extra=["-w"])
    cdir = VERIF / "corpus" / "frame"
    corpus = sorted(cdir.glob("*.txt")) if cdir.exists() else []
    configs = FRAME_CONFIGS_QUICK if ctx.tier == "quick" else FRAME_CONFIGS_THOROUGH

    def one(job):
        i, (cname, disable) = job
        d = ctx.scratch / f"fr{i}"
        d.mkdir(exist_ok=True)
        ops, out = d / "ops.txt", d / f"out-{cname}.txt"
        if not ops.exists():
            if i < len(corpus):
                ops.write_text(corpus[i].read_text())
            else:
                subprocess.run([str(exe), "gen", str(ctx.seed * 1000 + i), str(nsteps), str(ops)], stderr=subprocess.DEVNULL)
        env = dict(os.environ)
        env.pop("PIXMAN_DISABLE", None)
        if disable:
            env["PIXMAN_DISABLE"] = disable
        subprocess.run([str(exe), "exec", str(ops), str(out)], stderr=subprocess.DEVNULL, stdout=subprocess.DEVNULL, env=env)
        return i, cname, disable, ops, out

    n_all = len(corpus) + nstreams
    # generate once per stream (first config), then the other configs in parallel
    with ThreadPoolExecutor(max_workers=16) as ex:
        first = list(ex.map(one, [(i, configs[0]) for i in range(n_all)]))
        rest = list(ex.map(one, [(i, c) for i in range(n_all) for c in configs[1:]]))
    hist = collections.Counter()
    groups = collections.OrderedDict()
    total = 0
    drawn = set()
    samples = []
    for i, cname, disable, ops, out in first + rest:
        lines = ops.read_text().split("\n")
        res = out.read_text().split("\n") if out.exists() else []
        lines = [l for l in lines if l]
        res = [r for r in res if r]
        total += len(res)
        if len(res) < len(lines):
            crash = lines[len(res)]
            groups.setdefault("frame|crash", []).append((crash, "(the harness process died on this request)", cname, disable))
        for l, r in zip(lines, res):
            t = r.split(" ")
            if t[0] == "ok":
                hist[f"{t[1]}"] += 1
                hist[f"format {t[3]}"] += 1
                if t[1] == "composite":
                    hist[f"operator {t[2]}"] += 1
                ch = int(t[5].split("=")[1])
                if ch > 0:
                    hist[f"{t[1]}: drew something"] += 1
                    drawn.add(hash(l))
                    if len(samples) < 2 and len(l) < 200 and cname == "default":
                        samples.append(l + "  ->  " + r)
            elif t[0] == "VIOLATION":
                hist["violation lines"] += 1
                groups.setdefault(frame_signature(r), []).append((l, r, cname, disable))
            else:
                hist["bad-op"] += 1
    ctx.cov["evaluations"] += total
    ctx.cov["distinct_nontrivial"] += len(drawn)
    ctx.cov["samples"] += samples
    ctx.extra["frame_histogram"] = dict(hist)
    ctx.extra["frame_configurations"] = [c[0] + (f' (PIXMAN_DISABLE="{c[1]}")' if c[1] else "") for c in configs]
    shown = 0
    for sig, items in groups.items():
        l, r, cname, disable = min(items, key=lambda it: len(it[0]))
        if shown >= 6:
            break
        if ctx.violation({"kind": "frame-oracle", "request": l, "result": r, "configuration": cname,
                          "env": {"PIXMAN_DISABLE": disable or ""}, "count_in_run": len(items),
                          "how_to_replay": "printf '%s\\n' \"<request>\" > ops.txt; PIXMAN_DISABLE=\"<env>\" frame exec ops.txt out.txt "
                                           "(harness/frame.c linked to the freshly built libpixman)"},
                         signature=sig, what=r.split(" | ")[0] + " | " + " ".join(r.split(" | ")[1].split(" ")[:3]) if " | " in r else r,
                         tag="frame"):
            shown += 1


def run(ctx):
    broken = ctx.lean_obligations("Pixman.Props.C03", REQUIRED, extra_modules=["Pixman.Props.C03Final", "Pixman.Props.C03Frame"])
    quick = ctx.tier == "quick"
    ctx.cov["samples"] = []
    run_compregion(ctx, 12000 if quick else 400000, 8 if quick else 16)
    run_frame(ctx, 20000 if quick else 600000, 8 if quick else 16)
    ctx.cov["rule"] = (
        "compregion: generated scenarios (destination, source, optional mask, each with optional alpha map; clips built "
        "through the region API — single, multi-rectangle, covers with holes, empty; plus a malformed 'one rectangle without area' "
        "written field by field, which is outside the theorem (Canon clip) and compared with the model only — drawn in destination "
        "space and moved into the image's space; every clip_sources x client_clip x have_clip combination; request "
        "rectangles inside / partly / wholly outside, zero sizes; a 'big' class with dimensions and coordinates at 2^15, "
        "2^16, 2^30, INT32 limits kept inside the no-overflow range of the theorem) run through "
        "_pixman_compute_composite_region32, the public 16-bit entry and the box loop of pixman_image_composite32 "
        "(observed with a recording composite function); each request replayed through the Lean model (return value, "
        "region kind, extents and every rectangle compared, also on FALSE) and — when it satisfies the hypotheses RangeOK of "
        "the theorems: no int overflow, consulted clips canonical — through a first-principles point oracle on "
        "the grid of all edge coordinates +-1 (membership, return value, canonical form incl. merged bands); non-trivial = distinct request that returns TRUE and has a "
        "multi-rectangle clip.  frame: generated drawing requests (composite32 with 13 operators incl. float-pipeline ones, "
        "solid / bits sources with and without transform, repeat, bilinear, optional mask incl. component alpha, source and "
        "mask clips with all flag combinations, destination clip, destination alpha map; fill_boxes / fill_rectangles; "
        "glyphs with and without mask; composite_trapezoids; add_traps) onto canary-filled destinations of 11 formats "
        "(a1, a4, r8g8b8, r5g6b5, a8, a8r8g8b8, x8r8g8b8, b8g8r8, r3g3b2, a4r4g4b4, a2r10g10b10) with padded strides and "
        "guard rows, under each implementation chain; every bit outside the per-pixel first-principles region must be "
        "unchanged; non-trivial (frame) = distinct request that changed at least one destination bit")
    if broken and not ctx.violations:
        ctx.broken_obligations_verdict(broken, "composite-region correspondence, point oracle and drawing-frame oracle found no failing input")
    ctx.assumptions += [
        "no allocation failure (C15)",
        "int arithmetic of the C code exact: dest_x+width, dest_y+height, dest-src, dest-mask, clip box + translation inside "
        "int32 (generator stays inside; the model writes the conversions explicitly)",
        "every clip region the code consults is a region (canonical: RangeOK.dest_clip, DestAlphaOK, ClipOK, AlphaOK). A "
        "pixman_region32_t with data == NULL and x1 >= x2 ('one rectangle' without a point) cannot be built with the region "
        "API; as a clip it can make _pixman_compute_composite_region32 return TRUE with that empty rectangle (see "
        "corpus/compregion/2.txt and the examples at the end of Props/C03.lean)",
        "alpha-map clips: exactness of the reported region is claimed for alpha maps without a clip region; with one the "
        "oracle checks the intersection as coded and 'reported subset of the exact intersection'",
    ]


def replay(ctx, path):
    obj = json.loads(open(path).read())
    req = obj.get("request")
    if not req:
        print("replay file has no request line")
        return
    b = ctx.build_pixman("plain")
    if req.split(" ", 1)[0] == "frame":
        exe = ctx.cc("frame", ["frame.c"], b, extra=["-w"])
        ops = ctx.scratch / "ops.txt"
        ops.write_text(req + "\n")
        env = dict(os.environ)
        env.pop("PIXMAN_DISABLE", None)
        dis = (obj.get("env") or {}).get("PIXMAN_DISABLE")
        if dis:
            env["PIXMAN_DISABLE"] = dis
        subprocess.run([str(exe), "exec", str(ops), str(ctx.scratch / "out.txt")], stderr=subprocess.DEVNULL, env=env)
        res = (ctx.scratch / "out.txt").read_text().strip()
        print("request:", req)
        print("result :", res or "(process died)")
        if not res.startswith("ok"):
            ctx.violation(obj, signature=obj.get("signature"), what=obj.get("what", ""), tag="replay")
        return
    if req.split(" ", 1)[0] in ("cr32", "cr16", "loop"):
        exe = ctx.cc("compregion", ["compregion.c"], b, extra=["-w"])
        ops = ctx.scratch / "ops.txt"
        ops.write_text(req + "\n")
        subprocess.run([str(exe), "exec", str(ops), str(ctx.scratch / "impl.txt"), str(ctx.scratch / "orc.txt")],
                       stderr=subprocess.DEVNULL)
        subprocess.run(["lake", "build", "pixdrv"], cwd=VERIF / "lean", stdout=subprocess.DEVNULL)
        ctx.pixdrv("compregion", ops, ctx.scratch / "model.txt")
        print("request       :", req)
        print("implementation:", (ctx.scratch / "impl.txt").read_text().strip())
        print("model         :", (ctx.scratch / "model.txt").read_text().strip())
        orc_text = (ctx.scratch / "orc.txt").read_text().strip()
        marker = orc_text.split(" ", 1)[0] if orc_text else ""
        print("oracle        :", {"RANGE": "(not evaluated: int overflow, outside RangeOK)",
                                  "NONCANON": "(not evaluated: a consulted clip is not canonical, outside RangeOK; model comparison binding)"}
              .get(marker, orc_text or "(passes)"))
        if "ORACLE " in orc_text or (ctx.scratch / "impl.txt").read_text() != (ctx.scratch / "model.txt").read_text():
            ctx.violation(obj, signature=obj.get("signature"), what=obj.get("what", ""), tag="replay")

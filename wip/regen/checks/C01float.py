"""C01, float-evaluated part: operators or formats that `general_composite_rect` runs in the wide
(binary32) pipeline.  `run_float(ctx)`: 1xN composites through pixman_image_composite32
(harness/compositeq.c) under both implementation chains; every destination pixel must lie within one
quantisation step of the destination format of (a) the Lean Rat model of pixman-combine-float.c
(`Pixman.Model.CombineQ` + `WidePipeline`) and (b) the independent Render/PDF equations
(`Pixman.Spec.PdfBlend`), both evaluated by `pixdrv compositeq`."""
import collections, json, os, shutil, subprocess
from concurrent.futures import ProcessPoolExecutor
from engine.core import count_lines, log, VERIF

P = "Pixman.Props.C01Float."
REQUIRED_FLOAT = [P + n for n in [
    # get_factor table = Render definition (all alphas in [0,1], alpha 0 / 1 edges included); results in [0,1]
    "getFactor_unit", "pdFactors_render", "pdCombine_render", "pdCombine_unit", "mul_minFactor_le", "mul_maxFactor_le", "pd_no_clamp_premultiplied", "add_clamp_active",
    # masks
    "combineInner_unified_spec", "combineInner_ca_spec", "combineInner_nomask_spec", "combineInner_opaque_mask",
    # consistency with the operator simplifications of C09
    "over_opaque_source_is_src", "saturate_opaque_source_is_over_reverse", "in_opaque_dest_is_src", "out_opaque_dest_is_clear",
    "xor_opaque_source_is_out", "atop_opaque_source_is_in", "out_reverse_opaque_source_is_clear", "in_reverse_opaque_source_is_dst",
    "over_translucent_is_not_src",
    # separable blend modes = PDF formula (alpha > 0), alpha = 0 edges, whole channel, ranges
    "blendMultiply_pdf", "blendScreen_pdf", "blendOverlay_pdf", "blendDarken_pdf", "blendLighten_pdf", "blendColorDodge_pdf",
    "blendColorBurn_pdf", "blendHardLight_pdf", "blendSoftLight_pdf", "blendDifference_pdf", "blendExclusion_pdf",
    "blend_zero_edge", "sepCombineC_pdf", "sepCombineA_unit", "separable_unit", "blendSoftLight_unit", "sepCombineC_unit",
    # HSL helpers
    "getLum_spec", "channelMin_spec", "channelMax_spec", "getSat_spec", "getLum_shift", "clipColor_keeps_lum",
    "getLum_setLum_noclip", "getLum_setLum", "setSat_grey", "setSat_spec", "getSat_setSat", "clipColor_spec", "setLum_spec",
    # homogeneity (premultiplied evaluation = alpha_s*alpha_b x evaluation on un-premultiplied colours); HSL modes = PDF functions
    "channelMin_scale", "channelMax_scale", "getLum_scale", "getSat_scale", "clipColor_scale", "setLum_scale", "setSat_scale",
    "blendHslHue_normalised", "blendHslSaturation_normalised", "blendHslColor_normalised", "blendHslLuminosity_normalised",
    "setLum_spec_unit", "toColor_scale", "lum_unit", "hslBlend_pdf_pos", "setLum_zero", "hslBlend_zero_edge", "hsl_pixel_pdf", "combineHslU_mask", "hsl_pixel_masked_pdf",
    "hsl_alpha_unit",
    # the narrow/wide decision and the wide flag of the formats = regenerated source expressions
    "runsNarrow_regenerated", "generalIsNarrow_false_iff", "runsWide_iff", "needsDivision_table", "formats_wide_flag",
    # widening then narrowing in the same format = identity (reuses the float theorems of C10); sRGB table
    "unormToQ_eq", "unormToQ_field", "widen_narrow_channel", "packed_widths", "store_channel", "widen_narrow_id_packed",
    "widen_narrow_id_full", "toLinearQ_eq", "srgb_table_monotone", "widen_narrow_id_srgb", "f32ToRat_eq",
]]

CONFIGS = [("default", ""), ("general-only", "fast mmx sse2 ssse3")]
OPNAME = {0: "CLEAR", 1: "SRC", 2: "DST", 3: "OVER", 4: "OVER_REVERSE", 5: "IN", 6: "IN_REVERSE", 7: "OUT", 8: "OUT_REVERSE",
          9: "ATOP", 10: "ATOP_REVERSE", 11: "XOR", 12: "ADD", 13: "SATURATE"}
for base, pre in ((0x10, "DISJOINT_"), (0x20, "CONJOINT_")):
    for i, n in enumerate(["CLEAR", "SRC", "DST", "OVER", "OVER_REVERSE", "IN", "IN_REVERSE", "OUT", "OUT_REVERSE", "ATOP", "ATOP_REVERSE", "XOR"]):
        OPNAME[base + i] = pre + n
for i, n in enumerate(["MULTIPLY", "SCREEN", "OVERLAY", "DARKEN", "LIGHTEN", "COLOR_DODGE", "COLOR_BURN", "HARD_LIGHT", "SOFT_LIGHT",
                       "DIFFERENCE", "EXCLUSION", "HSL_HUE", "HSL_SATURATION", "HSL_COLOR", "HSL_LUMINOSITY"]):
    OPNAME[0x30 + i] = n
TRIVIAL_OPS = {0, 2, 0x10, 0x12, 0x20, 0x22}
WIDE = {"a2r10g10b10", "x2r10g10b10", "a2b10g10r10", "x2b10g10r10", "a8r8g8b8_sRGB", "rgba_float", "rgb_float"}

RULE = ("1-row composites of 1..12 pixels through pixman_image_composite32, once per implementation chain (default; "
        "PIXMAN_DISABLE='fast mmx sse2 ssse3'), same requests under both: all 63 operators (22% Porter-Duff/ADD/SATURATE, 16% DISJOINT, "
        "16% CONJOINT, 26% separable PDF, 20% HSL) x {no mask, unified a8/other, solid, component-alpha a8r8g8b8/other, component-alpha "
        "solid} x source bits or solid fill (16-bit colours, alpha 0xff00..0xfffe included) x 15 formats (a8r8g8b8, x8r8g8b8, a8, r5g6b5, "
        "a8b8g8r8, b8g8r8a8, a1r5g5b5, a4r4g4b4, the four 10-bit formats, a8r8g8b8_sRGB, rgba_float, rgb_float); every request has a "
        "division operator or a wide format; pixels: channels 70% from {0,1,max-1,max,mid,mid+1} of their own width, zero / white / "
        "premultiplied (colour at, just below, far below alpha) / opaque / exactly grey / super-luminescent / random; every line judged "
        "by the Lean Rat model and the Render/PDF Spec; non-trivial = not CLEAR/DST, wide pipeline, translucent source alpha or "
        "non-extreme mask, distinct by request text")


def env_for(disable):
    e = dict(os.environ)
    e.pop("PIXMAN_DISABLE", None)
    if disable:
        e["PIXMAN_DISABLE"] = disable
    return e


def mask_kind(t):
    if t[3] == "none":
        return "none"
    return ("ca" if t[1] == "1" else "unified") + ("-solid" if t[3] == "solid" else "")


def fmt_class(f):
    return f


def batch_around(lines, ln):
    def key(l):
        t = l.split(" ")
        return t[:5] + ([t[5]] if len(t) > 5 and t[2] == "solid" else []) + ([t[6]] if len(t) > 6 and t[3] == "solid" else [])
    k = key(lines[ln - 1])
    a = ln - 1
    while a > 0 and key(lines[a - 1]) == k and ln - 1 - a < 32:
        a -= 1
    b = ln
    while b < len(lines) and lines[b] and key(lines[b]) == k and b - ln < 32:
        b += 1
    return lines[a:b]


def translucent(t):
    """cheap syntactic test: the source alpha or the mask is neither 0 nor full"""
    if t[3] != "none" and t[6] not in ("0", "255", "4294967295", "4278190080", "65535:65535:65535:65535", "0:0:0:0"):
        return True
    s = t[5].split(":")
    if t[2] == "solid":
        return s[3] not in ("0", "65535")
    if t[2] in ("a8r8g8b8", "a8b8g8r8", "a8r8g8b8_sRGB"):
        return 0 < (int(s[0]) >> 24) < 255
    if t[2] in ("a2r10g10b10", "a2b10g10r10"):
        return 0 < (int(s[0]) >> 30) < 3
    if t[2] == "rgba_float":
        return s[3] not in ("0", "1065353216")
    return False


def _job(args):
    (exe, pixdrv, d, cname, disable, kind, corpus_path, seed, nbatches) = args
    os.makedirs(d, exist_ok=True)
    ops, impl, req, model = (os.path.join(d, n) for n in ("ops.txt", "impl.txt", "req.txt", "model.txt"))
    r1 = r2 = None
    for attempt in range(3):
        if kind == "corpus":
            with open(corpus_path) as f, open(ops, "w") as g:     # corpus lines may carry a recorded result: drop it
                for l in f:
                    t = l.split()
                    if t and not l.startswith("#"):
                        g.write(" ".join(t[:8]) + "\n")
            r1 = subprocess.run([exe, "exec", ops, impl], env=env_for(disable), stdout=subprocess.DEVNULL, stderr=subprocess.PIPE, text=True)
        else:
            r1 = subprocess.run([exe, "gen", str(seed), str(nbatches), ops, impl], env=env_for(disable), stdout=subprocess.DEVNULL,
                                stderr=subprocess.PIPE, text=True)
        with open(ops) as fo, open(impl) as fi, open(req, "w") as fr:
            for a, b in zip(fo, fi):
                fr.write(a.rstrip("\n") + " " + b)
        with open(req) as fi, open(model, "w") as fo:
            r2 = subprocess.run([pixdrv, "compositeq"], stdin=fi, stdout=fo, stderr=subprocess.PIPE, text=True)
        if r1.returncode == 0 and r2.returncode == 0 and count_lines(ops) == count_lines(impl) == count_lines(model):
            break
    res = dict(cname=cname, findings=[], hist_op=collections.Counter(), hist_mask=collections.Counter(), hist_fmt=collections.Counter(),
               hist_verdict=collections.Counter(), nontrivial=0, samples=[], n=0)
    lines = open(ops).read().split("\n")
    impl_lines = open(impl).read().split("\n")
    model_lines = open(model).read().split("\n")
    nreq = len(lines) - (1 if lines and lines[-1] == "" else 0)
    n = min(nreq, len(model_lines) - (1 if model_lines and model_lines[-1] == "" else 0))
    res["n"] = n
    if n != nreq or n == 0:
        res["findings"].append(dict(kind="stream", config=cname, disable=disable, line="(stream)", impl=None, text=
                                    f"stream incomplete: {n} judged of {nreq} requests; harness exit {r1.returncode} {r1.stderr[-200:]!r}; "
                                    f"driver exit {r2.returncode} {r2.stderr[-200:]!r}; seed {seed}", batch=[]))
    nt = set()
    per_sig = collections.Counter()
    for i in range(n):
        l, v = lines[i], model_lines[i]
        t = l.split(" ")
        tag = v.split(" ")[0]
        res["hist_verdict"][tag] += 1
        if cname == "default":
            op = int(t[0])
            res["hist_op"][OPNAME.get(op, str(op))] += 1
            res["hist_mask"][mask_kind(t)] += 1
            res["hist_fmt"][f"{t[2]}->{t[4]}"] += 1
            if op not in TRIVIAL_OPS and tag != "ok-narrow" and translucent(t):
                nt.add(l)
                if len(res["samples"]) < 2 and len(nt) % 499 == 1:
                    res["samples"].append(l + " -> " + impl_lines[i])
        if tag in ("BAD", "SPEC", "bad-request"):
            f = dict(kind={"BAD": "model-disagree", "SPEC": "oracle-spec"}.get(tag, "bad-request"), config=cname,
                     disable=disable, line=l, impl=impl_lines[i], text=v, batch=[])
            sig = signature(f)
            per_sig[sig] += 1
            if per_sig[sig] <= 12:          # a frequent family must not crowd out a rare one
                f["batch"] = batch_around(lines, i + 1)
                res["findings"].append(f)
    res["nontrivial"] = len(nt)
    shutil.rmtree(d, ignore_errors=True)
    return res


def signature(f):
    t = f["line"].split(" ")
    if len(t) < 5:
        return f"float|{f['kind']}|{f['config']}"
    op = int(t[0])
    opn = OPNAME.get(op, t[0])
    if f["kind"] == "oracle-spec" and 0x3b <= op <= 0x3e and t[3] != "none" and t[1] == "0":
        # the HSL combiners with a unified mask: one family per operator, whatever the formats and the chain
        return f"float|oracle-spec|{opn}|unified-mask"
    return f"float|{f['kind']}|{opn}|{mask_kind(t)}|{t[2]}|{t[4]}"


def run_float(ctx, nbatches=None, nstreams=None):
    """returns dict(evaluations=…, findings=…, violations_reported=…)"""
    quick = ctx.tier == "quick"
    nbatches = nbatches or (2500 if quick else 12000)
    nstreams = nstreams or (16 if quick else 48)
    b = ctx.build_pixman("plain")
    exe = ctx.cc("compositeq", ["compositeq.c"], b)
    pixdrv = str(VERIF / "lean" / ".lake" / "build" / "bin" / "pixdrv")
    corpus_dir = VERIF / "corpus" / "compositeq"
    corpus = sorted(corpus_dir.glob("*.txt")) if corpus_dir.exists() else []
    jobs = []
    for cname, disable in CONFIGS:
        for i, c in enumerate(corpus):
            jobs.append((str(exe), pixdrv, str(ctx.scratch / f"cq-{cname}-corpus{i}"), cname, disable, "corpus", str(c), 0, 0))
        for i in range(nstreams):
            seed = ctx.seed * 100000 + 7000 + i
            jobs.append((str(exe), pixdrv, str(ctx.scratch / f"cq-{cname}-gen{i}"), cname, disable, "gen", "", seed, nbatches))
    with ProcessPoolExecutor(max_workers=16) as ex:
        results = list(ex.map(_job, jobs))
    findings, total, nontrivial, samples = [], 0, 0, []
    hist_op, hist_mask, hist_fmt, hist_verdict, hist_cfg = (collections.Counter() for _ in range(5))
    for r in results:
        total += r["n"]
        hist_cfg[r["cname"]] += r["n"]
        hist_op.update(r["hist_op"]); hist_mask.update(r["hist_mask"]); hist_fmt.update(r["hist_fmt"]); hist_verdict.update(r["hist_verdict"])
        nontrivial += r["nontrivial"]
        samples += r["samples"]
        findings += r["findings"]
    ctx.cov["evaluations"] += total
    ctx.cov["distinct_nontrivial"] += nontrivial
    ctx.cov["traces_validated_against_impl"] += total
    ctx.cov["samples"] = (ctx.cov.get("samples") or []) + samples[:4]
    ctx.extra["float_operator_histogram"] = dict(hist_op)
    ctx.extra["float_mask_kind_histogram"] = dict(hist_mask)
    ctx.extra["float_format_pair_histogram_top"] = dict(hist_fmt.most_common(30))
    ctx.extra["float_verdict_histogram"] = dict(hist_verdict)
    ctx.extra["float_requests_per_chain"] = dict(hist_cfg)
    ctx.extra["float_rule"] = RULE
    ctx.assumptions += [
        "float_*: IEEE-754 binary32 evaluation is NOT modelled: the Lean model (Pixman.Model.CombineQ) is pixman-combine-float.c over "
        "exact rationals (FLOAT_IS_ZERO = exact zero test, sqrtf = rational enclosure to 2^-30, 0.3f/0.59f/0.11f = their decimal values); "
        "the theorems of Pixman.Props.C01Float are about that model; the tie to the library is this tolerance correspondence only "
        "(level partial for the float-evaluated part)",
        "float_*: acceptance = library channel within ONE quantisation step of the destination format (n-bit unorm: |u - clamp01(v)(2^n-1)| <= 1; "
        "sRGB colour code u: to_linear[u-1] <= v <= to_linear[u+1], table regenerated from pixman-access.c; binary32 destinations: step "
        "taken as 2^-16, relative above 1) of the model value v at the exact inputs (widening modelled exactly: k/(2^n-1), solid k/65535, "
        "binary32 sources as their exact dyadic value), or at one of the tie-preserving perturbed inputs (source/destination alpha +-2^-20, "
        "source/destination colour scaled by 1+-2^-20, all 80 combinations, plus mask alpha/colour) -- verdict okp; for binary32 destinations "
        "also within one step of the interval spanned by those evaluations (okh).  Single colour channels are never perturbed alone: that "
        "would turn an exactly grey colour into a saturated one and accept a wrong set_sat on greys.  float_verdict_histogram counts how "
        "often okp/okh were needed (quick tier, unchanged tree: never; thorough: a handful of COLOR_DODGE cases with sa-s << sa)",
        "float_*: not judged (verdict skip, counted in float_verdict_histogram, about 5%): COLOR_DODGE, COLOR_BURN, SOFT_LIGHT and HSL_* "
        "on operands that are not premultiplied colours in [0,1] as the combiner sees them (the library's binary32 result is dominated "
        "by cancellation there; the property speaks of premultiplied inputs), and HSL_HUE / HSL_SATURATION when the colour whose hue "
        "is kept is almost but not exactly grey (0 < Cmax-Cmin < Cmax/1024: set_sat amplifies rounding noise); exactly grey colours "
        "are judged; every other operator is judged on all operands, super-luminescent ones included",
        "float_*: the Spec oracle (Pixman.Spec.PdfBlend: Render factor table, PDF 32000 blend functions, composited per 11.3.6) is "
        "evaluated only for operands in [0,1] and, for the PDF modes, premultiplied; HSL with a component-alpha mask is outside the Spec "
        "(the library deliberately leaves the destination unchanged; the model mirrors that)",
        "float_*: requests that the operator simplification moves into the 8-bit pipeline (e.g. SATURATE with an opaque source on narrow "
        "formats) are compared exactly with the narrow model (verdict ok-narrow)",
        "float_*: no transform, repeat, alpha map, dither, accessors; 1xN images; PIXMAN_yuy2/yv12 and r8g8b8_sRGB not generated",
    ]
    reported = report(ctx, findings)
    return dict(evaluations=total, distinct_nontrivial=nontrivial, findings=len(findings), violations_reported=reported,
                verdicts=dict(hist_verdict))


def report(ctx, findings, limit=8):
    seen = collections.OrderedDict()
    for f in findings:
        seen.setdefault(signature(f), []).append(f)
    n = 0
    for sig, items in seen.items():
        if n >= limit:
            break
        f = min(items, key=lambda it: (len(it["batch"]), len(it["line"])))
        t = f["line"].split(" ")
        opn = OPNAME.get(int(t[0]), t[0]) if t and t[0].isdigit() else "?"
        if ctx.violation({"kind": f["kind"], "request": f["line"], "batch": f["batch"], "implementation": f["impl"],
                          "verdict": f["text"], "env": {"PIXMAN_DISABLE": f["disable"]}, "domain": "compositeq",
                          "how_to_replay": "bin/check C01 --replay <this file>  (runs `harness/compositeq exec` on the batch under the "
                                           "recorded PIXMAN_DISABLE and `pixdrv compositeq` on request + library result)",
                          "count_in_run": len(items)}, signature=sig,
                         what=f"{opn} {f['kind']} (float pipeline) [{f['config']}]: {f['line']} -> {f['impl']}: {f['text']}", tag="F" + opn):
            n += 1
    return n


def replay(ctx, path):
    obj = json.loads(open(path).read())
    b = ctx.build_pixman("plain")
    exe = ctx.cc("compositeq", ["compositeq.c"], b)
    d = ctx.scratch / "replayq"
    d.mkdir(exist_ok=True)
    ops, impl, req, model = d / "ops.txt", d / "impl.txt", d / "req.txt", d / "model.txt"
    batch = obj.get("batch") or [obj["request"]]
    ops.write_text("\n".join(batch) + "\n")
    disable = obj.get("env", {}).get("PIXMAN_DISABLE", "")
    subprocess.run([str(exe), "exec", str(ops), str(impl)], env=env_for(disable), stdout=subprocess.DEVNULL, stderr=subprocess.DEVNULL)
    ctx.lean_obligations("Pixman.Props.C01", [])
    il = impl.read_text().split("\n")
    req.write_text("".join(f"{l} {r}\n" for l, r in zip(batch, il)))
    ctx.pixdrv("compositeq", req, model)
    bad = False
    want = obj.get("request")
    for l, r, v in zip(batch, il, model.read_text().split("\n")):
        log(f"  {l}  ->  library {r}   verdict {v}" + ("      <- the recorded request" if l == want else ""))
        # the neighbours of the batch only provide the context of the composite call; the recorded request decides
        if l == want or want not in batch:
            bad = bad or v.split(" ")[0] in ("BAD", "SPEC", "bad-request")
    ctx.cov["evaluations"] = len(batch)
    if bad:
        ctx.violation(dict(obj, replayed=True), signature=obj.get("signature"), what=obj.get("what", "replayed failure"), tag="replay")
    else:
        log("replay: the library is within one step of the model and of the Spec on this input now")

"""C01 — compositing leaves in every pixel the value the operator's equations define (narrow pipeline)."""
from checks import compositecommon as cc
from checks import C01float

P = "Pixman.Props.C01."
REQUIRED = [P + n for n in [
    # scalar facts
    "mulUn8_round", "rnd_nearest", "mulUn8_255", "mulUn8_zero", "mulUn8_le", "addUn8_sat", "divOneUn8_round", "divUn8_round",
    # lane theorems
    "rbMulUn8_lanes", "rbMulUn8rb_lanes", "rbAddUn8rb_lanes", "un8x4MulUn8_lanes", "un8x4MulUn8x4_lanes",
    "un8x4AddUn8x4_lanes", "un8x4MulUn8AddUn8x4_lanes", "un8x4MulUn8AddUn8x4MulUn8_lanes",
    "un8x4MulUn8x4AddUn8x4_lanes", "un8x4MulUn8x4AddUn8x4MulUn8_lanes",
    # combiners, unified
    "combineClear_spec", "combineSrcU_spec", "combineDst_spec", "combineOverU_spec", "combineOverReverseU_spec",
    "combineInU_spec", "combineInReverseU_spec", "combineOutU_spec", "combineOutReverseU_spec", "combineAtopU_spec",
    "combineAtopReverseU_spec", "combineXorU_spec", "combineAddU_spec",
    # combiners, component alpha
    "combineClearCa_spec", "combineSrcCa_spec", "combineOverCa_spec", "combineOverReverseCa_spec", "combineInCa_spec",
    "combineInReverseCa_spec", "combineOutCa_spec", "combineOutReverseCa_spec", "combineAtopCa_spec",
    "combineAtopReverseCa_spec", "combineXorCa_spec", "combineAddCa_spec",
    # integer PDF blend mode Multiply (exact integer rule; within 381/255 step of the exact numerator, sharp)
    "combineMultiplyU_spec", "combineMultiplyCa_spec", "multiply_channel_nearest", "multiply_channel_nearest_sharp",
    # the seven PDF_SEPARABLE_BLEND_MODE combiners: structure (any blend function) ...
    "pdfSeparableU_pack", "pdfSeparableCa_pack", "pdfFinish_nat", "pdfAlpha_round",
    # ... exact integer numerator for ALL inputs (no wrap, never negative), every channel, unified + component alpha
    "num_nonneg", "num_lt", "pdfNumC_exact", "pdfSeparableU_exact", "pdfSeparableCa_exact",
    # ... premultiplied operands: clamp inactive, channel = num/255 to nearest (|255 r - num| <= 127, sharp); alpha = union
    "pdf_num_premult", "pdf_channel_nearest", "pdf_channel_nearest_sharp", "pdf_alpha_nearest",
    # ... whole pixels through the dispatch tables
    "pdf_unified_correct", "pdf_componentAlpha_correct",
    # whole pixels through the dispatch tables
    "combineU_lt", "combineCa_lt", "unified_correct", "componentAlpha_correct",
    # bridges: regenerated macro bodies = model
    "gen_constants", "gen_MUL_UN8", "gen_DIV_UN8", "gen_ADD_UN8", "gen_DIV_ONE_UN8", "gen_ALPHA_8", "gen_RED_8",
    "gen_GREEN_8", "gen_BLUE_8", "gen_UN8_rb_MUL_UN8", "gen_UN8_rb_ADD_UN8_rb", "gen_UN8_rb_MUL_UN8_rb",
    "gen_UN8x4_MUL_UN8", "gen_UN8x4_MUL_UN8_ADD_UN8x4", "gen_UN8x4_MUL_UN8_ADD_UN8x4_MUL_UN8", "gen_UN8x4_MUL_UN8x4",
    "gen_UN8x4_MUL_UN8x4_ADD_UN8x4", "gen_UN8x4_MUL_UN8x4_ADD_UN8x4_MUL_UN8", "gen_UN8x4_ADD_UN8x4",
    "gen_MUL_UN8_round", "gen_UN8x4_MUL_UN8_ADD_UN8x4_lanes",
]]

# the exact integer numerators are the rational PDF equation of Spec/PdfBlend.lean (Props/C01Pdf.lean)
PP = "Pixman.Props.C01Pdf."
REQUIRED_PDF = [PP + n for n in [
    "mode_tables", "modeBlendQ_pdf", "num_is_pdf", "pdf_channel_near", "pdf_alpha_near", "multiply_num_is_pdf",
    "multiply_channel_near", "pdf_unified_near", "pdf_componentAlpha_near",
    "specPixel_nomask", "pdf_nomask_specPixel", "multiply_nomask_specPixel",
    # Props/C01PdfPixel.lean: the whole request (flags, regenerated optimize_operator, mask elision, fetch, combiner, store)
    "blend_modes_not_replaced", "pdf_unifiedPixel_mask_elision", "compositePixel_pdf", "multiply_unified_correct",
    "multiply_componentAlpha_correct", "multiplyUnifiedPixel_mask_elision", "compositePixel_multiply",
]]

RULE = ("1-row composites of 1..19 pixels through pixman_image_composite32, once per implementation chain (default; "
        "PIXMAN_DISABLE='fast mmx sse2 ssse3'), same requests under both: operator from the 21 with an 8-bit combiner "
        "(75% Porter-Duff/ADD), mask none / unified (a8 or other format) / solid / component-alpha (a8r8g8b8 or other) / "
        "component-alpha solid, source bits or solid, 21 formats of <= 8 bits per channel (45% a8r8g8b8), pixels: "
        "channels 80% from {0,1,2,0x7f,0x80,0xfe,0xff}, premultiplied / opaque / super-luminescent / random mixes, "
        "partly-zero and partly-one component masks, junk in undefined bits, 15% rows of equal pixels; every line replayed "
        "through the Lean model; non-trivial = not CLEAR/DST and translucent source alpha or non-extreme mask, distinct by request text within a stream (streams have different seeds)")


def run(ctx):
    broken = ctx.lean_obligations("Pixman.Props.C01", REQUIRED + REQUIRED_PDF + C01float.REQUIRED_FLOAT,
                                  extra_modules=["Pixman.Props.C01Float", "Pixman.Props.C01Pdf", "Pixman.Props.C01PdfPixel"])
    quick = ctx.tier == "quick"
    findings = cc.run_streams(ctx, 0, 60000 if quick else 150000, 16 if quick else 64)
    ctx.cov["rule"] = RULE
    cc.report(ctx, findings)
    C01float.run_float(ctx)       # operators / formats evaluated in floating point (wide pipeline)
    if broken and not ctx.violations:
        ctx.broken_obligations_verdict(broken, "composite correspondence stream (both chains) and Spec oracle found no failing input")
    ctx.assumptions += [
        "narrow pipeline stream: the 13 Porter-Duff/ADD operators (exact Spec) and the 8 integer PDF blend modes (exact "
        "integer numerator rule Spec.PdfInt / Spec.multiplyChannel on every generated format and ALL pixel values; on "
        "a8r8g8b8-like destinations and premultiplied inputs additionally the real-valued PDF 32000 equation within the "
        "proved 127/255 of a step, MULTIPLY 381/255) on formats of at most 8 bits per channel with 8/16/32 bpp; no "
        "transform, no repeat effect, no alpha map, no dither",
        "integer PDF blend modes with a mask: the source operand of the PDF equation is the masked source as the 8-bit "
        "pipeline rounds it (s' = rnd(s*m), alpha' = rnd(alpha*m)); the distance to an exact rational mask product is not bounded",
        "float pipeline stream (checks/C01float.py): see the float_* assumptions below; 1/4/24-bpp and indexed/YUV formats not generated",
        "SIMD loop structure is exercised by the rows but not modelled: the model is per pixel",
        "macro arguments and temporaries of pixman-combine32.h are unsigned values of at most 32 bits (uint32_t arithmetic)",
    ]


def replay(ctx, path):
    import json
    if json.loads(open(path).read()).get("domain") == "compositeq":
        C01float.replay(ctx, path)
    else:
        cc.replay(ctx, path)

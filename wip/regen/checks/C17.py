"""C17 — glyph cache is a faithful map under any history; glyph drawing is per-glyph."""
import collections, itertools, random, subprocess
from concurrent.futures import ThreadPoolExecutor
from engine.core import diff_streams, VERIF

REQUIRED = [
    "Pixman.Props.C17.counted_spec",
    "Pixman.Props.C17.create_accounting",
    "Pixman.Props.C17.step_accounting",
    "Pixman.Props.C17.run_accounting",
    "Pixman.Props.C17.step_keeps_empty_slot",
    "Pixman.Props.C17.run_keeps_empty_slot",
    "Pixman.Props.C17.lookup_terminates",
    "Pixman.Props.C17.findFree_terminates",
    "Pixman.Props.C17.findGlyph_terminates",
    "Pixman.Props.C17.step_never_hangs",
    "Pixman.Props.C17.run_never_hangs",
    "Pixman.Props.C17.run_length",
    "Pixman.Props.C17.insert_refused_when_full",
    "Pixman.Props.C17.insert_succeeds_when_not_full",
    "Pixman.Props.C17.thaw_evicts_to_low",
    "Pixman.Props.C17.lookup_is_map_lookup",
    "Pixman.Props.C17.lookup_finds_live",
    "Pixman.Props.C17.lookup_absent",
    "Pixman.Props.C17.fresh_iff_lookup_absent",
    "Pixman.Props.C17.create_refines",
    "Pixman.Props.C17.step_refines_map",
    "Pixman.Props.C17.run_refines_map",
    "Pixman.Props.C17.entry_disappears_only_by_remove_or_thaw",
    # failed insertion (the private image copy cannot be allocated)
    "Pixman.Props.C17.failed_insert_changes_nothing",
    "Pixman.Props.C17.failed_insert_eq_lookup_state",
    "Pixman.Props.C17.run_failed_inserts_change_nothing",
    "Pixman.Props.C17.failed_insert_refines",
    # histories without the insertion discipline (duplicate keys)
    "Pixman.Props.C17.run_any_history_inv",
    "Pixman.Props.C17.lookup_any_history",
    "Pixman.Props.C17.step_any_history",
    "Pixman.Props.C17.absStepG_eq_absStep",
    "Pixman.Props.C17.duplicate_insert_shadowing",
    "Pixman.Props.C17.duplicate_insert_breaks_map_view",
    "Pixman.Props.C17.entry_disappears_only_by_remove_or_thaw_any_history",
    # glyph drawing, model level (on C03's composite region and a per-pixel combiner)
    "Pixman.Props.C17Draw.image_composite_paints_R",
    "Pixman.Props.C17Draw.composite_glyphs_no_mask_is_per_glyph",
    "Pixman.Props.C17Draw.glyph_paints_its_box",
    "Pixman.Props.C17Draw.add_glyphs_is_per_glyph_add",
    "Pixman.Props.C17Draw.composite_glyphs_is_accumulate_then_composite",
    "Pixman.Props.C17Draw.addWhiteA8_sat",
    "Pixman.Props.C17Draw.a8_same_format",
    "Pixman.Props.C17Draw.a8_accumulate_sum",
    "Pixman.Props.C17Draw.a8_accumulate_order_independent",
]

M64 = (1 << 64) - 1



def wang(font, key):
    k = (font + key) & M64
    k = ((k << 15) - k - 1) & M64
    k ^= k >> 12
    k = (k + (k << 2)) & M64
    k ^= k >> 4
    k = (k + (k << 3) + (k << 11)) & M64
    k ^= k >> 16
    return k & 0xffffffff


def pick_keys(hs, n):
    """n glyph keys (font 0) such that at least two collide and others are adjacent slots."""
    by = collections.defaultdict(list)
    for k in range(1, 400):
        by[wang(0, k) % hs].append(k)
    slots = sorted(by, key=lambda s: -len(by[s]))
    base = slots[0]
    keys = by[base][:2]
    s = base
    while len(keys) < n:
        s = (s + 1) % hs
        if by[s]:
            keys.append(by[s][0])
        if len(keys) < n and len(by[s]) > 1 and s != base:
            keys.append(by[s][1])
    return keys[:n]


_cluster_default = []


def cluster_default():
    """keys (font 0) that collide or fall into adjacent slots of the default 32768-slot table"""
    if not _cluster_default:
        by = collections.defaultdict(list)
        for k in range(1, 120000):
            by[wang(0, k) % 32768].append(k)
        base = max(by, key=lambda s: sum(len(by[(s + d) % 32768]) for d in range(3)))
        for d in range(3):
            _cluster_default.extend(by[(base + d) % 32768])
    return _cluster_default


def oracle(line, out, hs, high, low):
    """Abstract-(multi)map oracle on the implementation's own answers (independent of the Lean
    model): every operation terminates; a lookup returns an entry that was inserted under the key
    and not since removed, or NULL; NULL only if every entry of the key was removed, or a thaw that
    reached freeze count 0 happened since (eviction); a never-inserted or fully removed key is never
    found; an insertion whose image copy cannot be allocated (X) is refused and changes nothing.
    For histories that insert a key only while it is absent this is the map of the property
    statement (exactly one candidate per key).  A key inserted while present (caller error) has
    several candidates: the code keeps all of them, lookup returns the first in probe order and
    remove deletes that one (Props/C17: lookup_any_history, step_any_history)."""
    toks = line.split()[4:]
    res = out.split(" | ")[0].split()
    if "HANG" in out:
        return "an operation did not terminate"
    cand = collections.defaultdict(set)    # key -> ids possibly live
    sure = collections.Counter()           # key -> lower bound on the number of live entries
    upper = collections.Counter()          # key -> upper bound
    freeze = 0
    for i, (t, r) in enumerate(zip(toks, res)):
        op = t[0]
        key = t[2:] if len(t) > 1 else None
        if op == "F":
            freeze += 1
        elif op == "T":
            freeze -= 1
            if freeze == 0 and sum(upper.values()) > low:
                sure.clear()           # anything may have been evicted
        elif op == "I":
            if r.startswith("I"):
                cand[key].add(int(r[1:]))
                sure[key] += 1
                upper[key] += 1
            elif r == "N" and freeze > 0:
                n_ins = sum(1 for tt in toks[:i] if tt[0] == "I")
                if n_ins < hs // 2:
                    return f"insert refused at step {i} though at most {n_ins} of {hs} slots were ever used"
        elif op == "X":
            if r != "N":
                return f"failed insert at step {i}: an insertion whose image copy cannot be allocated was accepted"
        elif op == "R":
            sure[key] = max(0, sure[key] - 1)
            upper[key] = max(0, upper[key] - 1)
            if upper[key] == 0:
                cand[key].clear()
        elif op == "L":
            if r == "L-":
                if sure[key] > 0:
                    return f"lookup at step {i} lost a live entry that nothing removed or evicted"
                upper[key] = 0
                cand[key].clear()
            else:
                got = int(r[1:])
                if got not in cand[key]:
                    return f"lookup at step {i} returned entry {got}, the map holds {sorted(cand[key]) or None}"
    return None


# ---------------------------------------------------------------- phase 2: glyph drawing
OP_NAMES = ["CLEAR", "SRC", "DST", "OVER", "OVER_REVERSE", "IN", "IN_REVERSE", "OUT", "OUT_REVERSE",
            "ATOP", "ATOP_REVERSE", "XOR", "ADD", "SATURATE"]


def op_class(op):
    return ("clear-src-dst" if op <= 2 else "over" if op <= 4 else "in-out" if op <= 8 else
            "atop-xor" if op <= 11 else "add" if op == 12 else "saturate")


def parse_draw(line):
    t = line.split()
    k = [1]

    def nx():
        v = t[k[0]]; k[0] += 1; return v
    r = {"entry": nx(), "op": int(nx()), "dfmt": nx(), "dw": int(nx()), "dh": int(nx())}
    nclip = int(nx())
    r["clip"] = None if nclip < 0 else [[int(nx()) for _ in range(4)] for _ in range(nclip)]
    kind = nx()
    r["src"] = [kind] + ([int(nx()) for _ in range(4)] if kind == "solid" else [nx(), int(nx()), int(nx()), int(nx())])
    r["sx"], r["sy"], r["dx"], r["dy"] = (int(nx()) for _ in range(4))
    r["mfmt"] = nx()
    r["mx"], r["my"], r["mw"], r["mh"] = (int(nx()) for _ in range(4))
    r["pixseed"] = int(nx())
    ng = int(nx())
    r["glyphs"] = [[nx(), int(nx()), int(nx()), int(nx()), int(nx())] for _ in range(ng)]
    nr = int(nx())
    r["run"] = [[int(nx()), int(nx()), int(nx())] for _ in range(nr)]
    return r


def format_draw(r):
    o = ["draw", r["entry"], r["op"], r["dfmt"], r["dw"], r["dh"]]
    o.append(-1 if r["clip"] is None else len(r["clip"]))
    for c in r["clip"] or []:
        o += c
    o += r["src"] + [r["sx"], r["sy"], r["dx"], r["dy"], r["mfmt"], r["mx"], r["my"], r["mw"], r["mh"], r["pixseed"]]
    o.append(len(r["glyphs"]))
    for g in r["glyphs"]:
        o += g
    o.append(len(r["run"]))
    for g in r["run"]:
        o += g
    return " ".join(str(x) for x in o)


def glyph_format_class(f):
    if f in ("a1", "a4", "a8", "a8r8g8b8"):
        return f
    if f in ("x4a4",):
        return "other-alpha-only"
    if f.startswith(("x", "r", "b")) and not f.endswith(("a8", "a8r8g8b8")) and "a" not in f.replace("float", ""):
        return "alpha-less"
    return "other-alpha+colour"


def draw_signature(r):
    fm = sorted({glyph_format_class(r["glyphs"][g[0]][0]) for g in r["run"]})
    clip = "no-clip" if r["clip"] is None else "empty-clip" if not r["clip"] else "one-rect-clip" if len(r["clip"]) == 1 else "multi-rect-clip"
    return (f"{'composite_glyphs_no_mask' if r['entry'] == 'N' else 'composite_glyphs'}|{'+'.join(fm)}|{op_class(r['op'])}"
            f"|{r['src'][0]}-source|{clip}")


def draw_exec(ctx, exe, lines, env, tag):
    d = ctx.scratch / "draw"
    d.mkdir(exist_ok=True)
    ops, out = d / f"{tag}.ops", d / f"{tag}.out"
    ops.write_text("\n".join(lines) + "\n")
    subprocess.run([str(exe), "exec", str(ops), str(out)], env=env, stdout=subprocess.DEVNULL, stderr=subprocess.DEVNULL)
    return out.read_text().split("\n")[:len(lines)]


def draw_shrink(ctx, exe, line, env):
    """Greedy reduction of a mismatching request (the pixel contents stay tied to pixseed, so only
    reductions that keep the pixel streams aligned are tried: run entries, clip, trailing glyphs)."""
    r = parse_draw(line)

    def bad(c):
        return draw_exec(ctx, exe, [format_draw(c)], env, "shrink")[0].startswith("MISMATCH")
    changed = True
    while changed:
        changed = False
        for i in range(len(r["run"])):
            if len(r["run"]) > 1:
                c = dict(r, run=r["run"][:i] + r["run"][i + 1:])
                if bad(c):
                    r, changed = c, True
                    break
        if not changed and r["clip"] is not None:
            c = dict(r, clip=None)
            if bad(c):
                r, changed = c, True
        if not changed and r["clip"] and len(r["clip"]) > 1:
            for i in range(len(r["clip"])):
                c = dict(r, clip=r["clip"][:i] + r["clip"][i + 1:])
                if bad(c):
                    r, changed = c, True
                    break
        if not changed:
            used = max(g[0] for g in r["run"])
            if used + 1 < len(r["glyphs"]):
                c = dict(r, glyphs=r["glyphs"][:used + 1])
                if bad(c):
                    r, changed = c, True
    return format_draw(r)


def run_draw(ctx, b):
    """Glyph drawing versus per-glyph / mask reference composition on the real library."""
    import os
    quick = ctx.tier == "quick"
    exe = ctx.cc("glyphdraw", ["glyphdraw.c"], b, extra=["-w"])
    d = ctx.scratch / "draw"
    d.mkdir(exist_ok=True)
    nchunks, per = (4, 10000) if quick else (16, 60000)
    chunks = []
    for i in range(nchunks):
        ops = d / f"gen{i}.ops"
        subprocess.run([str(exe), "gen", str(ctx.seed * 1000 + i), str(per), str(ops)])
        chunks.append([l for l in ops.read_text().split("\n") if l])
    corpus = VERIF / "corpus" / "glyph" / "draw.txt"
    if corpus.exists():
        chunks.append([l for l in corpus.read_text().splitlines() if l.startswith(("draw ", "spot "))])
    # systematic absolute spot checks (expected pixels computed without pixman)
    spots = d / "spots.ops"
    subprocess.run([str(exe), "spots", str(spots)])
    chunks.append([l for l in spots.read_text().split("\n") if l])
    chains = [("default", None), ("generic-only", "fast mmx sse2 ssse3")]
    jobs = []
    for cname, dis in chains:
        env = dict(os.environ)
        env.pop("PIXMAN_DISABLE", None)
        if dis:
            env["PIXMAN_DISABLE"] = dis
        for i, lines in enumerate(chunks):
            jobs.append((cname, env, i, lines))

    def one(job):
        cname, env, i, lines = job
        return job, draw_exec(ctx, exe, lines, env, f"{cname}{i}")
    with ThreadPoolExecutor(max_workers=8) as ex:
        results = list(ex.map(one, jobs))
    total = 0
    nontriv = set()
    hist = collections.Counter()
    mfh = collections.Counter()
    groups = collections.OrderedDict()
    sample = None
    for (cname, env, i, lines), outs in results:
        for l, o in zip(lines, outs):
            total += 1
            if o.startswith("ok"):
                if cname == "default":
                    t = l.split()
                    if o.split()[2] != "0":
                        nontriv.add(l)
                        hist[f"{t[0]}:{t[1]}:{OP_NAMES[int(t[2])]}"] += 1
                        if t[0] == "draw" and (sample is None or len(l) < len(sample)):
                            sample = l
                        if t[0] == "draw" and t[1] == "M":
                            mfh[parse_draw(l)["mfmt"]] += 1
                continue
            if l.startswith("spot "):
                t = l.split()
                sig = f"spot|{'composite_glyphs_no_mask' if t[1] == 'N' else 'composite_glyphs|mask ' + t[3]}|{OP_NAMES[int(t[2])]}"
            else:
                r = parse_draw(l) if l.startswith("draw ") and not o.startswith("bad") else None
                sig = (draw_signature(r) if r else "glyphdraw|bad-request") + ("" if o.startswith("MISMATCH") else "|" + o.split()[0])
            groups.setdefault(sig, []).append((cname, env, l, o))
    reported = set()
    for sig, items in list(groups.items())[:8]:
        cname, env, l, o = min(items, key=lambda it: len(it[2]))
        small = draw_shrink(ctx, exe, l, env) if o.startswith("MISMATCH") else l
        o2 = draw_exec(ctx, exe, [small], env, "final")[0]
        if o.startswith("MISMATCH"):
            sig = draw_signature(parse_draw(small))     # glyph formats of the shrunken run
        if sig in reported:
            continue
        reported.add(sig)
        ctx.violation({"kind": "glyph-draw", "request": small, "original_request": l,
                       "decoded": parse_draw(small) if small.startswith("draw ") else None,
                       "implementation_chain": cname, "PIXMAN_DISABLE": env.get("PIXMAN_DISABLE", ""),
                       "result": o2, "count_in_run": len(items),
                       "how_to_replay": "build harness/glyphdraw.c against libpixman; glyphdraw exec ops.txt out.txt "
                                        "(one request per line; format in the header of harness/glyphdraw.c)"},
                      signature=sig,
                      what=("glyph drawing differs from the absolute expectation (colour glyph through a white source): " if l.startswith("spot ")
                            else "glyph drawing differs from the reference composition (per-glyph composite / ADD-accumulated mask): ") + o2,
                      tag="draw")
    ctx.extra["glyph_drawing_mask_formats"] = dict(mfh)
    return total, len(nontriv), dict(hist), sample



def run(ctx):
    broken = ctx.lean_obligations("Pixman.Props.C17", REQUIRED, extra_modules=["Pixman.Props.C17Draw"])
    quick = ctx.tier == "quick"
    b = ctx.build_pixman("plain")
    rnd = random.Random(ctx.seed)
    configs = [(4, 2, 1), (8, 4, 2), (16, 8, 4)] + ([] if quick else [(32, 16, 8), (32768, 16384, 8192)])
    total = 0
    nontriv = 0
    samples = []
    hist = collections.Counter()
    jobs = []
    for hs, high, low in configs:
        exe = ctx.cc(f"glyph{hs}", ["glyph.c"], b,
                     extra=[f"-DPIXMAN_VERIF_GLYPH_HIGH_WATER={high}", f"-DPIXMAN_VERIF_GLYPH_LOW_WATER={low}", "-w"]
                     if hs != 32768 else ["-w"])
        keys = pick_keys(hs, 3 if hs == 4 else 4 if hs == 8 else 6)
        sym = ["F", "T"] + [f"{o}:0:{k}" for k in keys for o in "ILRXU"]
        lines = []
        corpus = VERIF / "corpus" / "glyph" / f"{hs}.txt"
        if corpus.exists():
            lines += [l for l in corpus.read_text().splitlines() if l.strip()]
        # exhaustive small scope: every history of length <= L after an initial freeze
        if hs <= 8:
            symx = [s for s in sym if not s.startswith("U")]
            L = (5 if hs == 4 else 4) if quick else (7 if hs == 4 else 5)
            for n in range(1, L + 1):
                for h in itertools.product(symx, repeat=n):
                    lines.append(f"hist {hs} {high} {low} F " + " ".join(h))
        # failed insertions across tombstones: a cluster of colliding / adjacent keys is inserted, some
        # are removed (tombstones inside the probe run), then insertions that cannot be honoured (X)
        # are tried on removed, live and fresh keys of the cluster, then every key is looked up,
        # every live key removed and looked up again
        cluster = pick_keys(hs, min(hs, 12)) if hs < 32768 else cluster_default()
        nscen = (3000 if quick else 40000) if hs < 32768 else 300
        for _ in range(nscen):
            cap = hs - 1                        # insert refuses at n_glyphs + n_tombstones >= hs - 1
            m = rnd.randint(2, max(2, min(len(cluster) - 1, cap)))
            ks = rnd.sample(cluster, m + 1)
            ins, spare = ks[:m], ks[m]
            if rnd.random() < 0.5:
                ins.sort(key=lambda k: (wang(0, k) % hs, k))
            h = ["F"] + [f"I:0:{k}" for k in ins]
            rem = [k for k in ins[:-1] if rnd.random() < 0.5] or [ins[0]]
            rnd.shuffle(rem)
            h += [f"R:0:{k}" for k in rem]
            xs = [k for k in ins + [spare] if rnd.random() < 0.6] or [rem[0]]
            rnd.shuffle(xs)
            h += [f"X:0:{k}" for k in xs[:rnd.randint(1, len(xs))]]
            h += [f"L:0:{k}" for k in ks]
            if rnd.random() < 0.5:
                h += [f"I:0:{spare}"] + [f"L:0:{k}" for k in ks]
            if rnd.random() < 0.5:
                h += [f"R:0:{k}" for k in ins if k not in rem] + [f"L:0:{k}" for k in ks]
            if rnd.random() < 0.5:
                h.append("T")
            lines.append(f"hist {hs} {high} {low} " + " ".join(h))
        # random longer histories, insertion-heavy so that tables fill and tombstones build up
        nrand = (20000 if quick else 400000) if hs < 32768 else 300
        for _ in range(nrand):
            n = rnd.randint(3, 4 * hs if hs < 32768 else 60)
            style = rnd.random()
            h = ["F"] if rnd.random() < 0.9 else []
            kk = keys if rnd.random() < 0.5 else list(range(1, 3 * hs if hs < 32768 else 40))
            for _ in range(n):
                r = rnd.random()
                k = rnd.choice(kk)
                if r < (0.55 if style < 0.4 else 0.3):
                    h.append(f"I:0:{k}")
                elif r < 0.7:
                    h.append(f"L:0:{k}")
                elif r < 0.82:
                    h.append(f"R:0:{k}")
                elif r < 0.85:
                    h.append(f"X:0:{k}")
                elif r < 0.9:
                    h.append(f"U:0:{k}")
                elif r < 0.95:
                    h.append("F")
                else:
                    h.append("T")
            lines.append(f"hist {hs} {high} {low} " + " ".join(h))
        jobs.append((hs, high, low, exe, lines))

    findings = []

    def one(job):
        hs, high, low, exe, lines = job
        d = ctx.scratch / f"g{hs}"
        d.mkdir(exist_ok=True)
        ops, impl, model = d / "ops.txt", d / "impl.txt", d / "model.txt"
        ops.write_text("\n".join(lines) + "\n")
        subprocess.run([str(exe), "exec", str(ops), str(impl)], stderr=subprocess.DEVNULL)
        ctx.pixdrv("glyph", ops, model)
        return job, ops, impl, model

    with ThreadPoolExecutor(max_workers=8) as ex:
        results = list(ex.map(one, jobs))
    for (hs, high, low, exe, lines), ops, impl, model in results:
        n, dis = diff_streams(ops, impl, model, limit=20)
        total += n
        for (ln, op, a, m) in dis:
            findings.append(("disagree", hs, op, a, m, "model and implementation differ"))
        with open(impl) as f:
            outs = f.read().split("\n")
        seen = set()
        for l, o in zip(lines, outs):
            toks = l.split()[4:]
            for t in toks:
                hist[t[0]] += 1
            if any(t[0] == "I" for t in toks) and any(t[0] in "LR" for t in toks):
                seen.add(l)
            why = oracle(l, o, hs, high, low)
            if why:
                findings.append(("oracle", hs, l, o, None, why))
        nontriv += len(seen)
        if lines:
            samples.append(min((l for l in lines if len(l.split()) > 8), key=len, default=lines[0]))
    dtotal, dnontriv, dhist, dsample = run_draw(ctx, b)
    ctx.cov["evaluations"] = total + dtotal
    ctx.cov["distinct_nontrivial"] = nontriv + dnontriv
    ctx.cov["traces_validated_against_impl"] = total
    ctx.extra["cache_histories"] = {"evaluations": total, "distinct_nontrivial": nontriv}
    ctx.extra["glyph_drawing"] = {"evaluations": dtotal, "distinct_nontrivial": dnontriv,
                                  "implementation_chains": ["default", "PIXMAN_DISABLE=fast mmx sse2 ssse3"],
                                  "drawn_by_entry_and_operator": dhist}
    ctx.cov["rule"] = ("cache histories: exhaustive over {F,T,I,L,R,X}x keys up to a fixed length at table sizes 4 and 8 (water-mark hook; X = insertion whose image "
                       "copy cannot be allocated: 2^28-pixel-wide a8r8g8b8 user-bits image), failed-insert scenarios (cluster of colliding/adjacent "
                       "keys inserted, tombstones made inside the probe run, X on removed/live/fresh keys, then every key looked up, removed, looked up), "
                       "random insertion-heavy histories (incl. U = glyph drawn) at sizes 4..32 and the default size; keys chosen to "
                       "collide; each history replayed through the Lean model (results, counters, table slots, MRU order compared) and "
                       "through an abstract-map oracle; non-trivial = distinct history with an insert and a later lookup/remove. "
                       "glyph drawing: random requests (glyph formats a1/a4/a8/a8r8g8b8 component-alpha plus 8% unusual ones, "
                       "33 mask formats for pixman_composite_glyphs (alpha+colour = component-alpha mask, alpha-only, alpha-less), "
                       "2010 absolute spot checks (single-channel colour glyph through a white source must give that pure colour), "
                       "sizes 1..12, origins -6..14, "
                       "positions inside/straddling/outside, clip regions of 0..4 rectangles, operators 0..13, solid and bits sources "
                       "with every repeat mode, 10 destination formats) through pixman_composite_glyphs_no_mask and "
                       "pixman_composite_glyphs, destination bytes (with guard rows) compared with the reference composition built "
                       "from pixman_image_composite32, under the default implementation chain and with fast/mmx/sse2/ssse3 disabled; "
                       "non-trivial = distinct request whose destination changed")
    ctx.cov["samples"] = samples[:3] + ([dsample] if dsample else [])
    ctx.extra["operation_histogram"] = dict(hist)
    ctx.extra["table_sizes"] = [c[0] for c in configs]
    # group findings
    groups = collections.OrderedDict()
    for kind, hs, line, a, m, text in findings:
        sig = f"{kind}|{text.split(' at step')[0]}" + ("|after-failed-insert" if kind == "oracle" and " X:" in line else "")
        groups.setdefault(sig, []).append((kind, hs, line, a, m, text))
    for sig, items in list(groups.items())[:6]:
        kind, hs, line, a, m, text = min(items, key=lambda it: len(it[2]))
        ctx.violation({"kind": kind, "table_size": hs, "request": line, "implementation": a, "model": m, "oracle": text,
                       "count_in_run": len(items),
                       "how_to_replay": "compile harness/glyph.c with -DPIXMAN_VERIF -DPIXMAN_VERIF_GLYPH_HIGH_WATER=<size/2> "
                                        "-DPIXMAN_VERIF_GLYPH_LOW_WATER=<size/4>; glyph exec ops.txt out.txt"},
                      signature=sig, what=text, tag=f"hs{hs}")
    if broken and not ctx.violations:
        ctx.broken_obligations_verdict(broken, "glyph-cache histories (exhaustive small scope + random) found no failing input")
    ctx.assumptions += ["allocation failure inside the cache only as the refused private image copy (X); malloc failure itself is C15",
                        "drawing theorems: C03's RangeOK for every region computation involved; per-glyph dispatch = composite32 dispatch by correspondence"]


def replay(ctx, path):
    """Re-run one recorded request (cache history or drawing request) on the current /repo."""
    import json, os
    from pathlib import Path
    obj = json.loads(Path(path).read_text())
    b = ctx.build_pixman("plain")
    if obj.get("kind") == "glyph-draw":
        exe = ctx.cc("glyphdraw", ["glyphdraw.c"], b, extra=["-w"])
        env = dict(os.environ)
        env.pop("PIXMAN_DISABLE", None)
        if obj.get("PIXMAN_DISABLE"):
            env["PIXMAN_DISABLE"] = obj["PIXMAN_DISABLE"]
        o = draw_exec(ctx, exe, [obj["request"]], env, "replay")[0]
        ctx.cov["evaluations"] = 1
        if not o.startswith("ok"):
            ctx.violation(dict(obj, result=o), signature=obj.get("signature"), what="glyph drawing differs from the reference composition: " + o, tag="draw")
        return
    line = obj["request"]
    hs, high, low = (int(x) for x in line.split()[1:4])
    exe = ctx.cc(f"glyph{hs}", ["glyph.c"], b,
                 extra=[f"-DPIXMAN_VERIF_GLYPH_HIGH_WATER={high}", f"-DPIXMAN_VERIF_GLYPH_LOW_WATER={low}", "-w"]
                 if hs != 32768 else ["-w"])
    d = ctx.scratch / "replay"
    d.mkdir(exist_ok=True)
    ops, impl, model = d / "ops.txt", d / "impl.txt", d / "model.txt"
    ops.write_text(line + "\n")
    subprocess.run([str(exe), "exec", str(ops), str(impl)], stderr=subprocess.DEVNULL)
    ctx.lean_obligations("Pixman.Props.C17", [])
    ctx.pixdrv("glyph", ops, model)
    a, m = impl.read_text().strip(), model.read_text().strip()
    ctx.cov["evaluations"] = 1
    why = oracle(line, a, hs, high, low)
    if why or a != m:
        ctx.violation(dict(obj, implementation=a, model=m, oracle=why), signature=obj.get("signature"),
                      what=why or "model and implementation differ", tag=f"hs{hs}")

"""Bridge obligations: regenerated C functions (lean/Pixman/Gen/CFuncs.lean, rewritten from /repo's working
tree on every run by tools/gen_cfuncs.py) = the hand-written models (lean/Pixman/Props/Bridges.lean).

A property's check adds its entries to the obligation list it passes to `ctx.lean_obligations`, and
`BRIDGE_MODULE` to `extra_modules`:

    from checks.bridges import REQUIRED_BRIDGES, BRIDGE_MODULE
    broken = ctx.lean_obligations("Pixman.Props.C11", REQUIRED + REQUIRED_BRIDGES["C11"], extra_modules=(BRIDGE_MODULE,))

A change of the C source that changes the value of a translated function breaks its bridge (or the
extraction itself, when the translator no longer understands the text), also on inputs the correspondence
generator does not sample."""
BRIDGE_MODULE = "Pixman.Props.Bridges"
_P = "Pixman.Props.Bridges."

_U = ["src_u_m"] + [f"{n}_u_{v}" for n in ("over", "over_reverse", "in", "in_reverse", "out", "out_reverse", "atop",
                                           "atop_reverse", "xor", "add", "multiply") for v in ("m", "n")]
_CA = [f"{n}_ca" for n in ("src", "over", "over_reverse", "in", "in_reverse", "out", "out_reverse", "atop",
                           "atop_reverse", "xor", "add", "multiply")]

REQUIRED_BRIDGES = {
    # pixman-combine32.c: per-pixel bodies of the narrow combiners (+ the mask helpers)
    "C01": [_P + n for n in
            ["combine_mask_m_eq", "combine_mask_n_eq", "combine_mask_ca_eq", "combine_mask_value_ca_eq",
             "combine_mask_alpha_ca_eq"] + [f"combine_{x}_eq" for x in _U + _CA]],
    # pixman-private.h: the scalar 565 references of the SIMD paths
    "C02": [_P + n for n in ["convert_8888_to_0565_eq", "convert_0565_to_0888_eq", "convert_0565_to_8888_eq"]],
    # pixman-inlines.h pad bounds; pixman-utils.c overflow predicates / pixman_malloc_ab* (Model/Alloc)
    "C04": [_P + n for n in ["compute_transformed_extents_eq", "analyze_extent_eq", "repeat_eq", "pad_repeat_get_scanline_bounds_eq", "pixman_malloc_ab_eq", "pixman_malloc_abc_eq",
                             "pixman_malloc_ab_plus_c_eq", "_pixman_multiply_overflows_int_eq",
                             "_pixman_multiply_overflows_size_eq", "_pixman_addition_overflows_int_eq"]],
    # pixman-region.c (region32 instantiation): per-step pieces (BridgesRegion.lean)
    # pixman-region.c: one iteration of intersect_o / union_o (MERGERECT) / subtract_o (BridgesRegionO.lean)
    "C05": [_P + n for n in ["region32_intersect_o_step_eq", "region32_union_o_both_step_eq", "region32_union_o_r1_step_eq",
                             "region32_union_o_r2_step_eq", "region32_subtract_o_step_eq",
                             "region32_subtract_o_tail_step_eq",
                             # BridgesRegionV.lean: shortcut tests of intersect/union/subtract, pixman_op's decisions
                             "region32_intersect_nil_or_apart_eq", "region32_subtract_nil_or_apart_eq",
                             "region32_intersect_nar_eq", "region32_subtract_nar_eq", "region32_intersect_both_single_eq",
                             "region32_intersect_reg2_covers_eq", "region32_intersect_reg1_covers_eq",
                             "region32_union_reg1_covers_eq", "region32_union_reg2_covers_eq", "region32_union_nil_nar_eq",
                             "region32_same_tests_eq", "region32_union_copy_tests_eq", "region32_find_band_step_eq", "region32_find_band_tail_step_eq",
                             "region32_op_band_decisions_eq", "region32_op_coalesce_wanted_eq",
                             "region32_op_tail_tests_eq"]],
    "C06": [_P + n for n in ["region32_set_extents_step_eq", "region32_set_extents_step_end",
                             "region32_coalesce_compare_step_differ", "region32_coalesce_compare_step_same",
                             "region32_coalesce_merge_step_eq",
                             # BridgesRegionV.lean: validate's placement decision, pixman_op's band/coalesce/old_data tests
                             "region32_validate_place_eq", "region32_find_band_step_eq", "region32_find_band_tail_step_eq", "region32_op_band_decisions_eq",
                             "region32_op_coalesce_wanted_eq", "region32_op_tail_tests_eq"]],
    "C07": [_P + n for n in ["region32_translate_sums_eq", "region32_translate_inrange_eq", "region32_translate_outside_eq",
                             "region32_translate_clamp_extents_eq", "region32_translate_move_step_eq",
                             "region32_translate_clamp_step_eq", "region32_translate_single_eq",
                             "region32_contains_rectangle_step_eq"]],
    "C08": [_P + "pixman_fixed_to_bilinear_weight_eq", _P + "repeat_eq", _P + "bilinear_interpolation_eq"],
    # pixman-image.c: compute_image_info = C14's literal model = C09's continuation form (flag constants matched
    # against Gen/ImageFlags inside the proof)
    "C09": [_P + "compute_image_info_eq", _P + "analyze_extent_eq"],
    "C10": [_P + "unorm_to_unorm_eq"],
    # pixman-matrix.c: the 128-bit helpers
    "C11": [_P + n for n in ["rounded_udiv_128_by_48_eq", "rounded_udiv_128_by_48_ok_eq", "rounded_udiv_128_by_48_bridge",
                             "rounded_sdiv_128_by_49_eq", "rounded_sdiv_128_by_49_ok_eq", "rounded_sdiv_128_by_49_bridge",
                             "fixed_64_16_to_int128_eq", "fixed_112_16_to_fixed_48_16_eq"]],
    # pixman-trap.c: sample grid rows per depth, edge stepping
    "C12": [_P + n for n in [f"pixman_sample_{d}_y_{n}_eq" for d in ("ceil", "floor") for n in (1, 4, 8)] +
            ["pixman_edge_step_eq", "_pixman_edge_multi_init_eq"]],
    "C14": [_P + "compute_image_info_eq"],
    "C15": [_P + n for n in ["pixman_malloc_ab_eq", "pixman_malloc_abc_eq", "pixman_malloc_ab_plus_c_eq"]],
    "C17": [_P + n for n in ["glyph_hash_eq", "glyph_thaw_outer_eq", "glyph_thaw_dump_eq", "glyph_thaw_evict_eq",
                             "glyph_insert_frozen_eq", "glyph_insert_full_eq",
                             # one iteration of each loop of lookup_glyph / insert_glyph / remove_glyph (BridgesGlyph.lean)
                             "lookup_glyph_step_eq", "insert_glyph_step_eq", "insert_glyph_store_eq",
                             "remove_glyph_find_step_eq", "remove_glyph_mark_eq", "remove_glyph_next_empty_eq",
                             "remove_glyph_clear_step_eq"]],
    "C19": [_P + n for n in ["color_to_uint32_eq", "color_to_pixel_eq", "convert_8888_to_0565_eq_fill"]],
}
ALL_BRIDGES = sorted({t for v in REQUIRED_BRIDGES.values() for t in v})

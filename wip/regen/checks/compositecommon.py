"""Shared machinery of C01 and C09: the `composite` correspondence stream (library vs Lean model,
two implementation chains) + the Spec oracle evaluated by the harness on the library's outputs."""
import collections, json, os, re, shutil, subprocess
from concurrent.futures import ProcessPoolExecutor
from engine.core import diff_streams, count_lines, log, VERIF

CONFIGS = [("default", ""), ("general-only", "fast mmx sse2 ssse3")]
# thorough tier: the intermediate chains too (a quarter of the streams each)
EXTRA_CONFIGS = [("fast+general", "mmx sse2 ssse3"), ("mmx+fast+general", "sse2 ssse3"), ("sse2+mmx+fast+general", "ssse3")]
PD = set(range(13))
OPNAME = {0: "CLEAR", 1: "SRC", 2: "DST", 3: "OVER", 4: "OVER_REVERSE", 5: "IN", 6: "IN_REVERSE", 7: "OUT",
          8: "OUT_REVERSE", 9: "ATOP", 10: "ATOP_REVERSE", 11: "XOR", 12: "ADD", 0x30: "MULTIPLY", 0x31: "SCREEN",
          0x32: "OVERLAY", 0x33: "DARKEN", 0x34: "LIGHTEN", 0x37: "HARD_LIGHT", 0x39: "DIFFERENCE", 0x3a: "EXCLUSION"}


def env_for(disable):
    e = dict(os.environ)
    e.pop("PIXMAN_DISABLE", None)
    if disable:
        e["PIXMAN_DISABLE"] = disable
    return e


def mask_kind(t):
    if t[3] == "none":
        return "none"
    k = "ca" if t[1] == "1" else "unified"
    return k + ("-solid" if t[3] == "solid" else "-" + t[3].split("+")[0])


def batch_around(lines, ln):
    """the consecutive lines (1-based ln) that the harness composited in one call"""
    key = lines[ln - 1].split(" ")[:5]
    a = ln - 1
    while a > 0 and lines[a - 1].split(" ")[:5] == key and ln - 1 - a < 40:
        a -= 1
    b = ln
    while b < len(lines) and lines[b] and lines[b].split(" ")[:5] == key and b - ln < 40:
        b += 1
    return lines[a:b], ln - 1 - a


def _job(args):
    """one stream under one implementation chain, in a worker process: harness, Lean driver, diff,
    oracle lines, statistics; the stream's files are deleted before returning"""
    (exe, pixdrv, d, cname, disable, kind, corpus_path, seed, nbatches, mode) = args
    os.makedirs(d, exist_ok=True)
    ops, impl, orc, model = (os.path.join(d, n) for n in ("ops.txt", "impl.txt", "oracle.txt", "model.txt"))
    for attempt in range(3):     # a stream cut short by the environment is retried; a crash of the library repeats
        if kind == "corpus":
            shutil.copyfile(corpus_path, ops)
            r1 = subprocess.run([exe, "exec", ops, impl, orc], env=env_for(disable), stdout=subprocess.DEVNULL, stderr=subprocess.PIPE, text=True)
        else:
            r1 = subprocess.run([exe, "gen", str(seed), str(nbatches), str(mode), ops, impl, orc],
                                env=env_for(disable), stdout=subprocess.DEVNULL, stderr=subprocess.PIPE, text=True)
        with open(ops) as fi, open(model, "w") as fo:
            r2 = subprocess.run([pixdrv, "composite"], stdin=fi, stdout=fo, stderr=subprocess.PIPE, text=True)
        if r1.returncode == 0 and r2.returncode == 0 and count_lines(ops) == count_lines(impl) == count_lines(model):
            break
    res = dict(cname=cname, findings=[], hist_op=collections.Counter(), hist_mask=collections.Counter(),
               hist_fmt=collections.Counter(), hist_tag=collections.Counter(), nontrivial=0, samples=[], n=0,
               oracle_stat=collections.Counter())
    n, dis = diff_streams(ops, impl, model, limit=200)
    res["n"] = n
    with open(ops) as f:
        lines = f.read().split("\n")
    nreq = len(lines) - (1 if lines and lines[-1] == "" else 0)
    if n != nreq or n == 0:
        res["findings"].append(dict(kind="stream", config=cname, disable=disable, line="(stream)", impl=None, model=None,
                                    text=f"stream incomplete: {n} compared of {nreq} requests; harness exit {r1.returncode} "
                                         f"{r1.stderr[-200:]!r}; driver exit {r2.returncode} {r2.stderr[-200:]!r}; seed {seed}", batch=[]))
    if cname == "default":      # the requests are the same under both chains: count once
        nt = set()
        for l in lines:
            if not l:
                continue
            t = l.split(" ")
            op = int(t[0])
            res["hist_op"][OPNAME.get(op, str(op))] += 1
            res["hist_mask"][mask_kind(t)] += 1
            res["hist_fmt"][f"{t[2].split('+')[0]}->{t[4].split('+')[0]}"] += 1
            for tg in branch_tags(t):
                res["hist_tag"][tg] += 1
            if nontrivial_request(t):
                nt.add(l)
                if len(res["samples"]) < 2 and len(nt) % 977 == 1:
                    res["samples"].append(l)
        res["nontrivial"] = len(nt)
    orc_lines = {}
    with open(orc) as f:
        for ol in f:
            mm = re.match(r"ORACLE (\d+) (.*)", ol.strip())
            if mm:
                orc_lines.setdefault(int(mm.group(1)), mm.group(2))
            elif ol.startswith("STAT ") and cname == "default":
                tk = ol.split()
                for k, v in zip(tk[1::2], tk[2::2]):
                    res["oracle_stat"][k] += int(v)
    if orc_lines or dis:
        impl_lines = open(impl).read().split("\n")
        model_lines = open(model).read().split("\n")
    for ln, text in list(orc_lines.items())[:200]:
        batch, idx = batch_around(lines, ln)
        kind_ = "pair" if text.startswith("pair") else ("oracle-blend" if text.startswith("blend") else "oracle-spec")
        pm = re.search(r"\(line (\d+):", text) if kind_ == "pair" else None
        if pm:      # the presentation it was compared with runs first in a replay
            batch = batch_around(lines, int(pm.group(1)))[0] + ["#pair"] + batch
        res["findings"].append(dict(kind=kind_, config=cname, disable=disable, line=lines[ln - 1], impl=impl_lines[ln - 1],
                                    model=model_lines[ln - 1] if ln - 1 < len(model_lines) else None, text=text, batch=batch))
    for (ln, op, a, m) in dis:
        if ln in orc_lines:
            continue                      # already reported as the library's deviation from the Spec
        batch, idx = batch_around(lines, ln)
        res["findings"].append(dict(kind="model-disagree", config=cname, disable=disable, line=op, impl=a, model=m,
                                    text="Lean model and library differ while the library agrees with the Spec oracle"
                                    if is_pd_line(op) else "Lean model and library differ", batch=batch))
    shutil.rmtree(d, ignore_errors=True)
    return res


def run_streams(ctx, mode, nbatches, nstreams):
    """mode 0: C01 stream, mode 1: C09 paired stream.  Every stream runs once per implementation
    chain (own process each).  Returns findings: dicts(kind, config, line, impl, model, text, batch)."""
    b = ctx.build_pixman("plain")
    exe = ctx.cc("composite", ["composite.c"], b)
    pixdrv = str(VERIF / "lean" / ".lake" / "build" / "bin" / "pixdrv")
    corpus_dir = VERIF / "corpus" / "composite"
    corpus = sorted(corpus_dir.glob("*.txt")) if corpus_dir.exists() else []
    jobs = []
    configs = [(c, d, nstreams) for c, d in CONFIGS]
    if ctx.tier == "thorough":
        configs += [(c, d, max(1, nstreams // 4)) for c, d in EXTRA_CONFIGS]
    for cname, disable, ns in configs:
        for i, c in enumerate(corpus):
            jobs.append((str(exe), pixdrv, str(ctx.scratch / f"cs-{mode}-{cname}-corpus{i}"), cname, disable, "corpus", str(c), 0, 0, mode))
        for i in range(ns):
            seed = ctx.seed * 100000 + mode * 1000 + i          # same requests under both chains
            jobs.append((str(exe), pixdrv, str(ctx.scratch / f"cs-{mode}-{cname}-gen{i}"), cname, disable, "gen", "", seed, nbatches, mode))
    with ProcessPoolExecutor(max_workers=16) as ex:
        results = list(ex.map(_job, jobs))
    findings = []
    hist_op, hist_mask, hist_fmt, hist_cfg, hist_tag = (collections.Counter() for _ in range(5))
    samples, total, nontrivial = [], 0, 0
    oracle_stat = collections.Counter()
    for r in results:
        total += r["n"]
        hist_cfg[r["cname"]] += r["n"]
        hist_op.update(r["hist_op"]); hist_mask.update(r["hist_mask"]); hist_fmt.update(r["hist_fmt"]); hist_tag.update(r["hist_tag"])
        nontrivial += r["nontrivial"]
        oracle_stat.update(r["oracle_stat"])
        samples += r["samples"]
        findings += r["findings"]
    ctx.cov["evaluations"] += total
    ctx.cov["distinct_nontrivial"] += nontrivial
    ctx.cov["traces_validated_against_impl"] += total
    ctx.cov["samples"] = (ctx.cov.get("samples") or []) + samples[:6]
    ctx.extra.setdefault("operator_histogram", {}).update(dict(hist_op))
    ctx.extra.setdefault("mask_kind_histogram", {}).update(dict(hist_mask))
    ctx.extra.setdefault("format_pair_histogram_top", {}).update(dict(hist_fmt.most_common(25)))
    ctx.extra.setdefault("requests_per_chain", {}).update(dict(hist_cfg))
    ctx.extra.setdefault("early_out_branch_histogram", {}).update(dict(hist_tag))
    ctx.extra.setdefault("blend_mode_oracle_requests", {}).update(dict(oracle_stat))   # per chain "default"; same requests under the others
    return findings


def branch_tags(t):
    """early-out branches of pixman-combine32.c a request takes (only where raw values are the
    fetched a8r8g8b8 words, so the tag can be read off the request)"""
    if t[4].split("+")[0] != "a8r8g8b8" or t[2].split("+")[0] not in ("a8r8g8b8", "solid") or \
       t[3].split("+")[0] not in ("none", "a8r8g8b8", "solid"):
        return []
    op, ca, s, m, d = int(t[0]), t[1] == "1", int(t[5]), int(t[6]), int(t[7])
    sa, da, ma = s >> 24, d >> 24, m >> 24
    tags = []
    if t[3] == "none" or not ca:
        if t[3] != "none":
            tags.append("combine_mask:m==0" if ma == 0 else "combine_mask:m!=0")
        if op == 3 and (t[3] == "none" or ma == 0xff):
            tags.append("over_u:a==0xff" if sa == 0xff else "over_u:s==0" if s == 0 else "over_u:general")
        elif op == 3:
            tags.append("over_u:m==0" if ma == 0 else "over_u:masked s==0" if s == 0 else "over_u:masked general")
    else:
        if op in (3, 9, 10, 11) or op >= 0x30:
            tags.append("combine_mask_ca:a==0" if m == 0 else "combine_mask_ca:a==~0" if m == 0xffffffff else "combine_mask_ca:general")
        if op in (1, 5, 7, 12):
            tags.append("combine_mask_value_ca:a==0" if m == 0 else "combine_mask_value_ca:a==~0" if m == 0xffffffff else "combine_mask_value_ca:general")
        if op in (6, 8):
            tags.append("combine_mask_alpha_ca:a==0" if m == 0 else "combine_mask_alpha_ca:x==0xff" if sa == 0xff else
                        "combine_mask_alpha_ca:a==~0" if m == 0xffffffff else "combine_mask_alpha_ca:general")
        if op == 3 and m == 0xffffffff and sa == 0xff:
            tags.append("over_ca:~m==0")
        if op == 4:
            tags.append("over_reverse_ca:a==0" if da == 0xff else "over_reverse_ca:general")
        if op == 5:
            tags.append("in_ca:a==0" if da == 0 else "in_ca:a==0xff" if da == 0xff else "in_ca:general")
        if op == 7:
            tags.append("out_ca:a==0" if da == 0xff else "out_ca:a==0xff" if da == 0 else "out_ca:general")
    return tags


def is_pd_line(l):
    try:
        return int(l.split(" ")[0]) in PD
    except ValueError:
        return False


def nontrivial_request(t):
    """a request whose result needs the rounding arithmetic: not CLEAR/DST, and the source or the
    mask is translucent somewhere (raw values: cheap syntactic test on the 32-bit formats, any
    non-zero/non-max value otherwise)"""
    op = int(t[0])
    if op in (0, 2):
        return False
    s, m = int(t[5]), int(t[6])
    sa = s >> 24 if t[2].startswith(("a8r8g8b8", "solid")) else None
    if t[3] != "none" and m not in (0, 0xffffffff, 0xff, 0xff000000):
        return True
    return sa is not None and 0 < sa < 255


def signature(f):
    t = f["line"].split(" ")
    if len(t) < 5:
        return f"{f['kind']}|{f['config']}"
    txt = re.sub(r"\d+", "N", f["text"].split("(")[0]).strip()
    return f"{f['kind']}|op={t[0]}|ca={t[1]}|{t[2]}|{t[3]}|{t[4]}|{f['config']}|{txt}"


def report(ctx, findings, limit=6):
    seen = collections.OrderedDict()
    for f in findings:
        seen.setdefault(signature(f), []).append(f)
    n = 0
    for sig, items in seen.items():
        if n >= limit:
            break
        f = min(items, key=lambda it: len(it["batch"]))
        t = f["line"].split(" ")
        opn = OPNAME.get(int(t[0]), t[0]) if t and t[0].isdigit() else "?"
        if ctx.violation({"kind": f["kind"], "request": f["line"], "batch": f["batch"], "implementation": f["impl"],
                          "model": f["model"], "oracle": f["text"], "env": {"PIXMAN_DISABLE": f["disable"]},
                          "domain": "composite",
                          "how_to_replay": "bin/check <ID> --replay <this file>  (runs `harness/composite exec` on the batch "
                                           "under the recorded PIXMAN_DISABLE and `pixdrv composite` on the same lines)",
                          "count_in_run": len(items)}, signature=sig,
                         what=f"{opn} {f['kind']} [{f['config']}]: {f['text']}", tag=opn):
            n += 1


def replay(ctx, path):
    obj = json.loads(open(path).read())
    if obj.get("kind") in ("broken-proof-obligation", "build", "harness-build"):
        log(f"replay of kind {obj.get('kind')}: re-run the check itself")
        return
    b = ctx.build_pixman("plain")
    exe = ctx.cc("composite", ["composite.c"], b)
    d = ctx.scratch / "replay"
    d.mkdir(exist_ok=True)
    ops, impl, orc, model = d / "ops.txt", d / "impl.txt", d / "oracle.txt", d / "model.txt"
    batch = obj.get("batch") or [obj["request"]]
    pair_at = batch.index("#pair") if "#pair" in batch else None
    batch = [l for l in batch if l != "#pair"]
    ops.write_text("\n".join(batch) + "\n")
    disable = obj.get("env", {}).get("PIXMAN_DISABLE", "")
    subprocess.run([str(exe), "exec", str(ops), str(impl), str(orc)], env=env_for(disable),
                   stdout=subprocess.DEVNULL, stderr=subprocess.DEVNULL)
    ctx.lean_obligations(f"Pixman.Props.{ctx.pid}", [])
    ctx.pixdrv("composite", ops, model)
    n, dis = diff_streams(ops, impl, model)
    orc_txt = "\n".join(l for l in orc.read_text().split("\n") if l.startswith("ORACLE")).strip()   # STAT lines are counters
    for l, a, m in zip(batch, impl.read_text().split("\n"), model.read_text().split("\n")):
        log(f"  {l}  ->  library {a}   model {m}")
    if orc_txt:
        log(orc_txt)
    ctx.cov["evaluations"] = n
    pair_bad = False
    if pair_at is not None:
        out = impl.read_text().split("\n")
        half = len(batch) - pair_at
        for i in range(min(pair_at, half)):
            msk = 0xffffffff if all(x.split(" ")[4].startswith("a8r8g8b8") for x in (batch[i], batch[pair_at + i])) else 0xffffff
            if (int(out[i]) & msk) != (int(out[pair_at + i]) & msk):
                pair_bad = True
                log(f"  presentations differ: {batch[i]} -> {out[i]}   vs   {batch[pair_at + i]} -> {out[pair_at + i]}")
    if dis or orc_txt or pair_bad:
        ctx.violation(dict(obj, replayed=True), signature=obj.get("signature"), what=obj.get("what", "replayed failure"), tag="replay")
    else:
        log("replay: library, model and Spec oracle agree on this input now")

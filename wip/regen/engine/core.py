"""Common engine of every check: build, Lean obligations, correspondence plumbing, verdict,
evidence.  See DESIGN.md section 1.1.  Python standard library only."""
import atexit, fcntl, hashlib, json, os, re, shutil, signal, subprocess, sys, time
from pathlib import Path

VERIF = Path(__file__).resolve().parents[1]
REPO = Path(os.environ.get("VERIF_REPO", "/repo"))
LEAN = VERIF / "lean"
ALLOWED_AXIOMS = {"propext", "Classical.choice", "Quot.sound"}
FORBIDDEN = re.compile(r"\b(sorry|admit|native_decide|bv_decide|implemented_by)\b|^\s*axiom\s|\bunsafe\s|maxHeartbeats\s+0\b")
GUARD = "PIXMAN_VERIF"

TRUSTED_BASE = [
    "Lean 4.33.0 kernel; axioms propext, Classical.choice, Quot.sound only (audited by #print axioms on every run)",
    "Lean compiler/runtime executing the model inside pixdrv",
    "extractors tools/gen_*.py (regenerated Lean sources) and the C correspondence harness + its generator",
    "gcc 12 / meson build of /repo's working tree; sanitizers where named",
]


def log(*a):
    print(*a, flush=True)


def sh(cmd, **kw):
    kw.setdefault("stdout", subprocess.PIPE)
    kw.setdefault("stderr", subprocess.STDOUT)
    kw.setdefault("text", True)
    return subprocess.run(cmd, **kw)


class Obligation:
    def __init__(self, name, ok, why=""):
        self.name, self.ok, self.why = name, ok, why


class Ctx:
    """One run of one property check."""

    def __init__(self, pid, tier, seed):
        self.pid, self.tier, self.seed = pid, tier, seed
        self.t0 = time.time()
        self.scratch = Path(f"/var/tmp/pixman-verif.{pid}.{os.getpid()}")
        if self.scratch.exists():
            shutil.rmtree(self.scratch)
        self.scratch.mkdir(parents=True)
        atexit.register(self.cleanup)
        for s in (signal.SIGTERM, signal.SIGINT):
            signal.signal(s, lambda *_: sys.exit(143))
        self.builds = {}
        self.obligations = []       # Obligation
        self.violations = []        # dict(replay=path, known=None|str, text=...)
        self.known_hits = []
        self.cov = {"evaluations": 0, "distinct_nontrivial": 0, "rule": "", "samples": [],
                    "traces_validated_against_impl": 0}
        self.extra = {}
        self.assumptions = []
        self.level = "proof"
        self.known = load_known()
        (VERIF / "replays").mkdir(exist_ok=True)
        (VERIF / "evidence").mkdir(exist_ok=True)

    def cleanup(self):
        shutil.rmtree(self.scratch, ignore_errors=True)

    # ---------------------------------------------------------------- building /repo
    def build_pixman(self, flavour="plain"):
        """Static libpixman from /repo's working tree, in scratch. flavours: plain, asan, asanonly, tsan, glyphsmall."""
        if flavour in self.builds:
            return self.builds[flavour]
        bdir = self.scratch / f"build-{flavour}"
        cargs = f"-D{GUARD}"
        margs = []
        if flavour == "asan":
            margs += ["-Db_sanitize=address,undefined", "-Db_lundef=false"]
            cargs += " -fno-sanitize-recover=all -fno-omit-frame-pointer"
        elif flavour == "asanonly":   # AddressSanitizer + LeakSanitizer without UBSan (C20: pixel-level UB is not its subject)
            margs += ["-Db_sanitize=address", "-Db_lundef=false"]
            cargs += " -fno-omit-frame-pointer"
        elif flavour == "tsan":
            margs += ["-Db_sanitize=thread", "-Db_lundef=false"]
        elif flavour == "glyphsmall":
            cargs += " -DPIXMAN_VERIF_GLYPH_HIGH_WATER=6 -DPIXMAN_VERIF_GLYPH_LOW_WATER=3"
        cmd = ["meson", "setup", str(bdir), str(REPO), "-Dtests=disabled", "-Dgtk=disabled",
               "-Dlibpng=disabled", "-Ddefault_library=static", "-Dbuildtype=debugoptimized",
               f"-Dc_args={cargs}"] + margs
        r = sh(cmd)
        if r.returncode == 0:
            r = sh(["ninja", "-C", str(bdir)])
        if r.returncode != 0:
            (self.scratch / "build.log").write_text(r.stdout)
            self.build_failed(flavour, r.stdout)
        libs = [str(bdir / "pixman" / "libpixman-1.a")]
        b = {"dir": bdir, "libs": libs, "flavour": flavour,
             "inc": ["-I", str(bdir / "pixman"), "-I", str(bdir), "-I", str(REPO / "pixman")]}
        self.builds[flavour] = b
        return b

    def build_failed(self, flavour, out):
        path = self.write_replay({"kind": "build", "flavour": flavour,
                                  "what": "libpixman no longer builds from /repo's working tree",
                                  "log_tail": out[-4000:]}, tag="build")
        log(f"VIOLATION property={self.pid} replay={path} no-failing-input-found")
        self.violations.append({"replay": str(path)})
        self.finish(force_exit=1)

    def cc(self, name, srcs, build, extra=(), wrap=(), cxx=False):
        """Compile a harness against a build of the library."""
        exe = self.scratch / f"{name}-{build['flavour']}"
        flags = ["-O1", "-g", "-DHAVE_CONFIG_H", f"-D{GUARD}", "-I", str(VERIF / "harness")] + build["inc"]
        if build["flavour"] == "asan":
            flags += ["-fsanitize=address,undefined", "-fno-sanitize-recover=all"]
        if build["flavour"] == "asanonly":
            flags += ["-fsanitize=address", "-fno-omit-frame-pointer"]
        if build["flavour"] == "tsan":
            flags += ["-fsanitize=thread"]
        cmd = ["g++" if cxx else "gcc"] + flags + list(extra) + [str(VERIF / "harness" / s) for s in srcs] + ["-o", str(exe)]
        for w in wrap:
            cmd.append(f"-Wl,--wrap={w}")
        cmd += build["libs"] + ["-lm", "-lpthread"]
        r = sh(cmd)
        if r.returncode != 0:
            path = self.write_replay({"kind": "harness-build", "name": name,
                                      "what": "harness no longer compiles against /repo (an interface it uses changed)",
                                      "log_tail": r.stdout[-4000:]}, tag="harness")
            log(f"VIOLATION property={self.pid} replay={path} no-failing-input-found")
            self.violations.append({"replay": str(path)})
            self.finish(force_exit=1)
        return exe

    # ---------------------------------------------------------------- Lean side
    def lean_lock(self):
        f = open(LEAN / ".lock", "w")
        fcntl.flock(f, fcntl.LOCK_EX)
        return f

    def lean_generate(self):
        """Re-extract Pixman/Gen/*.lean from /repo's working tree (tools/gen_all.py)."""
        gen = VERIF / "tools" / "gen_all.py"
        if not gen.exists():
            return True, ""
        r = sh([sys.executable, str(gen), str(REPO), str(LEAN / "Pixman" / "Gen")])
        return r.returncode == 0, r.stdout

    def lean_obligations(self, module, required, extra_modules=()):
        """Build `module` (a Props module) against freshly regenerated Gen sources, audit the source
        for forbidden constructs, and #print axioms of every required theorem.  Fills
        self.obligations; returns list of broken obligation names."""
        # bridge obligations of this property: regenerated C functions (Gen/CFuncs) = hand-written models
        try:
            from checks.bridges import REQUIRED_BRIDGES, BRIDGE_MODULE
            extra = [t for t in REQUIRED_BRIDGES.get(self.pid, []) if t not in required]
            if extra:
                required = list(required) + extra
                if BRIDGE_MODULE not in extra_modules:
                    extra_modules = tuple(extra_modules) + (BRIDGE_MODULE,)
        except ImportError:
            pass
        lock = self.lean_lock()
        try:
            ok, out = self.lean_generate()
            if not ok:
                self.obligations.append(Obligation("extraction(tools/gen_all.py)", False, out[-2000:]))
                return ["extraction"]
            self.obligations.append(Obligation("extraction(tools/gen_all.py)", True))
            r = sh(["lake", "build", module, "pixdrv"] + list(extra_modules), cwd=LEAN)
            build_ok = r.returncode == 0
            buildlog = r.stdout
            broken_thms = set()
            if not build_ok:
                broken_thms = self.map_errors_to_theorems(buildlog)
            # source audit over the import closure that belongs to us
            bad = self.audit_sources()
            self.obligations.append(Obligation("source-audit(no sorry/admit/axiom/native_decide/bv_decide/unsafe)", not bad, "; ".join(bad)))
            # axiom audit
            results = {}
            if build_ok:
                results = self.print_axioms([module] + list(extra_modules), required)
            for t in required:
                if not build_ok:
                    okt = False
                    why = "does not check against the regenerated sources" if (t.split(".")[-1] in broken_thms or not broken_thms) else "module failed to build (a theorem it depends on broke)"
                    if broken_thms and t.split(".")[-1] not in broken_thms:
                        why = "not re-checked: module build failed at " + ",".join(sorted(broken_thms))
                else:
                    ax = results.get(t)
                    if ax is None:
                        okt, why = False, "theorem missing"
                    else:
                        extra = set(ax) - ALLOWED_AXIOMS
                        okt, why = (not extra), ("axioms: " + ",".join(sorted(ax)) if ax else "no axioms")
                        if extra:
                            why = "forbidden axioms: " + ",".join(sorted(extra))
                self.obligations.append(Obligation(t, okt, why))
            if not build_ok:
                self.extra["lean_build_log_tail"] = buildlog[-3000:]
            if self.tier == "thorough" and build_ok:
                r = sh(["lake", "env", "leanchecker", module], cwd=LEAN)
                self.obligations.append(Obligation(f"leanchecker({module})", r.returncode == 0, r.stdout[-500:]))
        finally:
            lock.close()
        return [o.name for o in self.obligations if not o.ok]

    def map_errors_to_theorems(self, buildlog):
        names = set()
        for m in re.finditer(r"error: (\S+?\.lean):(\d+):\d+", buildlog):
            f, line = m.group(1), int(m.group(2))
            p = (LEAN / f) if not os.path.isabs(f) else Path(f)
            if not p.exists():
                continue
            last = None
            for i, l in enumerate(p.read_text().splitlines(), 1):
                if i > line:
                    break
                mm = re.match(r"\s*(?:private\s+|protected\s+)?(?:theorem|lemma|def|example|instance)\s+([^\s:(\[{]+)", l)
                if mm:
                    last = mm.group(1)
            if last:
                names.add(last)
        return names

    def audit_sources(self):
        bad = []
        for p in list((LEAN / "Pixman").rglob("*.lean")) + list((LEAN / "Driver").rglob("*.lean")) + [LEAN / "Main.lean"]:
            txt = p.read_text()
            # strip comments
            txt = re.sub(r"/-.*?-/", lambda m: "\n" * m.group(0).count("\n"), txt, flags=re.S)
            for i, l in enumerate(txt.splitlines(), 1):
                l = l.split("--")[0]
                if FORBIDDEN.search(l):
                    bad.append(f"{p.relative_to(LEAN)}:{i}")
        return bad

    def print_axioms(self, modules, theorems):
        f = self.scratch / "Axioms.lean"
        if isinstance(modules, str):
            modules = [modules]
        f.write_text("".join(f"import {m}\n" for m in modules) + "".join(f"#print axioms {t}\n" for t in theorems))
        r = sh(["lake", "env", "lean", str(f)], cwd=LEAN)
        res = {}
        out = r.stdout
        # "'X' depends on axioms: [a, b]" or "'X' does not depend on any axioms"
        for m in re.finditer(r"'([^']+)' depends on axioms: \[([^\]]*)\]", out, flags=re.S):
            res[m.group(1)] = [a.strip() for a in m.group(2).replace("\n", " ").split(",") if a.strip()]
        for m in re.finditer(r"'([^']+)' does not depend on any axioms", out):
            res[m.group(1)] = []
        return res

    def pixdrv(self, domain, infile, outfile):
        exe = LEAN / ".lake" / "build" / "bin" / "pixdrv"
        with open(infile) as fi, open(outfile, "w") as fo:
            r = subprocess.run([str(exe), domain], stdin=fi, stdout=fo, stderr=subprocess.PIPE, text=True)
        return r.returncode == 0

    # ---------------------------------------------------------------- verdict
    def write_replay(self, obj, tag=""):
        obj = dict(obj)
        obj.setdefault("property", self.pid)
        obj.setdefault("seed", self.seed)
        obj.setdefault("tier", self.tier)
        blob = json.dumps(obj, sort_keys=True, indent=1)
        h = hashlib.sha1(blob.encode()).hexdigest()[:10]
        path = VERIF / "replays" / f"{self.pid}-{tag + '-' if tag else ''}{h}.json"
        path.write_text(blob + "\n")
        return path

    def violation(self, replay_obj, signature=None, what="", found_input=True, tag=""):
        """Report a violation unless `signature` is a listed known finding."""
        for k in self.known.get("findings", []):
            if k.get("property") == self.pid and signature is not None and k.get("signature") == signature:
                if signature not in self.known_hits:
                    self.known_hits.append(signature)
                    log(f"KNOWN-FINDING: property={self.pid} {k.get('what', what)}")
                return False
        replay_obj = dict(replay_obj)
        replay_obj["signature"] = signature
        replay_obj["what"] = what
        path = self.write_replay(replay_obj, tag)
        log(f"VIOLATION property={self.pid} replay={path}" + ("" if found_input else " no-failing-input-found"))
        self.violations.append({"replay": str(path), "what": what})
        return True

    def broken_obligations_verdict(self, broken, search_note):
        """A proof obligation no longer checks and the search found no failing input."""
        path = self.write_replay({"kind": "broken-proof-obligation", "obligations": broken,
                                  "search": search_note,
                                  "lean_build_log_tail": self.extra.get("lean_build_log_tail", "")}, tag="proof")
        log(f"VIOLATION property={self.pid} replay={path} no-failing-input-found")
        self.violations.append({"replay": str(path), "what": "broken proof obligation: " + ", ".join(broken)})

    def finish(self, force_exit=None):
        nob = len(self.obligations)
        dis = sum(1 for o in self.obligations if o.ok)
        cov = dict(self.cov)
        cov.update({
            "obligations": max(nob, 0), "discharged": dis,
            "obligation_list": [{"name": o.name, "ok": o.ok, "note": o.why} for o in self.obligations],
            "checker_cmd": f"cd {LEAN} && lake build Pixman.Props.{self.pid} && lake env lean <#print axioms of each listed theorem>" + ("; lake env leanchecker Pixman.Props." + self.pid if self.tier == "thorough" else ""),
            "trusted_base": TRUSTED_BASE,
            "known_findings_hit": self.known_hits,
        })
        cov.update(self.extra)
        if not cov["samples"]:
            cov["samples"] = ["(none)"]
        ev = {"property_id": self.pid, "tier": self.tier, "seed": self.seed, "level": self.level,
              "coverage": cov, "assumptions": self.assumptions,
              "wall_s": round(time.time() - self.t0, 2), "violations": len(self.violations)}
        (VERIF / "evidence" / f"{self.pid}.json").write_text(json.dumps(ev, indent=1) + "\n")
        code = 1 if self.violations else 0
        if force_exit is not None:
            code = force_exit
        log(f"[{self.pid}] tier={self.tier} seed={self.seed} obligations={dis}/{nob} evaluations={cov['evaluations']} "
            f"violations={len(self.violations)} known={len(self.known_hits)} wall={ev['wall_s']}s")
        self.cleanup()
        sys.exit(code)


def load_known():
    p = VERIF / "known_findings.json"
    if p.exists():
        return json.loads(p.read_text())
    return {"findings": [], "fixed": []}


def diff_streams(ops_path, impl_path, model_path, limit=50):
    """Line-by-line comparison; returns list of (lineno, op, impl, model) for disagreements."""
    out = []
    n = 0
    with open(ops_path) as fo, open(impl_path) as fi, open(model_path) as fm:
        for i, (o, a, b) in enumerate(zip(fo, fi, fm), 1):
            n += 1
            if a.strip() != b.strip():
                out.append((i, o.rstrip("\n"), a.strip(), b.strip()))
                if len(out) >= limit:
                    break
    return n, out


def count_lines(p):
    with open(p, "rb") as f:
        return sum(1 for _ in f)

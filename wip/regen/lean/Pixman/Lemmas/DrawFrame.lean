import Pixman.Props.C10
import Pixman.Props.C03Final
import Pixman.Props.C17Draw
import Pixman.Props.C19
import Pixman.Props.C12
/-!
  The drawing frame (C03, second half): memory-level frame lemmas.

  Destination memory is C10's byte memory (`Model.Format.Mem`, `Model.Format.Image`: format, byte
  address of `bits`, rowstride in `uint32_t`).  `Within img bpp S m m'` says that `m'` differs from
  `m` only inside the pixels `S` of the image: every other pixel position of every row (sub-byte
  neighbours and the padding positions up to the rowstride included) reads the same raw value, and
  every byte outside the storage units of the pixels of `S` (its own bytes; the byte for 4 bpp;
  the aligned 32-bit word for 1 bpp) is unchanged.  `within_bits` turns this into the statement
  about single bits.  A scanline store (C10's `store_scanline_frame`) is `Within` its pixels;
  `Within` is transitive, so every drawing routine that is a sequence of scanline stores of pixels
  of `S` is `Within S`.
-/
namespace Pixman.DrawFrame
open Pixman.Model.Format Pixman.Lemmas.FormatMem
open Pixman.Gen.Formats (Rec formats)

abbrev FImage := Pixman.Model.Format.Image

/-- pixel position `x` lies inside a row: its bits end before the next row starts -/
def InRow (img : FImage) (bpp x : Nat) : Prop := (x + 1) * bpp ≤ 32 * img.rowstride

/-- byte address `a` lies outside the storage unit of pixel `(x, y)` -/
def OutsideUnit (img : FImage) (bpp x y a : Nat) : Prop :=
  a < unitLo (img.row y) x bpp ∨ unitLo (img.row y) x bpp + unitLen bpp ≤ a

/-- `m'` differs from `m` only inside the pixels `S` of `img` -/
structure Within (img : FImage) (bpp : Nat) (S : Nat → Nat → Prop) (m m' : Mem) : Prop where
  bytes : m'.Bytes
  pixels : ∀ x y, InRow img bpp x → ¬ S x y →
    fetchRaw m' (img.row y) x bpp = fetchRaw m (img.row y) x bpp
  others : ∀ a, (∀ x y, S x y → OutsideUnit img bpp x y a) → m' a = m a

theorem within_refl {img : FImage} {bpp : Nat} {S : Nat → Nat → Prop} {m : Mem} (hb : m.Bytes) :
    Within img bpp S m m := ⟨hb, fun _ _ _ _ => rfl, fun _ _ => rfl⟩

theorem within_trans {img : FImage} {bpp : Nat} {S : Nat → Nat → Prop} {m m' m'' : Mem}
    (h1 : Within img bpp S m m') (h2 : Within img bpp S m' m'') : Within img bpp S m m'' :=
  ⟨h2.bytes, fun x y hx hs => (h2.pixels x y hx hs).trans (h1.pixels x y hx hs),
   fun a ha => (h2.others a ha).trans (h1.others a ha)⟩

theorem within_mono {img : FImage} {bpp : Nat} {S T : Nat → Nat → Prop} {m m' : Mem}
    (hst : ∀ x y, S x y → T x y) (h : Within img bpp S m m') : Within img bpp T m m' :=
  ⟨h.bytes, fun x y hx ht => h.pixels x y hx (fun hs => ht (hst x y hs)),
   fun a ha => h.others a (fun x y hs => ha x y (hst x y hs))⟩

/-- a fold of steps each of which stays within `S` stays within `S` -/
theorem within_foldl {α : Type} {img : FImage} {bpp : Nat} {S : Nat → Nat → Prop} (f : Mem → α → Mem)
    (l : List α) (hstep : ∀ a ∈ l, ∀ m : Mem, m.Bytes → Within img bpp S m (f m a)) :
    ∀ m : Mem, m.Bytes → Within img bpp S m (l.foldl f m) := by
  induction l with
  | nil => intro m hb; exact within_refl hb
  | cons a l ih =>
    intro m hb
    rw [List.foldl_cons]
    have h1 := hstep a List.mem_cons_self m hb
    exact within_trans h1 (ih (fun b hb' => hstep b (List.mem_cons_of_mem _ hb')) _ h1.bytes)

/-! ### geometry of rows and storage units -/

theorem row_succ_le (img : FImage) {y y' : Nat} (h : y < y') : img.row y + 4 * img.rowstride ≤ img.row y' := by
  unfold Image.row
  have : (y + 1) * img.rowstride ≤ y' * img.rowstride := Nat.mul_le_mul_right _ h
  rw [Nat.add_mul] at this
  omega

/-- the storage unit of a pixel inside the row lies inside the row's `4 * rowstride` bytes -/
theorem unit_in_row (img : FImage) {bpp : Nat} (hbpp : Bpp bpp) (x y : Nat) (hx : InRow img bpp x) :
    img.row y ≤ unitLo (img.row y) x bpp ∧
      unitLo (img.row y) x bpp + unitLen bpp ≤ img.row y + 4 * img.rowstride := by
  unfold InRow at hx
  rcases hbpp with h | h | h | h | h | h <;> subst h <;> simp only [unitLo, unitLen] <;>
    simp only [show (4 : Nat) ≠ 1 by decide, show (8 : Nat) ≠ 1 by decide, show (8 : Nat) ≠ 4 by decide,
      show (16 : Nat) ≠ 1 by decide, show (16 : Nat) ≠ 4 by decide, show (16 : Nat) ≠ 8 by decide,
      show (24 : Nat) ≠ 1 by decide, show (24 : Nat) ≠ 4 by decide, show (24 : Nat) ≠ 8 by decide,
      show (24 : Nat) ≠ 16 by decide, show (32 : Nat) ≠ 1 by decide, show (32 : Nat) ≠ 4 by decide,
      show (32 : Nat) ≠ 8 by decide, show (32 : Nat) ≠ 16 by decide, show (32 : Nat) ≠ 24 by decide,
      if_true, if_false] <;> omega

/-- the raw value of a pixel depends only on the bytes of its storage unit -/
theorem fetchRaw_congr {bpp : Nat} (hbpp : Bpp bpp) (m1 m2 : Mem) (bits o : Nat)
    (h : ∀ a, unitLo bits o bpp ≤ a → a < unitLo bits o bpp + unitLen bpp → m1 a = m2 a) :
    fetchRaw m1 bits o bpp = fetchRaw m2 bits o bpp := by
  rcases hbpp with hh | hh | hh | hh | hh | hh <;> subst hh
  · have e := fun k (hk : k < 4) => h (bits + 4 * (o / 32) + k) (by simp [unitLo] <;> omega) (by simp [unitLo, unitLen] <;> omega)
    have e0 := e 0 (by omega); have e1 := e 1 (by omega); have e2 := e 2 (by omega); have e3 := e 3 (by omega)
    simp only [Nat.add_zero] at e0
    simp only [fetchRaw, if_true, fetch1, read32, shr5, e0, e1, e2, e3]
  · have e := h (bits + o / 2) (by simp [unitLo] <;> omega) (by simp [unitLo, unitLen] <;> omega)
    simp only [fetchRaw, show (4 : Nat) ≠ 1 by decide, if_true, if_false, fetch4, fetch8, read8, shr3_4, e]
  · have e := h (bits + o) (by simp [unitLo] <;> omega) (by simp [unitLo, unitLen] <;> omega)
    simp only [fetchRaw, show (8 : Nat) ≠ 1 by decide, show (8 : Nat) ≠ 4 by decide, if_true, if_false, read8, e]
  · have e0 := h (bits + 2 * o) (by simp [unitLo] <;> omega) (by simp [unitLo, unitLen] <;> omega)
    have e1 := h (bits + 2 * o + 1) (by simp [unitLo] <;> omega) (by simp [unitLo, unitLen] <;> omega)
    simp only [fetchRaw, show (16 : Nat) ≠ 1 by decide, show (16 : Nat) ≠ 4 by decide, show (16 : Nat) ≠ 8 by decide,
      if_true, if_false, read16, e0, e1]
  · have e0 := h (bits + o * 3 + 0) (by simp [unitLo] <;> omega) (by simp [unitLo, unitLen] <;> omega)
    have e1 := h (bits + o * 3 + 1) (by simp [unitLo] <;> omega) (by simp [unitLo, unitLen] <;> omega)
    have e2 := h (bits + o * 3 + 2) (by simp [unitLo] <;> omega) (by simp [unitLo, unitLen] <;> omega)
    simp only [fetchRaw, show (24 : Nat) ≠ 1 by decide, show (24 : Nat) ≠ 4 by decide, show (24 : Nat) ≠ 8 by decide,
      show (24 : Nat) ≠ 16 by decide, if_true, if_false, fetch24, read8, e0, e1, e2]
  · have e := fun k (hk : k < 4) => h (bits + 4 * o + k) (by simp [unitLo] <;> omega) (by simp [unitLo, unitLen] <;> omega)
    have e0 := e 0 (by omega); have e1 := e 1 (by omega); have e2 := e 2 (by omega); have e3 := e 3 (by omega)
    simp only [Nat.add_zero] at e0
    simp only [fetchRaw, show (32 : Nat) ≠ 1 by decide, show (32 : Nat) ≠ 4 by decide, show (32 : Nat) ≠ 8 by decide,
      show (32 : Nat) ≠ 16 by decide, show (32 : Nat) ≠ 24 by decide, if_true, if_false, read32, e0, e1, e2, e3]

/-! ### single bits -/

theorem testBit_high {b k j : Nat} (hb : b < 2 ^ k) (hj : k ≤ j) : b.testBit j = false :=
  Nat.testBit_lt_two_pow (Nat.lt_of_lt_of_le hb (Nat.pow_le_pow_right (by decide) hj))

theorem testBit_or_shl (x y k j : Nat) (hx : x < 2 ^ k) :
    (x ||| y <<< k).testBit j = if j < k then x.testBit j else y.testBit (j - k) := by
  rw [Nat.testBit_or, Nat.testBit_shiftLeft]
  by_cases h : j < k
  · rw [if_pos h]
    have : decide (j ≥ k) = false := by simp; omega
    rw [this]; simp
  · rw [if_neg h, testBit_high hx (by omega)]
    have : decide (j ≥ k) = true := by simp; omega
    rw [this]; simp

theorem read16_testBit (m : Mem) (hb : m.Bytes) (a j : Nat) (hj : j < 16) :
    (read16 m a).testBit j = (m (a + j / 8)).testBit (j % 8) := by
  unfold read16
  rw [testBit_or_shl _ _ 8 j (hb a)]
  by_cases h : j < 8
  · rw [if_pos h, show j / 8 = 0 by omega, show j % 8 = j by omega]; rfl
  · rw [if_neg h, show j / 8 = 1 by omega, show j % 8 = j - 8 by omega]

theorem lt16 (m : Mem) (hb : m.Bytes) (a : Nat) : m a ||| m (a + 1) <<< 8 < 2 ^ 16 := by
  apply Nat.or_lt_two_pow
  · exact Nat.lt_of_lt_of_le (hb a) (by decide)
  · rw [Nat.shiftLeft_eq]; have := hb (a + 1); omega

theorem lt24 (m : Mem) (hb : m.Bytes) (a : Nat) : m a ||| m (a + 1) <<< 8 ||| m (a + 2) <<< 16 < 2 ^ 24 := by
  apply Nat.or_lt_two_pow
  · exact Nat.lt_of_lt_of_le (lt16 m hb a) (by decide)
  · rw [Nat.shiftLeft_eq]; have := hb (a + 2); omega

theorem read24_testBit (m : Mem) (hb : m.Bytes) (a j : Nat) (hj : j < 24) :
    (m a ||| m (a + 1) <<< 8 ||| m (a + 2) <<< 16).testBit j = (m (a + j / 8)).testBit (j % 8) := by
  rw [testBit_or_shl _ _ 16 j (lt16 m hb a)]
  by_cases h : j < 16
  · rw [if_pos h]; exact read16_testBit m hb a j h
  · rw [if_neg h, show j / 8 = 2 by omega, show j % 8 = j - 16 by omega]

theorem read32_testBit (m : Mem) (hb : m.Bytes) (a j : Nat) (hj : j < 32) :
    (read32 m a).testBit j = (m (a + j / 8)).testBit (j % 8) := by
  unfold read32
  rw [testBit_or_shl _ _ 24 j (lt24 m hb a)]
  by_cases h : j < 24
  · rw [if_pos h]; exact read24_testBit m hb a j h
  · rw [if_neg h, show j / 8 = 3 by omega, show j % 8 = j - 24 by omega]

theorem bit_eq (m : Mem) {a a' b b' : Nat} (h1 : a = a') (h2 : b = b') : (m a).testBit b = (m a').testBit b' := by
  subst h1; subst h2; rfl

/-- bit `k` of the byte memory: bit `k % 8` of byte `k / 8` -/
def bitAt (m : Mem) (k : Nat) : Bool := (m (k / 8)).testBit (k % 8)

/-- pixels are laid out little-endian, `bpp` bits each, from the first bit of the row: bit `j` of
    the raw value of pixel `o` is memory bit `8 * bits + o * bpp + j` -/
theorem fetchRaw_testBit {bpp : Nat} (hbpp : Bpp bpp) (m : Mem) (hb : m.Bytes) (bits o j : Nat) (hj : j < bpp) :
    (fetchRaw m bits o bpp).testBit j = bitAt m (8 * bits + o * bpp + j) := by
  unfold bitAt
  rcases hbpp with hh | hh | hh | hh | hh | hh <;> subst hh
  · have hj0 : j = 0 := by omega
    subst hj0
    simp only [fetchRaw, if_true, fetch1, shr5, and31, bit_of]
    rw [show ∀ b : Bool, b.toNat.testBit 0 = b by decide, read32_testBit m hb _ _ (by omega)]
    exact bit_eq m (by omega) (by omega)
  · simp only [fetchRaw, show (4 : Nat) ≠ 1 by decide, if_true, if_false, fetch4, fetch8, read8, shr3_4]
    by_cases ho : o % 2 = 1
    · rw [if_pos ((and4 o).2 ho), Nat.testBit_shiftRight]
      exact bit_eq m (by omega) (by omega)
    · rw [if_neg (fun h => ho ((and4 o).1 h)), and_f, show (16 : Nat) = 2 ^ 4 by decide, Nat.testBit_mod_two_pow]
      simp only [hj, decide_true, Bool.true_and]
      exact bit_eq m (by omega) (by omega)
  · simp only [fetchRaw, show (8 : Nat) ≠ 1 by decide, show (8 : Nat) ≠ 4 by decide, if_true, if_false, read8]
    exact bit_eq m (by omega) (by omega)
  · simp only [fetchRaw, show (16 : Nat) ≠ 1 by decide, show (16 : Nat) ≠ 4 by decide, show (16 : Nat) ≠ 8 by decide,
      if_true, if_false]
    rw [read16_testBit m hb _ _ hj]
    exact bit_eq m (by omega) (by omega)
  · simp only [fetchRaw, show (24 : Nat) ≠ 1 by decide, show (24 : Nat) ≠ 4 by decide, show (24 : Nat) ≠ 8 by decide,
      show (24 : Nat) ≠ 16 by decide, if_true, if_false, fetch24, read8, Nat.shiftLeft_zero, Nat.add_zero]
    rw [read24_testBit m hb _ _ hj]
    exact bit_eq m (by omega) (by omega)
  · simp only [fetchRaw, show (32 : Nat) ≠ 1 by decide, show (32 : Nat) ≠ 4 by decide, show (32 : Nat) ≠ 8 by decide,
      show (32 : Nat) ≠ 16 by decide, show (32 : Nat) ≠ 24 by decide, if_true, if_false]
    rw [read32_testBit m hb _ _ hj]
    exact bit_eq m (by omega) (by omega)

/-- memory bit `k` belongs to pixel `(x, y)` of the image -/
def InPixel (img : FImage) (bpp x y k : Nat) : Prop :=
  8 * img.row y + x * bpp ≤ k ∧ k < 8 * img.row y + (x + 1) * bpp

/-- **bit-level reading of `Within`**: a memory bit that belongs to no pixel of `S` is unchanged —
    bits of neighbouring sub-byte pixels, of the rest of a 32-bit word, of the row padding, of other
    rows and of everything outside the image alike -/
theorem within_bits {bpp : Nat} (hbpp : Bpp bpp) {img : FImage} {S : Nat → Nat → Prop} {m m' : Mem}
    (hbm : m.Bytes) (h : Within img bpp S m m') (hrow : ∀ x y, S x y → InRow img bpp x)
    (k : Nat) (hk : ∀ x y, S x y → ¬ InPixel img bpp x y k) : bitAt m' k = bitAt m k := by
  by_cases hout : ∀ x y, S x y → OutsideUnit img bpp x y (k / 8)
  · unfold bitAt; rw [h.others _ hout]
  · obtain ⟨x0, hx0⟩ := Classical.not_forall.1 hout
    obtain ⟨y0, hy0⟩ := Classical.not_forall.1 hx0
    obtain ⟨hs, hin⟩ := Classical.not_imp.1 hy0
    have u := unit_in_row img hbpp x0 y0 (hrow _ _ hs)
    have hk0 := hk x0 y0 hs
    unfold OutsideUnit at hin
    unfold InPixel at hk0
    have key : ∃ x' j, j < bpp ∧ k = 8 * img.row y0 + x' * bpp + j ∧ (S x' y0 ∨ InRow img bpp x') := by
      refine ⟨(k - 8 * img.row y0) / bpp, (k - 8 * img.row y0) % bpp, ?_, ?_, ?_⟩
      · rcases hbpp with hh | hh | hh | hh | hh | hh <;> subst hh <;> omega
      · have := Nat.div_add_mod (k - 8 * img.row y0) bpp
        rw [Nat.mul_comm] at this
        omega
      · unfold InRow
        generalize img.row y0 = R0 at *
        rcases hbpp with hh | hh | hh | hh | hh | hh <;> subst hh <;> simp [unitLo, unitLen] at hin u
        · right; omega
        · right; omega
        · right; omega
        · right; omega
        · left
          rw [show (k - 8 * R0) / 24 = x0 by omega]; exact hs
        · right; omega
    obtain ⟨x', j, hj, hkeq, hor⟩ := key
    have hns : ¬ S x' y0 := fun hs' => hk x' y0 hs' (by
      unfold InPixel; rw [Nat.add_mul]; omega)
    have hinrow : InRow img bpp x' := hor.resolve_left hns
    have e1 := fetchRaw_testBit hbpp m' h.bytes (img.row y0) x' j hj
    have e2 := fetchRaw_testBit hbpp m hbm (img.row y0) x' j hj
    rw [h.pixels x' y0 hinrow hns] at e1
    rw [hkeq]
    exact e1.symm.trans e2


/-! ### one scanline store -/

/-- C10's `store_scanline_frame` as a `Within` step: a scanline store of pixels of `S` that lie
    inside the row changes nothing outside `S` — in the same row (sub-byte neighbours, rest of the
    word) and in every other row -/
theorem within_storeScanline (r : Rec) (hr : r ∈ formats) (ha : r.acc = 1) (img : FImage)
    (hf : img.format = r.code) (S : Nat → Nat → Prop) (m : Mem) (hb : m.Bytes) (x y : Nat) (vs : List Nat)
    (hS : ∀ i, i < vs.length → S (x + i) y ∧ InRow img (fmtBpp r.code) (x + i)) :
    Within img (fmtBpp r.code) S m (storeScanline img m x y vs) := by
  have hbpp : Bpp (fmtBpp r.code) := Pixman.Props.C10.gen_bpp r hr ha
  obtain ⟨f1, f2, _⟩ := Pixman.Props.C10.store_scanline_frame r hr ha img hf m hb x y vs
  have hbytes : (storeScanline img m x y vs).Bytes := by
    unfold storeScanline; exact storeScanlineLoop_bytes _ _ _ _ _ _ hb
  refine ⟨hbytes, ?_, ?_⟩
  · intro x0 y0 hx0 hs0
    by_cases hy : y0 = y
    · subst hy
      apply f1
      by_cases hlt : x0 < x
      · exact Or.inl hlt
      · by_cases hge : x + vs.length ≤ x0
        · exact Or.inr hge
        · exfalso
          have := (hS (x0 - x) (by omega)).1
          rw [show x + (x0 - x) = x0 by omega] at this
          exact hs0 this
    · apply fetchRaw_congr hbpp
      intro a ha1 ha2
      apply f2
      intro i hi
      have u0 := unit_in_row img hbpp x0 y0 hx0
      have u1 := unit_in_row img hbpp (x + i) y (hS i hi).2
      rcases Nat.lt_or_gt_of_ne hy with hlt | hgt
      · have := row_succ_le img hlt; omega
      · have := row_succ_le img hgt; omega
  · intro a hout
    apply f2
    intro i hi
    exact hout (x + i) y (hS i hi).1

/-! ### the general path: rows of an `info` rectangle written back through the destination iterator -/

open Pixman.CompositeRegion (Info InRect)

/-- the values handed to the write-back of row `j` of an `info` rectangle: anything computed from
    the memory as it is before the row is stored (source, mask and destination rows fetched, the
    combiner applied), column by column -/
abbrev RowComb := Mem → Info → Nat → Nat → Nat

/-- `dest_iter.write_back` of one row of `general_composite_rect`:
    `image->store_scanline_32 (image, x, y, width, buffer)` -/
def storeInfoRow (img : FImage) (comb : RowComb) (i : Info) (m : Mem) (j : Nat) : Mem :=
  storeScanline img m i.destX.toNat (i.destY.toNat + j) ((List.range i.width.toNat).map (comb m i j))

/-- `general_composite_rect (imp, info)`: `for (i = 0; i < height; ++i)` combine and write back -/
def paintInfoMem (img : FImage) (comb : RowComb) (m : Mem) (i : Info) : Mem :=
  (List.range i.height.toNat).foldl (storeInfoRow img comb i) m

/-- a sequence of composite-function calls -/
def paintInfosMem (img : FImage) (comb : RowComb) (infos : List Info) (m : Mem) : Mem :=
  infos.foldl (paintInfoMem img comb) m

theorem within_paintInfo (r : Rec) (hr : r ∈ formats) (ha : r.acc = 1) (img : FImage)
    (hf : img.format = r.code) (comb : RowComb) (S : Nat → Nat → Prop) (i : Info)
    (h0 : 0 ≤ i.destX ∧ 0 ≤ i.destY)
    (hS : ∀ x y : Nat, InRect i.destX i.destY i.width i.height x y → S x y ∧ InRow img (fmtBpp r.code) x)
    (m : Mem) (hb : m.Bytes) : Within img (fmtBpp r.code) S m (paintInfoMem img comb m i) := by
  unfold paintInfoMem
  apply within_foldl _ _ _ m hb
  intro j hj m' hb'
  unfold storeInfoRow
  apply within_storeScanline r hr ha img hf S m' hb'
  intro k hk
  rw [List.length_map, List.length_range] at hk
  rw [List.mem_range] at hj
  apply hS
  unfold InRect
  omega

theorem within_paintInfos (r : Rec) (hr : r ∈ formats) (ha : r.acc = 1) (img : FImage)
    (hf : img.format = r.code) (comb : RowComb) (S : Nat → Nat → Prop) (infos : List Info)
    (h : ∀ i ∈ infos, (0 ≤ i.destX ∧ 0 ≤ i.destY) ∧
      ∀ x y : Nat, InRect i.destX i.destY i.width i.height x y → S x y ∧ InRow img (fmtBpp r.code) x)
    (m : Mem) (hb : m.Bytes) : Within img (fmtBpp r.code) S m (paintInfosMem img comb infos m) := by
  unfold paintInfosMem
  apply within_foldl _ _ _ m hb
  intro i hi m' hb'
  exact within_paintInfo r hr ha img hf comb S i (h i hi).1 (h i hi).2 m' hb'

/-! ### a composite request on the general path -/

open Pixman.Region Pixman.CompositeRegion

abbrev CImage := Pixman.CompositeRegion.Image

/-- `pixman_image_composite32` with the general implementation's composite function: the region is
    computed, then every box of it is handed to `general_composite_rect`, whose destination iterator
    writes each combined row back with the format's scanline store (C10) -/
def generalCompositeMem (img : FImage) (comb : RowComb) (src : CImage) (mask : Option CImage) (dest : CImage)
    (sx sy mx my dx dy w h : Int) (m : Mem) : Mem :=
  let p := computeCompositeRegion32 src mask dest sx sy mx my dx dy w h
  if p.2 then paintInfosMem img comb (compositeBoxes p.1 sx sy mx my dx dy) m else m

/-- the intersection `R` of the property statement on natural pixel coordinates -/
def RNat (src : CImage) (mask : Option CImage) (dest : CImage) (sx sy mx my dx dy w h : Int) (x y : Nat) : Prop :=
  R src mask dest sx sy mx my dx dy w h (x : Int) (y : Int)

/-- a row of `width` pixels fits the rowstride -/
def Fits (img : FImage) (bpp : Nat) (width : Int) : Prop := width * (bpp : Int) ≤ 32 * (img.rowstride : Int)

theorem inRow_of_fits {img : FImage} {bpp : Nat} (hbpp : Bpp bpp) {width : Int} (hfit : Fits img bpp width)
    {x : Nat} (hx : (x : Int) < width) : InRow img bpp x := by
  unfold Fits at hfit
  unfold InRow
  rcases hbpp with h | h | h | h | h | h <;> subst h <;> omega

theorem composite_within (r : Rec) (hr : r ∈ formats) (ha : r.acc = 1) (img : FImage)
    (hf : img.format = r.code) (comb : RowComb) {src : CImage} {mask : Option CImage} {dest : CImage}
    {sx sy mx my dx dy w h : Int} (H : RangeOK src mask dest sx sy mx my dx dy w h)
    (hfit : Fits img (fmtBpp r.code) dest.width) (m : Mem) (hb : m.Bytes) :
    Within img (fmtBpp r.code) (RNat src mask dest sx sy mx my dx dy w h) m
      (generalCompositeMem img comb src mask dest sx sy mx my dx dy w h m) := by
  have hbpp : Bpp (fmtBpp r.code) := Pixman.Props.C10.gen_bpp r hr ha
  unfold generalCompositeMem
  simp only []
  by_cases ht : (computeCompositeRegion32 src mask dest sx sy mx my dx dy w h).2 = true
  · rw [if_pos ht]
    have hsub := Pixman.Props.C03.composite_region_subset H ht
    have hbox : BoxesIn32 (computeCompositeRegion32 src mask dest sx sy mx my dx dy w h).1 := by
      apply Pixman.Props.C03.boxesIn32_of_bounded (Pixman.Props.C03.composite_region_canon H ht) H.dest_w H.dest_h
      intro x y hm
      have := (hsub x y hm).2.1
      unfold InRect at this
      omega
    apply within_paintInfos r hr ha img hf comb _ _ _ m hb
    intro i hi
    have hi' := hi
    unfold compositeBoxes at hi'
    rw [List.mem_map] at hi'
    obtain ⟨b, hbm, rfl⟩ := hi'
    have hb32 := hbox b hbm
    refine ⟨⟨hb32.1, hb32.2.2.2.1⟩, ?_⟩
    intro x y hrect
    have hmem := (Pixman.Props.C03.loop_boxes_cover hbox sx sy mx my dx dy (x : Int) (y : Int)).1 ⟨_, hi, hrect⟩
    have hR := hsub _ _ hmem
    refine ⟨hR, inRow_of_fits hbpp hfit ?_⟩
    have := hR.2.1
    unfold InRect at this
    omega
  · rw [if_neg ht]
    exact within_refl hb


/-! ### destinations with an alpha map: two stores per row, bit-level frame -/

/-- the memory bits owned by the pixels `S` of `img` -/
def PixBits (img : FImage) (bpp : Nat) (S : Nat → Nat → Prop) (k : Nat) : Prop :=
  ∃ x y, S x y ∧ InPixel img bpp x y k

/-- `m'` differs from `m` only in bits of `P` -/
structure BitsWithin (P : Nat → Prop) (m m' : Mem) : Prop where
  bytes : m'.Bytes
  bits : ∀ k, ¬ P k → bitAt m' k = bitAt m k

theorem bitsWithin_refl {P : Nat → Prop} {m : Mem} (hb : m.Bytes) : BitsWithin P m m := ⟨hb, fun _ _ => rfl⟩

theorem bitsWithin_trans {P : Nat → Prop} {m m' m'' : Mem} (h1 : BitsWithin P m m') (h2 : BitsWithin P m' m'') :
    BitsWithin P m m'' := ⟨h2.bytes, fun k hk => (h2.bits k hk).trans (h1.bits k hk)⟩

theorem bitsWithin_mono {P Q : Nat → Prop} {m m' : Mem} (hpq : ∀ k, P k → Q k) (h : BitsWithin P m m') :
    BitsWithin Q m m' := ⟨h.bytes, fun k hk => h.bits k (fun hp => hk (hpq k hp))⟩

theorem bitsWithin_foldl {α : Type} {P : Nat → Prop} (f : Mem → α → Mem) (l : List α)
    (hstep : ∀ a ∈ l, ∀ m : Mem, m.Bytes → BitsWithin P m (f m a)) :
    ∀ m : Mem, m.Bytes → BitsWithin P m (l.foldl f m) := by
  induction l with
  | nil => intro m hb; exact bitsWithin_refl hb
  | cons a l ih =>
    intro m hb
    rw [List.foldl_cons]
    have h1 := hstep a List.mem_cons_self m hb
    exact bitsWithin_trans h1 (ih (fun b hb' => hstep b (List.mem_cons_of_mem _ hb')) _ h1.bytes)

theorem bitsWithin_of_within {bpp : Nat} (hbpp : Bpp bpp) {img : FImage} {S : Nat → Nat → Prop} {m m' : Mem}
    (hbm : m.Bytes) (h : Within img bpp S m m') (hrow : ∀ x y, S x y → InRow img bpp x) :
    BitsWithin (PixBits img bpp S) m m' :=
  ⟨h.bytes, fun k hk => within_bits hbpp hbm h hrow k (fun x y hs hin => hk ⟨x, y, hs, hin⟩)⟩

/-- `dest_write_back_narrow` for a destination with an alpha map: the row goes to the image and, at
    `(x - alpha_origin_x, y - alpha_origin_y)`, to the alpha map -/
def storeInfoRowA (imgD imgA : FImage) (ox oy : Int) (comb : RowComb) (i : Info) (m : Mem) (j : Nat) : Mem :=
  let vs := (List.range i.width.toNat).map (comb m i j)
  storeScanline imgA (storeScanline imgD m i.destX.toNat (i.destY.toNat + j) vs)
    (i.destX - ox).toNat (i.destY + (j : Int) - oy).toNat vs

def paintInfoMemA (imgD imgA : FImage) (ox oy : Int) (comb : RowComb) (m : Mem) (i : Info) : Mem :=
  (List.range i.height.toNat).foldl (storeInfoRowA imgD imgA ox oy comb i) m

/-- a composite request on the general path, destination with alpha map `a` stored in `imgA` -/
def generalCompositeAlphaMem (imgD imgA : FImage) (comb : RowComb) (src : CImage) (mask : Option CImage)
    (dest : CImage) (a : AlphaMap) (sx sy mx my dx dy w h : Int) (m : Mem) : Mem :=
  let p := computeCompositeRegion32 src mask dest sx sy mx my dx dy w h
  if p.2 then (compositeBoxes p.1 sx sy mx my dx dy).foldl (paintInfoMemA imgD imgA a.ox a.oy comb) m else m

/-- the alpha-map pixels that correspond to the pixels of `R`: `(x - origin_x, y - origin_y)` -/
def RAlpha (src : CImage) (mask : Option CImage) (dest : CImage) (a : AlphaMap) (sx sy mx my dx dy w h : Int)
    (x' y' : Nat) : Prop :=
  ∃ x y : Nat, R src mask dest sx sy mx my dx dy w h x y ∧ (x' : Int) = x - a.ox ∧ (y' : Int) = y - a.oy

theorem compositeAlpha_bitsWithin (rD : Rec) (hrD : rD ∈ formats) (haD : rD.acc = 1) (imgD : FImage)
    (hfD : imgD.format = rD.code) (rA : Rec) (hrA : rA ∈ formats) (haA : rA.acc = 1) (imgA : FImage)
    (hfA : imgA.format = rA.code) (comb : RowComb) {src : CImage} {mask : Option CImage} {dest : CImage}
    {a : AlphaMap} (hal : dest.alphaMap = some a)
    {sx sy mx my dx dy w h : Int} (H : RangeOK src mask dest sx sy mx my dx dy w h)
    (hfitD : Fits imgD (fmtBpp rD.code) dest.width) (hfitA : Fits imgA (fmtBpp rA.code) a.img.width)
    (m : Mem) (hb : m.Bytes) :
    BitsWithin (fun k => PixBits imgD (fmtBpp rD.code) (RNat src mask dest sx sy mx my dx dy w h) k ∨
        PixBits imgA (fmtBpp rA.code) (RAlpha src mask dest a sx sy mx my dx dy w h) k) m
      (generalCompositeAlphaMem imgD imgA comb src mask dest a sx sy mx my dx dy w h m) := by
  have hbppD : Bpp (fmtBpp rD.code) := Pixman.Props.C10.gen_bpp rD hrD haD
  have hbppA : Bpp (fmtBpp rA.code) := Pixman.Props.C10.gen_bpp rA hrA haA
  unfold generalCompositeAlphaMem
  simp only []
  by_cases ht : (computeCompositeRegion32 src mask dest sx sy mx my dx dy w h).2 = true
  · rw [if_pos ht]
    have hsub := Pixman.Props.C03.composite_region_subset H ht
    have hbox : BoxesIn32 (computeCompositeRegion32 src mask dest sx sy mx my dx dy w h).1 := by
      apply Pixman.Props.C03.boxesIn32_of_bounded (Pixman.Props.C03.composite_region_canon H ht) H.dest_w H.dest_h
      intro x y hm
      have := (hsub x y hm).2.1
      unfold InRect at this
      omega
    apply bitsWithin_foldl _ _ _ m hb
    intro i hi m1 hb1
    have hi' := hi
    unfold compositeBoxes at hi'
    rw [List.mem_map] at hi'
    obtain ⟨b, hbm, hbi⟩ := hi'
    have hb32 := hbox b hbm
    have h0 : 0 ≤ i.destX ∧ 0 ≤ i.destY := by subst hbi; exact ⟨hb32.1, hb32.2.2.2.1⟩
    have hR : ∀ x y : Nat, InRect i.destX i.destY i.width i.height x y → R src mask dest sx sy mx my dx dy w h x y := by
      intro x y hrect
      exact hsub _ _ ((Pixman.Props.C03.loop_boxes_cover hbox sx sy mx my dx dy (x : Int) (y : Int)).1 ⟨_, hi, hrect⟩)
    unfold paintInfoMemA
    apply bitsWithin_foldl _ _ _ m1 hb1
    intro j hj m2 hb2
    rw [List.mem_range] at hj
    unfold storeInfoRowA
    simp only []
    -- the pixels of the row
    have hpix : ∀ k, k < i.width.toNat →
        R src mask dest sx sy mx my dx dy w h ((i.destX.toNat + k : Nat) : Int) ((i.destY.toNat + j : Nat) : Int) := by
      intro k hk
      apply hR
      unfold InRect
      omega
    -- store into the image
    have W1 := within_storeScanline rD hrD haD imgD hfD (RNat src mask dest sx sy mx my dx dy w h) m2 hb2
      i.destX.toNat (i.destY.toNat + j) ((List.range i.width.toNat).map (comb m2 i j)) (by
        intro k hk
        rw [List.length_map, List.length_range] at hk
        refine ⟨hpix k hk, inRow_of_fits hbppD hfitD ?_⟩
        have := (hpix k hk).2.1
        unfold InRect at this
        omega)
    have B1 := bitsWithin_of_within hbppD hb2 W1 (by
      intro x y hs
      apply inRow_of_fits hbppD hfitD
      have := (show R src mask dest sx sy mx my dx dy w h x y from hs).2.1
      unfold InRect at this
      omega)
    -- store into the alpha map
    have halpha : ∀ x y : Nat, R src mask dest sx sy mx my dx dy w h x y →
        a.ox ≤ x ∧ (x : Int) < a.ox + a.img.width ∧ a.oy ≤ y ∧ (y : Int) < a.oy + a.img.height := by
      intro x y hr
      have := hr.2.2.2.1 a hal
      unfold InRect at this
      exact this
    have W2 := within_storeScanline rA hrA haA imgA hfA (RAlpha src mask dest a sx sy mx my dx dy w h)
      (storeScanline imgD m2 i.destX.toNat (i.destY.toNat + j) ((List.range i.width.toNat).map (comb m2 i j))) W1.bytes
      (i.destX - a.ox).toNat (i.destY + (j : Int) - a.oy).toNat ((List.range i.width.toNat).map (comb m2 i j)) (by
        intro k hk
        rw [List.length_map, List.length_range] at hk
        have hp0 := halpha _ _ (hpix 0 (by omega))
        have hpk := halpha _ _ (hpix k hk)
        refine ⟨⟨i.destX.toNat + k, i.destY.toNat + j, hpix k hk, by omega, by omega⟩, inRow_of_fits hbppA hfitA ?_⟩
        omega)
    have B2 := bitsWithin_of_within hbppA W1.bytes W2 (by
      rintro x' y' ⟨x, y, hr, hx, _⟩
      apply inRow_of_fits hbppA hfitA
      have := halpha x y hr
      omega)
    exact bitsWithin_trans (bitsWithin_mono (fun k hk => Or.inl hk) B1) (bitsWithin_mono (fun k hk => Or.inr hk) B2)
  · rw [if_neg ht]
    exact bitsWithin_refl hb


open Pixman.GlyphDraw (Placed noMaskInfos noMaskInfo glyphBox box32Intersect maskImage)

/-! ### glyphs -/

/-- `pixman_composite_glyphs_no_mask` on memory (mirrors `GlyphDraw.compositeGlyphsNoMask`): the
    composite region of the whole destination once, then for every glyph one composite-function
    call per region box that meets the glyph box; `comb fmt` is the row combiner of the composite
    function looked up for glyph format `fmt` -/
def glyphsNoMaskMem (img : FImage) (comb : Nat → RowComb) (src dest : CImage) (sx sy dx dy : Int)
    (glyphs : List Placed) (m : Mem) : Mem :=
  let p := computeCompositeRegion32 src none dest (sx - dx) (sy - dy) 0 0 0 0 dest.width dest.height
  if p.2 then
    glyphs.foldl (fun m g => paintInfosMem img (comb g.img.fmt) (noMaskInfos p.1 sx sy dx dy g) m) m
  else m

/-- the pixels glyph drawing may touch: composite region of the destination ∩ some glyph's box -/
def GlyphPixels (src dest : CImage) (sx sy dx dy : Int) (glyphs : List Placed) (x y : Nat) : Prop :=
  R src none dest (sx - dx) (sy - dy) 0 0 0 0 dest.width dest.height (x : Int) (y : Int) ∧
    ∃ g ∈ glyphs, (glyphBox dx dy g).Mem (x : Int) (y : Int)

theorem glyphsNoMask_within (r : Rec) (hr : r ∈ formats) (ha : r.acc = 1) (img : FImage)
    (hf : img.format = r.code) (comb : Nat → RowComb) {src dest : CImage} {sx sy dx dy : Int}
    (glyphs : List Placed)
    (H : RangeOK src none dest (sx - dx) (sy - dy) 0 0 0 0 dest.width dest.height)
    (hfit : Fits img (fmtBpp r.code) dest.width) (m : Mem) (hb : m.Bytes) :
    Within img (fmtBpp r.code) (GlyphPixels src dest sx sy dx dy glyphs) m
      (glyphsNoMaskMem img comb src dest sx sy dx dy glyphs m) := by
  have hbpp : Bpp (fmtBpp r.code) := Pixman.Props.C10.gen_bpp r hr ha
  unfold glyphsNoMaskMem
  simp only []
  by_cases ht : (computeCompositeRegion32 src none dest (sx - dx) (sy - dy) 0 0 0 0 dest.width dest.height).2 = true
  · rw [if_pos ht]
    have hsub := Pixman.Props.C03.composite_region_subset H ht
    have hbox : BoxesIn32 (computeCompositeRegion32 src none dest (sx - dx) (sy - dy) 0 0 0 0 dest.width dest.height).1 := by
      apply Pixman.Props.C03.boxesIn32_of_bounded (Pixman.Props.C03.composite_region_canon H ht) H.dest_w H.dest_h
      intro x y hm
      have := (hsub x y hm).2.1
      unfold InRect at this
      omega
    apply within_foldl _ _ _ m hb
    intro g hg m' hb'
    apply within_paintInfos r hr ha img hf _ _ _ _ m' hb'
    intro i hi
    unfold noMaskInfos at hi
    rw [List.mem_filterMap] at hi
    obtain ⟨pbox, hpm, hopt⟩ := hi
    rw [Option.map_eq_some_iff] at hopt
    obtain ⟨cb, hcb, rfl⟩ := hopt
    have hb32 := hbox pbox hpm
    unfold box32Intersect at hcb
    simp only [] at hcb
    split at hcb
    · cases hcb
      simp only [noMaskInfo]
      refine ⟨⟨by omega, by omega⟩, ?_⟩
      intro x y hrect
      unfold InRect at hrect
      have hpb : pbox.Mem (x : Int) (y : Int) := by rw [box_mem_iff]; omega
      have hgb : (glyphBox dx dy g).Mem (x : Int) (y : Int) := by rw [box_mem_iff]; omega
      have hR := hsub _ _ ⟨pbox, hpm, hpb⟩
      refine ⟨⟨hR, g, hg, hgb⟩, inRow_of_fits hbpp hfit ?_⟩
      have := hR.2.1
      unfold InRect at this
      omega
    · cases hcb
  · rw [if_neg ht]
    exact within_refl hb

/-- `pixman_composite_glyphs` (with a mask format): the glyphs are accumulated in a temporary mask
    image — its own storage, not the destination's — and the destination is touched by one
    composite request with that mask: `(op, src, mask, dest, src_x, src_y, 0, 0, dest_x, dest_y,
    width, height)` (`GlyphDraw.compositeGlyphs`) -/
def glyphsMaskMem (img : FImage) (comb : RowComb) (src dest : CImage) (sx sy dx dy w h : Int) (m : Mem) : Mem :=
  generalCompositeMem img comb src (some (maskImage w h)) dest sx sy 0 0 dx dy w h m


end Pixman.DrawFrame

/-! ## fills: C19's word memory, bit addressed -/
namespace Pixman.DrawFrame.FillFrame
open Pixman.Model.Fill Pixman.Spec.Fill Pixman.Lemmas.Fill
open Pixman.Region (Box MemL)

/-- index, in units of `bpp` bits from the memory origin, of pixel `(x, y)` of the image -/
def pixIdx (img : Image) (bpp : Nat) (x y : Int) : Int :=
  (img.bits + y * img.rowstride) * ((32 / bpp : Nat) : Int) + x

/-- memory bit `i` belongs to no pixel of `P` -/
def BitOutside (img : Image) (bpp : Nat) (P : Int → Int → Prop) (i : Int) : Prop :=
  ∀ x y, P x y → i / (bpp : Int) ≠ pixIdx img bpp x y

/-- the pixels `pixman_image_fill_boxes` may touch: (union of the boxes) ∩ image bounds ∩ clip -/
def FillPixels (img : Image) (boxes : List Box) (x y : Int) : Prop :=
  MemL boxes x y ∧ (0 ≤ x ∧ x < img.width ∧ 0 ≤ y ∧ y < img.height) ∧ ∀ c, img.clip = some c → c.Mem x y

theorem not_inRects (img : Image) (rects : List Box) (i : Int)
    (h : BitOutside img (formatBpp img.format) (MemL rects) i) :
    ¬ Pixman.Props.C19.InRects img rects (i / (formatBpp img.format : Int)) := by
  rintro ⟨r, hr, rr, hrr, h1, h2⟩
  unfold rowStart at h1 h2
  apply h (r.x1 + (i / (formatBpp img.format : Int) - ((img.bits + (r.y1 + rr) * img.rowstride) *
    ((32 / formatBpp img.format : Nat) : Int) + r.x1))) (r.y1 + rr)
  · refine ⟨r, hr, ?_⟩
    unfold Box.Mem
    omega
  · unfold pixIdx
    omega

theorem fillRects_frame (al : Int) (hal : (4 : Int) ∣ al) (chain : List Impl) (img : Image) (pixel : Nat)
    (rects : List Box) (m : Mem) (i : Int)
    (h : ¬ Pixman.Props.C19.InRects img rects (i / (formatBpp img.format : Int))) :
    (fillRects al chain img pixel rects m).2.bit i = m.bit i := by
  induction rects generalizing m with
  | nil => rfl
  | cons r rest ih =>
    have hq : ¬ Pixman.Props.C19.InRects img rest (i / (formatBpp img.format : Int)) :=
      fun ⟨r', hr', hin⟩ => h ⟨r', List.mem_cons_of_mem _ hr', hin⟩
    unfold fillRects
    simp only []
    by_cases h1 : (pixmanFill al chain m img.bits img.rowstride (formatBpp img.format) r.x1 r.y1
        (r.x2 - r.x1).toNat (r.y2 - r.y1).toNat pixel).1 = true
    · rw [if_pos h1, ih _ hq]
      exact ((Pixman.Props.C19.pixmanFill_true_exact al hal chain m img.bits img.rowstride (formatBpp img.format)
        r.x1 r.y1 (r.x2 - r.x1).toNat (r.y2 - r.y1).toNat pixel h1) i).2
          (fun hin => h ⟨r, List.mem_cons_self, hin⟩)
    · rw [if_neg h1]
      have h2 : (pixmanFill al chain m img.bits img.rowstride (formatBpp img.format) r.x1 r.y1
        (r.x2 - r.x1).toNat (r.y2 - r.y1).toNat pixel).1 = false := by
        cases hh : (pixmanFill al chain m img.bits img.rowstride (formatBpp img.format) r.x1 r.y1
          (r.x2 - r.x1).toNat (r.y2 - r.y1).toNat pixel).1 <;> simp_all
      simp only []
      rw [show (pixmanFill al chain m img.bits img.rowstride (formatBpp img.format) r.x1 r.y1
        (r.x2 - r.x1).toNat (r.y2 - r.y1).toNat pixel).2 = m from
        Pixman.Props.C19.implementationFill_false_unchanged al chain m _ _ _ _ _ _ _ _ h2]

/-! ### the compositing fallback of pixman_image_fill_boxes -/

theorem fmt_bpp : ∀ f ∈ Pixman.CompositePixel.formats, f.bpp = 32 ∨ f.bpp = 16 ∨ f.bpp = 8 := by decide

theorem writePx_frame (m : Mem) (bpp : Nat) (hb : bpp = 32 ∨ bpp = 16 ∨ bpp = 8) (idx : Int) (v : Nat) (i : Int)
    (h : i / (bpp : Int) ≠ idx) : (writePx m bpp idx v).bit i = m.bit i := by
  unfold writePx
  rcases hb with hb | hb | hb <;> subst hb
  · rw [if_pos rfl, store32_bit]; exact if_neg h
  · rw [if_neg (by decide), if_pos rfl, store16_bit]; exact if_neg h
  · rw [if_neg (by decide), if_neg (by decide), store8_bit]; exact if_neg h

theorem compositeStep_frame (img : Image) (f : Pixman.CompositePixel.Fmt) (hb : f.bpp = 32 ∨ f.bpp = 16 ∨ f.bpp = 8)
    (op : Nat) (isOpaque : Bool) (solid : Nat) (m m' : Mem) (p : Int × Int)
    (hs : compositeStep img f op isOpaque solid m p = some m') (i : Int)
    (h : i / (f.bpp : Int) ≠ pixIdx img f.bpp p.1 p.2) : m'.bit i = m.bit i := by
  unfold compositeStep at hs
  simp only [] at hs
  have hidx : (img.bits + p.2 * img.rowstride) * ((32 : Int) / (f.bpp : Int)) + p.1 = pixIdx img f.bpp p.1 p.2 := by
    unfold pixIdx
    rcases hb with hb | hb | hb <;> rw [hb] <;> rfl
  rw [hidx] at hs
  split at hs
  · cases hs
    exact writePx_frame m f.bpp hb _ _ i h
  · cases hs

theorem foldlM_frame (img : Image) (f : Pixman.CompositePixel.Fmt) (hb : f.bpp = 32 ∨ f.bpp = 16 ∨ f.bpp = 8)
    (op : Nat) (isOpaque : Bool) (solid : Nat) (px : List (Int × Int)) (i : Int)
    (h : ∀ p ∈ px, i / (f.bpp : Int) ≠ pixIdx img f.bpp p.1 p.2) :
    ∀ m m' : Mem, px.foldlM (init := m) (compositeStep img f op isOpaque solid) = some m' → m'.bit i = m.bit i := by
  induction px with
  | nil => intro m m' hm; cases hm; rfl
  | cons p rest ih =>
    intro m m' hm
    rw [List.foldlM_cons] at hm
    cases hs : compositeStep img f op isOpaque solid m p with
    | none => rw [hs] at hm; cases hm
    | some m1 =>
      rw [hs] at hm
      have := ih (fun q hq => h q (List.mem_cons_of_mem _ hq)) m1 m' hm
      rw [this]
      exact compositeStep_frame img f hb op isOpaque solid m m1 p hs i (h p List.mem_cons_self)

/-- a pixel the compositing loop reaches for box `b` lies in the box, in the image and in the clip -/
theorem boxPixels_sub (img : Image) (b : Box) (p : Int × Int) (hp : p ∈ boxPixels img b) :
    FillPixels img [b] p.1 p.2 := by
  have hb := Pixman.Props.C19.mem_boxPixels img b p hp
  refine ⟨⟨b, List.mem_cons_self, by unfold Box.Mem; omega⟩, by omega, ?_⟩
  intro c hc
  unfold boxPixels at hp
  obtain ⟨y, _, hp⟩ := List.mem_flatMap.1 hp
  obtain ⟨x, _, hp⟩ := List.mem_filterMap.1 hp
  by_cases hcc : (Pixman.Region.inBox b x y && inClip img x y) = true
  · rw [if_pos hcc] at hp
    cases hp
    simp only [Bool.and_eq_true] at hcc
    have hcl := hcc.2
    unfold inClip at hcl
    rw [hc] at hcl
    simp only [List.any_eq_true] at hcl
    obtain ⟨cb, hcb, hin⟩ := hcl
    refine ⟨cb, hcb, ?_⟩
    unfold Pixman.Region.inBox at hin
    simp only [Bool.and_eq_true, decide_eq_true_eq] at hin
    unfold Box.Mem
    simp only []
    omega
  · rw [if_neg hcc] at hp; cases hp

theorem compositeCut_frame (img : Image) (f : Pixman.CompositePixel.Fmt) (hb : f.bpp = 32 ∨ f.bpp = 16 ∨ f.bpp = 8)
    (op : Nat) (isOpaque : Bool) (solid : Nat) (b : Box) (m m' : Mem)
    (hc : compositeCut img f op isOpaque solid b m = some m') (i : Int)
    (h : BitOutside img f.bpp (FillPixels img [b]) i) : m'.bit i = m.bit i := by
  unfold compositeCut at hc
  simp only [] at hc
  split at hc
  · cases hc; rfl
  · unfold compositeBox at hc
    simp only [] at hc
    split at hc
    · cases hc; rfl
    · rw [Pixman.Props.C19.boxPixels_cut] at hc
      exact foldlM_frame img f hb op isOpaque solid _ i
        (fun p hp => h p.1 p.2 (boxPixels_sub img b p hp)) m m' hc

theorem fmtOfCode_mem (code : Nat) (f : Pixman.CompositePixel.Fmt) (h : fmtOfCode code = some f) :
    f ∈ Pixman.CompositePixel.formats := by
  unfold fmtOfCode at h
  exact List.mem_of_find?_eq_some h

theorem fmt_code_bpp : ∀ f ∈ Pixman.CompositePixel.formats,
    formatBpp (pixmanFormat f.bpp (match f.type with
      | .a => TYPE_A | .argb => TYPE_ARGB | .abgr => TYPE_ABGR | .bgra => TYPE_BGRA | .rgba => TYPE_RGBA)
      f.a f.r f.g f.b) = f.bpp := by decide

theorem fmtOfCode_bpp (code : Nat) (f : Pixman.CompositePixel.Fmt) (h : fmtOfCode code = some f) :
    f.bpp = formatBpp code := by
  have hm := fmtOfCode_mem code f h
  unfold fmtOfCode at h
  have hp := List.find?_some h
  simp only [beq_iff_eq] at hp
  rw [← hp]
  exact (fmt_code_bpp f hm).symm

theorem cutLoop_frame (img : Image) (f : Pixman.CompositePixel.Fmt) (hb : f.bpp = 32 ∨ f.bpp = 16 ∨ f.bpp = 8)
    (op : Nat) (isOpaque : Bool) (solid : Nat) (all : List Box) (i : Int)
    (h : BitOutside img f.bpp (FillPixels img all) i) (boxes : List Box) (hsub : ∀ b ∈ boxes, b ∈ all) :
    ∀ m m' : Mem, (boxes.foldlM (init := m) fun m b => compositeCut img f op isOpaque solid b m) = some m' →
      m'.bit i = m.bit i := by
  induction boxes with
  | nil => intro m m' hm; cases hm; rfl
  | cons b rest ih =>
    intro m m' hm
    rw [List.foldlM_cons] at hm
    cases hs : compositeCut img f op isOpaque solid b m with
    | none => rw [hs] at hm; cases hm
    | some m1 =>
      rw [hs] at hm
      rw [ih (fun q hq => hsub q (List.mem_cons_of_mem _ hq)) m1 m' hm]
      apply compositeCut_frame img f hb op isOpaque solid b m m1 hs i
      intro x y hp
      apply h x y
      obtain ⟨⟨b', hb', hmem⟩, hbd, hcl⟩ := hp
      rw [List.mem_singleton] at hb'
      subst hb'
      exact ⟨⟨b', hsub b' List.mem_cons_self, hmem⟩, hbd, hcl⟩

/-- **pixman_image_fill_boxes / pixman_image_fill_rectangles, every route and every outcome**: whatever
    the call returns — direct-fill shortcut taken (any implementation chain: SSE2, MMX, fast path),
    shortcut declined and the solid composited box by box, or the shortcut stopping half way —
    a memory bit that belongs to no pixel of (union of the boxes) ∩ image bounds ∩ clip is unchanged -/
theorem fillBoxes_frame (al : Int) (hal : (4 : Int) ∣ al) (chain : List Impl) (op : Nat) (img : Image)
    (color : Color) (boxes : List Box) (m : Mem) (ret : Bool) (m' : Mem)
    (hres : fillBoxes al chain op img color boxes m = some (ret, m'))
    (hr : ∀ b ∈ boxes, Pixman.Region.BoxInRange Pixman.Region.c32 b)
    (hw : (img.width : Int) ≤ 2147483647) (hh : (img.height : Int) ≤ 2147483647)
    (hclip : ∀ c, img.clip = some c → Pixman.Region.Canon c) (i : Int)
    (h : BitOutside img (formatBpp img.format) (FillPixels img boxes) i) : m'.bit i = m.bit i := by
  -- the compositing part, from any intermediate memory
  have hloop : ∀ (opc : Nat) (c : Color) (m0 : Mem), m0.bit i = m.bit i →
      (match fmtOfCode img.format with
        | none => none
        | some f => (boxes.foldlM (init := m0) fun m b =>
            compositeCut img f opc (c.alpha = 0xffff) (colorToUint32 c) b m).map fun m => (true, m)) = some (ret, m') →
      m'.bit i = m.bit i := by
    intro opc c m0 h0 hm
    cases hf : fmtOfCode img.format with
    | none => rw [hf] at hm; cases hm
    | some f =>
      rw [hf] at hm
      simp only [] at hm
      have hb := fmt_bpp f (fmtOfCode_mem _ f hf)
      have hbe := fmtOfCode_bpp _ f hf
      cases hfo : (boxes.foldlM (init := m0) fun m b =>
            compositeCut img f opc (c.alpha = 0xffff) (colorToUint32 c) b m) with
      | none => rw [hfo] at hm; cases hm
      | some m1 =>
        rw [hfo] at hm
        simp only [Option.map_some, Option.some.injEq, Prod.mk.injEq] at hm
        obtain ⟨_, rfl⟩ := hm
        rw [← h0]
        exact cutLoop_frame img f hb opc _ _ boxes i (by rw [hbe]; exact h) boxes (fun _ hb' => hb') m0 m1 hfo
  -- the shortcut part
  have hshort : ∀ pixel reg, fillRegion img boxes = some reg →
      (fillRects al chain img pixel reg.rects m).2.bit i = m.bit i := by
    intro pixel reg hreg
    apply fillRects_frame al hal
    apply not_inRects
    intro x y hxy
    obtain ⟨reg', hreg', _, hmem⟩ := Pixman.Props.C19.fillRegion_exact img boxes hr hw hh hclip
    rw [hreg] at hreg'
    cases hreg'
    exact h x y ((hmem x y).1 hxy)
  unfold fillBoxes at hres
  generalize reduceOp op color = rc at hres
  obtain ⟨op', c'⟩ := rc
  simp only [] at hres
  by_cases h1 : op' = OP_SRC
  · simp only [h1, if_true] at hres
    cases hpix : colorToPixel c' img.format with
    | none =>
      simp only [hpix] at hres
      exact hloop _ _ m rfl hres
    | some pixel =>
      simp only [hpix] at hres
      cases hreg : fillRegion img boxes with
      | none =>
        simp only [hreg, Option.some.injEq, Prod.mk.injEq] at hres
        obtain ⟨_, rfl⟩ := hres; rfl
      | some reg =>
        simp only [hreg] at hres
        by_cases hfill : (fillRects al chain img pixel reg.rects m).1 = true
        · simp only [hfill, if_true, Option.some.injEq, Prod.mk.injEq] at hres
          obtain ⟨_, rfl⟩ := hres
          exact hshort pixel reg hreg
        · simp only [hfill, Bool.false_eq_true, if_false] at hres
          exact hloop _ _ _ (hshort pixel reg hreg) hres
  · simp only [h1, if_false] at hres
    exact hloop _ _ m rfl hres

/-- `pixman_image_fill_rectangles` = `pixman_image_fill_boxes` on the converted rectangles -/
theorem fillRectangles_frame (al : Int) (hal : (4 : Int) ∣ al) (chain : List Impl) (op : Nat) (img : Image)
    (color : Color) (rects : List Rect16) (m : Mem) (ret : Bool) (m' : Mem)
    (hres : fillRectangles al chain op img color rects m = some (ret, m'))
    (hr : ∀ b ∈ rectsToBoxes rects, Pixman.Region.BoxInRange Pixman.Region.c32 b)
    (hw : (img.width : Int) ≤ 2147483647) (hh : (img.height : Int) ≤ 2147483647)
    (hclip : ∀ c, img.clip = some c → Pixman.Region.Canon c) (i : Int)
    (h : BitOutside img (formatBpp img.format) (FillPixels img (rectsToBoxes rects)) i) : m'.bit i = m.bit i :=
  fillBoxes_frame al hal chain op img color (rectsToBoxes rects) m ret m' hres hr hw hh hclip i h

end Pixman.DrawFrame.FillFrame

/-! ## trapezoids rasterised into the destination: C12's pixel-array model -/
namespace Pixman.DrawFrame.TrapFrame
open Pixman.Trap Pixman.Gen.SampleGrid Pixman.Spec.SampleGrid
open Pixman.Lemmas.Trap Pixman.Lemmas.TrapShape Pixman.Lemmas.TrapSetup Pixman.Lemmas.TrapTri

/-- adding the coverage of a shape leaves every pixel without a grid sample inside the shape as it was -/
theorem addShape_frame (n : Nat) (img : Img) (hwf : ImgWF n img) (s : Shape) (ρ c : Nat)
    (hρ : ρ < img.height) (hc : c < img.width) (h0 : pixelCount n s (c : Int) (ρ : Int) = 0) :
    px (addShape n img.width img.height img.rows s) ρ c = px img.rows ρ c := by
  rw [addShape_eq_addSpans, addSpans_px n img.width img.height img.rows _ _ _ _ ρ c hρ hc]
  unfold pixelCount at h0
  simp only [] at h0
  rw [h0]
  exact pixelValue_zero n _ (hwf.vals ρ c)

/-- what a rasterisation that equals `addShape` may change -/
structure Touches (n : Nat) (img out : Img) (s : Shape) : Prop where
  width : out.width = img.width
  height : out.height = img.height
  /-- no access outside the pixel rows -/
  oob : out.oob = img.oob
  runaway : out.runaway = img.runaway
  /-- pixels of the image without a grid sample inside the shape keep their value -/
  outside : ∀ ρ c : Nat, ρ < img.height → c < img.width → pixelCount n s (c : Int) (ρ : Int) = 0 →
    px out.rows ρ c = px img.rows ρ c

theorem touches_of_eq (n : Nat) (img out : Img) (hwf : ImgWF n img) (s : Shape)
    (h : out = { img with rows := addShape n img.width img.height img.rows s }) : Touches n img out s := by
  subst h
  exact ⟨rfl, rfl, rfl, rfl, fun ρ c hρ hc h0 => addShape_frame n img hwf s ρ c hρ hc h0⟩

end Pixman.DrawFrame.TrapFrame

import Pixman.Lemmas.DrawFrame
/-!
  C03, second half — *drawing touches only the composite region*: frame theorems at model level,
  assembled from C10 (scanline store changes only its pixels' bits), C03 (the composite region is
  the exact intersection `R`, the box loop covers it), C17Draw's glyph models, C19 (`pixman_fill`,
  `pixman_image_fill_boxes`) and C12 (trapezoid rasteriser).

  Destination memory:
  * composite / glyphs: C10's byte memory `Model.Format.Mem` with a `Model.Format.Image` (format,
    byte address of the first row, rowstride in `uint32_t`); `bitAt m k` is bit `k % 8` of byte
    `k / 8`; pixel `(x, y)` owns the `bpp` bits from `8 * row y + x * bpp` (`InPixel`), for every
    `MAKE_ACCESSORS` format of `Gen/Formats` — bpp 1, 4, 8, 16, 24, 32;
  * fills: C19's word memory (`Model.Fill.Mem`), `m.bit i`, pixel index `pixIdx`;
  * trapezoids rasterised directly: C12's pixel-array image `Trap.Img`.

  What the models cover and what they do not (the `_partial` in the headline):
  * `generalCompositeMem` is the GENERAL path: `pixman_image_composite32` → box loop →
    `general_composite_rect` whose destination iterator writes each combined row back through the
    format's `store_scanline` (any per-row combiner, any operator, any source/mask kind).  The
    bodies of the fast paths (pixman-fast-path.c, MMX/SSE2/SSSE3 composite functions) write memory
    themselves and are outside every model here: for them the frame stays a canary-oracle result
    (harness/frame.c under each implementation chain).  `pixman_fill`'s SIMD/fast-path bodies ARE
    modelled by C19 and are covered by `fill_frame`.
  * destinations with an alpha map: `generalCompositeAlphaMem` / `composite_alpha_frame` (second
    store into the alpha image).  Wide (float) write-back through `store_scanline_generic_float`
    (C10: contract, then the 32-bit store) is the instance `comb = contract ∘ …` of the row combiner;
    the formats with their own float stores (10-bit, sRGB: not `MAKE_ACCESSORS` formats) are outside.
  * trapezoids: `Trap.Img` is an array of pixel values — the a1/a4 read-modify-write of
    pixman-edge-imp.h on memory words is not tied to a byte memory, and the theorem holds in C12's
    exact region; unconditional row/column containment is C04's S8 (Lemmas/TrapBounds, in progress).
-/
namespace Pixman.Props.C03Frame
open Pixman.DrawFrame Pixman.Model.Format Pixman.Lemmas.FormatMem
open Pixman.Gen.Formats (Rec formats)
open Pixman.Region Pixman.CompositeRegion
open Pixman.GlyphDraw (Placed glyphBox maskImage)

/-- **composite_frame** — a composite request on the general path changes destination memory only
    inside the pixels of the intersection `R` of the property statement.  For every destination
    format with bpp 1/4/8/16/24/32, every row combiner, every request in `RangeOK` (also with clips
    on alpha maps: the region is then a subset of `R`):
    (1) all cells stay bytes; (2) **every memory bit that belongs to no pixel of `R` is unchanged** —
    the neighbouring pixel in the same byte (4 bpp), the other 31 bits of the word (1 bpp), the row
    padding, other rows, everything outside the image; (3), (4) the same read pixel-wise and
    byte-wise (C10's form). -/
theorem composite_frame (r : Rec) (hr : r ∈ formats) (ha : r.acc = 1) (img : FImage)
    (hf : img.format = r.code) (comb : RowComb) {src : CImage} {mask : Option CImage} {dest : CImage}
    {sx sy mx my dx dy w h : Int} (H : RangeOK src mask dest sx sy mx my dx dy w h)
    (hfit : Fits img (fmtBpp r.code) dest.width) (m : Mem) (hb : m.Bytes) :
    (generalCompositeMem img comb src mask dest sx sy mx my dx dy w h m).Bytes ∧
    (∀ k, (∀ x y : Nat, R src mask dest sx sy mx my dx dy w h x y → ¬ InPixel img (fmtBpp r.code) x y k) →
      bitAt (generalCompositeMem img comb src mask dest sx sy mx my dx dy w h m) k = bitAt m k) ∧
    (∀ x y : Nat, InRow img (fmtBpp r.code) x → ¬ R src mask dest sx sy mx my dx dy w h x y →
      fetchRaw (generalCompositeMem img comb src mask dest sx sy mx my dx dy w h m) (img.row y) x (fmtBpp r.code) =
        fetchRaw m (img.row y) x (fmtBpp r.code)) ∧
    (∀ a, (∀ x y : Nat, R src mask dest sx sy mx my dx dy w h x y → OutsideUnit img (fmtBpp r.code) x y a) →
      generalCompositeMem img comb src mask dest sx sy mx my dx dy w h m a = m a) := by
  have hbpp : Bpp (fmtBpp r.code) := Pixman.Props.C10.gen_bpp r hr ha
  have W := composite_within r hr ha img hf comb H hfit m hb
  refine ⟨W.bytes, ?_, W.pixels, W.others⟩
  intro k hk
  apply within_bits hbpp hb W _ k hk
  intro x y hR
  apply inRow_of_fits hbpp hfit
  have := (show R src mask dest sx sy mx my dx dy w h x y from hR).2.1
  unfold InRect at this
  omega

/-- non-vacuity: the request of Props/C03's example on an a4 destination (two pixels per byte) -/
example : RangeOK Pixman.Props.C03.exSrc (some Pixman.Props.C03.exMask) Pixman.Props.C03.exDest 5 6 0 0 (-2) 3 30 30 ∧
    Fits ⟨0x04014000, 64, 3, ⟨fun _ => 0, fun _ => 0⟩⟩ 4 Pixman.Props.C03.exDest.width := by
  refine ⟨?_, by unfold Fits; decide⟩
  exact
    { dest_w := by decide, dest_h := by decide, req_x := by decide, req_y := by decide
      dest_clip := fun _ => ⟨by decide, by decide⟩
      dest_alpha := fun a ha => by
        cases ha
        exact ⟨by decide, by decide, by decide, by decide, by decide, by decide, by decide, by decide,
          fun h => by cases h⟩
      src_clip := fun _ => ⟨by decide, by decide, by decide, by decide, by decide⟩
      src_alpha := fun a ha => by cases ha
      mask_clip := fun m hm hc => by cases hm; exact absurd hc.2.1 (by decide)
      mask_alpha := fun m a hm _ ha => by cases hm; cases ha }

/-- **composite_alpha_frame** — destination WITH an alpha map (the "destination alpha-map bounds" conjunct
    of `R`): `dest_write_back_narrow` stores every combined row twice, into the image and, at
    `(x - alpha_origin_x, y - alpha_origin_y)`, into the alpha map.  A memory bit that belongs neither to a
    pixel of `R` in the image nor to the corresponding pixel of the alpha map is unchanged — whether or not
    the two buffers overlap.  That the second store stays inside the alpha map (non-negative coordinates,
    inside its rows) is exactly the alpha-bounds conjunct of `R`. -/
theorem composite_alpha_frame (rD : Rec) (hrD : rD ∈ formats) (haD : rD.acc = 1) (imgD : FImage)
    (hfD : imgD.format = rD.code) (rA : Rec) (hrA : rA ∈ formats) (haA : rA.acc = 1) (imgA : FImage)
    (hfA : imgA.format = rA.code) (comb : RowComb) {src : CImage} {mask : Option CImage} {dest : CImage}
    {a : AlphaMap} (hal : dest.alphaMap = some a)
    {sx sy mx my dx dy w h : Int} (H : RangeOK src mask dest sx sy mx my dx dy w h)
    (hfitD : Fits imgD (fmtBpp rD.code) dest.width) (hfitA : Fits imgA (fmtBpp rA.code) a.img.width)
    (m : Mem) (hb : m.Bytes) :
    (generalCompositeAlphaMem imgD imgA comb src mask dest a sx sy mx my dx dy w h m).Bytes ∧
    ∀ k,
      (∀ x y : Nat, R src mask dest sx sy mx my dx dy w h x y → ¬ InPixel imgD (fmtBpp rD.code) x y k) →
      (∀ x y x' y' : Nat, R src mask dest sx sy mx my dx dy w h x y → (x' : Int) = x - a.ox → (y' : Int) = y - a.oy →
        ¬ InPixel imgA (fmtBpp rA.code) x' y' k) →
      bitAt (generalCompositeAlphaMem imgD imgA comb src mask dest a sx sy mx my dx dy w h m) k = bitAt m k := by
  have B := compositeAlpha_bitsWithin rD hrD haD imgD hfD rA hrA haA imgA hfA comb hal H hfitD hfitA m hb
  refine ⟨B.bytes, fun k h1 h2 => B.bits k ?_⟩
  rintro (⟨x, y, hs, hin⟩ | ⟨x', y', ⟨x, y, hr, hx, hy⟩, hin⟩)
  · exact h1 x y hs hin
  · exact h2 x y x' y' hr hx hy hin

/-- non-vacuity, executed: an a4 destination (two pixels per byte, rows of 3 words at byte 64) whose bytes are
    all 0xAB; a 2×1 box at (1,0) written with alpha 15: pixel 1 is the high nibble of byte 64, pixel 2 the low
    nibble of byte 65 — the neighbouring nibbles keep 0xB / 0xA, byte 66 is untouched -/
example :
    let img : FImage := ⟨0x04014000, 64, 3, ⟨fun _ => 0, fun _ => 0⟩⟩
    let m' := paintInfoMem img (fun _ _ _ _ => 0xFF000000) (fun _ => 0xAB) ⟨0, 0, 0, 0, 1, 0, 2, 1⟩
    m' 64 = 0xFB ∧ m' 65 = 0xAF ∧ m' 66 = 0xAB := by decide

/-- **fill_frame** — `pixman_image_fill_boxes` (and `pixman_image_fill_rectangles`,
    `fillRectangles_frame`): whatever route is taken — direct `pixman_fill` through any
    implementation chain (SSE2 / MMX / fast path bodies as modelled by C19), the compositing
    fallback box by box, or the shortcut declining half way — and whatever it returns, a memory bit
    that belongs to no pixel of (union of the boxes) ∩ image bounds ∩ clip is unchanged.
    Formats: every depth `pixman_fill` serves (1, 8, 16, 32) and, for the fallback, the formats of
    C01's model (8/16/32 bpp). -/
theorem fill_frame (al : Int) (hal : (4 : Int) ∣ al) (chain : List Pixman.Model.Fill.Impl) (op : Nat)
    (img : Pixman.Model.Fill.Image) (color : Pixman.Model.Fill.Color) (boxes : List Box)
    (m : Pixman.Model.Fill.Mem) (ret : Bool) (m' : Pixman.Model.Fill.Mem)
    (hres : Pixman.Model.Fill.fillBoxes al chain op img color boxes m = some (ret, m'))
    (hr : ∀ b ∈ boxes, BoxInRange c32 b)
    (hw : (img.width : Int) ≤ 2147483647) (hh : (img.height : Int) ≤ 2147483647)
    (hclip : ∀ c, img.clip = some c → Canon c) (i : Int)
    (h : FillFrame.BitOutside img (Pixman.Model.Fill.formatBpp img.format) (FillFrame.FillPixels img boxes) i) :
    m'.bit i = m.bit i :=
  FillFrame.fillBoxes_frame al hal chain op img color boxes m ret m' hres hr hw hh hclip i h

/-- **glyphs_frame** — `pixman_composite_glyphs_no_mask` on the general path: a memory bit that
    belongs to no pixel of (composite region of the destination) ∩ (union of the glyph boxes) is
    unchanged; every glyph list, every clip of source and destination.  (The masked variant
    `pixman_composite_glyphs` touches the destination by ONE composite request with the temporary
    mask: `glyphs_mask_frame`.) -/
theorem glyphs_frame (r : Rec) (hr : r ∈ formats) (ha : r.acc = 1) (img : FImage)
    (hf : img.format = r.code) (comb : Nat → RowComb) {src dest : CImage} {sx sy dx dy : Int}
    (glyphs : List Placed)
    (H : RangeOK src none dest (sx - dx) (sy - dy) 0 0 0 0 dest.width dest.height)
    (hfit : Fits img (fmtBpp r.code) dest.width) (m : Mem) (hb : m.Bytes) :
    (glyphsNoMaskMem img comb src dest sx sy dx dy glyphs m).Bytes ∧
    ∀ k, (∀ x y : Nat, R src none dest (sx - dx) (sy - dy) 0 0 0 0 dest.width dest.height x y →
        (∃ g ∈ glyphs, (glyphBox dx dy g).Mem x y) → ¬ InPixel img (fmtBpp r.code) x y k) →
      bitAt (glyphsNoMaskMem img comb src dest sx sy dx dy glyphs m) k = bitAt m k := by
  have hbpp : Bpp (fmtBpp r.code) := Pixman.Props.C10.gen_bpp r hr ha
  have W := glyphsNoMask_within r hr ha img hf comb glyphs H hfit m hb
  refine ⟨W.bytes, ?_⟩
  intro k hk
  apply within_bits hbpp hb W _ k (fun x y hp => hk x y hp.1 hp.2)
  intro x y hp
  apply inRow_of_fits hbpp hfit
  have := hp.1.2.1
  unfold InRect at this
  omega

/-- `pixman_composite_glyphs` with a mask format: the destination is written by one composite
    request whose mask is the temporary `width × height` image — `composite_frame` with that mask -/
theorem glyphs_mask_frame (r : Rec) (hr : r ∈ formats) (ha : r.acc = 1) (img : FImage)
    (hf : img.format = r.code) (comb : RowComb) {src dest : CImage} {sx sy dx dy w h : Int}
    (H : RangeOK src (some (maskImage w h)) dest sx sy 0 0 dx dy w h)
    (hfit : Fits img (fmtBpp r.code) dest.width) (m : Mem) (hb : m.Bytes) (k : Nat)
    (hk : ∀ x y : Nat, R src (some (maskImage w h)) dest sx sy 0 0 dx dy w h x y → ¬ InPixel img (fmtBpp r.code) x y k) :
    bitAt (glyphsMaskMem img comb src dest sx sy dx dy w h m) k = bitAt m k :=
  (composite_frame r hr ha img hf comb H hfit m hb).2.1 k hk

open Pixman.Trap Pixman.Gen.SampleGrid Pixman.Spec.SampleGrid in
open Pixman.Lemmas.Trap Pixman.Lemmas.TrapRows Pixman.Lemmas.TrapShape Pixman.Lemmas.TrapSetup Pixman.Lemmas.TrapTri in
/-- **trapezoid_frame_partial** — `pixman_rasterize_trapezoid` into an a1/a4/a8 image (C12's model):
    dimensions and the out-of-rows flag `oob` are unchanged (no access outside the pixel rows) and
    every pixel without a grid sample inside the trapezoid keeps its value.
    PARTIAL: (i) inside C12's exact region (the hypotheses of `rasterizeTrapezoid_eq_addShape`);
    outside it containment is C04's S8; (ii) pixel-array model: the a1/a4 word read-modify-write
    is not tied to byte memory.  `pixman_composite_trapezoids` / `pixman_composite_triangles` with a
    temporary mask write the destination by one composite request: `trapezoids_mask_frame`. -/
theorem trapezoid_frame_partial (n : Nat) (hn : Depth n) (img : Img) (hwf : ImgWF n img)
    (hh : img.height ≤ 32767) (tr : Trapezoid) (hv : tr.valid = true)
    (htop : InI32 tr.top) (hbot : InI32 tr.bottom)
    (hc : InI32 tr.left.p1.x ∧ InI32 tr.left.p1.y ∧ InI32 tr.left.p2.x ∧ InI32 tr.left.p2.y ∧
          InI32 tr.right.p1.x ∧ InI32 tr.right.p1.y ∧ InI32 tr.right.p2.x ∧ InI32 tr.right.p2.y)
    (hbt : lastRow n img.height tr.bottom ≥ firstRow n tr.top)
    (hl : InitOK n (firstRow n tr.top) (lineOf tr.left)) (hr : InitOK n (firstRow n tr.top) (lineOf tr.right))
    (hlr : RowsOK n (firstRow n tr.top) (lastRow n img.height tr.bottom) (lineOf tr.left))
    (hrr : RowsOK n (firstRow n tr.top) (lastRow n img.height tr.bottom) (lineOf tr.right))
    (hx1 : X1Ok n (firstRow n tr.top) (lastRow n img.height tr.bottom) (lineOf tr.left).snapX (lineOf tr.right).snapX) :
    TrapFrame.Touches n img (rasterizeTrapezoid n img tr 0 0) (shapeOf tr) :=
  TrapFrame.touches_of_eq n img _ hwf _
    (Pixman.Props.C12.rasterizeTrapezoid_eq_addShape n hn img hwf hh tr hv htop hbot hc hbt hl hr hlr hrr hx1)

/-- `pixman_composite_trapezoids` / `pixman_composite_triangles` through a temporary a1/a8 mask of
    the bounding box: the destination is written by `pixman_image_composite32 (op, src, tmp, dst,
    x_src + box.x1 - x_dst, y_src + box.y1 - y_dst, 0, 0, box.x1, box.y1, w, h)` — `composite_frame` -/
theorem trapezoids_mask_frame (r : Rec) (hr : r ∈ formats) (ha : r.acc = 1) (img : FImage)
    (hf : img.format = r.code) (comb : RowComb) {src tmp dest : CImage} {sx sy bx by' w h : Int}
    (H : RangeOK src (some tmp) dest sx sy 0 0 bx by' w h)
    (hfit : Fits img (fmtBpp r.code) dest.width) (m : Mem) (hb : m.Bytes) (k : Nat)
    (hk : ∀ x y : Nat, R src (some tmp) dest sx sy 0 0 bx by' w h x y → ¬ InPixel img (fmtBpp r.code) x y k) :
    bitAt (generalCompositeMem img comb src (some tmp) dest sx sy 0 0 bx by' w h m) k = bitAt m k :=
  (composite_frame r hr ha img hf comb H hfit m hb).2.1 k hk

/-- **drawing_touches_only_region_partial** — the four kinds of drawing request of the property
    (composite, fill, glyphs, trapezoids) at model level.  Partial: see the list at the head of the
    file — fast-path / SIMD composite bodies and the formats with their own float stores are
    outside the models (canary oracle only); direct trapezoid rasterisation holds in C12's exact
    region on the pixel-array model. -/
theorem drawing_touches_only_region_partial :
    type_of% @composite_frame ∧ type_of% @composite_alpha_frame ∧ type_of% @fill_frame ∧ type_of% @FillFrame.fillRectangles_frame ∧
    type_of% @glyphs_frame ∧ type_of% @glyphs_mask_frame ∧
    type_of% @trapezoid_frame_partial ∧ type_of% @trapezoids_mask_frame :=
  ⟨@composite_frame, @composite_alpha_frame, @fill_frame, @FillFrame.fillRectangles_frame, @glyphs_frame, @glyphs_mask_frame,
   @trapezoid_frame_partial, @trapezoids_mask_frame⟩

end Pixman.Props.C03Frame

import Pixman.Props.C09Flags
import Pixman.Props.C08
/-! C09, (O3) end to end: what the reference fetchers of `Model/Fetch` RETURN for an image that
`pixman_image_composite32` treats as opaque. -/
namespace Pixman.Props.C09Sound
open Pixman.Model Pixman.Model.Opacity Pixman.Model.ImageState Pixman.Gen.ImageFlags Pixman.Lemmas.OpacityFlags
open Pixman.Model.Extent Pixman.Model.Fetch Pixman.Lemmas.FetchBilinear Pixman.Matrix Pixman.Sample
open Pixman.Props.C09Flags

/-! ## fetch level (C08 fetchers) -/

/-- every pixel of the image has alpha 255 (what an alpha-less format fetches: C10 `absent_alpha_reads_opaque`) -/
def OpaquePixels (b : Bits) : Prop :=
  ∀ x y, 0 ≤ x → x < b.width → 0 ≤ y → y < b.height → chA (b.fetch x y) = 255 ∧ b.fetch x y < 4294967296

theorem tap_opaque (b : Bits) (hp : OpaquePixels b) (hw : 0 < b.width) (hh : 0 < b.height) (x y : Int)
    (h : b.rep ≠ .none ∨ (0 ≤ x ∧ x < b.width ∧ 0 ≤ y ∧ y < b.height)) :
    chA (tap b x y) = 255 ∧ tap b x y < 4294967296 := by
  unfold tap
  by_cases hr : b.rep = .none
  · rcases h with h | ⟨h1, h2, h3, h4⟩
    · exact absurd hr h
    · simp only [hr, ne_eq, not_true_eq_false, if_false, getPixel]
      rw [if_neg (by omega)]
      exact hp x y h1 h2 h3 h4
  · simp only [ne_eq, hr, not_false_eq_true, if_true, getPixel]
    rw [if_neg (by simp)]
    obtain ⟨a1, a2⟩ := Pixman.Props.C08.repeat_in_range b.rep x b.width hw hr
    obtain ⟨b1, b2⟩ := Pixman.Props.C08.repeat_in_range b.rep y b.height hh hr
    exact hp _ _ a1 a2 b1 b2

/-- NEAREST: the value fetched at a position whose nearest index lies inside (or anywhere, when the image repeats) -/
theorem nearest_value_opaque (b : Bits) (hp : OpaquePixels b) (hw : 0 < b.width ∧ b.width ≤ 32767) (hh : 0 < b.height ∧ b.height ≤ 32767)
    (x y : Int)
    (h : b.rep ≠ .none ∨ (0 ≤ nearestIndex x ∧ nearestIndex x < b.width ∧ 0 ≤ nearestIndex y ∧ nearestIndex y < b.height)) :
    chA (fetchNearest b x y) = 255 := by
  unfold fetchNearest
  simp only []
  rcases h with h | ⟨h1, h2, h3, h4⟩
  · exact (tap_opaque b hp hw.1 hh.1 _ _ (Or.inl h)).1
  · unfold nearestIndex fixedE fixedToInt at *
    have ex : wrapS32 (x - 1) = x - 1 := wrapS32_of_range _ (by omega)
    have ey : wrapS32 (y - 1) = y - 1 := wrapS32_of_range _ (by omega)
    rw [ex, ey]
    exact (tap_opaque b hp hw.1 hh.1 _ _ (Or.inr ⟨h1, h2, h3, h4⟩)).1

theorem chA_pack4 (a r g bl : Nat) (ha : a ≤ 255) (hr : r ≤ 255) (hg : g ≤ 255) (hb : bl ≤ 255) :
    chA (Pixman.Lemmas.FetchBits.pack4 a r g bl) = a := by
  unfold chA Pixman.Lemmas.FetchBits.pack4; omega

/-- four alpha-255 taps interpolate to alpha 255, whatever the weights (C08 `bilinear_lanes` on the alpha lane) -/
theorem bilinear_alpha_opaque (tl tr bl br dx dy : Nat)
    (htl : tl < 4294967296) (htr : tr < 4294967296) (hbl : bl < 4294967296) (hbr : br < 4294967296)
    (hdx : dx < 128) (hdy : dy < 128)
    (a1 : chA tl = 255) (a2 : chA tr = 255) (a3 : chA bl = 255) (a4 : chA br = 255) :
    chA (bilinearInterpolation tl tr bl br dx dy) = 255 := by
  rw [Pixman.Props.C08.bilinear_lanes tl tr bl br dx dy htl htr hbl hbr hdx hdy, a1, a2, a3, a4]
  rw [bilinearChannel_const 255 (2 * dx) (2 * dy) (by omega) (by omega)]
  have hws := weights_sum (2 * dx) (2 * dy) (by omega) (by omega)
  have bound : ∀ c1 c2 c3 c4 : Nat, c1 ≤ 255 → c2 ≤ 255 → c3 ≤ 255 → c4 ≤ 255 →
      Pixman.Spec.Sampling.bilinearChannel c1 c2 c3 c4 (2 * dx) (2 * dy) ≤ 255 := by
    intro c1 c2 c3 c4 h1 h2 h3 h4
    unfold Pixman.Spec.Sampling.bilinearChannel
    have := wsum_lt c1 c2 c3 c4 _ _ _ _ h1 h2 h3 h4 hws
    omega
  obtain ⟨_, r1, g1, b1⟩ := ch_le tl
  obtain ⟨_, r2, g2, b2⟩ := ch_le tr
  obtain ⟨_, r3, g3, b3⟩ := ch_le bl
  obtain ⟨_, r4, g4, b4⟩ := ch_le br
  exact chA_pack4 _ _ _ _ (by omega) (bound _ _ _ _ r1 r2 r3 r4) (bound _ _ _ _ g1 g2 g3 g4) (bound _ _ _ _ b1 b2 b3 b4)

/-- BILINEAR: the value fetched at a position both of whose taps per axis lie inside (or anywhere, when the image repeats) -/
theorem bilinear_value_opaque (b : Bits) (hp : OpaquePixels b) (hw : 0 < b.width ∧ b.width ≤ 32767) (hh : 0 < b.height ∧ b.height ≤ 32767)
    (x y : Int)
    (h : b.rep ≠ .none ∨ (0 ≤ bilinearTap1 x ∧ bilinearTap2 x < b.width ∧ 0 ≤ bilinearTap1 y ∧ bilinearTap2 y < b.height)) :
    chA (fetchBilinear b x y) = 255 := by
  unfold fetchBilinear
  simp only []
  have wx : (bilinearWeight (wrapS32 (x - 32768))).toNat < 128 := by unfold bilinearWeight; omega
  have wy : (bilinearWeight (wrapS32 (y - 32768))).toNat < 128 := by unfold bilinearWeight; omega
  have taps : ∀ (u v : Int), (b.rep ≠ .none ∨ (0 ≤ u ∧ u < b.width ∧ 0 ≤ v ∧ v < b.height)) →
      chA (tap b u v) = 255 ∧ tap b u v < 4294967296 := fun u v huv => tap_opaque b hp hw.1 hh.1 u v huv
  rcases h with h | ⟨h1, h2, h3, h4⟩
  · obtain ⟨a1, l1⟩ := taps (fixedToInt (wrapS32 (x - 32768))) (fixedToInt (wrapS32 (y - 32768))) (Or.inl h)
    obtain ⟨a2, l2⟩ := taps (fixedToInt (wrapS32 (x - 32768)) + 1) (fixedToInt (wrapS32 (y - 32768))) (Or.inl h)
    obtain ⟨a3, l3⟩ := taps (fixedToInt (wrapS32 (x - 32768))) (fixedToInt (wrapS32 (y - 32768)) + 1) (Or.inl h)
    obtain ⟨a4, l4⟩ := taps (fixedToInt (wrapS32 (x - 32768)) + 1) (fixedToInt (wrapS32 (y - 32768)) + 1) (Or.inl h)
    exact bilinear_alpha_opaque _ _ _ _ _ _ l1 l2 l3 l4 wx wy a1 a2 a3 a4
  · simp only [bilinearTap2, bilinearTap1, half, fixedToInt] at h1 h2 h3 h4
    have ex : wrapS32 (x - 32768) = x - 32768 := wrapS32_of_range _ (by omega)
    have ey : wrapS32 (y - 32768) = y - 32768 := wrapS32_of_range _ (by omega)
    simp only [ex, ey] at wx wy ⊢
    unfold fixedToInt
    obtain ⟨a1, l1⟩ := taps ((x - 32768) / 65536) ((y - 32768) / 65536) (Or.inr (by omega))
    obtain ⟨a2, l2⟩ := taps ((x - 32768) / 65536 + 1) ((y - 32768) / 65536) (Or.inr (by omega))
    obtain ⟨a3, l3⟩ := taps ((x - 32768) / 65536) ((y - 32768) / 65536 + 1) (Or.inr (by omega))
    obtain ⟨a4, l4⟩ := taps ((x - 32768) / 65536 + 1) ((y - 32768) / 65536 + 1) (Or.inr (by omega))
    exact bilinear_alpha_opaque _ _ _ _ _ _ l1 l2 l3 l4 wx wy a1 a2 a3 a4


/-- float pipeline (regenerated `LERP_CHANNEL` of `bilinear_interpolation_float`, 803e15f): equal taps are reproduced
exactly whatever the weights — the differences `tr - tl`, `bot - top` are 0, so the same holds in IEEE arithmetic
(`x - x = 0`, `d * 0 = 0`, `x + 0 = x` for finite operands), which is what the interpolation by weights did not have -/
theorem float_lerp_equal_taps_exact (c dx dy : Rat) : Pixman.Gen.OpacityBlock.lerpChannel c c c c dx dy = c := by
  unfold Pixman.Gen.OpacityBlock.lerpChannel; grind

/-- float pipeline: four taps of alpha 1 interpolate to alpha exactly 1 -/
theorem float_bilinear_alpha_opaque (dx dy : Rat) : Pixman.Gen.OpacityBlock.lerpChannel 1 1 1 1 dx dy = 1 :=
  float_lerp_equal_taps_exact 1 dx dy
example : Pixman.Gen.OpacityBlock.lerpChannel 0 1 0 1 (1/2) (1/4) = 1/2 := by
  unfold Pixman.Gen.OpacityBlock.lerpChannel; grind

/-! ## the decision, end to end -/

/-- the promotion block touches bit 13 only -/
theorem promotion_other_bits (s m d j : Nat) (hj : j ≠ 13) :
    (Pixman.Gen.OpacityBlock.promotionBlock s m d).1.testBit j = s.testBit j ∧
    (Pixman.Gen.OpacityBlock.promotionBlock s m d).2.1.testBit j = m.testBit j := by
  have hb : FAST_PATH_IS_OPAQUE.testBit j = false := by
    show (2 ^ 13).testBit j = false
    rw [Nat.testBit_two_pow]; exact decide_eq_false (fun e => hj e.symm)
  unfold Pixman.Gen.OpacityBlock.promotionBlock
  simp only []
  constructor <;> split <;> simp [Nat.testBit_or, hb]

/-- what `composite32` did on the way to a decision -/
theorem run_inv (r : Request) (d : Decision) (h : composite32 r = .run d) :
    ∃ fs fm, analyzeExtent r.src.extentImage r.srcExtents = .ok (true, fs) ∧
      analyzeExtentOpt (r.mask.map Img.extentImage) r.maskExtents = .ok (true, fm) ∧
      d.srcFlags = (Pixman.Gen.OpacityBlock.promotionBlock (r.src.flags ||| coverBits fs) ((maskEntry r.mask).2 ||| coverBits fm) r.dest.flags).1 ∧
      d.maskFlags = (Pixman.Gen.OpacityBlock.promotionBlock (r.src.flags ||| coverBits fs) ((maskEntry r.mask).2 ||| coverBits fm) r.dest.flags).2.1 := by
  unfold composite32 at h
  simp only [] at h
  split at h <;> try cases h
  rename_i fs hs
  split at h <;> try cases h
  rename_i fm hm
  exact ⟨fs, fm, hs, hm, rfl, rfl⟩

/-- a `Model/Fetch` image presenting the bits image `i`: same size (non-empty, below `analyze_extent`'s limit), repeat
and filter as set on `i`, and — when the format has no alpha field — pixels that fetch alpha 255 (C10
`absent_alpha_reads_opaque`; for x8r8g8b8 the fetcher ORs 0xff000000) -/
structure Presents (i : Img) (b : Bits) : Prop where
  width : b.width = i.cr.width
  height : b.height = i.cr.height
  size : 0 < b.width ∧ b.width ≤ 32767 ∧ 0 < b.height ∧ b.height ≤ 32767
  rep : b.rep = .none ↔ i.props.repeat_ = PIXMAN_REPEAT_NONE
  nearest : b.filter = .nearest ↔ (i.props.filter = PIXMAN_FILTER_NEAREST ∨ i.props.filter = PIXMAN_FILTER_FAST)
  bilinear : b.filter = .bilinear ↔ (i.props.filter = PIXMAN_FILTER_BILINEAR ∨ i.props.filter = PIXMAN_FILTER_GOOD ∨ i.props.filter = PIXMAN_FILTER_BEST)
  convolution : b.filter = .convolution ↔ i.props.filter = PIXMAN_FILTER_CONVOLUTION
  separable : b.filter = .separable ↔ i.props.filter = PIXMAN_FILTER_SEPARABLE_CONVOLUTION
  pixels : alphaLess i.cr.format = true → OpaquePixels b

/-- core: a flag word `w = flags ||| cover` of a bits image that the promotion block turns opaque -/
theorem opaque_values (i : Img) (b : Bits) (hb : Presents i b) (hk : i.cr.kind = .bits)
    (hI : ∀ t, i.props.transform = some t → (toMatrix t).isI32)
    (e : Box32) (fl : Extent.Flags) (ha : analyzeExtent i.extentImage e = .ok (true, fl))
    (h : (i.flags ||| coverBits fl).testBit 13 = true ∨
        ((i.flags ||| coverBits fl).testBit 7 = true ∧ (i.flags ||| coverBits fl).testBit 11 = true ∧
          (i.flags ||| coverBits fl).testBit 17 = true ∧ (i.flags ||| coverBits fl).testBit 23 = true) ∨
        ((i.flags ||| coverBits fl).testBit 7 = true ∧ (i.flags ||| coverBits fl).testBit 19 = true ∧
          (i.flags ||| coverBits fl).testBit 17 = true ∧ (i.flags ||| coverBits fl).testBit 24 = true))
    (x y : Int) (hx : e.x1 ≤ x ∧ x < e.x2) (hy : e.y1 ≤ y ∧ y < e.y2) :
    (b.filter = .nearest ∨ b.filter = .bilinear) ∧
    (b.filter = .nearest → chA (fetchFiltered b (sampleX i.extentImage.transform x y) (sampleY i.extentImage.transform x y)) = 255) ∧
    (b.filter = .bilinear → (i.flags.testBit 13 = true ∨ fl.bilinear = true) →
      chA (fetchFiltered b (sampleX i.extentImage.transform x y) (sampleY i.extentImage.transform x y)) = 255) := by
  obtain ⟨c23, c24, c7, c13, c17⟩ := coverBits_tb fl
  obtain ⟨f23, f24⟩ := cover_bits_clear i
  simp only [Nat.testBit_or, c23, c24, c7, c13, c17, f23, f24, Bool.or_false, Bool.false_or] at h
  -- facts common to the three routes
  have common : alphaLess i.cr.format = true ∧ killed i.props i.amFormat = false ∧
      (i.flags.testBit 13 = true ∨ (i.flags.testBit 17 = true ∧ (fl.nearest = true ∨ fl.bilinear = true))) := by
    rcases h with h | ⟨h7, _, h17, hn⟩ | ⟨h7, _, h17, hb'⟩
    · obtain ⟨a, _, q⟩ := bits_flag_sound i hk h
      exact ⟨a, q, Or.inl h⟩
    · rw [samples_opaque_flag] at h7; simp at h7
      exact ⟨h7.1.2, h7.2, Or.inr ⟨h17, Or.inl hn⟩⟩
    · rw [samples_opaque_flag] at h7; simp at h7
      exact ⟨h7.1.2, h7.2, Or.inr ⟨h17, Or.inr hb'⟩⟩
  obtain ⟨hal, hnk, route⟩ := common
  have hp := hb.pixels hal
  obtain ⟨w0, w1, h0, h1⟩ := hb.size
  have nk : i.props.filter ≠ PIXMAN_FILTER_CONVOLUTION ∧ i.props.filter ≠ PIXMAN_FILTER_SEPARABLE_CONVOLUTION := by
    unfold killed at hnk
    simp only [Bool.or_eq_false_iff, beq_eq_false_iff_ne] at hnk
    exact ⟨hnk.1.1.2, hnk.1.2⟩
  have hfilt : b.filter = .nearest ∨ b.filter = .bilinear := by
    cases hf : b.filter with
    | nearest => exact Or.inl rfl
    | bilinear => exact Or.inr rfl
    | convolution => exact absurd (hb.convolution.mp hf) nk.1
    | separable => exact absurd (hb.separable.mp hf) nk.2
  have own_rep : i.flags.testBit 13 = true → b.rep ≠ .none := by
    intro h13 hr
    exact (bits_flag_sound i hk h13).2.1 (hb.rep.mp hr)
  have bil_inside : i.flags.testBit 17 = true → fl.bilinear = true →
      0 ≤ bilinearTap1 (sampleX i.extentImage.transform x y) ∧ bilinearTap2 (sampleX i.extentImage.transform x y) < b.width ∧
      0 ≤ bilinearTap1 (sampleY i.extentImage.transform x y) ∧ bilinearTap2 (sampleY i.extentImage.transform x y) < b.height := by
    intro h17 hbl
    have := Pixman.Props.C04.cover_bilinear_sound i.extentImage e true fl (optAffine_of_flag i h17 hI) ha hbl x y hx hy
    rw [hb.width, hb.height]; exact this
  have near_inside : i.flags.testBit 17 = true → fl.nearest = true →
      0 ≤ nearestIndex (sampleX i.extentImage.transform x y) ∧ nearestIndex (sampleX i.extentImage.transform x y) < b.width ∧
      0 ≤ nearestIndex (sampleY i.extentImage.transform x y) ∧ nearestIndex (sampleY i.extentImage.transform x y) < b.height := by
    intro h17 hn
    have := Pixman.Props.C04.cover_nearest_sound i.extentImage e true fl (optAffine_of_flag i h17 hI) (id_flag_no_transform i) ha hn x y hx hy
    rw [hb.width, hb.height]; exact this
  refine ⟨hfilt, ?_, ?_⟩
  · intro hf
    unfold fetchFiltered; rw [hf]
    apply nearest_value_opaque b hp ⟨w0, w1⟩ ⟨h0, h1⟩
    rcases route with h13 | ⟨h17, hn | hbl⟩
    · exact Or.inl (own_rep h13)
    · exact Or.inr (near_inside h17 hn)
    · -- both bilinear taps inside ⇒ the nearest index is one of them
      obtain ⟨t1, t2, t3, t4⟩ := bil_inside h17 hbl
      simp only [bilinearTap2, bilinearTap1, half, fixedToInt, nearestIndex, fixedE] at *
      exact Or.inr (by omega)
  · intro hf hr
    unfold fetchFiltered; rw [hf]
    apply bilinear_value_opaque b hp ⟨w0, w1⟩ ⟨h0, h1⟩
    rcases hr with h13 | hbl
    · exact Or.inl (own_rep h13)
    · rcases route with h13 | ⟨h17, _⟩
      · exact Or.inl (own_rep h13)
      · exact Or.inr (bil_inside h17 hbl)


/-- (O3) end to end, SOURCE, bits image.  If `pixman_image_composite32` hands the source to `optimize_operator` as
opaque (bit 13 of `info.src_flags`), then for EVERY pixel of the request the reference fetcher returns a value of
alpha 255: NEAREST/FAST always; BILINEAR/GOOD/BEST when the image is opaque by its own flag (it repeats) or the
looked-up word carries SAMPLES_COVER_CLIP_BILINEAR (bit 24).  Convolution filters cannot occur.
PARTIAL — the gap: a BILINEAR-family filter promoted through NEAREST_OPAQUE alone (possible only under
`compute_image_info`'s BILINEAR→NEAREST reduction, integer translations: the second tap has weight 0 there) is not
covered; everything else is: no hypothesis on the transform (affine follows from the flag), none on ID_TRANSFORM. -/
theorem source_opaque_sound_partial (r : Request) (d : Decision) (b : Bits) (hb : Presents r.src b) (hk : r.src.cr.kind = .bits)
    (hI : ∀ t, r.src.props.transform = some t → (toMatrix t).isI32)
    (h : composite32 r = .run d) (ho : d.srcFlags.testBit 13 = true)
    (x y : Int) (hx : r.srcExtents.x1 ≤ x ∧ x < r.srcExtents.x2) (hy : r.srcExtents.y1 ≤ y ∧ y < r.srcExtents.y2) :
    (b.filter = .nearest ∨ b.filter = .bilinear) ∧
    (b.filter = .nearest →
      chA (fetchFiltered b (sampleX r.src.extentImage.transform x y) (sampleY r.src.extentImage.transform x y)) = 255) ∧
    (b.filter = .bilinear → (r.src.flags.testBit 13 = true ∨ d.srcFlags.testBit 24 = true) →
      chA (fetchFiltered b (sampleX r.src.extentImage.transform x y) (sampleY r.src.extentImage.transform x y)) = 255) := by
  obtain ⟨fs, fm, hs, _, e1, _⟩ := run_inv r d h
  rw [e1] at ho
  have hp := (promotion_sound (r.src.flags ||| coverBits fs) ((maskEntry r.mask).2 ||| coverBits fm) r.dest.flags).1 ho
  obtain ⟨g1, g2, g3⟩ := opaque_values r.src b hb hk hI r.srcExtents fs hs hp x y hx hy
  refine ⟨g1, g2, fun hf hr => g3 hf ?_⟩
  rcases hr with h13 | h24
  · exact Or.inl h13
  · rw [e1, (promotion_other_bits _ _ _ 24 (by decide)).1, Nat.testBit_or, (cover_bits_clear r.src).2, (coverBits_tb fs).2.1] at h24
    exact Or.inr (by simpa using h24)

/-- (O3) end to end, MASK kept in the request (not elided), bits image: as for the source -/
theorem mask_opaque_sound_partial (r : Request) (d : Decision) (mk : Img) (hmk : r.mask = some mk) (b : Bits) (hb : Presents mk b)
    (hk : mk.cr.kind = .bits) (hI : ∀ t, mk.props.transform = some t → (toMatrix t).isI32)
    (h : composite32 r = .run d) (ho : d.maskFlags.testBit 13 = true)
    (x y : Int) (hx : r.maskExtents.x1 ≤ x ∧ x < r.maskExtents.x2) (hy : r.maskExtents.y1 ≤ y ∧ y < r.maskExtents.y2) :
    (b.filter = .nearest ∨ b.filter = .bilinear) ∧
    (b.filter = .nearest →
      chA (fetchFiltered b (sampleX mk.extentImage.transform x y) (sampleY mk.extentImage.transform x y)) = 255) ∧
    (b.filter = .bilinear → (mk.flags.testBit 13 = true ∨ d.maskFlags.testBit 24 = true) →
      chA (fetchFiltered b (sampleX mk.extentImage.transform x y) (sampleY mk.extentImage.transform x y)) = 255) := by
  obtain ⟨fs, fm, _, hm, _, e2⟩ := run_inv r d h
  rw [hmk] at hm
  simp only [Option.map_some, analyzeExtentOpt] at hm
  by_cases hel : (mk.flags &&& FAST_PATH_IS_OPAQUE) == 0
  · have eme : (maskEntry r.mask).2 = mk.flags := by rw [hmk]; simp only [maskEntry, hel, if_true]
    rw [e2, eme] at ho
    have hp := (promotion_sound (r.src.flags ||| coverBits fs) (mk.flags ||| coverBits fm) r.dest.flags).2.1 ho
    obtain ⟨g1, g2, g3⟩ := opaque_values mk b hb hk hI r.maskExtents fm hm hp x y hx hy
    refine ⟨g1, g2, fun hf hr => g3 hf ?_⟩
    rcases hr with h13 | h24
    · exact Or.inl h13
    · rw [e2, eme, (promotion_other_bits _ _ _ 24 (by decide)).2, Nat.testBit_or, (cover_bits_clear mk).2, (coverBits_tb fm).2.1] at h24
      exact Or.inr (by simpa using h24)
  · -- the mask's own IS_OPAQUE bit is set (it is elided by the library)
    have h13 : mk.flags.testBit 13 = true := by
      cases hq : mk.flags.testBit 13 with
      | true => rfl
      | false =>
        exfalso; apply hel
        have : mk.flags &&& FAST_PATH_IS_OPAQUE = 0 := by
          apply Nat.eq_of_testBit_eq; intro j
          rw [Nat.testBit_and, Nat.zero_testBit]
          by_cases hj : j = 13
          · subst hj; rw [hq]; rfl
          · have : FAST_PATH_IS_OPAQUE.testBit j = false := by
              show (2 ^ 13).testBit j = false
              rw [Nat.testBit_two_pow]; exact decide_eq_false (fun e => hj e.symm)
            rw [this, Bool.and_false]
        rw [this]; rfl
    have hp : (mk.flags ||| coverBits fm).testBit 13 = true := by rw [Nat.testBit_or, h13]; rfl
    obtain ⟨g1, g2, g3⟩ := opaque_values mk b hb hk hI r.maskExtents fm hm (Or.inl hp) x y hx hy
    exact ⟨g1, g2, fun hf _ => g3 hf (Or.inl h13)⟩

/-- solid fills: flagged opaque ⇒ the 8-bit colour the narrow pipeline reads has alpha 255 and the float colour alpha 1 -/
theorem solid_value_opaque (i : Img) (hk : i.cr.kind = .solid) (h : i.flags.testBit 13 = true) :
    i.cr.solidAlpha >>> 8 = 255 ∧ (i.cr.solidAlpha : Rat) / 65535 = 1 := by
  rw [solid_flag_sound i hk h]
  refine ⟨by decide, ?_⟩
  have : ((65535 : Nat) : Rat) = 65535 := rfl
  rw [this]; grind

end Pixman.Props.C09Sound

import Pixman.Gen.CFuncs
import Pixman.Model.Matrix
import Pixman.Model.Edge
import Pixman.Model.Fetch
import Pixman.Model.Extent
import Pixman.Model.Simd
import Pixman.Model.Format
import Pixman.Model.Alloc
import Pixman.Model.Fill
import Pixman.Model.Glyph
import Pixman.Model.Combine32
import Pixman.Lemmas.Combine
import Pixman.Props.C04Core
import Pixman.Props.BridgesImage
import Pixman.Props.BridgesExtent
import Pixman.Props.BridgesGlyph
import Pixman.Props.BridgesRegion
import Pixman.Props.BridgesRegionO
import Pixman.Props.BridgesRegionV
import Pixman.Lemmas.CSemFacts
/-!
  Bridges: regenerated C functions (`Pixman.Gen.CFuncs`, rewritten from /repo's working tree on every
  run by tools/gen_cfuncs.py) = the hand-written models the property theorems are about.

  Each theorem is `Gen.CFuncs.f args = Model.X.f args` for all arguments in the range of the C
  parameter types (range hypotheses explicit where they are needed).  A change of the C source that
  changes the value of a function breaks its bridge (a proof obligation of the property that uses
  the model), also where the correspondence generator would not sample the difference.
-/
set_option linter.unusedSimpArgs false
namespace Pixman.Props.Bridges
open Pixman.CSem Pixman.Gen

theorem sbxor_0_1 : sbxor 0 1 = 1 := by decide
theorem sbxor_1_1 : sbxor 1 1 = 0 := by decide
theorem int_one_ne_zero : ¬ (1 : Int) = 0 := by decide

/-! ## pixman-matrix.c  (C11) -/
section matrix
open Pixman.Matrix

theorem rounded_udiv_128_by_48_eq (hi lo div : Int) :
    CFuncs.rounded_udiv_128_by_48 hi lo div = udivCore hi lo div := by
  unfold CFuncs.rounded_udiv_128_by_48 udivCore u64 wrapU64
  extract_lets
  split <;> rename_i h
  · split <;> rename_i h2 <;> simp +zetaDelta only [h, h2, ↓reduceIte]
  · rfl

theorem rounded_udiv_128_by_48_ok_eq (hi lo div : Int) :
    CFuncs.rounded_udiv_128_by_48_ok hi lo div = udivAssert div := rfl

/- `rounded_udiv_128_by_48` with its assertion = the model's `Option` -/
theorem rounded_udiv_128_by_48_bridge (hi lo div : Int) :
    roundedUdiv128By48 hi lo div =
      if CFuncs.rounded_udiv_128_by_48_ok hi lo div then some (CFuncs.rounded_udiv_128_by_48 hi lo div)
      else none := by
  rw [rounded_udiv_128_by_48_eq, rounded_udiv_128_by_48_ok_eq]; rfl

theorem rounded_sdiv_128_by_49_ok_eq (hi lo div : Int) :
    CFuncs.rounded_sdiv_128_by_49_ok hi lo div = udivAssert (sdivPrepare hi lo div).2.2.1 := by
  unfold CFuncs.rounded_sdiv_128_by_49_ok sdivPrepare
  simp only [rounded_udiv_128_by_48_ok_eq]
  by_cases hd : div < 0 <;> by_cases hh : hi < 0 <;> by_cases hl : lo = 0 <;>
    simp only [hd, hh, hl, ↓reduceIte, ne_eq, not_true_eq_false, not_false_eq_true] <;> rfl

theorem rounded_sdiv_128_by_49_eq (hi lo div : Int) :
    CFuncs.rounded_sdiv_128_by_49 hi lo div =
      (let p := sdivPrepare hi lo div
       let r := udivCore p.1 p.2.1 p.2.2.1
       sdivFinish r.1 r.2 p.2.2.2) := by
  unfold CFuncs.rounded_sdiv_128_by_49 sdivPrepare sdivFinish
  simp only [rounded_udiv_128_by_48_eq]
  by_cases hd : div < 0 <;> by_cases hh : hi < 0 <;> by_cases hl : lo = 0 <;>
    simp only [hd, hh, hl, sbxor_0_1, sbxor_1_1, int_one_ne_zero, ↓reduceIte, decide_true, decide_false,
      Bool.not_true, Bool.not_false, Bool.false_eq_true, ne_eq, not_true_eq_false, not_false_eq_true] <;> rfl

/- `rounded_sdiv_128_by_49` with the assertion it reaches = the model's `Option` -/
theorem rounded_sdiv_128_by_49_bridge (hi lo div : Int) :
    roundedSdiv128By49 hi lo div =
      if CFuncs.rounded_sdiv_128_by_49_ok hi lo div then some (CFuncs.rounded_sdiv_128_by_49 hi lo div)
      else none := by
  rw [rounded_sdiv_128_by_49_eq, rounded_sdiv_128_by_49_ok_eq]
  unfold roundedSdiv128By49 roundedUdiv128By48
  by_cases h : udivAssert (sdivPrepare hi lo div).2.2.1 = true <;> simp only [h, ↓reduceIte] <;> rfl

theorem fixed_64_16_to_int128_eq (hi lo scalebits : Int) :
    CFuncs.fixed_64_16_to_int128 hi lo scalebits = fixed6416ToInt128 hi lo scalebits := by
  unfold CFuncs.fixed_64_16_to_int128 fixed6416ToInt128
  simp only [s64_u64]
  by_cases h0 : scalebits ≤ 0 <;> by_cases h16 : scalebits < 16 <;> simp only [h0, h16, ↓reduceIte] <;> rfl

/- `clampflag` is an in/out parameter (`*clampflag = TRUE` on the clamping path only) -/
theorem fixed_112_16_to_fixed_48_16_eq (hi lo cf : Int) :
    CFuncs.fixed_112_16_to_fixed_48_16 hi lo cf =
      ((fixed11216ToFixed4816 hi lo).1, if (fixed11216ToFixed4816 hi lo).2 then 1 else cf) := by
  unfold CFuncs.fixed_112_16_to_fixed_48_16 fixed11216ToFixed4816 INT64_MAX INT64_MIN
  by_cases h : lo / 9223372036854775808 = hi <;>
    simp only [h, ne_eq, not_true_eq_false, not_false_eq_true, ↓reduceIte, Bool.false_eq_true]

end matrix
/-! ## pixman-trap.c  (C12) -/
section trap
open Pixman.Trap Pixman.Gen.SampleGrid

/- the `DIV (a, b)` macro of pixman-private.h (as translated, `b` a positive constant) is floor division -/
theorem DIV_floor (a b : Int) (hb : b = 4369 ∨ b = 21845 ∨ b = 65536) :
    (if ¬a < 0 then Int.tdiv a b else Int.tdiv (a - b + 1 - 0) b) = a / b := by
  rcases hb with rfl | rfl | rfl <;> simp only [tdiv_pos] <;> split <;> split <;> omega

set_option hygiene false in
local macro "sample_y" step:num first:num : tactic => `(tactic| (
  simp only [fixedFrac, fixedFloor, fixedToInt, yFracFirst, stepYSmall, yFracLast, beq_iff_eq, wrap32,
    DIV_floor _ $step (by decide), Int.reduceSub, Int.reduceNeg]
  have hi : (y - y % 65536) % 65536 = 0 := by omega
  have hf0 : 0 ≤ y % 65536 := by omega
  have hf1 : y % 65536 < 65536 := by omega
  generalize y % 65536 = f0 at *
  generalize hI : y - f0 = i at *
  generalize hF : (_ : Int) / ($step : Int) * ($step : Int) + ($first : Int) = F at *
  have hFb : -65536 ≤ F ∧ F ≤ 131072 := by omega
  rw [s32_id F (by omega) (by omega)]
  split
  · split
    · rw [sbor_low16] <;> omega
    · rw [s32_id _ (by omega) (by omega), sbor_low16] <;> omega
  · rw [sbor_low16] <;> omega))

/-! `pixman_sample_ceil_y (y, n)` / `pixman_sample_floor_y (y, n)`, specialised by the generator to the
three depths (the grid macros `N_Y_FRAC`, `STEP_Y_SMALL`, `Y_FRAC_FIRST/LAST` are folded to constants
by the translator), for every `pixman_fixed_t y`.  This also discharges the model's reading of
`i | f` as `i + f` and of `DIV` as floor division. -/
theorem pixman_sample_ceil_y_1_eq (y : Int) (h1 : -2147483648 ≤ y) (h2 : y ≤ 2147483647) :
    CFuncs.pixman_sample_ceil_y_1 y = sampleCeilY y 1 := by
  unfold CFuncs.pixman_sample_ceil_y_1 sampleCeilY; sample_y 65536 32768
theorem pixman_sample_ceil_y_4_eq (y : Int) (h1 : -2147483648 ≤ y) (h2 : y ≤ 2147483647) :
    CFuncs.pixman_sample_ceil_y_4 y = sampleCeilY y 4 := by
  unfold CFuncs.pixman_sample_ceil_y_4 sampleCeilY; sample_y 21845 10923
theorem pixman_sample_ceil_y_8_eq (y : Int) (h1 : -2147483648 ≤ y) (h2 : y ≤ 2147483647) :
    CFuncs.pixman_sample_ceil_y_8 y = sampleCeilY y 8 := by
  unfold CFuncs.pixman_sample_ceil_y_8 sampleCeilY; sample_y 4369 2185
theorem pixman_sample_floor_y_1_eq (y : Int) (h1 : -2147483648 ≤ y) (h2 : y ≤ 2147483647) :
    CFuncs.pixman_sample_floor_y_1 y = sampleFloorY y 1 := by
  unfold CFuncs.pixman_sample_floor_y_1 sampleFloorY; sample_y 65536 32768
theorem pixman_sample_floor_y_4_eq (y : Int) (h1 : -2147483648 ≤ y) (h2 : y ≤ 2147483647) :
    CFuncs.pixman_sample_floor_y_4 y = sampleFloorY y 4 := by
  unfold CFuncs.pixman_sample_floor_y_4 sampleFloorY; sample_y 21845 10923
theorem pixman_sample_floor_y_8_eq (y : Int) (h1 : -2147483648 ≤ y) (h2 : y ≤ 2147483647) :
    CFuncs.pixman_sample_floor_y_8 y = sampleFloorY y 8 := by
  unfold CFuncs.pixman_sample_floor_y_8 sampleFloorY; sample_y 4369 2185

/- `pixman_edge_step (e, n)`: the members it assigns (`x`, `e`), for all member values and `n` -/
theorem pixman_edge_step_eq (e : Edge) (n : Int) :
    CFuncs.pixman_edge_step e.x e.e e.stepx e.signdx e.dy e.dx n = ((edgeStep e n).x, (edgeStep e n).e) := by
  unfold CFuncs.pixman_edge_step edgeStep
  simp only [s32, wrap32]
  repeat' split
  all_goals (dsimp only; simp only [Prod.mk.injEq]; constructor <;> first | trivial | omega)

theorem _pixman_edge_multi_init_eq (e : Edge) (n : Int) :
    CFuncs._pixman_edge_multi_init e.stepx e.signdx e.dy e.dx n = multiInit e n := by
  unfold CFuncs._pixman_edge_multi_init multiInit
  simp only [s32, s64, wrap32]
  split <;> simp only [Prod.mk.injEq] <;> constructor <;> omega

end trap
/-! ## pixman-inlines.h  (C08: bilinear weight; C04: pad bounds) -/
section inlines
open Pixman.Model.Extent Pixman.Matrix

theorem tdiv_bound (a b : Int) : -(a.natAbs : Int) ≤ Int.tdiv a b ∧ Int.tdiv a b ≤ a.natAbs := by
  have := Int.natAbs_tdiv_le_natAbs a b
  omega

theorem pixman_fixed_to_bilinear_weight_eq (x : Int) :
    CFuncs.pixman_fixed_to_bilinear_weight x = Pixman.Model.Fetch.bilinearWeight x := rfl

local macro "fin3" : tactic => `(tactic| first
  | omega
  | (simp only [Prod.mk.injEq, s32]; done)
  | (simp only [Prod.mk.injEq, s32]; refine ⟨?_, ?_, ?_⟩ <;> omega))

/- `pad_repeat_get_scanline_bounds`, all `int32_t` arguments (any `unit_x`, also ≤ 0): `(width, left_pad, right_pad)` -/
theorem pad_repeat_get_scanline_bounds_eq (sw vx ux w : Int)
    (h1 : -2147483648 ≤ sw ∧ sw ≤ 2147483647) (h2 : -2147483648 ≤ vx ∧ vx ≤ 2147483647)
    (h3 : -2147483648 ≤ ux ∧ ux ≤ 2147483647) (h4 : -2147483648 ≤ w ∧ w ≤ 2147483647) :
    CFuncs.pad_repeat_get_scanline_bounds sw vx ux w = padRepeatGetScanlineBounds sw vx ux w := by
  unfold CFuncs.pad_repeat_get_scanline_bounds padRepeatGetScanlineBounds padLeft
  have b1 := tdiv_bound (ux - 1 - vx) ux
  have b2 := tdiv_bound (ux - 1 - vx + sw * 65536) ux
  simp only [wrapS32]
  generalize Int.tdiv (ux - 1 - vx) ux = t1 at *
  generalize Int.tdiv (ux - 1 - vx + sw * 65536) ux = t2 at *
  rw [s64_id t1 (by omega) (by omega)]
  have e32 : ∀ x, s32 x = (x + 2147483648) % 4294967296 - 2147483648 := fun _ => rfl
  by_cases hv : vx < 0
  · simp only [hv, ↓reduceIte]
    by_cases ht : t1 > w
    · simp only [ht, ↓reduceIte]
      rw [s64_id (t2 - w) (by omega) (by omega)]
      repeat' split
      all_goals fin3
    · simp only [ht, ↓reduceIte]
      simp only [e32]
      generalize hl : (t1 + 2147483648) % 4294967296 - 2147483648 = lp
      have : -2147483648 ≤ lp ∧ lp ≤ 2147483647 := by omega
      rw [s64_id (t2 - lp) (by omega) (by omega)]
  · simp only [hv, ↓reduceIte]
    rw [s64_id (t2 - 0) (by omega) (by omega)]
    repeat' split
    all_goals fin3

/- `bilinear_interpolation` (the `SIZEOF_LONG > 4`, 7-bit variant compiled on this host): every `uint32_t`
pixel and every 7-bit weight pair; also discharges the model's claim that no `uint64_t` term wraps -/
theorem bilinear_interpolation_eq (tl tr bl br dx dy : Nat) (h1 : tl < 4294967296) (h2 : tr < 4294967296) (h3 : bl < 4294967296)
    (h4 : br < 4294967296) (hx : dx ≤ 127) (hy : dy ≤ 127) :
    CFuncs.bilinear_interpolation tl tr bl br dx dy = Pixman.Model.Fetch.bilinearInterpolation tl tr bl br dx dy := by
  unfold CFuncs.bilinear_interpolation Pixman.Model.Fetch.bilinearInterpolation
  have hX : dx <<< 1 ≤ 254 := by rw [Nat.shiftLeft_eq]; omega
  have hY : dy <<< 1 ≤ 254 := by rw [Nat.shiftLeft_eq]; omega
  have sh : ∀ t, t < 4294967296 → (t <<< 16) % 18446744073709551616 = t <<< 16 := by
    intro t ht; rw [Nat.shiftLeft_eq]; omega
  simp only [sh tl h1, sh tr h2, sh bl h3, sh br h4]
  generalize dx <<< 1 = X at *
  generalize dy <<< 1 = Y at *
  have w1 : X * Y ≤ 65536 := Nat.le_trans (Nat.mul_le_mul hX hY) (by decide)
  have w2 : X * (256 - Y) ≤ 65536 := Nat.le_trans (Nat.mul_le_mul hX (Nat.sub_le _ _)) (by decide)
  have w3 : (256 - X) * Y ≤ 65536 := Nat.le_trans (Nat.mul_le_mul (Nat.sub_le _ _) hY) (by decide)
  have w4 : (256 - X) * (256 - Y) ≤ 65536 := Nat.le_trans (Nat.mul_le_mul (Nat.sub_le _ _) (Nat.sub_le _ _)) (by decide)
  generalize X * Y = W1 at *
  generalize X * (256 - Y) = W2 at *
  generalize (256 - X) * Y = W3 at *
  generalize (256 - X) * (256 - Y) = W4 at *
  -- alpha / blue
  have a1 : tl &&& 4278190335 ≤ 4278190335 := Nat.and_le_right
  have a2 : tr &&& 4278190335 ≤ 4278190335 := Nat.and_le_right
  have a3 : bl &&& 4278190335 ≤ 4278190335 := Nat.and_le_right
  have a4 : br &&& 4278190335 ≤ 4278190335 := Nat.and_le_right
  generalize tl &&& 4278190335 = A1 at *
  generalize tr &&& 4278190335 = A2 at *
  generalize bl &&& 4278190335 = A3 at *
  generalize br &&& 4278190335 = A4 at *
  have p1 : A1 * W4 ≤ 4278190335 * 65536 := Nat.mul_le_mul a1 w4
  have p2 : A2 * W2 ≤ 4278190335 * 65536 := Nat.mul_le_mul a2 w2
  have p3 : A3 * W3 ≤ 4278190335 * 65536 := Nat.mul_le_mul a3 w3
  have p4 : A4 * W1 ≤ 4278190335 * 65536 := Nat.mul_le_mul a4 w1
  generalize A1 * W4 = P1 at *
  generalize A2 * W2 = P2 at *
  generalize A3 * W3 = P3 at *
  generalize A4 * W1 = P4 at *
  have f1 : (((P1 % 18446744073709551616 + P2 % 18446744073709551616) % 18446744073709551616 + P3 % 18446744073709551616) % 18446744073709551616 + P4 % 18446744073709551616) % 18446744073709551616 = P1 + P2 + P3 + P4 := by omega
  rw [f1]
  generalize P1 + P2 + P3 + P4 = F1
  -- red / green
  have rg : ∀ t : Nat, (t <<< 16 &&& 1095216660480 ||| t &&& 65280) ≤ 1099511627775 := by
    intro t
    have : (t <<< 16 &&& 1095216660480 ||| t &&& 65280) < 2 ^ 40 :=
      Nat.or_lt_two_pow (Nat.lt_of_le_of_lt Nat.and_le_right (by decide)) (Nat.lt_of_le_of_lt Nat.and_le_right (by decide))
    omega
  have b1 := rg tl
  have b2 := rg tr
  have b3 := rg bl
  have b4 := rg br
  generalize (tl <<< 16 &&& 1095216660480 ||| tl &&& 65280) = B1 at *
  generalize (tr <<< 16 &&& 1095216660480 ||| tr &&& 65280) = B2 at *
  generalize (bl <<< 16 &&& 1095216660480 ||| bl &&& 65280) = B3 at *
  generalize (br <<< 16 &&& 1095216660480 ||| br &&& 65280) = B4 at *
  have q1 : B1 * W4 ≤ 1099511627775 * 65536 := Nat.mul_le_mul b1 w4
  have q2 : B2 * W2 ≤ 1099511627775 * 65536 := Nat.mul_le_mul b2 w2
  have q3 : B3 * W3 ≤ 1099511627775 * 65536 := Nat.mul_le_mul b3 w3
  have q4 : B4 * W1 ≤ 1099511627775 * 65536 := Nat.mul_le_mul b4 w1
  generalize B1 * W4 = Q1 at *
  generalize B2 * W2 = Q2 at *
  generalize B3 * W3 = Q3 at *
  generalize B4 * W1 = Q4 at *
  have f2 : (((Q1 % 18446744073709551616 + Q2 % 18446744073709551616) % 18446744073709551616 + Q3 % 18446744073709551616) % 18446744073709551616 + Q4 % 18446744073709551616) % 18446744073709551616 = Q1 + Q2 + Q3 + Q4 := by omega
  rw [f2]
  generalize Q1 + Q2 + Q3 + Q4 = F2
  have r : (F1 &&& 280375481794560 ||| (F2 >>> 16 &&& 1095216660480 ||| F2 &&& 4278190080)) < 2 ^ 48 :=
    Nat.or_lt_two_pow (Nat.lt_of_le_of_lt Nat.and_le_right (by decide))
      (Nat.or_lt_two_pow (Nat.lt_of_le_of_lt Nat.and_le_right (by decide)) (Nat.lt_of_le_of_lt Nat.and_le_right (by decide)))
  generalize (F1 &&& 280375481794560 ||| (F2 >>> 16 &&& 1095216660480 ||| F2 &&& 4278190080)) = R at *
  rw [Nat.shiftRight_eq_div_pow]
  omega

end inlines

/-! ## pixman-inlines.h: `repeat ()`  (C04/C08) -/
section repeat_
open Pixman Pixman.Props.C04Core
open Pixman.Sample (RepeatMode CLIP MOD)

theorem subLoop_same (c s : Int) : CSem.subLoop c s = Sample.subLoop c s := by
  fun_induction CSem.subLoop c s with
  | case1 c h ih => rw [Sample.subLoop, dif_pos h, ih]
  | case2 c h => rw [Sample.subLoop, dif_neg h]
theorem addLoop_same (c s : Int) : CSem.addLoop c s = Sample.addLoop c s := by
  fun_induction CSem.addLoop c s with
  | case1 c h ih => rw [Sample.addLoop, dif_pos h, ih]
  | case2 c h => rw [Sample.addLoop, dif_neg h]
theorem subLoop_lower (c s : Int) (hs : 0 < s) : (0 ≤ c → 0 ≤ Sample.subLoop c s) ∧ (c < 0 → Sample.subLoop c s = c) := by
  fun_induction Sample.subLoop c s with
  | case1 c h ih => exact ⟨fun _ => ih.1 (by omega), fun hc => by omega⟩
  | case2 c h => exact ⟨fun h => h, fun _ => rfl⟩

/-- C value of `pixman_repeat_t` -/
def repeatCode : RepeatMode → Int
  | .none => 0 | .normal => 1 | .pad => 2 | .reflect => 3

theorem repeat_eq (mode : RepeatMode) (c size : Int) (hc1 : -2147483648 ≤ c) (hc2 : c ≤ 2147483647)
    (hs : 0 < size) (hs2 : size ≤ 1073741823) :
    CFuncs.repeat_ (repeatCode mode) c size =
      match Sample.repeat mode c size with
      | none => (0, c)
      | some c' => (1, c') := by
  cases mode with
  | none =>
    simp only [CFuncs.repeat_, repeatCode, Sample.repeat, ↓reduceIte]
    split <;> rfl
  | normal =>
    have h1 := subLoop_spec c size hs
    have h2 := subLoop_lower c size hs
    have h3 := addLoop_spec (Sample.subLoop c size) size hs h1.2.1
    simp only [CFuncs.repeat_, repeatCode, Sample.repeat, subLoop_same, addLoop_same, ↓reduceIte, Int.reduceEq]
    rw [s32_id (Sample.subLoop c size) (by omega) (by omega), s32_id _ (by omega) (by omega)]
  | pad =>
    simp only [CFuncs.repeat_, repeatCode, Sample.repeat, CLIP, ↓reduceIte, Int.reduceEq]
    rw [s32_id _ (by repeat' split <;> omega) (by repeat' split <;> omega)]
  | reflect =>
    have hm := MOD_eq_emod c (size * 2) (by omega)
    simp only [CFuncs.repeat_, repeatCode, Sample.repeat, ↓reduceIte, Int.reduceEq]
    have e : (if c < 0 then size * 2 - (-c - 1).tmod (size * 2) - 1 else c.tmod (size * 2)) = MOD c (size * 2) := by
      unfold MOD; rfl
    rw [e, hm]
    have b1 : 0 ≤ c % (size * 2) := Int.emod_nonneg _ (by omega)
    have b2 : c % (size * 2) < size * 2 := Int.emod_lt_of_pos _ (by omega)
    generalize c % (size * 2) = r at *
    rw [s32_id r (by omega) (by omega)]
    split
    · rw [s32_id _ (by omega) (by omega)]
    · rfl

end repeat_

/-! ## pixman-private.h, pixman-utils.c  (C10: unorm_to_unorm; C02: 565 reference; C15/C04: overflow checks) -/
section utils

theorem convert_8888_to_0565_eq (s : Nat) :
    CFuncs.convert_8888_to_0565 s = Pixman.Model.Simd.convert8888to0565 s := rfl
theorem convert_8888_to_0565_eq_fill (s : Nat) :
    CFuncs.convert_8888_to_0565 s = Pixman.Model.Fill.convert8888To0565 s := rfl
theorem convert_0565_to_0888_eq (s : Nat) :
    CFuncs.convert_0565_to_0888 s = Pixman.Model.Simd.convert0565to0888 s := rfl
theorem convert_0565_to_8888_eq (s : Nat) :
    CFuncs.convert_0565_to_8888 s = Pixman.Model.Simd.convert0565to8888 s := rfl

section
open Pixman.Model.Format
/- `unorm_to_unorm (val, from_bits, to_bits)` for `0 ≤ from_bits ≤ 32`, any `to_bits ≥ 0` -/
theorem unorm_to_unorm_eq (v f t : Nat) (hf : f ≤ 32) : CFuncs.unorm_to_unorm v f t = unormToUnorm v f t := by
  unfold CFuncs.unorm_to_unorm unormToUnorm replicate
  have : ((1 <<< f) - 1) % 4294967296 = (1 <<< f) - 1 := by
    apply Nat.mod_eq_of_lt
    have : 1 <<< f ≤ 1 <<< 32 := by
      rw [Nat.shiftLeft_eq, Nat.shiftLeft_eq]; exact Nat.mul_le_mul_left _ (Nat.pow_le_pow_right (by decide) hf)
    have h0 : 1 <<< 32 = 4294967296 := by decide
    omega
  rw [this]
  generalize v &&& (1 <<< f) - 1 = v'
  by_cases h0 : f = 0
  · simp only [h0, ↓reduceIte]
  · simp only [h0, ↓reduceIte]
    by_cases h1 : f ≥ t
    · simp only [h1, ↓reduceIte]
    · simp only [h1, ↓reduceIte]
      generalize (v' <<< (t - f)) % 4294967296 = r0
      by_cases c1 : f < t <;> simp only [c1, ↓reduceIte]
      · by_cases c2 : f * 2 < t <;> simp only [c2, ↓reduceIte]
        · by_cases c3 : f * 2 * 2 < t <;> simp only [c3, ↓reduceIte]
          · by_cases c4 : f * 2 * 2 * 2 < t <;> simp only [c4, ↓reduceIte]
            · by_cases c5 : f * 2 * 2 * 2 * 2 < t <;> simp only [c5, ↓reduceIte]
end

open Pixman.Model.Alloc

/-- decoding of the translated result `(malloc called, size)` of a function returning `NULL` or `malloc (n)` -/
def outcomeOf (r : Int × Int) : Outcome := if r.1 = 0 then .null else .alloc r.2

/-! `b = 0` (`c = 0`) is an integer division by zero in C (the model's `crash`); the translated
functions are total there, so the bridges are stated for non-zero divisors. -/
theorem pixman_malloc_ab_eq (a b : Int) (hb : b ≠ 0) :
    mallocAb a b = outcomeOf (CFuncs.pixman_malloc_ab a b) := by
  unfold mallocAb CFuncs.pixman_malloc_ab outcomeOf INT32_MAX wrapU32 u32
  simp only [hb, ↓reduceIte]; split <;> simp
theorem pixman_malloc_abc_eq (a b c : Int) (hb : b ≠ 0) (hc : c ≠ 0) :
    mallocAbc a b c = outcomeOf (CFuncs.pixman_malloc_abc a b c) := by
  unfold mallocAbc CFuncs.pixman_malloc_abc outcomeOf INT32_MAX wrapU32 u32
  simp only [hb, hc, ↓reduceIte]; repeat' split
  all_goals simp_all
theorem pixman_malloc_ab_plus_c_eq (a b c : Int) :
    mallocAbPlusC a b c = outcomeOf (CFuncs.pixman_malloc_ab_plus_c a b c) := by
  unfold mallocAbPlusC CFuncs.pixman_malloc_ab_plus_c outcomeOf INT32_MAX wrapU32 u32
  by_cases hb : b = 0
  · simp [hb]
  · by_cases h1 : a ≥ 2147483647 / b <;> by_cases h2 : a * b % 4294967296 > (2147483647 - c) % 4294967296 <;>
      simp [hb, h1, h2]
theorem _pixman_multiply_overflows_int_eq (a b : Int) (hb : b ≠ 0) :
    multiplyOverflowsInt a b = some (decide (CFuncs._pixman_multiply_overflows_int a b ≠ 0)) := by
  unfold multiplyOverflowsInt CFuncs._pixman_multiply_overflows_int INT32_MAX
  simp only [hb, ↓reduceIte]; split <;> simp_all
theorem _pixman_multiply_overflows_size_eq (a b : Int) (hb : b ≠ 0) :
    multiplyOverflowsSize 18446744073709551615 a b =
      some (decide (CFuncs._pixman_multiply_overflows_size a b ≠ 0)) := by
  unfold multiplyOverflowsSize CFuncs._pixman_multiply_overflows_size
  simp only [hb, ↓reduceIte]; split <;> simp_all
theorem _pixman_addition_overflows_int_eq (a b : Int) :
    additionOverflowsInt a b = decide (CFuncs._pixman_addition_overflows_int a b ≠ 0) := by
  unfold additionOverflowsInt CFuncs._pixman_addition_overflows_int INT32_MAX wrapU32 u32
  split <;> simp_all

end utils

/-! ## pixman.c, pixman-glyph.c  (C19: colour; C17: hash) -/
section misc

section
open Pixman.Model.Fill
/- `color_to_uint32 (color)`, every `uint16_t` member value -/
theorem color_to_uint32_eq (c : Color) (hr : c.red < 65536) (_hg : c.green < 65536) (hb : c.blue < 65536)
    (ha : c.alpha < 65536) : CFuncs.color_to_uint32 c.red c.green c.blue c.alpha = colorToUint32 c := by
  unfold CFuncs.color_to_uint32 colorToUint32 U32
  have h1 : (c.alpha >>> 8) <<< 24 < 2 ^ 32 := by
    rw [Nat.shiftLeft_eq, Nat.shiftRight_eq_div_pow]; omega
  have h2 : (c.red >>> 8) <<< 16 < 2 ^ 32 := by
    rw [Nat.shiftLeft_eq, Nat.shiftRight_eq_div_pow]; omega
  have h3 : c.green &&& 65280 < 2 ^ 32 := Nat.lt_of_le_of_lt Nat.and_le_right (by decide)
  have h4 : c.blue >>> 8 < 2 ^ 32 := by rw [Nat.shiftRight_eq_div_pow]; omega
  rw [Nat.mod_eq_of_lt (a := c.alpha >>> 8 <<< 24) h1]
  exact Nat.mod_eq_of_lt (Nat.or_lt_two_pow (Nat.or_lt_two_pow (Nat.or_lt_two_pow h1 h2) h3) h4)
end

/- `hash (font_key, glyph_key)` of pixman-glyph.c (pointer values as `uintptr_t`) = the driver's Wang hash -/
theorem glyph_hash_eq (f k : Nat) : CFuncs.glyph_hash f k = Pixman.Glyph.wangHash f k := by
  unfold CFuncs.glyph_hash Pixman.Glyph.wangHash
  simp only [Nat.shiftLeft_eq, Nat.shiftRight_eq_div_pow, Nat.reducePow]
  have h0 : (f + k) % 18446744073709551616 < 18446744073709551616 := Nat.mod_lt _ (by decide)
  generalize (f + k) % 18446744073709551616 = k0 at *
  have e2 : ((k0 * 32768 % 18446744073709551616 + 18446744073709551616 - k0 % 18446744073709551616) %
      18446744073709551616 + 18446744073709551616 - 1 % 18446744073709551616) % 18446744073709551616
      = (k0 * 32768 % 18446744073709551616 + 18446744073709551616 - k0 + 18446744073709551616 - 1) %
        18446744073709551616 := by omega
  rw [e2]
  generalize (k0 * 32768 % 18446744073709551616 + 18446744073709551616 - k0 + 18446744073709551616 - 1) %
    18446744073709551616 = k1
  generalize k1 ^^^ k1 / 4096 = k2
  generalize (k2 + k2 * 4 % 18446744073709551616) % 18446744073709551616 = k3
  generalize k3 ^^^ k3 / 16 = k4
  have e5 : ((k4 + k4 * 8 % 18446744073709551616) % 18446744073709551616 + k4 * 2048 % 18446744073709551616) %
      18446744073709551616
     = (k4 + k4 * 8 % 18446744073709551616 + k4 * 2048 % 18446744073709551616) % 18446744073709551616 := by omega
  rw [e5]

/-! `color_to_pixel (color, &pixel, format)`: `(return value, *pixel)`; `*pixel` is left alone when FALSE is returned -/
section color_to_pixel
open Pixman.Model.Fill
theorem fmts : PIXMAN_a8r8g8b8 = 537036936 ∧ PIXMAN_x8r8g8b8 = 537004168 ∧ PIXMAN_a8b8g8r8 = 537102472 ∧
    PIXMAN_x8b8g8r8 = 537069704 ∧ PIXMAN_b8g8r8a8 = 537430152 ∧ PIXMAN_b8g8r8x8 = 537397384 ∧
    PIXMAN_r8g8b8a8 = 537495688 ∧ PIXMAN_r8g8b8x8 = 537462920 ∧ PIXMAN_r5g6b5 = 268567909 ∧
    PIXMAN_b5g6r5 = 268633445 ∧ PIXMAN_a8 = 134316032 ∧ PIXMAN_a1 = 16846848 := by decide

theorem color_to_pixel_eq (c : Color) (pix fmt : Nat) (hr : c.red < 65536) (hg : c.green < 65536) (hb : c.blue < 65536)
    (ha : c.alpha < 65536) :
    CFuncs.color_to_pixel c.red c.green c.blue c.alpha pix fmt =
      match colorToPixel c fmt with
      | none => (0, pix)
      | some v => (1, v) := by
  unfold CFuncs.color_to_pixel colorToPixel colorToPixelValue
  rw [color_to_uint32_eq c hr hg hb ha]
  generalize colorToUint32 c = cc
  simp only [convert_8888_to_0565_eq_fill, acceptedFormats, formatType, TYPE_RGBA_FLOAT, TYPE_ABGR, TYPE_BGRA, TYPE_RGBA,
    swizzleABGR, swizzleBGRA, swizzleRGBA, U32, fmts.1, fmts.2.1, fmts.2.2.1, fmts.2.2.2.1, fmts.2.2.2.2.1, fmts.2.2.2.2.2.1,
    fmts.2.2.2.2.2.2.1, fmts.2.2.2.2.2.2.2.1, fmts.2.2.2.2.2.2.2.2.1, fmts.2.2.2.2.2.2.2.2.2.1, fmts.2.2.2.2.2.2.2.2.2.2.1,
    fmts.2.2.2.2.2.2.2.2.2.2.2]
  by_cases h11 : (fmt >>> 16) &&& 63 = 11
  · simp [h11]
  · simp only [h11, ↓reduceIte]
    by_cases hacc : [537036936, 537004168, 537102472, 537069704, 537430152, 537397384, 537495688, 537462920, 268567909,
        268633445, 134316032, 16846848].contains fmt = true
    · have hacc' := hacc
      simp only [List.contains_cons, List.contains_nil, Bool.or_false, Bool.or_eq_true, beq_iff_eq] at hacc'
      have hd : (fmt = 537036936 ∨ fmt = 537004168 ∨ fmt = 537102472 ∨ fmt = 537069704 ∨ fmt = 537430152 ∨ fmt = 537397384 ∨
          fmt = 537495688 ∨ fmt = 537462920 ∨ fmt = 268567909 ∨ fmt = 268633445 ∨ fmt = 134316032 ∨ fmt = 16846848) := by
        simpa [eq_comm] using hacc'
      rcases hd with h | h | h | h | h | h | h | h | h | h | h | h <;> subst h <;> simp <;> rfl
    · have hacc' := hacc
      simp only [List.contains_cons, List.contains_nil, Bool.or_false, Bool.or_eq_true, beq_iff_eq, not_or] at hacc'
      obtain ⟨h1, h2, h3, h4, h5, h6, h7, h8, h9, h10, h11', h12⟩ := hacc'
      simp [hacc, h1, h2, h3, h4, h5, h6, h7, h8, h9, h10, h11', h12]

end color_to_pixel

end misc
/-! ## pixman-combine32.c  (C01): the per-pixel bodies of the combiners installed by
`_pixman_setup_combiner_functions_32`

The generator translates the body of `for (i = 0; i < width; ++i)` of each combiner as a function of
`*(src + i)`, `*(mask + i)`, `*(dest + i)` returning the new `*(dest + i)`; the unified combiners come in
two variants, `_m` (`mask != NULL`) and `_n` (`mask == NULL`).  The macros of `pixman-combine32.h` stay
calls of `Pixman.Gen.Combine32Macros` (regenerated by tools/gen_combine32.py, bridged in Props/C01).
All pixel values range over `uint32_t`. -/
section combine32
open Pixman.Combine32 Pixman.Arith Pixman.Lanes Pixman.Lemmas
set_option linter.unusedVariables false

section
open Pixman.Gen.Combine32Macros
theorem mac :
    (∀ x, ALPHA_8 x = alpha8 x) ∧ (∀ x a, UN8x4_MUL_UN8 x a = un8x4MulUn8 x a) ∧
    (∀ x a y, UN8x4_MUL_UN8_ADD_UN8x4 x a y = un8x4MulUn8AddUn8x4 x a y) ∧
    (∀ x a y b, UN8x4_MUL_UN8_ADD_UN8x4_MUL_UN8 x a y b = un8x4MulUn8AddUn8x4MulUn8 x a y b) ∧
    (∀ x a, UN8x4_MUL_UN8x4 x a = un8x4MulUn8x4 x a) ∧
    (∀ x a y, UN8x4_MUL_UN8x4_ADD_UN8x4 x a y = un8x4MulUn8x4AddUn8x4 x a y) ∧
    (∀ x a y b, UN8x4_MUL_UN8x4_ADD_UN8x4_MUL_UN8 x a y b = un8x4MulUn8x4AddUn8x4MulUn8 x a y b) ∧
    (∀ x y, UN8x4_ADD_UN8x4 x y = un8x4AddUn8x4 x y) :=
  ⟨fun _ => rfl, fun _ _ => rfl, fun _ _ _ => rfl, fun _ _ _ _ => rfl, fun _ _ => rfl, fun _ _ _ => rfl,
   fun _ _ _ _ => rfl, fun _ _ => rfl⟩
end

theorem not32_sub (x : Nat) (h : x < 4294967296) : not32 x = 4294967295 - x := by
  unfold not32; rw [Nat.mod_eq_of_lt h]
theorem alpha8_le (x : Nat) (h : x < 4294967296) : alpha8 x ≤ 255 := by
  unfold alpha8; rw [Nat.shiftRight_eq_div_pow]; omega
theorem shr24_le (x : Nat) (h : x < 4294967296) : x >>> 24 ≤ 255 := alpha8_le x h
theorem shr24_mod (x : Nat) (h : x < 4294967296) : (x >>> 24) % 65536 = x >>> 24 := by
  have := shr24_le x h; omega
theorem sub_lt32 (x : Nat) : 4294967295 - x < 4294967296 := by omega

theorem combine_mask_m_eq (s m : Nat) : CFuncs.combine_mask_m s m = combineMask s (some m) := rfl
theorem combine_mask_n_eq (s : Nat) : CFuncs.combine_mask_n s = combineMask s none := rfl
theorem combine_mask_ca_eq (s m : Nat) (hs : s < 4294967296) : CFuncs.combine_mask_ca s m = combineMaskCa s m := by
  unfold CFuncs.combine_mask_ca combineMaskCa
  dsimp only
  rw [shr24_mod s hs]
  rfl
theorem combine_mask_value_ca_eq (s m : Nat) : CFuncs.combine_mask_value_ca s m = combineMaskValueCa s m := rfl
theorem combine_mask_alpha_ca_eq (s m : Nat) : CFuncs.combine_mask_alpha_ca s m = combineMaskAlphaCa s m := rfl

theorem lt_combineMask_some (s m : Nat) (hs : s < 4294967296) (hm : m < 4294967296) :
    combineMask s (some m) < 4294967296 := lt_combineMask s (some m) hs (by intro m' h; cases h; exact hm)
theorem lt_combineMask_none (s : Nat) (hs : s < 4294967296) :
    combineMask s none < 4294967296 := lt_combineMask s none hs (by intro m' h; cases h)
theorem lt_combineMaskCa_1 (s m : Nat) (hs : s < 4294967296) (hm : m < 4294967296) :
    (combineMaskCa s m).1 < 4294967296 := (combineMaskCa_spec s m hs hm).2.2.1
theorem lt_combineMaskCa_2 (s m : Nat) (hs : s < 4294967296) (hm : m < 4294967296) :
    (combineMaskCa s m).2 < 4294967296 := (combineMaskCa_spec s m hs hm).2.2.2

local macro "c32" : tactic => `(tactic| (
  simp (maxDischargeDepth := 6) only [mac.1, mac.2.1, mac.2.2.1, mac.2.2.2.1, mac.2.2.2.2.1, mac.2.2.2.2.2.1,
    mac.2.2.2.2.2.2.1, mac.2.2.2.2.2.2.2, combine_mask_m_eq, combine_mask_n_eq, combine_mask_ca_eq,
    combine_mask_value_ca_eq, combine_mask_alpha_ca_eq, not32_sub, shr24_mod, sub_lt32, lt_mulUn8, lt_mulUn8x4,
    lt_addUn8x4, lt_mulUn8Add, lt_mulUn8x4Add, alpha8_le, shr24_le, lt_combineMask_some, lt_combineMask_none, lt_combineMaskCa_1, lt_combineMaskCa_2, lt_combineMaskValueCa,
    lt_combineMaskAlphaCa, *]))

theorem combine_src_u_m_eq (s m d : Nat) (hs : s < 4294967296) (hm : m < 4294967296) (hd : d < 4294967296) :
    CFuncs.combine_src_u_m s m = combineSrcU s (some m) d := by
  unfold CFuncs.combine_src_u_m combineSrcU
  first | (c32 <;> rfl) | rfl

theorem combine_over_u_m_eq (s m d : Nat) (hs : s < 4294967296) (hm : m < 4294967296) (hd : d < 4294967296) :
    CFuncs.combine_over_u_m s m d = combineOverU s (some m) d := by
  unfold CFuncs.combine_over_u_m combineOverU
  first | (c32 <;> rfl) | rfl

theorem combine_over_u_n_eq (s d : Nat) (hs : s < 4294967296) (hd : d < 4294967296) :
    CFuncs.combine_over_u_n s d = combineOverU s none d := by
  unfold CFuncs.combine_over_u_n combineOverU
  first | (c32 <;> rfl) | rfl

theorem combine_over_reverse_u_m_eq (s m d : Nat) (hs : s < 4294967296) (hm : m < 4294967296) (hd : d < 4294967296) :
    CFuncs.combine_over_reverse_u_m s m d = combineOverReverseU s (some m) d := by
  unfold CFuncs.combine_over_reverse_u_m combineOverReverseU
  first | (c32 <;> rfl) | rfl

theorem combine_over_reverse_u_n_eq (s d : Nat) (hs : s < 4294967296) (hd : d < 4294967296) :
    CFuncs.combine_over_reverse_u_n s d = combineOverReverseU s none d := by
  unfold CFuncs.combine_over_reverse_u_n combineOverReverseU
  first | (c32 <;> rfl) | rfl

theorem combine_in_u_m_eq (s m d : Nat) (hs : s < 4294967296) (hm : m < 4294967296) (hd : d < 4294967296) :
    CFuncs.combine_in_u_m s m d = combineInU s (some m) d := by
  unfold CFuncs.combine_in_u_m combineInU
  first | (c32 <;> rfl) | rfl

theorem combine_in_u_n_eq (s d : Nat) (hs : s < 4294967296) (hd : d < 4294967296) :
    CFuncs.combine_in_u_n s d = combineInU s none d := by
  unfold CFuncs.combine_in_u_n combineInU
  first | (c32 <;> rfl) | rfl

theorem combine_in_reverse_u_m_eq (s m d : Nat) (hs : s < 4294967296) (hm : m < 4294967296) (hd : d < 4294967296) :
    CFuncs.combine_in_reverse_u_m s m d = combineInReverseU s (some m) d := by
  unfold CFuncs.combine_in_reverse_u_m combineInReverseU
  first | (c32 <;> rfl) | rfl

theorem combine_in_reverse_u_n_eq (s d : Nat) (hs : s < 4294967296) (hd : d < 4294967296) :
    CFuncs.combine_in_reverse_u_n s d = combineInReverseU s none d := by
  unfold CFuncs.combine_in_reverse_u_n combineInReverseU
  first | (c32 <;> rfl) | rfl

theorem combine_out_u_m_eq (s m d : Nat) (hs : s < 4294967296) (hm : m < 4294967296) (hd : d < 4294967296) :
    CFuncs.combine_out_u_m s m d = combineOutU s (some m) d := by
  unfold CFuncs.combine_out_u_m combineOutU
  first | (c32 <;> rfl) | rfl

theorem combine_out_u_n_eq (s d : Nat) (hs : s < 4294967296) (hd : d < 4294967296) :
    CFuncs.combine_out_u_n s d = combineOutU s none d := by
  unfold CFuncs.combine_out_u_n combineOutU
  first | (c32 <;> rfl) | rfl

theorem combine_out_reverse_u_m_eq (s m d : Nat) (hs : s < 4294967296) (hm : m < 4294967296) (hd : d < 4294967296) :
    CFuncs.combine_out_reverse_u_m s m d = combineOutReverseU s (some m) d := by
  unfold CFuncs.combine_out_reverse_u_m combineOutReverseU
  first | (c32 <;> rfl) | rfl

theorem combine_out_reverse_u_n_eq (s d : Nat) (hs : s < 4294967296) (hd : d < 4294967296) :
    CFuncs.combine_out_reverse_u_n s d = combineOutReverseU s none d := by
  unfold CFuncs.combine_out_reverse_u_n combineOutReverseU
  first | (c32 <;> rfl) | rfl

theorem combine_atop_u_m_eq (s m d : Nat) (hs : s < 4294967296) (hm : m < 4294967296) (hd : d < 4294967296) :
    CFuncs.combine_atop_u_m s m d = combineAtopU s (some m) d := by
  unfold CFuncs.combine_atop_u_m combineAtopU
  first | (c32 <;> rfl) | rfl

theorem combine_atop_u_n_eq (s d : Nat) (hs : s < 4294967296) (hd : d < 4294967296) :
    CFuncs.combine_atop_u_n s d = combineAtopU s none d := by
  unfold CFuncs.combine_atop_u_n combineAtopU
  first | (c32 <;> rfl) | rfl

theorem combine_atop_reverse_u_m_eq (s m d : Nat) (hs : s < 4294967296) (hm : m < 4294967296) (hd : d < 4294967296) :
    CFuncs.combine_atop_reverse_u_m s m d = combineAtopReverseU s (some m) d := by
  unfold CFuncs.combine_atop_reverse_u_m combineAtopReverseU
  first | (c32 <;> rfl) | rfl

theorem combine_atop_reverse_u_n_eq (s d : Nat) (hs : s < 4294967296) (hd : d < 4294967296) :
    CFuncs.combine_atop_reverse_u_n s d = combineAtopReverseU s none d := by
  unfold CFuncs.combine_atop_reverse_u_n combineAtopReverseU
  first | (c32 <;> rfl) | rfl

theorem combine_xor_u_m_eq (s m d : Nat) (hs : s < 4294967296) (hm : m < 4294967296) (hd : d < 4294967296) :
    CFuncs.combine_xor_u_m s m d = combineXorU s (some m) d := by
  unfold CFuncs.combine_xor_u_m combineXorU
  first | (c32 <;> rfl) | rfl

theorem combine_xor_u_n_eq (s d : Nat) (hs : s < 4294967296) (hd : d < 4294967296) :
    CFuncs.combine_xor_u_n s d = combineXorU s none d := by
  unfold CFuncs.combine_xor_u_n combineXorU
  first | (c32 <;> rfl) | rfl

theorem combine_add_u_m_eq (s m d : Nat) (hs : s < 4294967296) (hm : m < 4294967296) (hd : d < 4294967296) :
    CFuncs.combine_add_u_m s m d = combineAddU s (some m) d := by
  unfold CFuncs.combine_add_u_m combineAddU
  first | (c32 <;> rfl) | rfl

theorem combine_add_u_n_eq (s d : Nat) (hs : s < 4294967296) (hd : d < 4294967296) :
    CFuncs.combine_add_u_n s d = combineAddU s none d := by
  unfold CFuncs.combine_add_u_n combineAddU
  first | (c32 <;> rfl) | rfl

theorem combine_multiply_u_m_eq (s m d : Nat) (hs : s < 4294967296) (hm : m < 4294967296) (hd : d < 4294967296) :
    CFuncs.combine_multiply_u_m s m d = combineMultiplyU s (some m) d := by
  unfold CFuncs.combine_multiply_u_m combineMultiplyU
  first | (c32 <;> rfl) | rfl

theorem combine_multiply_u_n_eq (s d : Nat) (hs : s < 4294967296) (hd : d < 4294967296) :
    CFuncs.combine_multiply_u_n s d = combineMultiplyU s none d := by
  unfold CFuncs.combine_multiply_u_n combineMultiplyU
  first | (c32 <;> rfl) | rfl

theorem combine_src_ca_eq (s m d : Nat) (hs : s < 4294967296) (hm : m < 4294967296) (hd : d < 4294967296) :
    CFuncs.combine_src_ca s m = combineSrcCa s m d := by
  unfold CFuncs.combine_src_ca combineSrcCa
  first | (c32 <;> rfl) | rfl

theorem combine_over_ca_eq (s m d : Nat) (hs : s < 4294967296) (hm : m < 4294967296) (hd : d < 4294967296) :
    CFuncs.combine_over_ca s m d = combineOverCa s m d := by
  unfold CFuncs.combine_over_ca combineOverCa
  first | (c32 <;> rfl) | rfl

theorem combine_over_reverse_ca_eq (s m d : Nat) (hs : s < 4294967296) (hm : m < 4294967296) (hd : d < 4294967296) :
    CFuncs.combine_over_reverse_ca s m d = combineOverReverseCa s m d := by
  unfold CFuncs.combine_over_reverse_ca combineOverReverseCa
  first | (c32 <;> rfl) | rfl

theorem combine_in_ca_eq (s m d : Nat) (hs : s < 4294967296) (hm : m < 4294967296) (hd : d < 4294967296) :
    CFuncs.combine_in_ca s m d = combineInCa s m d := by
  unfold CFuncs.combine_in_ca combineInCa
  first | (c32 <;> rfl) | rfl

theorem combine_in_reverse_ca_eq (s m d : Nat) (hs : s < 4294967296) (hm : m < 4294967296) (hd : d < 4294967296) :
    CFuncs.combine_in_reverse_ca s m d = combineInReverseCa s m d := by
  unfold CFuncs.combine_in_reverse_ca combineInReverseCa
  first | (c32 <;> rfl) | rfl

theorem combine_out_ca_eq (s m d : Nat) (hs : s < 4294967296) (hm : m < 4294967296) (hd : d < 4294967296) :
    CFuncs.combine_out_ca s m d = combineOutCa s m d := by
  unfold CFuncs.combine_out_ca combineOutCa
  first | (c32 <;> rfl) | rfl

theorem combine_out_reverse_ca_eq (s m d : Nat) (hs : s < 4294967296) (hm : m < 4294967296) (hd : d < 4294967296) :
    CFuncs.combine_out_reverse_ca s m d = combineOutReverseCa s m d := by
  unfold CFuncs.combine_out_reverse_ca combineOutReverseCa
  first | (c32 <;> rfl) | rfl

theorem combine_atop_ca_eq (s m d : Nat) (hs : s < 4294967296) (hm : m < 4294967296) (hd : d < 4294967296) :
    CFuncs.combine_atop_ca s m d = combineAtopCa s m d := by
  unfold CFuncs.combine_atop_ca combineAtopCa
  first | (c32 <;> rfl) | rfl

theorem combine_atop_reverse_ca_eq (s m d : Nat) (hs : s < 4294967296) (hm : m < 4294967296) (hd : d < 4294967296) :
    CFuncs.combine_atop_reverse_ca s m d = combineAtopReverseCa s m d := by
  unfold CFuncs.combine_atop_reverse_ca combineAtopReverseCa
  first | (c32 <;> rfl) | rfl

theorem combine_xor_ca_eq (s m d : Nat) (hs : s < 4294967296) (hm : m < 4294967296) (hd : d < 4294967296) :
    CFuncs.combine_xor_ca s m d = combineXorCa s m d := by
  unfold CFuncs.combine_xor_ca combineXorCa
  first | (c32 <;> rfl) | rfl

theorem combine_add_ca_eq (s m d : Nat) (hs : s < 4294967296) (hm : m < 4294967296) (hd : d < 4294967296) :
    CFuncs.combine_add_ca s m d = combineAddCa s m d := by
  unfold CFuncs.combine_add_ca combineAddCa
  first | (c32 <;> rfl) | rfl

theorem combine_multiply_ca_eq (s m d : Nat) (hs : s < 4294967296) (hm : m < 4294967296) (hd : d < 4294967296) :
    CFuncs.combine_multiply_ca s m d = combineMultiplyCa s m d := by
  unfold CFuncs.combine_multiply_ca combineMultiplyCa
  first | (c32 <;> rfl) | rfl

end combine32
/-! ## pixman-glyph.c  (C17): the counter tests of `pixman_glyph_cache_thaw` / `pixman_glyph_cache_insert`
(conditions extracted by position, see tools/gen_cfuncs.py kind "cond"), against `Glyph.stepCore` with the parameters
of the real build, `HASH_SIZE = 32768`, `N_GLYPHS_HIGH_WATER = 16384`, `N_GLYPHS_LOW_WATER = 8192`. -/
section glyph
open Pixman.Glyph

/-- the table parameters of the library as built (pixman-glyph.c) -/
def realGlyphParams : Params := ⟨32768, 16384, 8192⟩

/- `--cache->freeze_count == 0 && n_glyphs + n_tombstones > N_GLYPHS_HIGH_WATER` (c.freeze already decremented) -/
theorem glyph_thaw_outer_eq (c : Cache) :
    CFuncs.glyph_thaw_outer c.freeze c.nGlyphs c.nTomb =
      decide (c.freeze = 0 ∧ c.nGlyphs + c.nTomb > (realGlyphParams.high : Int)) := rfl
theorem glyph_thaw_dump_eq (c : Cache) :
    CFuncs.glyph_thaw_dump c.nTomb = decide (c.nTomb > (realGlyphParams.high : Int)) := rfl
theorem glyph_thaw_evict_eq (c : Cache) :
    CFuncs.glyph_thaw_evict c.nGlyphs = decide (c.nGlyphs > (realGlyphParams.low : Int)) := rfl
theorem glyph_insert_frozen_eq (c : Cache) :
    CFuncs.glyph_insert_frozen c.freeze = decide (c.freeze ≤ 0) := by
  unfold CFuncs.glyph_insert_frozen
  by_cases h : c.freeze > 0 <;> simp [h] <;> omega
theorem glyph_insert_full_eq (c : Cache) :
    CFuncs.glyph_insert_full c.nGlyphs c.nTomb = full realGlyphParams c := by
  unfold CFuncs.glyph_insert_full full realGlyphParams
  by_cases h : c.nGlyphs + c.nTomb ≥ 32767 <;> simp [h] <;> omega

end glyph

end Pixman.Props.Bridges

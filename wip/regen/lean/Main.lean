import Driver.Region
import Driver.Glyph
import Driver.Matrix
import Driver.Composite
import Driver.CompRegion
import Driver.Trap
import Driver.RegionAlloc
import Driver.Gradient
import Driver.Threads
import Driver.Filter
import Driver.Sample
import Driver.Simd
import Driver.ImageState
import Driver.Lifetime
import Driver.Extent
import Driver.Fill
import Driver.Format
import Driver.CompositeQ
import Driver.Opacity
/-! `pixdrv <domain>`: reads requests on stdin, writes one reply line per request. -/

partial def loop (h : IO.FS.Stream) (out : IO.FS.Stream) (f : String → String) : IO Unit := do
  let line ← h.getLine
  if line.isEmpty then return ()
  out.putStrLn (f line)
  loop h out f

def main (args : List String) : IO UInt32 := do
  let stdin ← IO.getStdin
  let stdout ← IO.getStdout
  match args with
  | ["region"] => loop stdin stdout Driver.Region.handle; return 0
  | ["glyph"] => loop stdin stdout Driver.Glyph.handle; return 0
  | ["matrix"] => loop stdin stdout Driver.Matrix.handle; return 0
  | ["composite"] => loop stdin stdout Driver.Composite.handle; return 0
  | ["compregion"] => loop stdin stdout Driver.CompRegion.handle; return 0
  | ["trap"] => loop stdin stdout Driver.Trap.handle; return 0
  | ["regionalloc"] => loop stdin stdout Driver.RegionAlloc.handle; return 0
  | ["gradient"] => loop stdin stdout Driver.Gradient.handle; return 0
  | ["threads"] => loop stdin stdout Driver.Threads.handle; return 0
  | ["filter"] => loop stdin stdout Driver.Filter.handle; return 0
  | ["sample"] => loop stdin stdout Driver.Sample.handle; return 0
  | ["simd"] => loop stdin stdout Driver.Simd.handle; return 0
  | ["imgstate"] => loop stdin stdout Driver.ImageState.handle; return 0
  | ["lifetime"] => loop stdin stdout Driver.Lifetime.handle; return 0
  | ["extent"] => loop stdin stdout Driver.Extent.handle; return 0
  | ["fill"] => loop stdin stdout Driver.Fill.handle; return 0
  | ["format"] => loop stdin stdout Driver.Format.handle; return 0
  | ["compositeq"] => loop stdin stdout Driver.CompositeQ.handle; return 0
  | ["opacity"] => loop stdin stdout Driver.Opacity.handle; return 0
  | ["samplefast"] => loop stdin stdout Driver.Sample.handleFast; return 0
  | _ => IO.eprintln "usage: pixdrv <domain>"; return 2

import Pixman.Model.WidePipeline
import Pixman.Spec.PdfBlend
/-! Line-protocol driver for the `compositeq` domain (float pipeline of C01):

`op ca srcfmt maskfmt dstfmt S M D R`

`S M D` are the raw source / mask / destination pixels, `R` the destination pixel the library
left; each a colon-separated list of decimal numbers: one number for packed formats, the binary32
bit patterns `r:g:b:a` (`r:g:b`) for `rgba_float` (`rgb_float`), the 16-bit `red:green:blue:alpha`
of `pixman_image_create_solid_fill` for `solid`; `M` is `0` for `none`.

Reply: `ok` (R within one quantisation step of the Rat model at the exact inputs), `okp` (only at
an input perturbed by 2⁻²⁰), `ok-narrow` (the request runs in the 8-bit pipeline and R equals the
narrow model), or `BAD …` (model) / `SPEC …` (R accepted by the model of the code but more than
one step from the independent Render/PDF equations of `Pixman.Spec.PdfBlend`). -/
namespace Driver.CompositeQ
open Pixman.Model.WidePipeline Pixman.Model.CombineQ

def parsePres (t : String) : Option Pres :=
  if t == "none" then some .none
  else if t == "solid" then some .solid
  else (allFormats.find? (fun f => f.name == t)).map .bits

def parseVals (t : String) : Option (List Nat) := (t.splitOn ":").mapM (·.toNat?)

/-- decimal rendering of a rational with 7 digits, for messages only -/
def showQ (v : Rat) : String :=
  let neg := v < 0
  let a := if neg then -v else v
  let n := (a * 10000000).floor.toNat
  (if neg then "-" else "") ++ toString (n / 10000000) ++ "." ++
    String.ofList (List.replicate (7 - (toString (n % 10000000)).length) '0') ++ toString (n % 10000000)

def showPx (p : Px) : String := s!"a={showQ p.a} r={showQ p.r} g={showQ p.g} b={showQ p.b}"

/-- the narrow model's presentation of a request that runs in the 8-bit pipeline -/
def narrowPres (p : Pres) (vals : List Nat) : Option (Pixman.CompositePixel.Pres × Nat) :=
  match p, vals with
  | .none, _ => some (.none, 0)
  | .solid, [r, g, b, a] => some (.solid, ((a >>> 8) <<< 24) ||| ((r >>> 8) <<< 16) ||| ((g >>> 8) <<< 8) ||| (b >>> 8))
  | .bits f, [v] => match f.kind with
    | .unorm u => if f.wide then Option.none else some (.bits u false, v)
    | _ => Option.none
  | _, _ => Option.none

def chName : Nat → String
  | 0 => "a" | 1 => "r" | 2 => "g" | 3 => "b" | _ => "?"

def handle (line : String) : String :=
  match line.trimAscii.toString.splitOn " " |>.filter (· ≠ "") with
  | [op, ca, sf, mf, df, s, m, d, r] =>
    match op.toNat?, ca.toNat?, parsePres sf, parsePres mf, parsePres df, parseVals s, parseVals m,
          parseVals d, parseVals r with
    | some op, some ca, some sp, some mp, some (.bits dfm), some sv, some mv, some dv, some rv =>
      let ca := ca != 0
      let op' := effectiveOp op ca sp mp sv mv
      if runsNarrow op' sp mp (.bits dfm) then
        match narrowPres sp sv, narrowPres mp mv, narrowPres (.bits dfm) dv, rv with
        | some (nsp, nsv), some (nmp, nmv), some (ndp, ndv), [lib] =>
          match Pixman.CompositePixel.compositePixel op ca nsp nmp ndp nsv nmv ndv with
          | .pixel v => if v == lib then "ok-narrow" else s!"BAD narrow-model {v}"
          | _ => "BAD narrow-model-undefined"
        | _, _, _, _ => "bad-request"
      else
        match fetch sp sv, (match mp with | .none => some Option.none | _ => (fetch mp mv).map some),
              fetch (.bits dfm) dv with
        | some spx, some mpx, some dpx =>
          -- a component-alpha flag without a mask image has no effect
          let ca := ca && mpx.isSome
          let hull := isFloatDest dfm
          match allowance op' ca spx mpx dpx with
          | Option.none => "skip"
          | some tol =>
          match judge tol dfm rv (widePixel op' ca) hull spx mpx dpx with
          | Option.none => "bad-request"
          | some (.bad c v) => s!"BAD ch={chName c} op'={op'} model {showPx v}"
          | some mv =>
            let tag := match mv with | .ok => "ok" | .okPerturbed => "okp" | _ => "okh"
            match judge tol dfm rv (Pixman.Spec.PdfBlend.specPixel sqrtQ op ca) hull spx mpx dpx
                (fun s' m' d' => Pixman.Spec.PdfBlend.specPixel sqrtQ op ca s' m' d' false) with
            | some (.bad c w) => s!"SPEC ch={chName c} spec {showPx w}"
            | _ => tag        -- accepted, or no claim (operands not premultiplied / outside the Spec)
        | _, _, _ => "bad-request"
    | _, _, _, _, _, _, _, _, _ => "bad-request"
  | _ => "bad-request"

end Driver.CompositeQ

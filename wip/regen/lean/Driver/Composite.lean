import Pixman.Model.CompositePixel
/-! Line-protocol driver for the `composite` domain:
`op ca srcfmt maskfmt dstfmt s m d` → destination pixel afterwards (defined bits), decimal. -/
namespace Driver.Composite
open Pixman.CompositePixel

def parsePres (t : String) : Option Pres :=
  let (base, rep) := if t.endsWith "+r" then ((t.dropEnd 2).toString, true) else (t, false)
  if base == "none" then (if rep then none else some .none)
  else if base == "solid" then (if rep then none else some .solid)
  else (formats.find? (fun f => f.name == base)).map (fun f => .bits f rep)

def handle (line : String) : String :=
  match line.trimAscii.toString.splitOn " " |>.filter (· ≠ "") with
  | [op, ca, sf, mf, df, s, m, d] =>
    match op.toNat?, ca.toNat?, parsePres sf, parsePres mf, parsePres df, s.toNat?, m.toNat?, d.toNat? with
    | some op, some ca, some sp, some mp, some dp, some s, some m, some d =>
      match sp with
      | .none => "bad-request"
      | _ =>
        match compositePixel op (ca != 0) sp mp dp s m d with
        | .pixel v => toString v
        | .wide => "wide"
        | .bad => "bad-request"
    | _, _, _, _, _, _, _, _ => "bad-request"
  | _ => "bad-request"

end Driver.Composite

#!/usr/bin/env python3
"""tools/gen_cfuncs.py <repo> <outdir>

Regenerates lean/Pixman/Gen/CFuncs.lean: a Lean definition for each C function / statement block
listed in TARGETS below, translated from the *preprocessed* text (`gcc -E -P`, minimal hand-written
config.h, stubbed <assert.h>) of the file in <repo>'s working tree that defines it.

Accepted C: pointer-free integer code -- local declarations, assignment and compound assignment,
`++`/`--`, `if/else`, early `return`, `?:`, `&& || !`, comparisons (0/1), casts, `do {..} while (0)`,
`assert (e)`, calls of other translated functions, the two trivial loops `while (x >= s) x -= s;`
and `while (x < 0) x += s;`.  Pointers appear only as (a) *out-parameters* `T *p` used as `*p`
(become results), (b) a *struct parameter* `S *e` / `S e` whose members `e->f` / `e.f` are read
(become arguments) or assigned (become results), (c) `&x` passed for an out-parameter of a
translated callee, (d) memory operands named in the target's `mem` map (loop-body targets).

C integer semantics (host: LP64, gcc, two's complement), made explicit in the output:
  * every C value is a Lean `Int` in the range of its C type (mode "int"), or -- for functions whose
    values are all non-negative -- a `Nat` (mode "nat": all variables unsigned);
  * the type of every expression is computed by the C rules (integer promotion, usual arithmetic
    conversions, literal suffixes); arithmetic of an unsigned type wraps modulo 2^N at every
    operation; arithmetic of a signed type is exact (overflow is undefined in C) and is wrapped to
    two's complement exactly where C converts: assignment, initialisation, cast, argument, return;
  * `>>` of a signed value is the arithmetic shift (floor division), `/` `%` of signed operands
    truncate toward zero (`Int.tdiv`/`Int.tmod`), comparisons and `&& || !` give 0/1;
  * helper meanings (`u32`, `s64`, `band`, `sbor`, `subLoop`, ...) are in lean/Pixman/Lemmas/CSem.lean.
A function with `assert`s gets a companion `<name>_ok : Bool` (all assertions reached hold).

Wave 2 additions: mode "mixed" (unsigned C types are Lean `Nat`, signed ones `Int`; conversions between them are
`Int.ofNat` / `Int.toNat (uN ..)`); `switch` (desugared to an if-chain; fall-through duplicates the following case;
`if (c) break;` inside a case becomes `if (c) {} else {rest}`); memory operands given as access paths
(`image->common.transform->matrix[2][0]`) whose C type is resolved through the struct/union definitions of the
preprocessed text and must equal the type declared in TARGETS ("ptr": only NULL tests; "bool": an uninterpreted 0/1
sub-expression such as a `double` comparison; `name@i`: indexed by the variable of a search loop); local pointer
aliases (`T (*t)[3] = path;`); search loops `for (i = 0; i < n; ++i) if (C(i)) { S; break; }` (= `if (anyBelow n C) S`);
`stages`: every if/switch join becomes its own definition `<name>_sN`, so that bridges can be proved join by join.

Fail closed: a directive, type, token, statement or expression form that is not understood, a
target that is not found, a variable read before it is assigned -- all exit non-zero (the engine
reports a broken extraction obligation)."""
import os, re, shutil, subprocess, sys, tempfile
from pathlib import Path
sys.path.insert(0, str(Path(__file__).resolve().parent))
from genlib import write_if_changed


class Fail(Exception):
    pass


class UndefInJoin(Exception):
    pass


def fail(msg):
    raise Fail(msg)


# =============================================================================== targets
# kind "func": a whole function.  Options:
#   mode     "int" | "nat"
#   out      {param: "out" | "inout"}   pointer parameters used as *p
#   structs  {param: struct-typedef}    struct (pointer) parameters; members become arguments/results
#   drop     [params]                   parameters that must not be referenced (e.g. unused pointers)
#   name     Lean name (default: the C name)
#   nonneg   [params]                   nat mode: signed parameters assumed >= 0 (precondition, stated in the docstring)
#   ranges   {param: (lo, hi)}          precondition lo <= param <= hi (stated in the docstring), used by the
#                                        interval analysis (e.g. the 7-bit bilinear weights)
#   ptrvals  [params]                   pointer parameters used only as integer values (`(size_t) p`)
#   ret      "malloc"                   the function returns NULL or malloc (n): result (called : 0/1, n : size_t)
#   loop     (i, width)                 the function is `for (i = 0; i < width; ++i) BODY` over independent
#                                        pixels: BODY is translated, as a function of the memory operands
#   mem      {"*(dest + i)": "d", ...}  memory operands (uint32_t) read -> arguments, assigned -> results
#   null     [pointer params]           `if (p)` on these is FALSE (the variant called with p == NULL)
#   calls    {C name: Lean name}        which translated variant a call refers to
#   xmacros  True                       keep the macros of pixman-combine32.h that gen_combine32.py translates
#                                        as calls of Pixman.Gen.Combine32Macros (nat mode)
#   out kind "in"                       pointer parameter that is only read
#   unroll   True                       `for (i = 0; i < K; ++i)` with a literal K <= 16 is unrolled (i a constant)
#   extern   {name: spec}               calls of functions that are not translated: the function becomes a
#                                        parameter (an oracle) of the generated definition.  spec = dict(ret=C type,
#                                        params=[("same", identifier) | ("struct", struct type)])
#   stages   True                       every if/switch join becomes its own definition <name>_sN
#   consts   {param: value}             specialise an integer parameter to a constant (e.g. the depth n)
#   nonnull  [pointer params]           `if (p)` on these is TRUE (caller always passes an address)
TARGETS = [
    dict(file="pixman/pixman-matrix.c", func="rounded_udiv_128_by_48", mode="int", out={"result_hi": "out"}),
    dict(file="pixman/pixman-matrix.c", func="rounded_sdiv_128_by_49", mode="int", out={"signed_result_hi": "out"},
         nonnull=["signed_result_hi"]),
    dict(file="pixman/pixman-matrix.c", func="fixed_64_16_to_int128", mode="int", out={"rhi": "out", "rlo": "out"}),
    dict(file="pixman/pixman-matrix.c", func="fixed_112_16_to_fixed_48_16", mode="int", out={"clampflag": "inout"}),
] + [
    dict(file="pixman/pixman-trap.c", func=f, name=f"{f}_{n}", mode="int", consts={"n": n})
    for f in ("pixman_sample_ceil_y", "pixman_sample_floor_y") for n in (1, 4, 8)
] + [
    dict(file="pixman/pixman-trap.c", func="pixman_edge_step", mode="int", structs={"e": "pixman_edge_t"}),
    dict(file="pixman/pixman-trap.c", func="_pixman_edge_multi_init", mode="int", structs={"e": "pixman_edge_t"},
         out={"stepx_p": "out", "dx_p": "out"}),
    # ---- pixman-inlines.h
    dict(file="pixman/pixman-inlines.h", func="repeat", name="repeat_", mode="int", out={"c": "inout"}),
    dict(file="pixman/pixman-inlines.h", func="pixman_fixed_to_bilinear_weight", mode="int"),
    dict(file="pixman/pixman-inlines.h", func="bilinear_interpolation", mode="nat",
         ranges={"distx": (0, 127), "disty": (0, 127)}),
    dict(file="pixman/pixman-inlines.h", func="pad_repeat_get_scanline_bounds", mode="int",
         out={"width": "inout", "left_pad": "out", "right_pad": "out"}),
    # ---- pixman-private.h / pixman-utils.c
    dict(file="pixman/pixman-utils.c", func="convert_8888_to_0565", mode="nat"),
    dict(file="pixman/pixman-utils.c", func="convert_0565_to_0888", mode="nat"),
    dict(file="pixman/pixman-utils.c", func="convert_0565_to_8888", mode="nat"),
    dict(file="pixman/pixman-utils.c", func="unorm_to_unorm", mode="nat", nonneg=["from_bits", "to_bits"]),
    dict(file="pixman/pixman-utils.c", func="_pixman_multiply_overflows_size", mode="int"),
    dict(file="pixman/pixman-utils.c", func="_pixman_multiply_overflows_int", mode="int"),
    dict(file="pixman/pixman-utils.c", func="_pixman_addition_overflows_int", mode="int"),
    dict(file="pixman/pixman-utils.c", func="pixman_malloc_ab", mode="int", ret="malloc"),
    dict(file="pixman/pixman-utils.c", func="pixman_malloc_abc", mode="int", ret="malloc"),
    dict(file="pixman/pixman-utils.c", func="pixman_malloc_ab_plus_c", mode="int", ret="malloc"),
    # ---- pixman.c, pixman-glyph.c
    dict(file="pixman/pixman.c", func="color_to_uint32", mode="nat", structs={"color": "pixman_color_t"}),
    dict(file="pixman/pixman.c", func="color_to_pixel", mode="nat", structs={"color": "pixman_color_t"},
         out={"pixel": "inout"}),
    dict(file="pixman/pixman-glyph.c", func="hash", name="glyph_hash", mode="nat", ptrvals=["font_key", "glyph_key"]),
]


C32 = "pixman/pixman-combine32.c"
MEM_U = {"*(src + i)": "src_i", "*(mask + i)": "mask_i", "*(dest + i)": "dest_i"}
COMB_DROP = ["imp", "op", "dest", "src", "mask", "width"]


def c32_targets():
    t = []
    # helpers
    t.append(dict(file=C32, func="combine_mask_ca", mode="nat", xmacros=True, out={"src": "inout", "mask": "inout"}))
    t.append(dict(file=C32, func="combine_mask_value_ca", mode="nat", xmacros=True, out={"src": "inout", "mask": "in"}))
    t.append(dict(file=C32, func="combine_mask_alpha_ca", mode="nat", xmacros=True, out={"src": "in", "mask": "inout"}))
    for v, key in (("m", "nonnull"), ("n", "null")):
        t.append(dict(file=C32, func="combine_mask", name=f"combine_mask_{v}", mode="nat", xmacros=True,
                      drop=["src", "mask", "i"], mem={"*(src + i)": "src_i", "*(mask + i)": "mask_i"}, **{key: ["mask"]}))
    # unified combiners: one variant per mask == NULL / != NULL
    for f in ("combine_src_u", "combine_over_u", "combine_over_reverse_u", "combine_in_u", "combine_in_reverse_u",
              "combine_out_u", "combine_out_reverse_u", "combine_atop_u", "combine_atop_reverse_u", "combine_xor_u",
              "combine_add_u", "combine_multiply_u"):
        for v, key in (("m", "nonnull"), ("n", "null")):
            if f == "combine_src_u" and v == "n":
                continue        # memcpy
            t.append(dict(file=C32, func=f, name=f"{f}_{v}", mode="nat", xmacros=True, drop=COMB_DROP, mem=MEM_U,
                          loop=("i", "width"), calls={"combine_mask": f"combine_mask_{v}"}, **{key: ["mask"]}))
    # component-alpha combiners (mask is never NULL)
    for f in ("combine_src_ca", "combine_over_ca", "combine_over_reverse_ca", "combine_in_ca", "combine_in_reverse_ca",
              "combine_out_ca", "combine_out_reverse_ca", "combine_atop_ca", "combine_atop_reverse_ca",
              "combine_xor_ca", "combine_add_ca", "combine_multiply_ca"):
        t.append(dict(file=C32, func=f, mode="nat", xmacros=True, drop=COMB_DROP, mem=MEM_U, loop=("i", "width"),
                      nonnull=["mask"]))
    return t


TARGETS += c32_targets()

def image_info_target():
    mem = {"image->common.transform": ("transform", "ptr")}
    for i in range(3):
        for j in range(3):
            mem[f"image->common.transform->matrix[{i}][{j}]"] = (f"t{i}{j}", "pixman_fixed_t")
    mem.update({
        "image->common.filter": ("filter", "pixman_filter_t"),
        "image->common.repeat": ("repeat_", "pixman_repeat_t"),
        "image->common.component_alpha": ("component_alpha", "pixman_bool_t"),
        "image->type": ("itype", "image_type_t"),
        "image->solid.color.alpha": ("solid_alpha", "uint16_t"),
        "image->bits.width": ("width", "int"),
        "image->bits.height": ("height", "int"),
        "image->bits.format": ("format", "pixman_format_code_t"),
        "image->bits.read_func": ("read_func", "ptr"),
        "image->bits.write_func": ("write_func", "ptr"),
        "image->radial.a >= 0": ("radial_a_nonneg", "bool"),
        "image->gradient.n_stops": ("n_stops", "int"),
        "image->gradient.stops[i].color.alpha": ("stop_alpha@i", "uint16_t"),
        "image->common.alpha_map": ("alpha_map", "ptr"),
        "image->common.alpha_map->format": ("alpha_map_format", "pixman_format_code_t"),
        "image->common.flags": ("flags_out", "uint32_t"),
        "image->common.extended_format_code": ("code_out", "pixman_format_code_t"),
    })
    return dict(file="pixman/pixman-image.c", func="compute_image_info", mode="mixed", drop=["image"], mem=mem,
                stages=True)


TARGETS.append(image_info_target())

def extent_targets():
    tp = {"pixman_transform_point": dict(ret="pixman_bool_t", params=[("same", "transform"), ("struct", "pixman_vector_t")])}
    cte = dict(file="pixman/pixman.c", func="compute_transformed_extents", mode="mixed", ptrvals=["transform"],
               structs={"extents": "pixman_box32_t", "transformed": "box_48_16_t"}, unroll=True, extern=tp)
    mem = {
        "image->common.transform": ("transform_p", "ptr"),
        "image->common.type": ("itype", "image_type_t"),
        "image->bits.width": ("img_width", "int"),
        "image->bits.height": ("img_height", "int"),
        "image->common.repeat": ("repeat_", "pixman_repeat_t"),
        "image->common.flags": ("image_flags", "uint32_t"),
        "image->common.filter": ("filter", "pixman_filter_t"),
        "image->common.filter_params[0]": ("param0", "pixman_fixed_t"),
        "image->common.filter_params[1]": ("param1", "pixman_fixed_t"),
    }
    ae = dict(file="pixman/pixman.c", func="analyze_extent", mode="mixed", drop=["image"], nonnull=["image"],
              structs={"extents": "pixman_box32_t"}, out={"flags": "inout"}, mem=mem, extern=tp, stages=True)
    return [cte, ae]


TARGETS += extent_targets()

def glyph_cond_targets():
    G = "pixman/pixman-glyph.c"
    cnt = {"cache->n_glyphs": ("n_glyphs", "int"), "cache->n_tombstones": ("n_tombstones", "int"),
           "cache->freeze_count": ("freeze_count", "int")}
    thaw = dict(cnt)
    thaw["--cache->freeze_count"] = ("freeze_count_after", "bool")
    return [
        dict(kind="cond", file=G, func="pixman_glyph_cache_thaw", name="glyph_thaw_outer", index=0, mode="mixed", mem=thaw,
             expect=["freeze_count", "n_glyphs", "n_tombstones"]),
        dict(kind="cond", file=G, func="pixman_glyph_cache_thaw", name="glyph_thaw_dump", index=1, mode="mixed", mem=cnt,
             expect=["n_tombstones"]),
        dict(kind="cond", file=G, func="pixman_glyph_cache_thaw", name="glyph_thaw_evict", index=2, mode="mixed", mem=cnt,
             expect=["n_glyphs"]),
        dict(kind="cond", file=G, func="pixman_glyph_cache_insert", name="glyph_insert_frozen", index=0, mode="mixed", mem=cnt,
             expect=["freeze_count"]),
        dict(kind="cond", file=G, func="pixman_glyph_cache_insert", name="glyph_insert_full", index=4, mode="mixed", mem=cnt,
             expect=["n_glyphs", "n_tombstones"]),
    ]


TARGETS += glyph_cond_targets()

def glyph_step_targets():
    G = "pixman/pixman-glyph.c"
    arr = {"cache->glyphs": "slot"}
    cnt = {"cache->n_glyphs": ("n_glyphs", "int"), "cache->n_tombstones": ("n_tombstones", "int")}
    return [
        dict(kind="step", file=G, func="lookup_glyph", name="lookup_glyph_step", loop=0, mode="mixed", arrays=arr,
             ptrvals=["font_key", "glyph_key"], ptrlocals=["g"], expect=["glyphs", "font_key"],
             mem={"g->font_key": ("slot_font_key", "ptr"), "g->glyph_key": ("slot_glyph_key", "ptr")}),
        dict(kind="step", file=G, func="insert_glyph", name="insert_glyph_step", loop=0, mode="mixed", arrays=arr,
             expect=["glyphs", "loc"]),
        dict(kind="step", file=G, func="remove_glyph", name="remove_glyph_find_step", loop=0, mode="mixed", arrays=arr,
             ptrvals=["glyph"], expect=["glyphs", "glyph"]),
        dict(kind="step", file=G, func="remove_glyph", name="remove_glyph_clear_step", loop=1, mode="mixed", arrays=arr,
             mem=cnt, expect=["glyphs", "n_tombstones"]),
        dict(kind="step", file=G, func="remove_glyph", name="remove_glyph_mark", stmts=(3, 6), mode="mixed", arrays=arr,
             mem=cnt),
        dict(kind="step", file=G, func="remove_glyph", name="remove_glyph_next_empty", cond_of_if=0, mode="mixed", arrays=arr,
             expect=["glyphs", "idx"]),
        dict(kind="step", file=G, func="insert_glyph", name="insert_glyph_store", stmts=(4, 7), mode="mixed", arrays=arr,
             mem=cnt, ptrvals=["glyph"], aliases={"loc": "slot"}),
    ]


TARGETS += glyph_step_targets()

def region_step_targets():
    R = "pixman/pixman-region32.c"
    ext = {"region->extents.x1": ("ext_x1", "int32_t"), "region->extents.y1": ("ext_y1", "int32_t"),
           "region->extents.x2": ("ext_x2", "int32_t"), "region->extents.y2": ("ext_y2", "int32_t")}
    pb = {"pbox->x1": ("box_x1", "int32_t"), "pbox->y1": ("box_y1", "int32_t"),
          "pbox->x2": ("box_x2", "int32_t"), "pbox->y2": ("box_y2", "int32_t")}
    po = {"pbox_out->x1": ("out_x1", "int32_t"), "pbox_out->y1": ("out_y1", "int32_t"),
          "pbox_out->x2": ("out_x2", "int32_t"), "pbox_out->y2": ("out_y2", "int32_t"),
          "region->data->numRects": ("num_rects", "long")}
    f = "pixman_region32_translate"
    bx = {"box->x1": ("box_x1", "int32_t"), "box->x2": ("box_x2", "int32_t")}
    pc = {"prev_box->x1": ("prev_x1", "int32_t"), "prev_box->x2": ("prev_x2", "int32_t"),
          "cur_box->x1": ("cur_x1", "int32_t"), "cur_box->x2": ("cur_x2", "int32_t"),
          "prev_box->y2": ("prev_y2", "int32_t")}
    return [
        dict(kind="step", file=R, func=f, name="region32_translate_sums", stmts=(7, 11), mode="mixed", mem=ext),
        dict(kind="step", file=R, func=f, name="region32_translate_inrange", cond_of_if=0, mode="mixed", expect=["x1", "y2"]),
        dict(kind="step", file=R, func=f, name="region32_translate_outside", cond_of_if=2, mode="mixed", expect=["x2", "y1"]),
        dict(kind="step", file=R, func=f, name="region32_translate_clamp_extents", stmts=(13, 17), mode="mixed", mem=ext),
        dict(kind="step", file=R, func="pixman_set_extents", name="region32_set_extents_step", loop=0, mode="mixed",
             mem=dict(bx, **ext), ptrlocals=["box", "box_end"], expect=["box_end", "extents"]),
        dict(kind="step", file=R, func="pixman_coalesce", name="region32_coalesce_compare_step", loop=0, mode="mixed",
             mem=pc, ptrlocals=["prev_box", "cur_box"], expect=["cur_box", "x1"]),
        dict(kind="step", file=R, func="pixman_coalesce", name="region32_coalesce_merge_step", loop=1, mode="mixed",
             mem=pc, ptrlocals=["prev_box", "cur_box"], expect=["prev_box", "y2"]),
        dict(kind="step", file=R, func=f, name="region32_translate_move_step", loop=0, mode="mixed", mem=pb,
             ptrlocals=["pbox"], expect=["pbox", "nbox"]),
        dict(kind="step", file=R, func=f, name="region32_translate_clamp_step", loop=1, mode="mixed", mem=dict(pb, **po),
             ptrlocals=["pbox", "pbox_out"], expect=["pbox_out", "numRects"]),
    ]


TARGETS += region_step_targets()

def region_o_targets():
    R = "pixman/pixman-region32.c"
    common = dict(kind="step", file=R, mode="mixed", stub=("pixman/pixman-region.c", ["NEWRECT"]), emits={"NEWRECT": 2},
                  ignore_calls=["_pixman_log_error"], cursors=["r1", "r2"], ptrvals=["r1_end", "r2_end"])
    return [
        dict(common, func="pixman_region_intersect_o", name="region32_intersect_o_step", loop=0, expect=["r1", "x2"]),
        dict(common, func="pixman_region_union_o", name="region32_union_o_both_step", loop=0, expect=["r1", "r2", "x2"]),
        dict(common, func="pixman_region_union_o", name="region32_union_o_r1_step", loop=1, expect=["r1", "x2"]),
        dict(common, func="pixman_region_union_o", name="region32_union_o_r2_step", loop=2, expect=["r2", "x2"]),
        dict(common, func="pixman_region_subtract_o", name="region32_subtract_o_step", loop=0, expect=["r1", "r2", "x1"]),
        dict(common, func="pixman_region_subtract_o", name="region32_subtract_o_tail_step", loop=1, expect=["r1", "x1"]),
    ]


TARGETS += region_o_targets()

def region_misc_targets():
    R = "pixman/pixman-region32.c"
    ext = {"region->extents.x1": ("ext_x1", "int32_t"), "region->extents.y1": ("ext_y1", "int32_t"),
           "region->extents.x2": ("ext_x2", "int32_t"), "region->extents.y2": ("ext_y2", "int32_t")}
    src = "(*(box_type_t *)(region->data + 1))"
    one = dict(ext)
    for f in ("x1", "y1", "x2", "y2"):
        one[f"{src}.{f}"] = (f"box0_{f}", "unchecked int32_t")
    one["region->data"] = ("data_ptr", "ptr")
    one["region->data->size"] = ("data_size", "long")
    return [
        dict(kind="step", file=R, func="pixman_region32_translate", name="region32_translate_single", then_of_if=9,
             mode="mixed", mem=one, copy_fields=["x1", "y1", "x2", "y2"], ignore_calls=["free"], expect=["numRects"]),
    ]


TARGETS += region_misc_targets()

def region_validate_targets():
    R = "pixman/pixman-region32.c"
    base = dict(kind="step", file=R, func="validate", mode="mixed", cursors=["box", "ri_box"],
                mem={"reg->extents.x1": ("reg_ext_x1", "int32_t"), "reg->extents.x2": ("reg_ext_x2", "int32_t")})
    return [
        dict(base, name="region32_validate_same_band", cond_of_if=9, expect=["box", "ri_box", "y1", "y2"]),
        dict(base, name="region32_validate_merge", cond_of_if=10, expect=["box", "ri_box", "x1", "x2"]),
        dict(base, name="region32_validate_extend", cond_of_if=11, expect=["box", "ri_box", "x2"]),
        dict(base, name="region32_validate_new_band", cond_of_if=14, expect=["box", "ri_box", "y1", "y2"]),
        dict(base, name="region32_validate_ext_x2", cond_of_if=15, expect=["reg", "extents", "ri_box", "x2"]),
        dict(base, name="region32_validate_ext_x1", cond_of_if=16, expect=["reg", "extents", "box", "x1"]),
    ]


TARGETS += region_validate_targets()

def region_shortcut_targets():
    R = "pixman/pixman-region32.c"

    def regmem(*names):
        m = {}
        for n in names:
            m[f"{n}->data"] = (f"{n}_data", "ptr")
            m[f"{n}->data->numRects"] = (f"{n}_numRects", "long")
            for f in ("x1", "y1", "x2", "y2"):
                m[f"(&{n}->extents)->{f}"] = (f"{n}_{f}", "int32_t")
        return m
    out = []
    for fn, regs, ptrs, conds in (
            ("pixman_region32_intersect", ("reg1", "reg2"), ["reg1", "reg2"],
             [(0, "nil_or_apart", ["numRects", "x2"]), (2, "nar", ["pixman_broken_data"]), (3, "both_single", ["reg1", "reg2"]),
              (5, "reg2_covers", ["reg2", "x1"]), (6, "reg1_covers", ["reg1", "x1"]), (7, "same", ["reg1", "reg2"])]),
            ("pixman_region32_union", ("reg1", "reg2"), ["reg1", "reg2", "new_reg"],
             [(3, "copy_reg2", ["new_reg", "reg2"]), (6, "copy_reg1", ["new_reg", "reg1"]),
              (8, "copy_covering_reg1", ["new_reg", "reg1"]), (10, "copy_covering_reg2", ["new_reg", "reg2"]),
              (0, "same", ["reg1", "reg2"]), (1, "reg1_nil", ["reg1", "numRects"]), (2, "reg1_nar", ["reg1", "pixman_broken_data"]),
              (4, "reg2_nil", ["reg2", "numRects"]), (5, "reg2_nar", ["reg2", "pixman_broken_data"]),
              (7, "reg1_covers", ["reg1", "x1"]), (9, "reg2_covers", ["reg2", "x1"])]),
            ("pixman_region32_subtract", ("reg_m", "reg_s"), ["reg_m", "reg_s"],
             [(0, "nil_or_apart", ["numRects", "x2"]), (1, "nar", ["reg_s", "pixman_broken_data"]), (2, "same", ["reg_m", "reg_s"])])):
        short = fn.replace("pixman_region32_", "")
        for k, nm, exp in conds:
            out.append(dict(kind="step", file=R, func=fn, name=f"region32_{short}_{nm}", cond_of_if=k, mode="mixed",
                            mem=regmem(*regs), ptrvals=ptrs, ptrglobals=["pixman_broken_data"], expect=exp))
    return out


TARGETS += region_shortcut_targets()

def region_sweep_targets():
    R = "pixman/pixman-region32.c"
    out = []
    for k, b, nm in ((1, "r1", "r1"), (2, "r2", "r2"), (3, "r1", "tail_r1"), (4, "r2", "tail_r2")):
        out.append(dict(kind="step", file=R, func="pixman_op", name=f"region32_find_band_{nm}_step", loop=k, mode="mixed",
                        cursors=[f"{b}_band_end"], ptrlocals=[f"{b}_end"], expect=[f"{b}_band_end", f"{b}_end", f"{b}y1"]))
    for k, nm, exp in ((3, "keeps_old_data", ["new_reg", "new_size", "numRects"]), (11, "r1_above", ["r1y1", "r2y1"]),
                       (16, "r2_above", ["r1y1", "r2y1"]), (13, "non_o_nonempty", ["top", "bot"]),
                       (15, "coalesce_wanted", ["cur_band", "prev_band"]), (21, "overlap_nonempty", ["ybot", "ytop"]),
                       (24, "r1_done", ["r1", "ybot"]), (25, "r2_done", ["r2", "ybot"]),
                       (26, "r1_tail", ["r1", "append_non1"]), (32, "r2_tail", ["r2", "append_non2"])):
        out.append(dict(kind="step", file=R, func="pixman_op", name=f"region32_op_{nm}", cond_of_if=k, mode="mixed",
                        cursors=["r1", "r2"], ptrvals=["new_reg", "reg1", "reg2"], ptrlocals=["r1_end", "r2_end"],
                        mem={"new_reg->data->numRects": ("new_numRects", "long")}, expect=exp))
    out.append(dict(kind="step", file=R, func="pixman_region32_contains_rectangle", name="region32_contains_rectangle_step",
                    loop=0, body_from=1, mode="mixed", cursors=["pbox"], ptrlocals=["pbox_end"],
                    mem={"prect->x1": ("prect_x1", "int32_t"), "prect->x2": ("prect_x2", "int32_t"),
                         "prect->y2": ("prect_y2", "int32_t")}, expect=["pbox", "part_in", "part_out"]))
    return out


TARGETS += region_sweep_targets()

LEAN_KEYWORDS = {"at", "from", "end", "open", "show", "have", "fun", "let", "then", "do", "in", "if", "else", "by",
                 "at", "with", "match", "where", "for", "def", "theorem", "instance", "structure", "class", "namespace",
                 "section", "import", "mut", "return", "repeat", "calc", "using", "from", "Type", "Prop", "Sort",
                 "local", "private", "protected", "variable", "universe", "example", "axiom", "opaque", "abbrev",
                 "macro", "syntax", "notation", "infix", "prefix", "postfix", "deriving", "extends", "unless", "try",
                 "catch", "finally", "break", "continue", "forall", "exists", "suffices", "obtain", "nomatch", "nofun"}


def lname(n):
    return n + "_" if n in LEAN_KEYWORDS else n


# =============================================================================== preprocessing
CONFIG_H = """/* minimal configuration for tools/gen_cfuncs.py: what meson defines on this host that the
   translated functions depend on */
#define PACKAGE pixman
#define SIZEOF_LONG __SIZEOF_LONG__
#define HAVE_BUILTIN_CLZ 1
#define TLS __thread
"""
ASSERT_H = "#undef assert\n#define assert(x) __verif_assert(x)\n"


def combine32_macros(repo):
    """name -> (params, inputs, outputs, is_stmt) of the macros that gen_combine32.py translates into
    Pixman.Gen.Combine32Macros (same translator, same header text)"""
    import gen_combine32 as g32
    try:
        macros, _ = g32.preprocess((Path(repo) / "pixman" / "pixman-combine32.h").read_text())
        g = g32.Gen(macros)
        out = {}
        for n in g32.WANT_FUNC:
            if n not in macros or macros[n][0] is None:
                fail(f"pixman-combine32.h: macro {n} missing")
            f = g.translate(n)
            out[n] = (list(f.params), list(f.inputs), list(f.outputs), f.is_stmt)
        return out
    except g32.Fail as ex:
        fail(f"pixman-combine32.h: {ex}")


def stub_combine32_header(repo, scratch, names):
    """copy of pixman-combine32.h without the #defines of `names` (function-like macros), so that
    their uses survive preprocessing as calls"""
    text = (Path(repo) / "pixman" / "pixman-combine32.h").read_text()
    out, skipping = [], False
    for line in text.split("\n"):
        if skipping:
            skipping = line.rstrip().endswith("\\")
            continue
        m = re.match(r"\s*#\s*define\s+(\w+)\(", line)
        if m and m.group(1) in names:
            skipping = line.rstrip().endswith("\\")
            continue
        out.append(line)
    d = scratch / "c32"
    d.mkdir(exist_ok=True)
    (d / "pixman-combine32.h").write_text("\n".join(out))
    return d


def stub_source(repo, scratch, rel_main, stub):
    """copies of the translation unit and of the file it includes, the latter without the #defines of the listed
    function-like macros (their uses survive preprocessing as calls)"""
    inc_rel, names = stub
    d = scratch / ("stub_" + re.sub(r"\W", "_", rel_main))
    d.mkdir(exist_ok=True)
    text = (Path(repo) / inc_rel).read_text()
    out, skipping = [], False
    for line in text.split("\n"):
        if skipping:
            skipping = line.rstrip().endswith("\\")
            continue
        m = re.match(r"\s*#\s*define\s+(\w+)\s*\(", line)
        if m and m.group(1) in names:
            skipping = line.rstrip().endswith("\\")
            continue
        out.append(line)
    (d / Path(inc_rel).name).write_text("\n".join(out))
    cpy = d / Path(rel_main).name
    cpy.write_text((Path(repo) / rel_main).read_text())
    return cpy


def preprocess(repo, rel, scratch, defs=(), keep_macros=None, stub=None):
    inc = scratch / "inc"
    if not inc.exists():
        inc.mkdir()
        (inc / "config.h").write_text(CONFIG_H)
        (inc / "assert.h").write_text(ASSERT_H)
        vin = (Path(repo) / "pixman" / "pixman-version.h.in").read_text()
        vin = re.sub(r"@PIXMAN_VERSION_(MAJOR|MINOR|MICRO)@", "0", vin)
        (inc / "pixman-version.h").write_text(vin)
    src = Path(repo) / rel
    if not src.exists():
        fail(f"{rel}: no such file")
    cmd = ["gcc", "-E", "-P", "-DHAVE_CONFIG_H", "-DPIXMAN_VERIF", "-I", str(inc), "-I", str(Path(repo) / "pixman")]
    cmd += list(defs)
    if stub is not None:
        cmd.append(str(stub_source(repo, scratch, rel, stub)))
    elif keep_macros is not None:
        d = stub_combine32_header(repo, scratch, keep_macros)
        cpy = d / Path(rel).name
        cpy.write_text(src.read_text())
        cmd.append(str(cpy))
    elif rel.endswith(".h"):
        wrapper = scratch / ("wrap_" + Path(rel).name.replace(".h", ".c"))
        wrapper.write_text('#include <config.h>\n#include "pixman-private.h"\n#include "%s"\n' % Path(rel).name)
        cmd.append(str(wrapper))
    else:
        cmd.append(str(src))
    r = subprocess.run(cmd, capture_output=True, text=True)
    if r.returncode != 0:
        fail(f"gcc -E {rel} failed:\n{r.stderr[-1500:]}")
    return r.stdout


# =============================================================================== lexer
TOK = re.compile(r"""\s*(?:
    ("(?:[^"\\]|\\.)*")                            # string literal (only skipped over)
  | (0[xX][0-9a-fA-F]+|\d+)([uUlL]*)(?![\w.])      # integer literal
  | ([A-Za-z_]\w*)                                 # identifier
  | (<<=|>>=|\+\+|--|->|<<|>>|\+=|-=|\*=|/=|%=|\|=|&=|\^=|==|!=|<=|>=|&&|\|\||[-+*/%&|^~!()<>=,;{}?:.\[\]])
)""", re.X)


def lex(text):
    out, i = [], 0
    n = len(text)
    while i < n:
        if text[i].isspace():
            i += 1
            continue
        m = TOK.match(text, i)
        if not m or m.end() == i:
            fail(f"cannot tokenize: {text[i:i+40]!r}")
        if m.group(1) is not None:
            out.append(("str", m.group(1)))
        elif m.group(2) is not None:
            out.append(("num", (int(m.group(2), 0), m.group(3).lower(), m.group(2)[:2].lower() == "0x" or (m.group(2)[0] == "0" and len(m.group(2)) > 1))))
        elif m.group(4) is not None:
            out.append(("id", m.group(4)))
        else:
            out.append(("op", m.group(5)))
        i = m.end()
    return out


# =============================================================================== C types
class CT:
    """integer type: bits, signed"""
    __slots__ = ("bits", "signed")

    def __init__(self, bits, signed):
        self.bits, self.signed = bits, signed

    def __eq__(self, o):
        return isinstance(o, CT) and (self.bits, self.signed) == (o.bits, o.signed)

    def __hash__(self):
        return hash((self.bits, self.signed))

    @property
    def lo(self):
        return -(1 << (self.bits - 1)) if self.signed else 0

    @property
    def hi(self):
        return (1 << (self.bits - 1)) - 1 if self.signed else (1 << self.bits) - 1

    @property
    def mod(self):
        return 1 << self.bits

    def wrapname(self):
        return ("s" if self.signed else "u") + str(self.bits)

    def cname(self):
        return ("int" if self.signed else "uint") + str(self.bits) + "_t"

    def wrap(self, v):
        v %= self.mod
        if self.signed and v > self.hi:
            v -= self.mod
        return v

    def __repr__(self):
        return self.cname()


INT = CT(32, True)
UINT = CT(32, False)
LONG = CT(64, True)
ULONG = CT(64, False)
TYPE_WORDS = {"int", "unsigned", "signed", "long", "short", "char"}
QUALS = {"const", "volatile", "register", "__extension__", "static", "inline", "__inline", "__inline__", "extern"}


def builtin_type(words):
    """['unsigned','long','int'] -> CT, or None"""
    ws = list(words)
    if not ws or any(w not in TYPE_WORDS for w in ws):
        return None
    uns = "unsigned" in ws
    if uns and "signed" in ws:
        return None
    nlong, nshort, nchar, nint = ws.count("long"), ws.count("short"), ws.count("char"), ws.count("int")
    if ws.count("unsigned") > 1 or ws.count("signed") > 1 or nint > 1 or nshort > 1 or nchar > 1 or nlong > 2:
        return None
    if nchar:
        if nlong or nshort or nint:
            return None
        return CT(8, not uns)       # plain char is signed on x86-64
    if nshort:
        if nlong:
            return None
        return CT(16, not uns)
    if nlong:
        return CT(64, not uns)
    return CT(32, not uns)


class Env:
    """typedefs, enums and structs of one preprocessed translation unit"""

    def __init__(self, text):
        self.text = text
        self.typedefs = {}
        for m in re.finditer(r"\btypedef\s+([^;{}()\[\]]+?)\s*\b(\w+)\s*;", text):
            self.typedefs.setdefault(m.group(2), m.group(1).strip())
        self.enum_of = {}       # enumerator -> (body text, name)
        self.enum_types = {}    # typedef name / "enum tag" -> body
        for m in re.finditer(r"\b(typedef\s+)?enum\s*(\w*)\s*\{([^{}]*)\}\s*(\w*)\s*;", text):
            body = m.group(3)
            if m.group(2):
                self.enum_types["enum " + m.group(2)] = body
            if m.group(1) and m.group(4):
                self.enum_types[m.group(4)] = body
            for item in body.split(","):
                nm = item.split("=")[0].strip()
                if nm:
                    self.enum_of.setdefault(nm, body)
        self.enum_cache = {}
        self.structs = {}
        for m in re.finditer(r"\b(?:struct|union)\s+(\w+)\s*\{([^{}]*)\}", text):
            self.structs.setdefault(m.group(1), m.group(2))
        for m in re.finditer(r"\btypedef\s+(?:struct|union)\s*(\w*)\s*\{([^{}]*)\}\s*(\w+)\s*;", text):
            tag = m.group(1) or ("__anon_" + m.group(3))
            self.structs.setdefault(tag, m.group(2))
            self.typedefs.setdefault(m.group(3), "struct " + tag)
        self.fields2_cache = {}

    def enum_values(self, body):
        if body in self.enum_cache:
            return self.enum_cache[body]
        vals, nxt = {}, 0
        for item in body.split(","):
            item = item.strip()
            if not item:
                continue
            if "=" in item:
                nm, ex = item.split("=", 1)
                nm = nm.strip()
                p = Parser(lex(ex), self)
                e = p.expr()
                if p.i != len(p.t):
                    fail(f"enumerator {nm}: value not understood")
                tr = Translator(self, dict(mode="int", func="<enum>"), consts=vals)
                r = tr.ex(e)
                if r.const is None:
                    fail(f"enumerator {nm}: value is not constant")
                nxt = r.const
            else:
                nm = item
            if not re.fullmatch(r"\w+", nm):
                fail(f"enumerator {nm!r} not understood")
            vals[nm] = nxt
            nxt += 1
        self.enum_cache[body] = vals
        return vals

    def enum_type(self, body):
        vals = self.enum_values(body)
        return INT if any(v < 0 for v in vals.values()) else UINT

    def is_type_start(self, name):
        return name in TYPE_WORDS or name in QUALS or name in ("struct", "union", "enum", "void", "double", "float") or name in self.typedefs \
            or name in self.enum_types

    def resolve(self, words, depth=0):
        """list of identifier words -> CT | ('struct', tag) ; fail closed"""
        if depth > 20:
            fail("typedef chain too deep")
        ws = [w for w in words if w not in QUALS]
        if ws == ["void"]:
            return ("void",)
        if ws in (["double"], ["float"]):
            return ("float",)
        bt = builtin_type(ws)
        if bt:
            return bt
        if len(ws) == 2 and ws[0] in ("struct", "union"):
            return ("struct", ws[1])
        if len(ws) == 2 and ws[0] == "enum":
            if "enum " + ws[1] in self.enum_types:
                return self.enum_type(self.enum_types["enum " + ws[1]])
            fail(f"unknown enum {ws[1]}")
        if len(ws) == 1:
            if ws[0] in self.enum_types:
                return self.enum_type(self.enum_types[ws[0]])
            if ws[0] in self.typedefs:
                return self.resolve(self.typedefs[ws[0]].split(), depth + 1)
        fail(f"unknown type {' '.join(words)!r}")

    def fields2(self, tag):
        """members of struct/union `tag`: name -> (type, nptr, ndims) (None for members not understood)"""
        if tag in self.fields2_cache:
            return self.fields2_cache[tag]
        if tag not in self.structs:
            fail(f"struct/union {tag} has no visible definition")
        out = {}
        for decl in self.structs[tag].split(";"):
            if not decl.strip():
                continue
            try:
                pp = Parser(lex(decl), self)
                t = pp.try_type()
                if t is None:
                    raise Fail("type")
                ty, nptr0 = t
                first = True
                while True:
                    np = nptr0 if first else 0
                    while pp.at("op", "*"):
                        pp.eat()
                        np += 1
                    nm = pp.eat("id")
                    nd = 0
                    while pp.at("op", "["):
                        pp.eat()
                        pp.expr()
                        pp.eat("op", "]")
                        nd += 1
                    out[nm] = (ty, np, nd)
                    first = False
                    if pp.at("op", ","):
                        pp.eat()
                        continue
                    break
                if pp.i != len(pp.t):
                    raise Fail("trailing")
            except Fail:
                for w in re.findall(r"[A-Za-z_]\w*", decl):
                    out.setdefault(w, None)
        self.fields2_cache[tag] = out
        return out

    def is_funcptr_typedef(self, name):
        return re.search(r"\btypedef\b[^;{}]*\(\s*\*\s*" + re.escape(name) + r"\s*\)", self.text) is not None

    def path_type(self, ast, roots):
        """C type (type, nptr, ndims) of an access path built from `->`/`.`/`[]`/`*` over the parameters
        `roots` (name -> (type, nptr)); fail closed"""
        k = ast[0]
        if k == "id":
            if ast[1] not in roots:
                fail(f"memory operand: unknown root {ast[1]}")
            t, np = roots[ast[1]]
            return (t, np, 0)
        if k == "field":
            t, np, nd = self.path_type(ast[1], roots)
            if nd or np > 1 or not (isinstance(t, tuple) and t[0] == "struct"):
                fail(f"memory operand: member {ast[2]} of a non-struct")
            f = self.fields2(t[1])
            if ast[2] not in f:
                fail(f"memory operand: struct {t[1]} has no member {ast[2]}")
            if f[ast[2]] is None:
                return (("unknown",), 0, 0)
            return f[ast[2]]
        if k == "addr":
            t, np, nd = self.path_type(ast[1], roots)
            if nd:
                fail("memory operand: address of an array")
            return (t, np + 1, 0)
        if k == "deref":
            inner = ast[1]
            if inner[0] == "bin" and inner[1] == "+":
                inner = inner[2]
            t, np, nd = self.path_type(inner, roots)
            if nd:
                return (t, np, nd - 1)
            if np:
                return (t, np - 1, 0)
            fail("memory operand: dereference of a non-pointer")
        fail(f"memory operand: unsupported access path ({k})")

    def struct_fields(self, tyname):
        t = self.resolve([tyname]) if isinstance(tyname, str) else tyname
        if not (isinstance(t, tuple) and t[0] == "struct"):
            fail(f"{tyname} is not a struct type")
        if t[1] not in self.structs:
            fail(f"struct {t[1]} has no visible definition")
        fields = {}
        for decl in self.structs[t[1]].split(";"):
            decl = decl.strip()
            if not decl:
                continue
            m = re.fullmatch(r"([\w\s]+?)\s+(\w+(?:\s*,\s*\w+)*)", decl)
            if not m:
                fields[None] = decl     # something we do not understand; only matters if accessed
                continue
            for nm in m.group(2).split(","):
                fields[nm.strip()] = m.group(1).split()
        return fields


# =============================================================================== parser
BINPREC = {"||": 1, "&&": 2, "|": 3, "^": 4, "&": 5, "==": 6, "!=": 6, "<": 7, ">": 7, "<=": 7, ">=": 7,
           "<<": 8, ">>": 8, "+": 9, "-": 9, "*": 10, "/": 10, "%": 10}
ASSIGN_OPS = {"=", "+=", "-=", "*=", "/=", "%=", "<<=", ">>=", "&=", "|=", "^="}


class Parser:
    def __init__(self, toks, env):
        self.t, self.i, self.env = toks, 0, env

    def peek(self, k=0):
        return self.t[self.i + k] if self.i + k < len(self.t) else ("eof", None)

    def at(self, kind, val=None):
        k, v = self.peek()
        return k == kind and (val is None or v == val)

    def eat(self, kind=None, val=None):
        k, v = self.peek()
        if (kind and k != kind) or (val is not None and v != val):
            fail(f"expected {val or kind}, got {v!r} (token {self.i})")
        self.i += 1
        return v

    # ---- types
    def try_type(self):
        """parse a type name (with optional '*'s) at the cursor; returns (type, nptr) or None"""
        save = self.i
        words = []
        while self.peek()[0] == "id" and (self.env.is_type_start(self.peek()[1])):
            w = self.eat()
            words.append(w)
            if w in ("struct", "union", "enum"):
                words.append(self.eat("id"))
            elif w in self.env.typedefs or w in self.env.enum_types:
                # a typedef name ends the specifier unless followed by qualifiers
                while self.peek()[0] == "id" and self.peek()[1] in QUALS:
                    self.eat()
                break
        if not [w for w in words if w not in QUALS]:
            self.i = save
            return None
        nptr = 0
        while self.at("op", "*"):
            self.eat()
            nptr += 1
            while self.peek()[0] == "id" and self.peek()[1] in QUALS:
                self.eat()
        return (self.env.resolve(words), nptr)

    # ---- expressions
    def expr(self):
        e = self.assign()
        while self.at("op", ","):
            self.eat()
            e = ("comma", e, self.assign())
        return e

    def assign(self):
        lhs = self.cond()
        k, v = self.peek()
        if k == "op" and v in ASSIGN_OPS:
            self.eat()
            rhs = self.assign()
            return ("assign", v, lhs, rhs)
        return lhs

    def cond(self):
        c = self.binary(1)
        if self.at("op", "?"):
            self.eat()
            a = self.expr()
            self.eat("op", ":")
            b = self.cond()
            return ("cond", c, a, b)
        return c

    def binary(self, minp):
        lhs = self.unary()
        while True:
            k, v = self.peek()
            if k != "op" or v not in BINPREC or BINPREC[v] < minp:
                return lhs
            self.eat()
            rhs = self.binary(BINPREC[v] + 1)
            lhs = ("bin", v, lhs, rhs)

    def unary(self):
        k, v = self.peek()
        if k == "op" and v in ("!", "-", "~", "+"):
            self.eat()
            return ("un", v, self.unary())
        if k == "op" and v in ("++", "--"):
            self.eat()
            return ("preinc", v[0], self.unary())
        if k == "op" and v == "*":
            self.eat()
            return ("deref", self.unary())
        if k == "op" and v == "&":
            self.eat()
            return ("addr", self.unary())
        if k == "id" and v == "sizeof":
            self.eat()
            self.eat("op", "(")
            t = self.try_type()
            if t is None:
                e = self.expr()         # parsed only; translating it fails closed
                self.eat("op", ")")
                return ("sizeof_expr", e)
            self.eat("op", ")")
            return ("sizeof", t)
        if k == "op" and v == "(":
            save = self.i
            self.eat()
            t = self.try_type()
            if t is not None and self.at("op", ")"):
                self.eat()
                return ("cast", t, self.unary())
            self.i = save
        return self.postfix()

    def postfix(self):
        k, v = self.peek()
        if k == "num":
            self.eat()
            e = ("num", v)
        elif k == "id":
            self.eat()
            e = ("id", v)
        elif k == "str":
            while self.peek()[0] == "str":
                self.eat()
            e = ("str", v)
        elif k == "op" and v == "(":
            self.eat()
            e = self.expr()
            self.eat("op", ")")
        else:
            fail(f"unexpected token {v!r} in expression")
        while True:
            k, v = self.peek()
            if k == "op" and v in ("->", "."):
                self.eat()
                e = ("field", e, self.eat("id"))
            elif k == "op" and v == "(":
                self.eat()
                args = []
                if not self.at("op", ")"):
                    args.append(self.assign())
                    while self.at("op", ","):
                        self.eat()
                        args.append(self.assign())
                self.eat("op", ")")
                if e[0] != "id":
                    e = ("call", "<indirect>", [e] + args)      # parsed only; never translated
                else:
                    e = ("call", e[1], args)
            elif k == "op" and v in ("++", "--"):
                self.eat()
                e = ("postinc", v[0], e)
            elif k == "op" and v == "[":
                self.eat()
                ix = self.expr()
                self.eat("op", "]")
                e = ("deref", ("bin", "+", e, ix))
            else:
                return e

    # ---- statements
    def stmt(self):
        k, v = self.peek()
        if k == "op" and v == "{":
            return self.block()
        if k == "op" and v == ";":
            self.eat()
            return ("block", [])
        if k == "id" and v == "if":
            self.eat()
            self.eat("op", "(")
            c = self.expr()
            self.eat("op", ")")
            a = self.stmt()
            b = None
            if self.at("id", "else"):
                self.eat()
                b = self.stmt()
            return ("if", c, a, b)
        if k == "id" and v == "return":
            self.eat()
            e = None
            if not self.at("op", ";"):
                e = self.expr()
            self.eat("op", ";")
            return ("return", e)
        if k == "id" and v == "while":
            self.eat()
            self.eat("op", "(")
            c = self.expr()
            self.eat("op", ")")
            return ("while", c, self.stmt())
        if k == "id" and v == "do":
            self.eat()
            body = self.stmt()
            self.eat("id", "while")
            self.eat("op", "(")
            c = self.expr()
            self.eat("op", ")")
            self.eat("op", ";")
            if c != ("num", (0, "", False)):
                return ("dowhile", body, c)
            return body
        if k == "id" and v == "for":
            self.eat()
            self.eat("op", "(")
            init = None if self.at("op", ";") else self.expr()
            self.eat("op", ";")
            c = None if self.at("op", ";") else self.expr()
            self.eat("op", ";")
            step = None if self.at("op", ")") else self.expr()
            self.eat("op", ")")
            return ("for", init, c, step, self.stmt())
        if k == "id" and v == "switch":
            self.eat()
            self.eat("op", "(")
            e = self.expr()
            self.eat("op", ")")
            self.eat("op", "{")
            items = []
            while not self.at("op", "}"):
                if self.at("id", "case"):
                    self.eat()
                    c = self.cond()
                    self.eat("op", ":")
                    items.append(("case", c))
                elif self.at("id", "default"):
                    self.eat()
                    self.eat("op", ":")
                    items.append(("default",))
                else:
                    st = self.stmt()
                    items.extend(st[1] if st[0] == "seq" else [st])
            self.eat("op", "}")
            return ("switch", e, items)
        if k == "id" and v == "break":
            self.eat()
            self.eat("op", ";")
            return ("break",)
        if k == "id" and v == "continue":
            self.eat()
            self.eat("op", ";")
            return ("continue",)
        if k == "id" and v == "typedef":
            # a local typedef: already known to Env (which scans the whole text); skip it
            d = 0
            while True:
                kk, vv = self.peek()
                if kk == "eof":
                    fail("unterminated typedef")
                self.eat()
                if (kk, vv) == ("op", "{"):
                    d += 1
                elif (kk, vv) == ("op", "}"):
                    d -= 1
                elif (kk, vv) == ("op", ";") and d == 0:
                    return ("block", [])
        if k == "id" and v == "goto":
            self.eat()
            lab = self.eat("id")
            self.eat("op", ";")
            return ("goto", lab)
        if k == "id" and self.peek(1) == ("op", ":") and self.peek(2) != ("op", ":") and not self.env.is_type_start(v) \
                and v not in ("case", "default"):
            self.eat()
            self.eat()
            return ("label", v)
        if k == "id" and v in ("case", "default"):
            fail(f"statement `{v}` is not supported")
        if k == "id" and v == "__verif_assert":
            self.eat()
            self.eat("op", "(")
            e = self.expr()
            self.eat("op", ")")
            self.eat("op", ";")
            return ("assert", e)
        if k == "id" and self.env.is_type_start(v) and not (self.peek(1) == ("op", "(") and v not in QUALS and self.peek(2) != ("op", "*")):
            t = self.try_type()
            if t is None:
                fail(f"declaration not understood at {v}")
            ty, nptr = t
            decls = []
            while True:
                np = nptr
                while self.at("op", "*"):
                    self.eat()
                    np += 1
                if self.at("op", "(") and self.peek(1) == ("op", "*"):
                    # pointer-to-array declarator `(*t)[3]`: only as an alias of an lvalue
                    self.eat()
                    self.eat()
                    nm = self.eat("id")
                    self.eat("op", ")")
                    while self.at("op", "["):
                        self.eat()
                        self.eat("num")
                        self.eat("op", "]")
                    np += 1
                else:
                    nm = self.eat("id")
                if self.at("op", "["):
                    # array local: only its existence is recorded (using it in a translated piece fails closed)
                    while self.at("op", "["):
                        self.eat()
                        self.expr()
                        self.eat("op", "]")
                    np = 99
                init = None
                if self.at("op", "="):
                    self.eat()
                    init = self.assign()
                decls.append(("decl", (ty, np), nm, init))
                if self.at("op", ","):
                    self.eat()
                    nptr = 0
                    continue
                break
            self.eat("op", ";")
            return decls[0] if len(decls) == 1 else ("seq", decls)
        e = self.expr()
        self.eat("op", ";")
        return ("expr", e)

    def block(self):
        self.eat("op", "{")
        out = []
        while not self.at("op", "}"):
            s = self.stmt()
            if s[0] == "seq":
                out.extend(s[1])
            else:
                out.append(s)
        self.eat("op", "}")
        return ("block", out)


def find_function(text, name):
    """(return-type words, parameter text, body text) of the definition of `name` in preprocessed text"""
    for m in re.finditer(r"\b" + re.escape(name) + r"\s*\(", text):
        # brace depth at m.start() must be 0
        i = m.end()
        depth = 1
        while i < len(text) and depth:
            if text[i] == "(":
                depth += 1
            elif text[i] == ")":
                depth -= 1
            i += 1
        j = i
        while j < len(text) and text[j].isspace():
            j += 1
        if j >= len(text) or text[j] != "{":
            continue
        pre = text[:m.start()]
        if pre.count("{") != pre.count("}"):
            continue
        # header: back to the previous ';' or '}'
        h = max(pre.rfind(";"), pre.rfind("}"))
        header = pre[h + 1:]
        header = re.sub(r"__attribute__\s*\(\((?:[^()]|\([^()]*\))*\)\)", " ", header)
        params = text[m.end():i - 1]
        k = j + 1
        depth = 1
        while k < len(text) and depth:
            if text[k] == "{":
                depth += 1
            elif text[k] == "}":
                depth -= 1
            k += 1
        if depth:
            fail(f"{name}: unbalanced braces")
        return header.replace("*", " * ").split(), params, text[j:k]
    fail(f"function {name} not found")


# =============================================================================== typed expressions
class E:
    """translated expression: Lean text `s`, C type `ty`, value interval [lo, hi] (None = unknown
    beyond the type's range... always given), constant value if known"""
    __slots__ = ("s", "ty", "lo", "hi", "const")

    def __init__(self, s, ty, lo=None, hi=None, const=None):
        self.s, self.ty, self.const = s, ty, const
        if const is not None:
            lo = hi = const
        self.lo = ty.lo if lo is None else lo
        self.hi = ty.hi if hi is None else hi

    @property
    def inrange(self):
        return self.ty.lo <= self.lo and self.hi <= self.ty.hi


def atom(s):
    if re.fullmatch(r"[\w.]+", s) or (s.startswith("(") and s.endswith(")") and balanced(s[1:-1])):
        return s
    return f"({s})"


def balanced(s):
    d = 0
    for ch in s:
        if ch == "(":
            d += 1
        elif ch == ")":
            d -= 1
            if d < 0:
                return False
    return d == 0


def promote(t):
    return INT if t.bits < 32 else t


def common(a, b):
    a, b = promote(a), promote(b)
    if a == b:
        return a
    if a.signed == b.signed:
        return a if a.bits >= b.bits else b
    u, s = (a, b) if not a.signed else (b, a)
    if u.bits >= s.bits:
        return u
    return s


def imul(a, b):
    c = [a[0] * b[0], a[0] * b[1], a[1] * b[0], a[1] * b[1]]
    return min(c), max(c)


class Translator:
    def __init__(self, env, tgt, consts=None, funcs=None):
        self.env, self.tgt = env, tgt
        self.mode = tgt.get("mode", "int")
        self.nat = self.mode == "nat"
        if self.mode not in ("int", "nat", "mixed"):
            fail(f"{tgt['func']}: unknown mode {self.mode}")
        self.consts = dict(consts or {})
        self.const_types = {}
        self.ptrvals = set()
        self.varrange = {}              # variable -> (lo, hi) known at this program point
        self.funcs = funcs or {}        # name -> FuncInfo of already translated functions
        self.vars = {}                  # visible variable -> CT
        self.defined = set()
        self.reads_first = []           # (variables that are inputs) in first-read order
        self.assigned = []
        self.mem = []                   # [(ast, varname)]
        self.tmp = 0
        self.local_structs = {}         # local struct variable -> struct type
        self.ptr_locals = set()         # declared pointer locals (aliases once assigned)
        self.oracle_log = []            # every use of an oracle, in order
        self.oracles_used = []          # extern (oracle) functions this function calls, directly or through callees
        self.read_log = []              # names of variables read, in order
        self.written = set()            # variables certainly assigned on the current path
        self.input_reads = set()        # variables read while possibly still holding their initial value
        self.aux = []                   # auxiliary (stage) definitions: (name, text)
        self.depth = 0                  # block nesting depth of the statement being translated
        self.aliases = {}               # local pointer alias -> AST it stands for
        self.mem_indexed = {}           # operand name -> loop variable it is indexed by
        self.loopvars = {}              # C loop variable -> Lean Nat variable bound by a search loop
        self.xmacros = {}               # macros kept as calls of Pixman.Gen.Combine32Macros
        self.uses_ok = []               # _ok conjuncts from calls: filled by statement translation

    # ---- helpers
    def natty(self, ty):
        """is a value of C type ty a Lean `Nat` (else `Int`)?  nat mode: always; int mode: never;
        mixed mode: unsigned types are `Nat`, signed types are `Int`"""
        if self.mode == "mixed":
            return not ty.signed
        return self.nat

    def ltype(self, ty):
        return "Nat" if self.natty(ty) else "Int"

    def lit(self, v, ty):
        if self.natty(ty):
            if v < 0:
                return f"NEGATIVE_CONSTANT_{-v}"       # fails the run if it survives into the output
            return str(v)
        return str(v) if v >= 0 else f"({v})"

    def konst(self, v, ty):
        return E(self.lit(v, ty), ty, const=v)

    def wrap_s(self, s, ty, src_nat=None):
        """text of the conversion (with wrap) of `s` to ty; src_nat: is `s` a Nat term (default: as ty)"""
        dst_nat = self.natty(ty)
        if src_nat is None:
            src_nat = dst_nat
        if dst_nat:
            if ty.signed:
                fail(f"{self.tgt['func']}: conversion to a signed type that may wrap, in nat mode")
            if src_nat:
                return f"{atom(s)} % {ty.mod}"
            return f"Int.toNat ({ty.wrapname()} {atom(s)})"
        if src_nat:
            return f"{ty.wrapname()} (Int.ofNat {atom(s)})"
        return f"{ty.wrapname()} {atom(s)}"

    def retype(self, e, ty):
        """value-preserving change of C type: adjust the Lean type of the text if it differs"""
        a, b = self.natty(e.ty), self.natty(ty)
        if a == b:
            return E(e.s, ty, e.lo, e.hi)
        if a:
            return E(f"Int.ofNat {atom(e.s)}", ty, e.lo, e.hi)
        return E(f"Int.toNat {atom(e.s)}", ty, e.lo, e.hi)

    def conv(self, e, ty, explicit=False):
        """value of e converted to ty.  explicit: assignment / cast / argument / return (C converts
        here, so a signed value that may have left its range is wrapped)"""
        if e.const is not None:
            return self.konst(ty.wrap(e.const), ty)
        s = e.ty
        if ty.lo <= e.lo and e.hi <= ty.hi and (e.inrange or not explicit):
            # representable: value unchanged
            return self.retype(e, ty)
        if not explicit and ty.signed and s.signed and s.bits <= ty.bits:
            # implicit widening of a signed operand inside an expression: exact arithmetic continues
            return self.retype(e, ty)
        if self.nat and ty.signed:
            if s.signed and s.bits <= ty.bits and e.lo >= 0:
                # exact signed arithmetic that may overflow (undefined in C): kept exact in nat mode
                return E(e.s, ty, e.lo, e.hi)
            fail(f"{self.tgt['func']}: value of type {s} may not fit {ty} (nat mode)")
        return E(self.wrap_s(e.s, ty, self.natty(s)), ty)

    # ---- variables
    def read_var(self, name):
        if name not in self.vars:
            fail(f"{self.tgt['func']}: unknown identifier {name}")
        if name not in self.defined:
            fail(f"{self.tgt['func']}: {name} is read before it is assigned")
        ty = self.vars[name]
        self.read_log.append(name)
        if name not in self.written:
            self.input_reads.add(name)
        if name in self.varrange:
            lo, hi = self.varrange[name]
            return E(lname(name), ty, max(lo, ty.lo), min(hi, ty.hi))
        if self.nat and ty.signed:
            return E(lname(name), ty, 0, ty.hi)
        return E(lname(name), ty)

    def subst(self, e):
        """replace local pointer aliases by what they stand for"""
        if not self.aliases or not isinstance(e, tuple) or not e or e[0] == "num":
            return e
        if e[0] == "id" and e[1] in self.aliases:
            return self.aliases[e[1]]
        return tuple(self.subst(x) if isinstance(x, tuple) else
                     ([self.subst(y) for y in x] if isinstance(x, list) else x) for x in e)

    def is_struct_var(self, n):
        return n in self.tgt.get("structs", {}) or n in self.local_structs

    def register_struct(self, nm, ty, defined):
        """member variables `nm_f` (scalars) and `nm_f_k` (1-D arrays of constant size) of a struct variable"""
        if not (isinstance(ty, tuple) and ty[0] == "struct"):
            fail(f"{self.tgt['func']}: {nm} is not a struct")
        body = self.env.structs.get(ty[1])
        if body is None:
            fail(f"{self.tgt['func']}: struct {ty[1]} has no visible definition")
        names = []
        for f, t in self.env.fields2(ty[1]).items():
            if t is None:
                continue
            fty, np, nd = t
            if np or not isinstance(fty, CT):
                continue
            if nd == 0:
                names.append(nm + "_" + f)
            elif nd == 1:
                m = re.search(r"\b" + re.escape(f) + r"\s*\[\s*(\d+)\s*\]", body)
                if not m or int(m.group(1)) > 16:
                    continue
                names += [f"{nm}_{f}_{k}" for k in range(int(m.group(1)))]
            else:
                continue
            for v in names:
                if v not in self.vars:
                    self.vars[v] = fty
                    if defined:
                        self.defined.add(v)
        return names

    def struct_members(self, nm):
        ty = self.local_structs.get(nm)
        if ty is None:
            ty = self.env.resolve([self.tgt["structs"][nm]])
        out = []
        body = self.env.structs.get(ty[1], "")
        for f, t in self.env.fields2(ty[1]).items():
            if t is None or t[1] or not isinstance(t[0], CT):
                continue
            if t[2] == 0:
                out.append(f)
            elif t[2] == 1:
                m = re.search(r"\b" + re.escape(f) + r"\s*\[\s*(\d+)\s*\]", body)
                if m and int(m.group(1)) <= 16:
                    out += [f"{f}_{k}" for k in range(int(m.group(1)))]
        return out

    def mem_lookup(self, e):
        for ast, nm in self.mem:
            if ast == e:
                return nm
        return None

    def lvalue(self, e):
        """C lvalue expression -> variable name"""
        e = self.subst(e)
        if e[0] == "id":
            if e[1] in self.vars:
                return e[1]
            fail(f"{self.tgt['func']}: unknown identifier {e[1]}")
        if e[0] == "deref" and e[1][0] == "id" and e[1][1] in self.tgt.get("out", {}):
            return e[1][1]
        if e[0] == "field" and e[1][0] == "id" and self.is_struct_var(e[1][1]):
            nm = e[1][1] + "_" + e[2]
            if nm not in self.vars:
                fail(f"{self.tgt['func']}: struct member {e[1][1]}.{e[2]} unknown")
            return nm
        if e[0] == "deref" and e[1][0] == "bin" and e[1][1] == "+" and e[1][2][0] == "field" and \
                e[1][2][1][0] == "id" and self.is_struct_var(e[1][2][1][1]) and e[1][3][0] == "num":
            nm = f"{e[1][2][1][1]}_{e[1][2][2]}_{e[1][3][1][0]}"
            if nm not in self.vars:
                fail(f"{self.tgt['func']}: struct array member {nm} unknown")
            return nm
        for ast, nm in self.mem:
            if ast == e:
                return nm
        fail(f"{self.tgt['func']}: unsupported lvalue / memory operand {e!r}")

    # ---- expressions (pure: no side effects allowed here)
    def ex(self, e):
        e = self.subst(e)
        k = e[0]
        if k == "lean_cond":
            return self.boolof(e[1])
        if k not in ("num", "id"):
            nm = self.mem_lookup(e)
            if nm is not None:
                if nm in self.mem_indexed:
                    lv = self.mem_indexed[nm]
                    if lv not in self.loopvars:
                        fail(f"{self.tgt['func']}: indexed operand {nm} used outside its search loop")
                    self.read_log.append(nm)
                    return E(f"{lname(nm)} {self.loopvars[lv]}", self.vars[nm])
                return self.read_var(nm)
        if k == "num":
            v, suf, nondec = e[1]
            u = "u" in suf
            l = "l" in suf
            cands = []
            if not l:
                cands += [INT] if not u else []
                cands += [UINT] if (u or nondec) else []
            cands += [LONG] if not u else []
            cands += [ULONG] if (u or nondec) else []
            for t in cands:
                if t.lo <= v <= t.hi:
                    return self.konst(v, t)
            fail(f"integer literal {v} too large")
        if k == "id":
            n = e[1]
            if n in self.loopvars:
                return E(f"Int.ofNat {self.loopvars[n]}" if not self.natty(INT) else self.loopvars[n], INT, 0, INT.hi)
            if n in self.ptrvals:
                fail(f"{self.tgt['func']}: pointer {n} used other than under an integer cast")
            if n in self.vars:
                return self.read_var(n)
            if n in self.consts:
                return self.konst(self.consts[n], self.const_types.get(n, INT))
            if n in self.env.enum_of:
                vals = self.env.enum_values(self.env.enum_of[n])
                return self.konst(vals[n], INT)
            fail(f"{self.tgt['func']}: unknown identifier {n}")
        if k in ("deref", "field"):
            return self.read_var(self.lvalue(e))
        if k == "sizeof":
            ty, nptr = e[1]
            if nptr:
                return self.konst(8, ULONG)
            if isinstance(ty, CT):
                return self.konst(ty.bits // 8, ULONG)
            fail("sizeof of a struct type")
        if k == "cast":
            ty, nptr = e[1]
            if nptr:
                inner = self.ex(e[2])
                return self.conv(inner, ULONG, explicit=True)
            if not isinstance(ty, CT):
                fail(f"{self.tgt['func']}: cast to a non-integer type")
            if e[2][0] == "id" and e[2][1] in self.ptrvals:
                return self.conv(E(lname(e[2][1]), ULONG), ty, explicit=True)
            return self.conv(self.ex(e[2]), ty, explicit=True)
        if k == "un":
            return self.unary(e[1], self.ex(e[2]))
        if k == "bin":
            if e[1] in ("&&", "||"):
                return self.boolval(e)
            if e[1] in ("<<", ">>"):
                return self.binary(e[1], self.ex(e[2]), self.ex_shift_count(e[3]))
            return self.binary(e[1], self.ex(e[2]), self.ex(e[3]))
        if k == "cond":
            a, b = self.ex(e[2]), self.ex(e[3])
            c = self.cond(e[1])
            if c in ("True", "False"):
                return a if c == "True" else b
            ty = common(a.ty, b.ty)
            a, b = self.conv(a, ty), self.conv(b, ty)
            return E(f"if {c} then {a.s} else {b.s}", ty, min(a.lo, b.lo), max(a.hi, b.hi))
        if k == "comma":
            fail(f"{self.tgt['func']}: comma operator inside an expression")
        if k == "call":
            return self.call_value(e)
        if k in ("assign", "preinc", "postinc"):
            fail(f"{self.tgt['func']}: side effect inside an expression ({k}) in a position that is not supported")
        fail(f"{self.tgt['func']}: expression form {k} not supported")

    def unary(self, op, a):
        if op == "!":
            return self.boolof(self.neg_cond(self.truth(a)))
        ty = promote(a.ty)
        a = self.conv(a, ty)
        if op == "+":
            return a
        if op == "-":
            if a.const is not None:
                v = -a.const
                if ty.signed:
                    if not ty.lo <= v <= ty.hi:
                        fail("constant negation overflows")
                    return self.konst(v, ty)
                return self.konst(ty.wrap(v), ty)
            if ty.signed:
                if self.natty(ty):
                    fail(f"{self.tgt['func']}: signed negation in nat mode")
                return E(f"-{atom(a.s)}", ty, -a.hi, -a.lo)
            if self.natty(ty):
                return E(f"({ty.mod} - {atom(a.s)}) % {ty.mod}", ty)
            return E(self.wrap_s(f"-{atom(a.s)}", ty), ty)
        if op == "~":
            if a.const is not None:
                return self.konst(ty.wrap(~a.const), ty)
            if ty.signed:
                if self.natty(ty):
                    fail(f"{self.tgt['func']}: ~ on a signed value in nat mode")
                return E(f"-{atom(a.s)} - 1", ty, -a.hi - 1, -a.lo - 1)
            return E(f"{ty.mod - 1} - {atom(a.s)}", ty)
        fail(f"unary {op}")

    def binary(self, op, a, b):
        if op in ("<<", ">>"):
            return self.shift(op, a, b)
        if op in ("==", "!=", "<", ">", "<=", ">="):
            return self.boolof(self.compare(op, a, b))
        ty = common(a.ty, b.ty)
        a, b = self.conv(a, ty), self.conv(b, ty)
        A, B = atom(a.s), atom(b.s)
        if a.const is not None and b.const is not None:
            return self.fold(op, a.const, b.const, ty)
        if op in ("+", "-", "*"):
            if op == "+":
                lo, hi = a.lo + b.lo, a.hi + b.hi
            elif op == "-":
                lo, hi = a.lo - b.hi, a.hi - b.lo
            else:
                lo, hi = imul((a.lo, a.hi), (b.lo, b.hi))
            if ty.signed:
                if self.natty(ty) and op == "-" and lo < 0:
                    if getattr(self, "in_shift_count", False):
                        # a negative shift count is undefined in C: truncated subtraction
                        return E(f"{A} - {B}", ty, 0, max(hi, 0))
                    fail(f"{self.tgt['func']}: signed subtraction that may be negative, in nat mode")
                return E(f"{A} {op} {B}", ty, lo, hi)
            if self.natty(ty):
                if op == "-":
                    return E(f"({A} + {ty.mod} - {B} % {ty.mod}) % {ty.mod}", ty)
                return E(f"({A} {op} {B}) % {ty.mod}", ty)
            return E(self.wrap_s(f"{A} {op} {B}", ty), ty)
        if op in ("/", "%"):
            if b.const == 0:
                fail("division by the constant 0")
            nonneg = a.lo >= 0 and b.lo >= 0
            if op == "/":
                rng = (0, a.hi) if nonneg else (None, None)
            else:
                rng = (0, min(a.hi, b.hi - 1) if b.hi > 0 else 0) if nonneg else (None, None)
            if nonneg or self.natty(ty):
                if not nonneg:
                    fail(f"{self.tgt['func']}: signed division in nat mode")
                return E(f"{A} {op} {B}", ty, *rng)
            fn = "Int.tdiv" if op == "/" else "Int.tmod"
            if op == "%" and b.lo > 0:
                return E(f"{fn} {A} {B}", ty, -(b.hi - 1), b.hi - 1)
            return E(f"{fn} {A} {B}", ty, ty.lo, ty.hi + (1 if op == "/" else 0))
        if op in ("&", "|", "^"):
            return self.bitop(op, a, b, ty)
        fail(f"binary {op}")

    def fold(self, op, x, y, ty):
        if op == "+":
            v = x + y
        elif op == "-":
            v = x - y
        elif op == "*":
            v = x * y
        elif op in ("/", "%"):
            if y == 0:
                fail("constant division by zero")
            q = abs(x) // abs(y)
            if (x < 0) != (y < 0):
                q = -q
            v = q if op == "/" else x - q * y
        elif op == "&":
            v = x & y
        elif op == "|":
            v = x | y
        elif op == "^":
            v = x ^ y
        else:
            fail(f"fold {op}")
        if ty.signed:
            if not ty.lo <= v <= ty.hi:
                fail(f"constant expression overflows {ty}")
            return self.konst(v, ty)
        return self.konst(ty.wrap(v), ty)

    def bitop(self, op, a, b, ty):
        A, B = atom(a.s), atom(b.s)
        natop = {"&": "&&&", "|": "|||", "^": "^^^"}[op]
        nonneg = a.lo >= 0 and b.lo >= 0
        if op == "&":
            for x, y in ((a, b), (b, a)):
                if y.const is not None and y.const >= 0 and (y.const & (y.const + 1)) == 0 and not self.natty(ty):
                    # x & (2^k - 1)  =  x mod 2^k   (two's complement, any sign of x)
                    return E(f"{atom(x.s)} % {y.const + 1}", ty, 0, y.const)
        if op == "&" and not self.natty(ty):
            for x, y in ((a, b), (b, a)):
                if y.const is not None:
                    low = (-y.const) if ty.signed else (ty.mod - y.const)
                    if low > 1 and (low & (low - 1)) == 0 and low <= ty.hi:
                        # x & ~(2^k - 1)  =  x - x mod 2^k   (two's complement, any sign of x)
                        xs = x if x.inrange else E(self.wrap_s(x.s, ty), ty)
                        return E(f"{atom(xs.s)} - {atom(xs.s)} % {low}", ty, xs.lo - (xs.lo % low), xs.hi)
        if nonneg:
            if op == "&":
                hi = min(a.hi, b.hi)
            else:
                hi = (1 << max(a.hi.bit_length(), b.hi.bit_length())) - 1
            if self.natty(ty):
                return E(f"{A} {natop} {B}", ty, 0, hi)
            fn = {"&": "band", "|": "bor", "^": "bxor"}[op]
            return E(f"{fn} {A} {B}", ty, 0, hi)
        if self.natty(ty):
            fail(f"{self.tgt['func']}: bitwise operator on a possibly negative value in nat mode")
        if not ty.signed:
            fail("internal: unsigned operand with negative range")
        if not (a.inrange and b.inrange):
            # operands are exact signed results that may have left the type: wrap first (C would be UB)
            a, b = E(self.wrap_s(a.s, ty), ty), E(self.wrap_s(b.s, ty), ty)
            A, B = atom(a.s), atom(b.s)
        fn = {"&": "sband", "|": "sbor", "^": "sbxor"}[op]
        if op == "&" and (a.lo >= 0 or b.lo >= 0):
            return E(f"{fn} {A} {B}", ty, 0, a.hi if a.lo >= 0 else b.hi)
        return E(f"{fn} {A} {B}", ty)

    def ex_shift_count(self, e):
        self.in_shift_count = True
        try:
            return self.ex(e)
        finally:
            self.in_shift_count = False

    def shift(self, op, a, b):
        ty = promote(a.ty)
        a = self.conv(a, ty)
        b = self.conv(b, promote(b.ty))
        A = atom(a.s)
        if b.const is not None:
            k = b.const
            if not 0 <= k < ty.bits:
                fail(f"shift count {k} out of range for {ty}")
            if a.const is not None:
                v = a.const << k if op == "<<" else a.const >> k
                if ty.signed:
                    if not ty.lo <= v <= ty.hi:
                        fail("constant shift overflows")
                    return self.konst(v, ty)
                return self.konst(ty.wrap(v), ty)
            if self.natty(ty):
                if op == ">>":
                    return E(f"{A} >>> {k}", ty, a.lo >> k, a.hi >> k)
                if ty.signed:
                    return E(f"{A} <<< {k}", ty, a.lo << k, a.hi << k)
                return E(f"({A} <<< {k}) % {ty.mod}", ty)
            p = 1 << k
            if op == ">>":
                return E(f"{A} / {p}", ty, a.lo >> k, a.hi >> k)
            if ty.signed:
                return E(f"{A} * {p}", ty, a.lo << k, a.hi << k)
            return E(self.wrap_s(f"{A} * {p}", ty), ty)
        # variable count
        if b.lo < 0 and self.nat:
            fail(f"{self.tgt['func']}: shift count may be negative (nat mode)")
        cnt = atom(b.s) if self.natty(b.ty) else f"({b.s}).toNat"
        if self.natty(ty):
            if op == ">>":
                return E(f"{A} >>> {cnt}", ty, 0, a.hi)
            if ty.signed:
                return E(f"{A} <<< {cnt}", ty, a.lo, a.hi << min(b.hi, 64))
            return E(f"({A} <<< {cnt}) % {ty.mod}", ty)
        pw = f"2 ^ {cnt}"
        if op == ">>":
            lo = min(a.lo, 0) if a.lo < 0 else 0
            return E(f"{A} / {pw}", ty, min(a.lo, 0), max(a.hi, 0))
        if ty.signed:
            m = 1 << max(0, min(b.hi, 64))
            return E(f"{A} * {pw}", ty, min(a.lo * m, a.lo, 0), max(a.hi * m, a.hi, 0))
        return E(self.wrap_s(f"{A} * {pw}", ty), ty)

    # ---- conditions: Lean `Prop` text (decidable), or the literals "True"/"False"
    def compare(self, op, a, b):
        ty = common(a.ty, b.ty)
        a, b = self.conv(a, ty), self.conv(b, ty)
        if a.const is not None and b.const is not None:
            r = {"==": a.const == b.const, "!=": a.const != b.const, "<": a.const < b.const,
                 ">": a.const > b.const, "<=": a.const <= b.const, ">=": a.const >= b.const}[op]
            return "True" if r else "False"
        if op in ("==", "!="):
            # (comparison result) == 0/1
            for x, y in ((a, b), (b, a)):
                m = re.fullmatch(r"if (.*) then 1 else 0", x.s)
                if m and " then " not in m.group(1) and y.const in (0, 1):
                    pos = (y.const == 1) == (op == "==")
                    return m.group(1) if pos else self.neg_cond(m.group(1))
        lop = {"==": "=", "!=": "≠", "<": "<", ">": ">", "<=": "≤", ">=": "≥"}[op]
        return f"{a.s} {lop} {b.s}"

    def truth(self, a):
        if a.const is not None:
            return "True" if a.const != 0 else "False"
        m = re.fullmatch(r"if (.*) then 1 else 0", a.s)
        if m and " then " not in m.group(1):
            return m.group(1)
        return f"{a.s} ≠ 0"

    def neg_cond(self, c):
        if c == "True":
            return "False"
        if c == "False":
            return "True"
        m = re.fullmatch(r"(.*) ≠ (\S+)", c)
        if m and balanced(m.group(1)) and " then " not in c and "∧" not in c and "∨" not in c:
            return f"{m.group(1)} = {m.group(2)}"
        return f"¬({c})"

    def boolof(self, c):
        if c == "True":
            return self.konst(1, INT)
        if c == "False":
            return self.konst(0, INT)
        return E(f"if {c} then 1 else 0", INT, 0, 1)

    def cond(self, e):
        """C expression used as a condition -> Prop text"""
        e = self.subst(e)
        if e[0] == "lean_cond":
            return e[1]
        if e[0] == "call" and e[1] == "__builtin_expect" and len(e[2]) == 2 and not side_effect(e[2][1]):
            return self.cond(e[2][0])
        if self.mem_lookup(e) is not None:
            return self.truth(self.ex(e))
        if e[0] == "bin" and e[1] in ("&&", "||"):
            a, b = self.cond(e[2]), self.cond(e[3])
            if e[1] == "&&":
                if a == "False" or b == "False":
                    return "False"
                if a == "True":
                    return b
                if b == "True":
                    return a
                return f"({a}) ∧ ({b})"
            if a == "True":
                return "True"
            if a == "False":
                return b
            if b == "False":
                return a
            if b == "True":
                return "True"
            return f"({a}) ∨ ({b})"
        if e[0] == "un" and e[1] == "!":
            return self.neg_cond(self.cond(e[2]))
        if e[0] == "bin" and e[1] in ("==", "!=", "<", ">", "<=", ">="):
            return self.compare(e[1], self.ex(e[2]), self.ex(e[3]))
        if e[0] == "id" and e[1] in self.tgt.get("nonnull", []):
            return "True"
        if e[0] == "id" and e[1] in self.tgt.get("null", []):
            return "False"
        if e[0] == "id" and e[1] in self.ptrvals:
            return f"{lname(e[1])} ≠ 0"
        return self.truth(self.ex(e))

    def boolval(self, e):
        return self.boolof(self.cond(e))

    def xmacro_args(self, name, args):
        params, inputs, outputs, is_stmt = self.xmacros[name]
        if len(args) != len(params):
            fail(f"{self.tgt['func']}: macro {name} used with {len(args)} arguments")
        amap = dict(zip(params, args))
        outs = []
        for o in outputs:
            outs.append(self.lvalue(amap[o]))
            if self.vars[outs[-1]] != UINT:
                fail(f"{self.tgt['func']}: {name} assigns {outs[-1]}, which is not a uint32_t")
            for q in params:
                if q != o and q in inputs + outputs and mentions(amap[q], amap[o]):
                    fail(f"{self.tgt['func']}: {name}: assigned argument also occurs in another argument")
        ins = []
        for q in inputs:
            if side_effect(amap[q]):
                fail(f"{self.tgt['func']}: side effect in a macro argument")
            ins.append(atom(self.conv(self.ex(amap[q]), UINT, explicit=True).s))
        return ins, outs

    def call_value(self, e):
        name, args = e[1], e[2]
        if name in self.xmacros:
            if not self.natty(UINT):
                fail(f"{self.tgt['func']}: combine32 macros are available in nat / mixed mode only")
            if self.xmacros[name][3]:
                fail(f"{self.tgt['func']}: statement macro {name} used as a value")
            ins, _ = self.xmacro_args(name, args)
            return E(f"Combine32Macros.{name} " + " ".join(ins), UINT)
        name = self.tgt.get("calls", {}).get(name, name)
        if name not in self.funcs:
            fail(f"{self.tgt['func']}: call of {name}, which is not a translated function")
        fi = self.funcs[name]
        if fi.outs:
            fail(f"{self.tgt['func']}: {name} has out-parameters; call it as a statement `x = {name} (...)`")
        self.check_callee_types(fi)
        if fi.ret is None:
            fail(f"{self.tgt['func']}: value of void function {name}")
        s = self.call_text(fi, args, {})
        return E(s, fi.ret)

    def check_callee_types(self, fi):
        """a call is possible when callee and caller give every argument/result the same Lean type"""
        if fi.mode == self.mode:
            return
        for v, lt in fi.ltypes.items():
            ct = fi.input_types.get(v) or fi.out_types.get(v)
            if ct is not None and self.ltype(ct) != lt:
                fail(f"{self.tgt['func']}: {fi.cname} ({fi.mode} mode) has {v} : {lt}; the caller ({self.mode} mode) needs {self.ltype(ct)}")
        if fi.ret_ltype is not None and isinstance(fi.ret, CT) and self.ltype(fi.ret) != fi.ret_ltype:
            fail(f"{self.tgt['func']}: {fi.cname} returns a {fi.ret_ltype}; the caller needs {self.ltype(fi.ret)}")

    def call_text(self, fi, args, outmap):
        """Lean application text; outmap receives out-parameter -> caller variable"""
        if len(args) != len(fi.cparams):
            fail(f"{self.tgt['func']}: {fi.cname} called with {len(args)} arguments")
        vals = {}
        for (pn, pk, pt), a in zip(fi.cparams, args):
            if pk == "val":
                vals[pn] = atom(self.conv(self.ex(a), pt, explicit=True).s)
            elif pk in ("out", "inout"):
                if a[0] != "addr":
                    fail(f"{self.tgt['func']}: argument for out-parameter {pn} of {fi.cname} must be &variable")
                v = self.lvalue(a[1])
                if self.vars[v] != pt:
                    fail(f"{self.tgt['func']}: &{v} has type {self.vars[v]}, {fi.cname} expects {pt}")
                outmap[pn] = v
                if pk == "inout":
                    vals[pn] = atom(self.read_var(v).s)
            elif pk == "in":
                if a[0] != "addr":
                    fail(f"{self.tgt['func']}: argument for pointer parameter {pn} of {fi.cname} must be &variable")
                vals[pn] = atom(self.conv(self.read_var(self.lvalue(a[1])), pt, explicit=True).s)
            elif pk == "drop":
                if fi.mem and a != ("id", pn):
                    fail(f"{self.tgt['func']}: {fi.cname} reads memory through {pn}; the argument must be the caller's {pn}")
            elif pk == "const":
                c = self.ex(a)
                if c.const is None or pt.wrap(c.const) != fi.consts[pn]:
                    fail(f"{self.tgt['func']}: {fi.cname} is specialised to {pn} = {fi.consts[pn]}; argument differs")
            elif pk == "struct":
                base = a[1] if a[0] == "id" else (a[1][1] if a[0] == "addr" and a[1][0] == "id" else None)
                if base is None or not self.is_struct_var(base):
                    fail(f"{self.tgt['func']}: struct argument for {pn} of {fi.cname} must be a struct variable or its address")
                pre = pn + "_"
                for i in fi.inputs:
                    if i.startswith(pre):
                        cv = base + "_" + i[len(pre):]
                        if cv in self.vars and cv not in self.defined and base in self.local_structs:
                            # uninitialised member of a local struct passed by address: the callee can only hand the
                            # indeterminate value back (reading it would be undefined in C): 0 stands for it
                            vals[i] = "0"
                        else:
                            vals[i] = atom(self.conv(self.read_var(cv), fi.input_types[i], explicit=True).s)
                for o in fi.outs:
                    if o.startswith(pre) and o not in fi.param_outs:
                        outmap[o] = base + "_" + o[len(pre):]
                        if outmap[o] not in self.vars:
                            fail(f"{self.tgt['func']}: no member {outmap[o]}")
                        if self.vars[outmap[o]] != fi.out_types[o]:
                            fail(f"{self.tgt['func']}: member {outmap[o]} has another type than {fi.cname} stores")
            elif pk == "same":
                if a != ("id", pt):
                    fail(f"{self.tgt['func']}: {fi.cname} stands for the call with {pn} = {pt}; argument differs")
            else:
                fail(f"{self.tgt['func']}: cannot pass parameter {pn} of {fi.cname} (kind {pk})")
        for i in fi.inputs:
            if i in fi.mem:
                # memory operand of the callee = the caller's memory operand of the same name
                if i not in [nm for _, nm in self.mem]:
                    fail(f"{self.tgt['func']}: {fi.cname} reads memory operand {i}, unknown to the caller")
                vals[i] = atom(self.read_var(i).s)
        for o in fi.oracles:
            vals[o] = o
            self.oracle_log.append(o)
            if o not in self.oracles_used:
                self.oracles_used.append(o)
        if fi.is_oracle:
            self.oracle_log.append(fi.lean)
            if fi.lean not in self.oracles_used:
                self.oracles_used.append(fi.lean)
        ins = [vals[i] for i in fi.inputs]
        if fi.has_ok:
            self.uses_ok.append(f"{fi.lean}_ok " + " ".join(ins))
        return f"{fi.lean} " + " ".join(ins)


class FuncInfo:
    def __init__(self):
        self.cname = self.lean = None
        self.mode = "int"
        self.cparams = []     # (name, kind, type)   kind: val | out | inout | struct | drop
        self.inputs = []      # names of Lean arguments, in order
        self.input_types = {}
        self.outs = []        # names of extra results (after the return value)
        self.out_types = {}
        self.ret = None
        self.has_ok = False
        self.ltypes = {}
        self.ret_ltype = None
        self.text = ""
        self.consts = {}
        self.param_outs = []
        self.mem = []
        self.oracles = []          # oracle parameters (names) this function takes
        self.is_oracle = False
        self.otype = None          # Lean type of an oracle


# =============================================================================== statements
def contains_exit(st, ok_mode):
    k = st[0]
    if k == "return":
        return True
    if k == "assert":
        return ok_mode
    if k == "block":
        return any(contains_exit(s, ok_mode) for s in st[1])
    if k == "if":
        return contains_exit(st[2], ok_mode) or (st[3] is not None and contains_exit(st[3], ok_mode))
    if k in ("while", "for"):
        return contains_exit(st[-1], ok_mode)
    if k == "switch":
        return any(contains_exit(x, ok_mode) for x in st[2] if x[0] not in ("case", "default"))
    return False


def is_const_expr(e):
    if not isinstance(e, tuple) or not e:
        return True
    if e[0] in ("id", "call", "deref", "field", "assign", "preinc", "postinc", "addr"):
        return False
    if e[0] == "num":
        return True
    return all(is_const_expr(x) for x in e[1:] if isinstance(x, tuple))


def always_exits(st):
    if st is None:
        return False
    if st[0] == "return":
        return True
    if st[0] == "block":
        return bool(st[1]) and always_exits(st[1][-1])
    if st[0] == "if":
        return always_exits(st[2]) and always_exits(st[3])
    return False


def is_empty(st):
    return st is None or (st[0] == "block" and all(is_empty(x) for x in st[1]))


def tailret(st, var, codes):
    """st with every `return <constant>` in tail position replaced by `var = <code>`; None if st has a
    return elsewhere (or of a non-constant)"""
    if st is None:
        return ("block", [])
    k = st[0]
    if k == "return":
        if st[1] is None or not is_const_expr(st[1]):
            return None
        codes.append(st[1])
        return ("expr", ("assign", "=", ("id", var), ("num", (len(codes), "", False))))
    if k == "block":
        if not st[1]:
            return st
        if any(contains_exit(x, False) for x in st[1][:-1]):
            return None
        last = tailret(st[1][-1], var, codes)
        return None if last is None else ("block", st[1][:-1] + [last])
    if k == "if":
        a = tailret(st[2], var, codes)
        b = tailret(st[3], var, codes)
        return None if a is None or b is None else ("if", st[1], a, b)
    return None if contains_exit(st, False) else st


def has_break(st):
    """does st contain a `break` that belongs to an enclosing switch (loops keep their own)"""
    k = st[0]
    if k == "break":
        return True
    if k == "block":
        return any(has_break(x) for x in st[1])
    if k == "if":
        return has_break(st[2]) or (st[3] is not None and has_break(st[3]))
    return False


def debreak(stmts, fn):
    """statement list of a switch case up to its `break`; `if (c) break; REST` becomes
    `if (c) {} else { REST }`; any other nested break fails closed"""
    out = []
    for i, st in enumerate(stmts):
        if st[0] == "break":
            return out
        if st[0] == "if" and st[3] is None and (st[2] == ("break",) or st[2] == ("block", [("break",)])):
            out.append(("if", st[1], ("block", []), ("block", debreak(stmts[i + 1:], fn))))
            return out
        if has_break(st):
            fail(f"{fn}: `break` nested inside a switch case in an unsupported position")
        out.append(st)
    return out


def desugar_switch(st, swvar, fn):
    items = st[2]
    if items and items[0][0] not in ("case", "default"):
        fail(f"{fn}: statements before the first case label")
    groups, i = [], 0
    while i < len(items):
        if items[i][0] in ("case", "default"):
            labels = []
            while i < len(items) and items[i][0] in ("case", "default"):
                labels.append(items[i])
                i += 1
            groups.append((labels, i))
        else:
            i += 1
    default_body, chain = None, []
    for labels, start in groups:
        body = debreak([x for x in items[start:] if x[0] not in ("case", "default")], fn)
        if any(l[0] == "default" for l in labels):
            if default_body is not None:
                fail(f"{fn}: two default labels")
            default_body = body
            continue
        c = None
        for l in labels:
            t = ("bin", "==", ("id", swvar), l[1])
            c = t if c is None else ("bin", "||", c, t)
        chain.append((c, body))
    node = ("block", default_body if default_body is not None else [])
    for c, body in reversed(chain):
        node = ("if", c, ("block", body), node)
    return node


def has_call(e, names):
    if not isinstance(e, tuple):
        return False
    if e and e[0] == "call" and e[1] in names:
        return True
    return any(has_call(x, names) for x in e if isinstance(x, (tuple, list))) or \
        any(has_call(y, names) for x in e if isinstance(x, list) for y in x)


def has_any_call(e):
    if not isinstance(e, tuple) or not e or e[0] == "num":
        return False
    if e[0] == "call":
        return True
    return any(has_any_call(x) for x in e[1:] if isinstance(x, tuple)) or \
        any(has_any_call(y) for x in e[1:] if isinstance(x, list) for y in x)


def side_effect(e):
    if not isinstance(e, tuple) or not e:
        return False
    if e[0] in ("assign", "preinc", "postinc"):
        return True
    if e[0] == "num":
        return False
    for x in e[1:]:
        if isinstance(x, tuple) and side_effect(x):
            return True
        if isinstance(x, list) and any(side_effect(y) for y in x):
            return True
    return False


def mentions(e, e2):
    """does AST e contain sub-AST e2"""
    if e == e2:
        return True
    if not isinstance(e, tuple):
        return False
    for x in e[1:]:
        if isinstance(x, tuple) and mentions(x, e2):
            return True
        if isinstance(x, list) and any(mentions(y, e2) for y in x):
            return True
    return False


def peep(t):
    """`let v := X` newline `v`  ->  `X`"""
    m = re.fullmatch(r"let (\w+) := ([^\n]*)\n\1", t)
    return m.group(2) if m else t


class Body:
    """translation of a statement list into a Lean term, continuation style"""

    def __init__(self, tr, ok_mode, ret_text):
        self.tr, self.ok, self.ret_text = tr, ok_mode, ret_text
        self.okfuncs = {n for n, f in tr.funcs.items() if f.has_ok}

    def ind(self, s, n=2):
        pad = " " * n
        return "\n".join(pad + l if l else l for l in s.split("\n"))

    def assigned_in(self, st, acc):
        """outer variables possibly assigned by statement st (names), in order"""
        k = st[0]
        tr = self.tr

        def walk_e(e):
            if not isinstance(e, tuple) or not e:
                return
            if e[0] == "assign":
                walk_e(e[3])
                add(lv(e[2]))
                return
            if e[0] in ("preinc", "postinc"):
                add(lv(e[2]))
                return
            if e[0] == "call" and e[1] in tr.xmacros:
                params, inputs, outputs, _ = tr.xmacros[e[1]]
                for q, a in zip(params, e[2]):
                    if q in outputs:
                        add(lv(a))
                return
            if e[0] == "call" and tr.tgt.get("calls", {}).get(e[1], e[1]) in tr.funcs:
                for (pn, pk, pt), a in zip(tr.funcs[tr.tgt.get("calls", {}).get(e[1], e[1])].cparams, e[2]):
                    if pk in ("out", "inout") and a[0] == "addr":
                        add(lv(a[1]))
                    else:
                        walk_e(a)
                return
            if e[0] == "num":
                return
            for x in e[1:]:
                if isinstance(x, tuple):
                    walk_e(x)
                elif isinstance(x, list):
                    for y in x:
                        walk_e(y)

        def lv(e):
            if e[0] == "id" and (e[1] in self._local or e[1] in tr.ptr_locals or e[1] in tr.aliases):
                return None
            if e[0] == "id" and e[1] in tr.local_structs:
                for f in tr.struct_members(e[1]):
                    add(f"{e[1]}_{f}")
                return None
            return tr.lvalue(e)

        def add(v):
            if v is not None and v not in acc and v not in self._local:
                acc.append(v)
        if k == "decl":
            self._local.add(st[2])
            if st[3] is not None:
                walk_e(st[3])
        elif k == "expr":
            walk_e(st[1])
        elif k == "block":
            saved = set(self._local)
            for s in st[1]:
                self.assigned_in(s, acc)
            self._local = saved
        elif k == "if":
            walk_e(st[1])
            self.assigned_in(st[2], acc)
            if st[3] is not None:
                self.assigned_in(st[3], acc)
        elif k == "while":
            walk_e(st[1])
            self.assigned_in(st[2], acc)
        elif k == "for":
            for x in st[1:4]:
                if x is not None:
                    walk_e(x)
            self.assigned_in(st[4], acc)
        elif k == "switch":
            walk_e(st[1])
            saved = set(self._local)
            for x in st[2]:
                if x[0] not in ("case", "default"):
                    self.assigned_in(x, acc)
            self._local = saved
        elif k in ("return", "assert", "break"):
            pass
        else:
            fail(f"{tr.tgt['func']}: statement {k} not supported here")

    def cheap_cont(self, rest, k):
        """is the continuation (rest; k) cheap to duplicate: nothing but building the result"""
        return (not rest and getattr(k, "cheap", False)) or \
               (len(rest) == 1 and rest[0][0] == "return" and not self.ok and
                (rest[0][1] is None or not has_any_call(rest[0][1])))

    # ---- the core: translate stmts then continue with k()
    def seq(self, stmts, k):
        if not stmts:
            return k()
        st, rest = stmts[0], stmts[1:]
        tr = self.tr
        kind = st[0]
        fn = tr.tgt["func"]
        if kind == "block":
            saved_vars = dict(tr.vars)
            saved_ls = (dict(tr.local_structs), set(tr.ptr_locals))
            saved_alias = dict(tr.aliases)
            inner = st[1]
            tr.depth += 1
            my_depth = tr.depth

            def after():
                # leave scope: forget block-local declarations
                for v in list(tr.vars):
                    if v not in saved_vars:
                        del tr.vars[v]
                        tr.defined.discard(v)
                        tr.varrange.pop(v, None)
                tr.aliases = dict(saved_alias)
                tr.local_structs, tr.ptr_locals = dict(saved_ls[0]), set(saved_ls[1])
                tr.depth = my_depth - 1
                return self.seq(rest, k)
            after.cheap = self.cheap_cont(rest, k)
            return self.seq(inner, after)
        if kind == "decl":
            (ty, nptr), nm, init = st[1], st[2], st[3]
            if nptr and init is not None and not side_effect(init):
                # local pointer initialised with an lvalue: an alias for that access path
                if nm in tr.vars or nm in tr.aliases:
                    fail(f"{fn}: local {nm} shadows another variable")
                tr.aliases[nm] = tr.subst(init)
                return self.seq(rest, k)
            if nptr and init is None:
                # pointer local: becomes an alias when it is assigned an access path
                if nm in tr.vars or nm in tr.aliases or nm in tr.ptr_locals:
                    fail(f"{fn}: local {nm} shadows another variable")
                tr.ptr_locals.add(nm)
                return self.seq(rest, k)
            if not nptr and isinstance(ty, tuple) and ty[0] == "struct" and init is None:
                if tr.is_struct_var(nm) or nm in tr.vars:
                    fail(f"{fn}: local {nm} shadows another variable")
                tr.local_structs[nm] = ty
                tr.register_struct(nm, ty, defined=False)
                return self.seq(rest, k)
            if nptr or not isinstance(ty, CT):
                fail(f"{fn}: declaration of {nm}: only integer locals are supported")
            if nm in tr.vars:
                fail(f"{fn}: local {nm} shadows another variable")
            if tr.nat and ty.signed:
                tr.signed_locals = getattr(tr, "signed_locals", set()) | {nm}
            tr.vars[nm] = ty
            if init is None:
                return self.seq(rest, k)
            return self.seq([("expr", ("assign", "=", ("id", nm), init))] + rest, k)
        if kind == "expr":
            return self.expr_stmt(st[1], rest, k)
        if kind == "return":
            if self.ok:
                return "true"
            if tr.ret == "malloc":
                r = st[1]
                if r == ("cast", (("void",), 1), ("num", (0, "", False))):
                    return self.ret_text(["0", "0"])
                if r is not None and r[0] == "call" and r[1] == "malloc" and len(r[2]) == 1 and not side_effect(r[2][0]):
                    v = tr.conv(tr.ex(r[2][0]), ULONG, explicit=True)
                    return self.ret_text(["1", v.s])
                fail(f"{fn}: return value is neither NULL nor malloc (n)")
            if st[1] is None:
                if tr.ret is not None:
                    fail(f"{fn}: `return;` in a non-void function")
                return self.ret_text(None)
            if tr.ret is None:
                fail(f"{fn}: return with a value in a void function")
            if side_effect(st[1]):
                fail(f"{fn}: side effect in a return expression")
            pre = self.call_prefix(st[1])
            v = tr.conv(tr.ex(st[1]), tr.ret, explicit=True)
            return pre + self.ret_text(v.s)
        if kind == "assert":
            if not self.ok:
                return self.seq(rest, k)
            c = tr.cond(st[1])
            r = self.seq(rest, k)
            if c == "True":
                return r
            if r == "true":
                return f"decide ({c})"
            return f"decide ({c}) &&\n{r}"
        if kind == "if":
            return self.if_stmt(st, rest, k)
        if kind == "while":
            return self.while_stmt(st, rest, k)
        if kind == "switch":
            if side_effect(st[1]):
                fail(f"{fn}: side effect in a switch expression")
            tr.tmp += 1
            sw = f"sw{tr.tmp}"
            ty = promote(tr.ex(st[1]).ty)
            chain = desugar_switch(st, sw, fn)
            return self.seq([("decl", (ty, 0), sw, st[1]), chain] + rest, k)
        if kind == "break":
            fail(f"{fn}: `break` outside a supported position")
        if kind == "for" and tr.tgt.get("unroll"):
            init, c, step, body = st[1], st[2], st[3], st[4]
            z = ("num", (0, "", False))
            okh = init is not None and init[0] == "assign" and init[1] == "=" and init[2][0] == "id" and init[3] == z
            iv = init[2][1] if okh else None
            okh = okh and c is not None and c[0] == "bin" and c[1] == "<" and c[2] == ("id", iv) and c[3][0] == "num" and \
                step in (("preinc", "+", ("id", iv)), ("postinc", "+", ("id", iv)))
            if not okh or iv not in tr.vars or not 0 < c[3][1][0] <= 16:
                fail(f"{fn}: for loop cannot be unrolled")
            if has_break(body):
                fail(f"{fn}: break in an unrolled loop")

            def inst(e, kk):
                if e == ("id", iv):
                    return ("num", (kk, "", False))
                if isinstance(e, tuple):
                    if e and e[0] in ("assign", "preinc", "postinc") and e[2] == ("id", iv):
                        fail(f"{fn}: the loop variable is assigned in the body")
                    return tuple(inst(x, kk) if isinstance(x, tuple) else
                                 ([inst(y, kk) for y in x] if isinstance(x, list) else x) for x in e)
                return e
            copies = [("block", [inst(body, kk)]) for kk in range(c[3][1][0])]
            tr.defined.discard(iv)
            return self.seq(copies + rest, k)
        if kind == "for" and not tr.tgt.get("loop"):
            # search loop: `for (i = 0; i < N; ++i) if (C(i)) { S; break; }`  =  `if (exists i < N, C(i)) S`
            init, c, step, body = st[1], st[2], st[3], st[4]
            while body[0] == "block" and len(body[1]) == 1:
                body = body[1][0]
            z = ("num", (0, "", False))
            okh = init is not None and init[0] == "assign" and init[1] == "=" and init[2][0] == "id" and init[3] == z
            iv = init[2][1] if okh else None
            okh = okh and c is not None and c[0] == "bin" and c[1] == "<" and c[2] == ("id", iv) and \
                step in (("preinc", "+", ("id", iv)), ("postinc", "+", ("id", iv)))
            if not okh or iv not in tr.vars or tr.vars[iv] != INT:
                fail(f"{fn}: for loop is not a supported search loop")
            if not (body[0] == "if" and body[3] is None and body[2][0] == "block" and body[2][1] and
                    body[2][1][-1] == ("break",) and not any(has_break(x) for x in body[2][1][:-1])):
                fail(f"{fn}: for loop is not a supported search loop")
            S = body[2][1][:-1]
            if side_effect(c[3]) or side_effect(body[1]) or mentions(c[3], ("id", iv)) or \
                    any(mentions(x, ("id", iv)) for x in S):
                fail(f"{fn}: for loop is not a supported search loop")
            bound = tr.conv(tr.ex(c[3]), INT)
            bnd = bound.s if not tr.natty(INT) else f"Int.ofNat {atom(bound.s)}"
            lv = iv + "_n"
            tr.loopvars[iv] = lv
            try:
                ctext = tr.cond(body[1])
            finally:
                del tr.loopvars[iv]
            tr.defined.discard(iv)
            lc = ("lean_cond", f"anyBelow {atom(bnd)} (fun {lv} => decide ({ctext})) = true")
            return self.seq([("if", lc, ("block", S), None)] + rest, k)
        if kind == "for":
            # `for (i = 0; i < width; ++i) BODY` over independent pixels: translate BODY, with the
            # memory operands of the target's `mem` map as variables
            lp = tr.tgt.get("loop")
            if not lp:
                fail(f"{fn}: for loop in a target without a `loop` description")
            iv, bound = lp
            init, c, step, body = st[1], st[2], st[3], st[4]
            z = ("num", (0, "", False))
            if init != ("assign", "=", ("id", iv), z) or c != ("bin", "<", ("id", iv), ("id", bound)) or \
                    step not in (("preinc", "+", ("id", iv)), ("postinc", "+", ("id", iv))):
                fail(f"{fn}: loop header is not `for ({iv} = 0; {iv} < {bound}; ++{iv})`")
            if rest or getattr(tr, "seen_loop", False):
                fail(f"{fn}: statements after the pixel loop / a second loop")
            tr.seen_loop = True
            if tr.assigned:
                fail(f"{fn}: state assigned before the pixel loop")
            return self.seq([body], k)
        fail(f"{fn}: statement {kind} not supported")

    def call_prefix(self, e):
        """in ok mode: conjuncts for the assertions of functions called inside e"""
        return ""

    def okwrap(self, mark, body):
        """prefix `body` with the _ok conjuncts collected since mark"""
        tr = self.tr
        new = tr.uses_ok[mark:]
        del tr.uses_ok[mark:]
        if self.ok and new:
            pre = " &&\n".join(atom(x) for x in new)
            if body == "true":
                return pre
            return f"{pre} &&\n{body}"
        return body

    def bind(self, v, rhs_s, rest, k, mark, rng=None):
        tr = self.tr
        tr.written.add(v)
        if rng is not None and tr.tgt.get("ranges") and tr.vars[v].lo <= rng[0] and rng[1] <= tr.vars[v].hi:
            tr.varrange[v] = rng
        else:
            tr.varrange.pop(v, None)
        if v not in tr.assigned:
            tr.assigned.append(v)
        tr.defined.add(v)
        body = self.seq(rest, k)
        if self.ok and body == "true":
            return self.okwrap(mark, "true")
        return self.okwrap(mark, f"let {lname(v)} := {rhs_s}\n{body}")

    def expr_stmt(self, e, rest, k):
        tr = self.tr
        fn = tr.tgt["func"]
        mark = len(tr.uses_ok)
        if e[0] == "comma":
            return self.seq([("expr", e[1]), ("expr", e[2])] + rest, k)
        if e[0] == "assign" and e[1] == "=" and e[2][0] == "id" and e[2][1] in tr.ptr_locals:
            if side_effect(e[3]):
                fail(f"{fn}: side effect in a pointer assignment")
            tr.aliases[e[2][1]] = tr.subst(e[3])
            return self.seq(rest, k)
        if e[0] == "assign" and e[1] == "=" and e[2][0] == "id" and e[2][1] in tr.local_structs:
            # struct copy `x = *p` / `x = y`: member by member
            src = e[3][1] if e[3][0] == "deref" else e[3]
            if not (src[0] == "id" and tr.is_struct_var(src[1])):
                fail(f"{fn}: struct assignment from something that is not a struct variable")
            mem = tr.struct_members(e[2][1])
            if mem != tr.struct_members(src[1]):
                fail(f"{fn}: struct assignment between different struct types")
            cp = [("expr", ("assign", "=", ("id", f"{e[2][1]}_{f}"), ("id", f"{src[1]}_{f}"))) for f in mem]
            return self.seq(cp + rest, k)
        if e[0] == "assign" and e[1] == "=" and e[3][0] == "assign" and e[3][1] == "=":
            # a = b = c
            return self.seq([("expr", e[3]), ("expr", ("assign", "=", e[2], e[3][2]))] + rest, k)
        if e[0] == "assign":
            op, lhs, rhs = e[1], e[2], e[3]
            v = tr.lvalue(lhs)
            ty = tr.vars[v]
            if side_effect(rhs):
                fail(f"{fn}: side effect inside the right-hand side of an assignment")
            if rhs[0] == "call" and tr.tgt.get("calls", {}).get(rhs[1], rhs[1]) in tr.funcs and \
                    tr.funcs[tr.tgt.get("calls", {}).get(rhs[1], rhs[1])].outs:
                if op != "=":
                    fail(f"{fn}: compound assignment from a call with out-parameters")
                return self.call_stmt(rhs, v, rest, k)
            if op == "=":
                val = tr.conv(tr.ex(rhs), ty, explicit=True)
            else:
                cur = tr.read_var(v)
                r = tr.ex(rhs)
                val = tr.conv(tr.binary(op[:-1], cur, r), ty, explicit=True)
            return self.bind(v, val.s, rest, k, mark, (val.lo, val.hi))
        if e[0] in ("preinc", "postinc"):
            v = tr.lvalue(e[2])
            ty = tr.vars[v]
            cur = tr.read_var(v)
            val = tr.conv(tr.binary(e[1], cur, tr.konst(1, INT)), ty, explicit=True)
            return self.bind(v, val.s, rest, k, mark)
        if e[0] == "call" and e[1] in tr.xmacros:
            if not tr.natty(UINT):
                fail(f"{fn}: combine32 macros are available in nat / mixed mode only")
            if not tr.xmacros[e[1]][3]:
                fail(f"{fn}: expression macro {e[1]} used as a statement")
            ins, outs = tr.xmacro_args(e[1], e[2])
            app = f"Combine32Macros.{e[1]} " + " ".join(ins)
            if len(outs) == 1:
                return self.bind(outs[0], app, rest, k, mark)
            tr.tmp += 1
            t = f"r{tr.tmp}"
            lines = [f"let {t} := {app}"]
            n = len(outs)
            for idx, v in enumerate(outs):
                lines.append(f"let {lname(v)} := " + t + "".join(".2" for _ in range(idx)) + (".1" if idx < n - 1 else ""))
                tr.varrange.pop(v, None)
                tr.written.add(v)
                tr.defined.add(v)
                if v not in tr.assigned:
                    tr.assigned.append(v)
            return "\n".join(lines) + "\n" + self.seq(rest, k)
        if e[0] == "call" and tr.tgt.get("calls", {}).get(e[1], e[1]) in tr.funcs:
            return self.call_stmt(e, None, rest, k)
        if e[0] == "cast" and e[1] == (None, 0):
            return self.seq(rest, k)
        fail(f"{fn}: expression statement without effect or of unsupported form: {e[0]}")

    def call_stmt(self, call, target, rest, k):
        tr = self.tr
        fn = tr.tgt["func"]
        fi = tr.funcs[tr.tgt.get("calls", {}).get(call[1], call[1])]
        tr.check_callee_types(fi)
        mark = len(tr.uses_ok)
        outmap = {}
        app = tr.call_text(fi, call[2], outmap)
        results = []       # caller variables receiving, in tuple order
        if fi.ret is not None:
            results.append(("ret", target))
        for o in fi.outs:
            if o not in outmap:
                fail(f"{fn}: out-parameter {o} of {fi.cname} not bound")
            results.append((o, outmap[o]))
        n = len(results)
        tr.tmp += 1
        t = f"r{tr.tmp}"
        lines = [f"let {t} := {app}"]
        for idx, (what, v) in enumerate(results):
            if v is None:
                continue
            proj = t if n == 1 else t + "".join(".2" for _ in range(idx)) + (".1" if idx < n - 1 else "")
            if what == "ret":
                val = tr.conv(E(proj, fi.ret), tr.vars[v], explicit=True).s
            else:
                val = proj
            lines.append(f"let {lname(v)} := {val}")
            tr.varrange.pop(v, None)
            tr.written.add(v)
            if v not in tr.assigned:
                tr.assigned.append(v)
            tr.defined.add(v)
        body = self.seq(rest, k)
        if self.ok and body == "true":
            return self.okwrap(mark, "true")
        return self.okwrap(mark, "\n".join(lines) + "\n" + body)

    def hoist(self, c):
        """condition with one pre-increment `++x`/`--x` evaluated unconditionally: returns
        (prefix statements, new condition) or None"""
        found = []

        def walk(e, uncond):
            if not isinstance(e, tuple) or not e or e[0] == "num":
                return e
            if e[0] == "preinc":
                if not uncond:
                    fail(f"{self.tr.tgt['func']}: conditional side effect inside a condition")
                found.append(e)
                return e[2]
            if e[0] in ("assign", "postinc"):
                fail(f"{self.tr.tgt['func']}: assignment / post-increment inside a condition")
            if e[0] == "bin" and e[1] in ("&&", "||"):
                return ("bin", e[1], walk(e[2], uncond), walk(e[3], False))
            if e[0] == "cond":
                return ("cond", walk(e[1], uncond), walk(e[2], False), walk(e[3], False))
            return tuple(walk(x, uncond) if isinstance(x, tuple) else x for x in e)
        c2 = walk(c, True)
        if not found:
            return None
        if len(found) > 1:
            fail(f"{self.tr.tgt['func']}: several side effects in one condition")
        lv = found[0][2]
        # the variable must not occur elsewhere in the condition
        cnt = [0]

        def count(e):
            if e == lv:
                cnt[0] += 1
                return
            if isinstance(e, tuple):
                for x in e[1:]:
                    if isinstance(x, tuple):
                        count(x)
        count(c2)
        if cnt[0] != 1:
            fail(f"{self.tr.tgt['func']}: variable modified and read in the same condition")
        return [("expr", found[0])], c2

    def if_stmt(self, st, rest, k):
        tr = self.tr
        fn = tr.tgt["func"]
        c, A, B = st[1], st[2], st[3]
        # `if (a && <side effect>) S [else T]`  ->  `if (a) { if (<..>) S else T } else T`
        if c[0] == "bin" and c[1] == "&&" and side_effect(c[3]) and not side_effect(c[2]):
            inner = ("if", c[3], A, B)
            return self.seq([("if", c[2], ("block", [inner]), B)] + rest, k)
        inner = c[2] if (c[0] == "un" and c[1] == "!") else c
        if inner[0] == "call" and tr.tgt.get("calls", {}).get(inner[1], inner[1]) in tr.funcs and \
                (tr.funcs[tr.tgt.get("calls", {}).get(inner[1], inner[1])].outs):
            fi_ = tr.funcs[tr.tgt.get("calls", {}).get(inner[1], inner[1])]
            if not isinstance(fi_.ret, CT):
                fail(f"{fn}: condition on a call without an integer result")
            tr.tmp += 1
            tv = f"c{tr.tmp}"
            c2 = ("id", tv) if inner is c else ("un", "!", ("id", tv))
            return self.seq([("decl", (fi_.ret, 0), tv, inner), ("if", c2, A, B)] + rest, k)
        if side_effect(c):
            h = self.hoist(c)
            if h is None:
                fail(f"{fn}: unsupported side effect in a condition")
            pre, c2 = h
            return self.seq(pre + [("if", c2, A, B)] + rest, k)
        mark = len(tr.uses_ok)
        rmark = len(tr.read_log)
        if_depth = tr.depth
        cs = tr.cond(c)
        if cs in ("True", "False"):
            chosen = A if cs == "True" else B
            return self.okwrap(mark, self.seq(([chosen] if chosen is not None else []) + rest, k))
        Bs = B if B is not None else ("block", [])
        exits = contains_exit(A, self.ok) or contains_exit(Bs, self.ok)
        # continuation cheap to duplicate: nothing follows but building the result
        exits = exits or self.cheap_cont(rest, k)
        state = (dict(tr.vars), set(tr.defined), dict(tr.varrange), set(tr.written))

        def restore():
            tr.vars = dict(state[0])
            tr.defined = set(state[1])
            tr.varrange = dict(state[2])
            tr.written = set(state[3])
        guard = (always_exits(A) and is_empty(B)) or (always_exits(B) and is_empty(A))
        if exits and not guard and not self.ok and not self.cheap_cont(rest, k):
            codes = []
            tr.tmp += 1
            rv = f"ret{tr.tmp}"
            st2 = tailret(("if", c, A, B), rv, codes)
            if st2 is not None and codes and not contains_exit(st2, False):
                z = ("num", (0, "", False))
                tests = [("if", ("bin", "==", ("id", rv), ("num", (i + 1, "", False))), ("return", e), None)
                         for i, e in enumerate(codes)]
                # locals assigned on the continuing paths only: give them a (never used) value on the returning ones
                acc = []
                self._local = {rv}
                self.assigned_in(st2, acc)
                inits = [("expr", ("assign", "=", ("id", v), z)) for v in acc
                         if v in tr.vars and v not in tr.defined and v != rv]
                return self.seq([("decl", (INT, 0), rv, z)] + inits + [st2] + tests + rest, k)
        if exits and tr.tgt.get("stages") and not self.ok and not self.cheap_cont(rest, k):
            # both branches may fall through into a large continuation: the continuation becomes its own
            # definition (a join point), called from every branch that reaches it
            cap = {}

            def kcap(tag):
                def kc():
                    cap[tag] = (dict(tr.vars), set(tr.defined), set(tr.written))
                    return "⟦K⟧"
                return kc
            aux0 = len(tr.aux)
            tmp0 = tr.tmp
            ta = self.seq([A], kcap("a"))
            restore()
            tb = self.seq([Bs], kcap("b"))
            restore()
            if "a" in cap and "b" in cap:
                va, da, wa = cap["a"]
                vb, db, wb = cap["b"]
                tr.vars = {v: t for v, t in va.items() if vb.get(v) == t}
                tr.defined = {v for v in (da & db) if v in tr.vars}
                tr.written = wa & wb
                tr.varrange = {}
                rmark2 = len(tr.read_log)
                omark = len(tr.oracle_log)
                entry_defined = set(tr.defined)
                body = self.seq(rest, k)
                ins = []
                for n_ in tr.read_log[rmark2:]:
                    if n_ in entry_defined and n_ not in ins:
                        ins.append(n_)
                ors = []
                for o in tr.oracle_log[omark:]:
                    if o not in ors:
                        ors.append(o)
                sname = f"{lname(tr.tgt.get('name', tr.tgt['func']))}_k{len(tr.aux) + 1}"

                def aty(v):
                    return ("Nat → " if v in tr.mem_indexed else "") + tr.ltype(tr.vars[v] if v in tr.vars else va[v])
                sargs = " ".join(f"({lname(v)} : {aty(v)})" for v in ins) + \
                    "".join(f" ({lname(o)} : {tr.funcs[o].otype})" for o in ors)
                tr.aux.append((sname, f"/-- join point of `{tr.tgt['func']}`: the rest of the function after an "
                                      f"if/switch both of whose sides may reach it -/\ndef {sname} {sargs} : ⟦RTY⟧ :=\n{self.ind(body)}\n"))
                callk = f"{sname} " + " ".join([lname(v) for v in ins] + [lname(o) for o in ors])
                ta, tb = ta.replace("⟦K⟧", callk), tb.replace("⟦K⟧", callk)
                return self.okwrap(mark, f"if {cs} then\n{self.ind(ta)}\nelse\n{self.ind(tb)}")
            del tr.aux[aux0:]
            tr.tmp = tmp0
        if exits:
            # continuation is placed in every branch that falls through
            ta = self.seq([A] + rest, k)
            restore()
            tb = self.seq([Bs] + rest, k)
            restore_defined = None
            return self.okwrap(mark, f"if {cs} then\n{self.ind(ta)}\nelse\n{self.ind(tb)}")
        # join: the variables assigned in either branch
        W = []
        self._local = set()
        self.assigned_in(A, W)
        self._local = set()
        self.assigned_in(Bs, W)
        W = [v for v in W if v in state[0]]
        if not W:
            # no visible effect (only possible with calls/asserts in ok mode)
            ta = self.seq([A], lambda: "true") if self.ok else None
            restore()
            tb = self.seq([Bs], lambda: "true") if self.ok else None
            restore()
            r = self.seq(rest, k)
            if self.ok and (ta != "true" or tb != "true"):
                return self.okwrap(mark, f"(if {cs} then\n{self.ind(ta)}\nelse\n{self.ind(tb)}) &&\n{r}")
            return self.okwrap(mark, r)

        def tup():
            return tup0()

        def tup0():
            for v in W:
                if v not in tr.defined:
                    raise UndefInJoin(v)
            for v in W:
                tr.read_log.append(v)
                if v not in tr.written:
                    tr.input_reads.add(v)
            return lname(W[0]) if len(W) == 1 else "(" + ", ".join(lname(v) for v in W) + ")"
        if self.ok:
            # assertions inside the branches cannot occur here (exits would be true); calls with _ok may
            pass
        tup.cheap = True
        okmark = len(tr.uses_ok)
        tmp0 = tr.tmp
        aux0 = len(tr.aux)
        while True:
            # a variable without a value before the `if` that only one branch assigns is dead after
            # the join (a later read fails as "read before it is assigned"): leave it out of the join
            try:
                ta = self.seq([A], tup)
                da = set(tr.defined)
                wa = set(tr.written)
                restore()
                tb = self.seq([Bs], tup)
                db = set(tr.defined)
                wb = set(tr.written)
                restore()
                tr.written |= (wa & wb)
                break
            except UndefInJoin as u:
                restore()
                tr.tmp = tmp0
                del tr.aux[aux0:]
                del tr.uses_ok[okmark:]
                W.remove(u.args[0])
                if not W:
                    return self.seq(rest, k)
        for v in W:
            tr.varrange.pop(v, None)
            if v in da and v in db:
                tr.defined.add(v)
                if v not in tr.assigned:
                    tr.assigned.append(v)
        ta, tb = peep(ta), peep(tb)
        tr.depth = if_depth
        joined = f"if {cs} then\n{self.ind(ta, 4)}\n  else\n{self.ind(tb, 4)}"
        if tr.tgt.get("stages") and not self.ok:
            # top-level join of a staged function: its own definition (proof modularity)
            ins = []
            for n_ in tr.read_log[rmark:]:
                if n_ in state[1] and n_ not in ins:
                    ins.append(n_)
            sname = f"{lname(tr.tgt.get('name', tr.tgt['func']))}_s{len(tr.aux) + 1}"

            def aty(v):
                return ("Nat → " if v in tr.mem_indexed else "") + tr.ltype(state[0][v])
            sargs = " ".join(f"({lname(v)} : {aty(v)})" for v in ins)
            srty = " × ".join(tr.ltype(state[0][v]) for v in W)
            body_s = f"if {cs} then\n{self.ind(ta, 2)}\nelse\n{self.ind(tb, 2)}"
            tr.aux.append((sname, f"/-- stage {len(tr.aux) + 1} of `{tr.tgt['func']}`: new value of "
                                  f"({', '.join(W)}) -/\ndef {sname} {sargs} : {srty} :=\n{self.ind(body_s)}\n"))
            joined = f"{sname} " + " ".join(lname(v) for v in ins)
        if len(W) == 1:
            head = f"let {lname(W[0])} := {joined}"
        else:
            tr.tmp += 1
            t = f"j{tr.tmp}"
            head = f"let {t} := {joined}"
            n = len(W)
            for idx, v in enumerate(W):
                proj = t + "".join(".2" for _ in range(idx)) + (".1" if idx < n - 1 else "")
                head += f"\nlet {lname(v)} := {proj}"
        r = self.seq(rest, k)
        if self.ok and r == "true" and len(tr.uses_ok) == mark:
            return "true"
        return self.okwrap(mark, head + "\n" + r)

    def while_stmt(self, st, rest, k):
        tr = self.tr
        fn = tr.tgt["func"]
        c, body = st[1], st[2]
        while body[0] == "block" and len(body[1]) == 1:
            body = body[1][0]
        if not (body[0] == "expr" and body[1][0] == "assign" and c[0] == "bin"):
            fail(f"{fn}: while loop is not one of the two supported forms")
        op, lhs, rhs = body[1][1], body[1][2], body[1][3]
        x = tr.lvalue(lhs)
        if tr.natty(INT):
            fail(f"{fn}: while loop in nat mode")
        if tr.vars[x] != INT:
            fail(f"{fn}: loop variable must be an int")
        if side_effect(rhs) or side_effect(c) or mentions(rhs, lhs):
            fail(f"{fn}: while loop is not one of the two supported forms")
        s = tr.ex(rhs)
        if s.ty != INT:
            fail(f"{fn}: loop step must be an int")
        mark = len(tr.uses_ok)
        cur = tr.read_var(x)
        if c[1] == ">=" and c[2] == lhs and c[3] == rhs and op == "-=":
            val = f"s32 (subLoop {atom(cur.s)} {atom(s.s)})"
        elif c[1] == "<" and c[2] == lhs and c[3] == ("num", (0, "", False)) and op == "+=":
            val = f"s32 (addLoop {atom(cur.s)} {atom(s.s)})"
        else:
            fail(f"{fn}: while loop is not one of the two supported forms")
        return self.bind(x, val, rest, k, mark)


# =============================================================================== one function
def parse_params(ptext, env):
    ptext = ptext.strip()
    if ptext in ("", "void"):
        return []
    out = []
    for part in split_top(ptext):
        p = Parser(lex(part), env)
        t = p.try_type()
        if t is None:
            toks = p.t
            if len(toks) == 2 and toks[0][0] == "id" and toks[1][0] == "id" and toks[0][1].endswith("_ptr"):
                # a function-pointer typedef: an opaque pointer, never dereferenced by the translator
                out.append((toks[1][1], "void", 1))
                continue
            fail(f"parameter not understood: {part!r}")
        nm = p.eat("id")
        if p.i != len(p.t):
            fail(f"parameter not understood: {part!r}")
        out.append((nm, t[0], t[1]))
    return out


def split_top(s):
    parts, d, cur = [], 0, ""
    for ch in s:
        if ch == "(":
            d += 1
        elif ch == ")":
            d -= 1
        if ch == "," and d == 0:
            parts.append(cur)
            cur = ""
        else:
            cur += ch
    parts.append(cur)
    return parts


def make_oracles(env, tgt, funcs):
    """FuncInfo of every `extern` function of the target: a parameter of the generated definition"""
    out = dict(funcs)
    helper = Translator(env, tgt)
    for oname, spec in tgt.get("extern", {}).items():
        fo = FuncInfo()
        fo.cname, fo.lean, fo.mode, fo.is_oracle = oname, lname(oname), tgt.get("mode", "int"), True
        fo.ret = env.resolve(spec["ret"].split())
        if not isinstance(fo.ret, CT):
            fail(f"{oname}: oracle result type must be an integer type")
        fo.ret_ltype = helper.ltype(fo.ret)
        for idx, par in enumerate(spec["params"]):
            pn = f"p{idx}"
            if par[0] == "same":
                fo.cparams.append((pn, "same", par[1]))
            elif par[0] == "struct":
                ty = env.resolve([par[1]])
                tmp = Translator(env, dict(tgt, structs={pn: par[1]}))
                mem = tmp.register_struct(pn, ty, True)
                for v in mem:
                    fo.inputs.append(v)
                    fo.input_types[v] = tmp.vars[v]
                    fo.outs.append(v)
                    fo.out_types[v] = tmp.vars[v]
                    fo.ltypes[v] = helper.ltype(tmp.vars[v])
                fo.cparams.append((pn, "struct", ty))
            else:
                fail(f"{oname}: oracle parameter kind {par[0]} unknown")
        fo.otype = " → ".join([fo.ltypes[v] for v in fo.inputs] +
                              [" × ".join([fo.ret_ltype] + [fo.ltypes[v] for v in fo.outs])])
        if oname in out:
            fail(f"{oname}: both translated and declared extern")
        out[oname] = fo
    return out


def translate_function(env, tgt, funcs):
    funcs = make_oracles(env, tgt, funcs)
    name = tgt["func"]
    header, ptext, btext = find_function(env.text, name)
    hw = [w for w in header if w not in QUALS]
    fi = FuncInfo()
    fi.cname, fi.lean, fi.mode = name, lname(tgt.get("name", name)), tgt.get("mode", "int")
    if tgt.get("ret") == "malloc":
        if hw != ["void", "*"]:
            fail(f"{name}: expected a function returning void *")
        ret = "malloc"
    elif hw == ["void"]:
        ret = None
    else:
        ret = env.resolve(hw)
        if not isinstance(ret, CT):
            fail(f"{name}: return type is not an integer type")
    params = parse_params(ptext, env)
    body_ast = Parser(lex(btext), env)
    blk = body_ast.block()
    if body_ast.i != len(body_ast.t):
        fail(f"{name}: trailing tokens after the body")

    outs_cfg = tgt.get("out", {})
    structs_cfg = tgt.get("structs", {})
    drop = set(tgt.get("drop", []))

    def setup(tr):
        tr.ret = ret
        cparams = []
        for nm, ty, nptr in params:
            if nm in drop:
                cparams.append((nm, "drop", None))
                continue
            if nm in outs_cfg:
                if nptr != 1 or not isinstance(ty, CT):
                    fail(f"{name}: out-parameter {nm} is not a pointer to an integer")
                if tr.nat and ty.signed:
                    fail(f"{name}: pointer to a signed integer in nat mode")
                tr.vars[nm] = ty
                if outs_cfg[nm] in ("inout", "in"):
                    tr.defined.add(nm)
                cparams.append((nm, outs_cfg[nm], ty))
                continue
            if nm in structs_cfg:
                if nptr > 1 or isinstance(ty, CT):
                    fail(f"{name}: struct parameter {nm} has an unexpected type")
                if env.resolve([structs_cfg[nm]]) != ty:
                    fail(f"{name}: parameter {nm} is not a {structs_cfg[nm]}")
                fields = env.struct_fields(ty)
                for f, words in fields.items():
                    if f is None:
                        continue
                    try:
                        fty = env.resolve(words)
                    except Fail:
                        continue
                    if isinstance(fty, CT):
                        tr.vars[nm + "_" + f] = fty
                        tr.defined.add(nm + "_" + f)
                cparams.append((nm, "struct", ty))
                continue
            if nm in tgt.get("ptrvals", []):
                if nptr != 1:
                    fail(f"{name}: {nm} is not a pointer")
                tr.vars[nm] = ULONG
                tr.defined.add(nm)
                tr.ptrvals.add(nm)
                cparams.append((nm, "val", ULONG))
                continue
            if nptr or not isinstance(ty, CT):
                fail(f"{name}: parameter {nm} is not an integer (declare it out/struct/drop in TARGETS)")
            if nm in tgt.get("consts", {}):
                v = tgt["consts"][nm]
                if not ty.lo <= v <= ty.hi:
                    fail(f"{name}: constant for {nm} out of range")
                tr.consts[nm] = v
                tr.const_types[nm] = ty
                cparams.append((nm, "const", ty))
                continue
            if tr.nat and ty.signed and nm not in tgt.get("nonneg", []) and \
                    not (nm in tgt.get("ranges", {}) and tgt["ranges"][nm][0] >= 0):
                fail(f"{name}: signed parameter {nm} in nat mode (list it under `nonneg` to assume {nm} >= 0)")
            tr.vars[nm] = ty
            tr.defined.add(nm)
            if nm in tgt.get("ranges", {}):
                lo, hi = tgt["ranges"][nm]
                if not (ty.lo <= lo <= hi <= ty.hi):
                    fail(f"{name}: range given for {nm} is outside its type")
                tr.varrange[nm] = (lo, hi)
            cparams.append((nm, "val", ty))
        for cexpr, nm in tgt.get("mem", {}).items():
            pp = Parser(lex(cexpr), env)
            ast = pp.expr()
            if pp.i != len(pp.t):
                fail(f"{name}: memory operand {cexpr!r} not understood")
            indexed = None
            if isinstance(nm, tuple):
                nm, tyname = nm[0], nm[1]
                roots = {pn: (pt, pnp) for pn, pt, pnp in params}
                if tyname == "ptr":
                    t = env.path_type(ast, roots)
                    okp = (t[1] >= 1 and t[2] == 0) or \
                          (t[1] == 0 and t[2] == 0 and t[0] == ("unknown",))
                    if t[0] == ("unknown",):
                        # member whose declaration is a function-pointer typedef
                        fld = ast[2] if ast[0] == "field" else None
                        decl_ok = False
                        if fld is not None:
                            st = env.path_type(ast[1], roots)
                            body = env.structs.get(st[0][1], "") if isinstance(st[0], tuple) and st[0][0] == "struct" else ""
                            mm = re.search(r"(\w+)\s+" + re.escape(fld) + r"\s*(?:;|$)", body)
                            decl_ok = bool(mm) and env.is_funcptr_typedef(mm.group(1))
                        okp = decl_ok
                    if not okp:
                        fail(f"{name}: memory operand {cexpr!r} is not a pointer")
                    cty = ULONG
                elif tyname == "bool":
                    cty = INT       # a whole sub-expression the translator does not interpret; 0/1
                else:
                    cty = env.resolve(tyname.split())
                    if not isinstance(cty, CT):
                        fail(f"{name}: type {tyname} of memory operand {cexpr!r} is not an integer type")
                    t = env.path_type(ast, roots)
                    if t[1] or t[2] or t[0] != cty:
                        fail(f"{name}: memory operand {cexpr!r} has C type {t}, not {tyname}")
                if len(nm.split("@")) == 2:
                    nm, indexed = nm.split("@")
            else:
                cty = UINT
            tr.mem.append((ast, nm))
            tr.vars[nm] = cty
            tr.defined.add(nm)
            if indexed:
                tr.mem_indexed[nm] = indexed
        tr.xmacros = tgt.get("_xmacros", {})
        return cparams

    def run(ok_mode, final_outs):
        tr = Translator(env, tgt, funcs=funcs)
        cparams = setup(tr)
        param_vars = dict(tr.vars)

        def ret_text(v):
            parts = (list(v) if isinstance(v, (list, tuple)) else [v] if v is not None else []) + [lname(o) for o in final_outs]
            for o in final_outs:
                if o not in tr.defined:
                    fail(f"{name}: result {o} has no value on some path")
                if o not in tr.written:
                    tr.input_reads.add(o)
            if not parts:
                fail(f"{name}: void function without results")
            return parts[0] if len(parts) == 1 else "(" + ", ".join(parts) + ")"

        def end():
            if ok_mode:
                return "true"
            if ret is not None:
                fail(f"{name}: control reaches the end of a non-void function")
            return ret_text(None)
        end.cheap = not ok_mode
        b = Body(tr, ok_mode, ret_text)
        text = b.seq([blk], end)
        return tr, cparams, param_vars, text

    # pass 1: discover which parameter-variables are assigned (results)
    # results: out params in declaration order, then assigned struct members
    probe = Translator(env, tgt, funcs=funcs)
    cparams = setup(probe)
    b = Body(probe, False, lambda v: "0")
    saved_ret = probe.ret
    b.seq([blk], lambda: "0")
    final_outs = [nm for nm, k, _ in cparams if k in ("out", "inout") and (k == "out" or nm in probe.assigned)]
    cparams = [(nm, ("in" if k == "inout" and nm not in probe.assigned else k), t) for nm, k, t in cparams]
    final_outs += [nm for _, nm in probe.mem if nm in probe.assigned]
    fi.param_outs = list(final_outs)
    fi.mem = [nm for _, nm in probe.mem]
    fi.consts = dict(tgt.get("consts", {}))
    for nm, k, _ in cparams:
        if k == "struct":
            final_outs += [v for v in probe_param_vars(probe, nm, env) if v in probe.assigned]
    adj = {nm: k for nm, k, _ in cparams}
    tr, cparams2, param_vars, text = run(False, final_outs)
    has_assert = "__verif_assert" in btext or any(funcs[c].has_ok for c in funcs if re.search(r"\b" + re.escape(c) + r"\s*\(", btext))
    # inputs: value params + inout + struct members that exist, in declaration order; only those used
    if "NEGATIVE_CONSTANT" in text:
        fail(f"{name}: a negative constant survives in nat mode")
    used = set(re.findall(r"[A-Za-z_]\w*", text))
    inputs = []
    for nm, k, ty in cparams:
        if k == "val":
            inputs.append(nm)
        elif k in ("inout", "in"):
            inputs.append(nm)
        elif k == "struct":
            for v in param_vars:
                if v.startswith(nm + "_") and v in tr.input_reads and v not in inputs:
                    inputs.append(v)
    for _, nm in tr.mem:
        if nm in tr.input_reads or (nm in tr.mem_indexed and nm in tr.read_log):
            inputs.append(nm)
    oktext = None
    if has_assert:
        tr2, _, _, oktext = run(True, final_outs)
        used2 = set(re.findall(r"[A-Za-z_]\w*", oktext))
        for nm, k, ty in cparams:
            if k == "struct":
                for v in param_vars:
                    if v.startswith(nm + "_") and lname(v) in used2 and v not in inputs:
                        inputs.append(v)
    fi.cparams = cparams
    inputs = list(inputs) + list(tr.oracles_used)
    fi.inputs = inputs
    fi.input_types = {v: param_vars[v] for v in inputs if v in param_vars}
    fi.outs = final_outs
    fi.out_types = {v: param_vars[v] for v in final_outs}
    fi.ret = ret
    fi.has_ok = has_assert
    rtypes = (["Int", "Int"] if ret == "malloc" else [tr.ltype(ret)] if ret is not None else []) + \
             [tr.ltype(param_vars[o]) for o in final_outs]
    if ret == "malloc" and fi.mode != "int":
        fail(f"{name}: malloc-returning functions are translated in int mode")
    rty = " × ".join(rtypes)
    def argty(v):
        return ("Nat → " if v in tr.mem_indexed else "") + tr.ltype(param_vars[v])
    args = " ".join(f"({lname(v)} : {argty(v)})" for v in inputs if v in param_vars)
    for o in tr.oracles_used:
        if o not in funcs or not funcs[o].is_oracle:
            fail(f"{name}: a callee needs the extern function {o}; declare it under `extern` here too")
        args += f" ({lname(o)} : {funcs[o].otype})"
    fi.oracles = list(tr.oracles_used)
    fi.ltypes = {v: tr.ltype(param_vars[v]) for v in list(inputs) + list(final_outs) if v in param_vars}
    fi.ret_ltype = None if ret is None or ret == "malloc" else tr.ltype(ret)
    sig_c = ", ".join([f"{v} : {param_vars[v].cname()}" if v in param_vars else f"{v} : extern function" for v in inputs] +
                      [f"{c} = {v} (specialised)" for c, v in tgt.get("consts", {}).items()])
    res_c = ", ".join((["malloc called : 0/1, size : uint64_t"] if ret == "malloc" else [f"return : {ret.cname()}"] if ret is not None else []) + [f"{o} : {param_vars[o].cname()}" for o in final_outs])
    pre = "".join(f"  Precondition: {v} >= 0." for v in tgt.get("nonneg", [])) + \
          "".join(f"  Precondition: {lo} <= {v} <= {hi}." for v, (lo, hi) in tgt.get("ranges", {}).items())
    doc = f"/-- `{tgt['file']}:{name}` ({fi.mode} mode).  Arguments: {sig_c}.  Result: ({res_c}).{pre} -/"
    out = "".join(t.replace("⟦RTY⟧", rty) + "\n" for _, t in tr.aux) + f"{doc}\ndef {fi.lean} {args} : {rty} :=\n{Body.ind(None, text)}\n"
    if has_assert:
        out += f"\n/-- every `assert` reached by `{name}` holds (`false` = the C function aborts) -/\n" \
               f"def {fi.lean}_ok {args} : Bool :=\n{Body.ind(None, oktext)}\n"
    fi.text = out
    return fi


def translate_condition(env, tgt):
    """kind "cond": the condition of the k-th `if`/`while` of a function (in source order), as a Bool-valued
    definition of the memory operands it reads.  `expect`: identifiers that must occur in it (so that an inserted
    or removed statement, which shifts the numbering, fails closed instead of selecting another test)"""
    name = tgt["func"]
    header, ptext, btext = find_function(env.text, name)
    toks = lex(btext)
    conds = []
    i = 0
    while i < len(toks):
        if toks[i] in (("id", "if"), ("id", "while")) and i + 1 < len(toks) and toks[i + 1] == ("op", "("):
            j, d = i + 2, 1
            while j < len(toks) and d:
                if toks[j] == ("op", "("):
                    d += 1
                elif toks[j] == ("op", ")"):
                    d -= 1
                j += 1
            conds.append(toks[i + 2:j - 1])
            i += 2
        else:
            i += 1
    k = tgt["index"]
    if k >= len(conds):
        fail(f"{name}: has only {len(conds)} conditions")
    ctoks = conds[k]
    ids = {t[1] for t in ctoks if t[0] == "id"}
    for w in tgt.get("expect", []):
        if w not in ids:
            fail(f"{name}: condition {k} does not mention {w} (the numbering of the tests changed?)")
    pp = Parser(ctoks, env)
    ast = pp.expr()
    if pp.i != len(ctoks):
        fail(f"{name}: condition {k} not understood")
    params = parse_params(ptext, env)
    tr = Translator(env, tgt)
    roots = {pn: (pt, pnp) for pn, pt, pnp in params}
    for cexpr, spec in tgt.get("mem", {}).items():
        q = Parser(lex(cexpr), env)
        mast = q.expr()
        if q.i != len(q.t):
            fail(f"{name}: memory operand {cexpr!r} not understood")
        nm, tyname = spec
        if tyname == "bool":
            cty = INT
        elif tyname == "ptr":
            cty = ULONG
            t = env.path_type(mast, roots)
            if not (t[1] >= 1 and t[2] == 0):
                fail(f"{name}: memory operand {cexpr!r} is not a pointer")
        else:
            cty = env.resolve(tyname.split())
            t = env.path_type(mast, roots)
            if not isinstance(cty, CT) or t[1] or t[2] or t[0] != cty:
                fail(f"{name}: memory operand {cexpr!r} has C type {t}, not {tyname}")
        tr.mem.append((mast, nm))
        tr.vars[nm] = cty
        tr.defined.add(nm)
    ctext = tr.cond(ast)
    ins = []
    for n_ in tr.read_log:
        if n_ not in ins:
            ins.append(n_)
    fi = FuncInfo()
    fi.cname, fi.lean, fi.mode = name, lname(tgt["name"]), tr.mode
    args = " ".join(f"({lname(v)} : {tr.ltype(tr.vars[v])})" for v in ins)
    sig = ", ".join(f"{v} : {tr.vars[v].cname()}" for v in ins)
    fi.text = (f"/-- `{tgt['file']}:{name}`, condition of test #{k} ({tr.mode} mode).  Arguments: {sig}. -/\n"
               f"def {fi.lean} {args} : Bool :=\n  decide ({ctext})\n")
    return fi



# =============================================================================== one loop iteration ("step")
class StepLower:
    """AST pre-pass for a loop iteration: side effects inside expressions (`x++`, `a = b` in a condition) become
    statements; reads / writes of the array operands (`cache->glyphs[E]`) become: read -> an input variable
    `<name>N` holding the content plus the assignment `<name>N_index = E` (a result: which slot is read);
    write -> `<name>_wr_index = E; <name>_wr_value = v; <name>_wr_done = 1`; `p = &array[E]` makes `*p` such an
    operand."""

    def __init__(self, fn, arrays, ptr_aliasable, cursors=(), emits=None, ignore=()):
        self.fn, self.arrays, self.aliasable = fn, arrays, ptr_aliasable
        self.cursors = set(cursors)     # pointer variables stepping through an array of structs
        self.ver = {c: 0 for c in self.cursors}     # None = differs between joined branches
        self.cursor_vars = {}           # generated variable -> (cursor, version, member)
        self.cursor_written = set()
        self.emits = emits or {}        # macro kept as a call -> number of leading arguments to skip
        self.nemit = 0
        self.ignore = set(ignore)
        self.copy_fields = ()           # members copied by a struct assignment `a = *p`
        self.reads = {}          # array name -> list of (index AST, content variable)
        self.alias = {}          # pointer local -> (array name, index AST)
        self.nread = 0
        self.ntmp = 0
        self.pseudo = {}         # pseudo variable -> kind ("index" | "value" | "flag" | "content" | "tmp")

    def array_of(self, e):
        """(array name, index AST) if e is `BASE[E]` / `*p` for an aliased p"""
        if e[0] == "deref" and e[1][0] == "id" and e[1][1] in self.alias:
            return self.alias[e[1][1]]
        if e[0] == "deref" and e[1][0] == "bin" and e[1][1] == "+":
            for ast, nm in self.arrays:
                if e[1][2] == ast:
                    return (nm, e[1][3])
        return None

    def invalidate(self, var):
        for nm in self.reads:
            self.reads[nm] = [(ix, v) for ix, v in self.reads[nm] if not mentions(ix, ("id", var))]

    def cfield(self, e):
        """`cur->f` for a cursor: the variable standing for member f of the element cur points to now"""
        if e[0] == "field" and e[1][0] == "id" and e[1][1] in self.cursors:
            c = e[1][1]
            if self.ver[c] is None:
                fail(f"{self.fn}: {c}->{e[2]} after branches that advance {c} differently")
            v = f"{c}{'n' * self.ver[c]}_{e[2]}"
            self.cursor_vars[v] = (c, self.ver[c], e[2])
            return ("id", v)
        return None

    def asg(self, var, e):
        if var in self.cursors and self.ver[var] is not None:
            self.ver[var] += 1
        self.invalidate(var)
        return ("expr", ("assign", "=", ("id", var), e))

    def expr(self, e):
        """-> (pre statements, value AST, post statements)"""
        if not isinstance(e, tuple) or not e or e[0] in ("num", "id", "sizeof"):
            return [], e, []
        k = e[0]
        cf = self.cfield(e)
        if cf is not None:
            return [], cf, []
        if k == "postinc" and e[2][0] == "id":
            one = ("num", (1, "", False))
            return [], e[2], [self.asg(e[2][1], ("bin", e[1], e[2], one))]
        if k == "preinc" and e[2][0] == "id":
            one = ("num", (1, "", False))
            return [self.asg(e[2][1], ("bin", e[1], e[2], one))], e[2], []
        if k == "assign":
            op, lv, rhs = e[1], e[2], e[3]
            arr = self.array_of(lv)
            if lv[0] == "id" and lv[1] in self.aliasable and op == "=" and rhs[0] == "addr":
                tgt = self.array_of(rhs[1])
                if tgt is None:
                    fail(f"{self.fn}: pointer {lv[1]} assigned something that is not an array operand")
                pe, ev, poe = self.expr(tgt[1])
                self.ntmp += 1
                ix = f"{tgt[0]}_ix{self.ntmp}"
                self.pseudo[ix] = "tmp"
                self.alias[lv[1]] = (tgt[0], ("id", ix))
                return pe + [self.asg(ix, ev)] + poe, ("num", (0, "", False)), []
            pr, rv, po = self.expr(rhs)
            if arr is not None:
                pe, ev, poe = self.expr(arr[1])
                if op != "=":
                    cur = self.read(arr[0], ev)
                    pe = pe + cur[0]
                    rv = ("bin", op[:-1], cur[1], rv)
                nm = arr[0]
                for sfx, kind in (("_wr_index", "index"), ("_wr_value", "value"), ("_wr_done", "flag")):
                    self.pseudo[nm + sfx] = kind
                self.reads[nm] = []
                st = [self.asg(nm + "_wr_index", ev), self.asg(nm + "_wr_value", rv),
                      self.asg(nm + "_wr_done", ("num", (1, "", False)))]
                return pr + pe + st + po + poe, rv, []
            if lv[0] != "id":
                pl, lv2, pol = self.expr_lvalue(lv)
                return pr + pl + [("expr", ("assign", op, lv2, rv))] + po + pol, lv2, []
            self.invalidate(lv[1])
            return pr + [("expr", ("assign", op, lv, rv))] + po, lv, []
        arr = self.array_of(e)
        if arr is not None:
            pe, ev, poe = self.expr(arr[1])
            pre2, val = self.read(arr[0], ev)
            return pe + pre2, val, poe
        if k == "bin" and e[1] in ("&&", "||"):
            pa, va, poa = self.expr(e[2])
            pb, vb, pob = self.expr(e[3])
            if any(st[1][2][0] != "id" or self.pseudo.get(st[1][2][1]) != "index" for st in pb) or pob:
                fail(f"{self.fn}: side effect in the right operand of {e[1]}")
            return pa + pb, ("bin", e[1], va, vb), poa
        if k == "cond":
            pc, vc, poc = self.expr(e[1])
            pa, va, poa = self.expr(e[2])
            pb, vb, pob = self.expr(e[3])
            if pa or pb or poa or pob:
                fail(f"{self.fn}: side effect inside ?:")
            return pc, ("cond", vc, va, vb), poc
        pre, post, parts = [], [], [k]
        for x in e[1:]:
            if isinstance(x, tuple):
                p1, v1, q1 = self.expr(x)
                pre += p1
                post += q1
                parts.append(v1)
            elif isinstance(x, list):
                lst = []
                for y in x:
                    p1, v1, q1 = self.expr(y)
                    pre += p1
                    post += q1
                    lst.append(v1)
                parts.append(lst)
            else:
                parts.append(x)
        return pre, tuple(parts), post

    def expr_lvalue(self, lv):
        cf = self.cfield(lv)
        if cf is not None:
            self.cursor_written.add(cf[1])
            return [], cf, []
        return [], lv, []

    def read(self, nm, ev):
        for ix, v in self.reads.get(nm, []):
            if ix == ev:
                return [], ("id", v)
        self.nread += 1
        v = f"{nm}{self.nread}"
        self.pseudo[v] = "content"
        self.pseudo[v + "_index"] = "index"
        self.reads.setdefault(nm, []).append((ev, v))
        return [("expr", ("assign", "=", ("id", v + "_index"), ev))], ("id", v)

    def cond(self, c):
        """-> (statements, pure condition AST)"""
        pre, v, post = self.expr(c)
        if not post:
            return pre, v
        self.ntmp += 1
        t = f"cnd{self.ntmp}"
        self.pseudo[t] = "cond"
        return pre + [("expr", ("assign", "=", ("id", t), ("bin", "!=", v, ("num", (0, "", False)))))] + post, ("id", t)

    def stmt(self, st):
        k = st[0]
        if k == "block":
            out = []
            for x in st[1]:
                out += self.stmt(x)
            return [("block", out)]
        if k == "expr" and st[1][0] == "call" and st[1][1] in self.ignore:
            return []
        if k == "expr" and st[1][0] == "assign" and st[1][1] == "=" and self.copy_fields and \
                st[1][3][0] == "deref" and st[1][2][0] == "field":
            out = []
            for f in self.copy_fields:
                out += self.stmt(("expr", ("assign", "=", ("field", st[1][2], f), ("field", st[1][3], f))))
            return out
        if k == "expr" and st[1][0] == "call" and st[1][1] in self.emits:
            args = st[1][2][self.emits[st[1][1]]:]
            self.nemit += 1
            pre, post, out = [], [], []
            for i, a in enumerate(args):
                p1, v1, q1 = self.expr(a)
                pre += p1
                post += q1
                nm = f"new{self.nemit}_{i}"
                self.pseudo[nm] = "emit"
                out.append(self.asg(nm, v1))
            self.pseudo[f"new{self.nemit}_done"] = "flag"
            return pre + out + [self.asg(f"new{self.nemit}_done", ("num", (1, "", False)))] + post
        if k == "expr":
            pre, v, post = self.expr(st[1])
            keep = [("expr", v)] if side_effect(v) else []
            return pre + keep + post
        if k == "if":
            pre, v = self.cond(st[1])
            saved = ({n: list(l) for n, l in self.reads.items()}, dict(self.alias), dict(self.ver))
            a = self.stmt(st[2])
            ra = self.reads
            va = self.ver
            self.reads, self.alias = {n: list(l) for n, l in saved[0].items()}, dict(saved[1])
            self.ver = dict(saved[2])
            b = self.stmt(st[3]) if st[3] is not None else []
            rb = self.reads
            self.ver = {c: (va[c] if va[c] == self.ver[c] else None) for c in self.ver}
            self.reads = {n: [x for x in ra.get(n, []) if x in rb.get(n, [])] for n in ra}
            return pre + [("if", v, ("block", a), ("block", b) if st[3] is not None else None)]
        if k == "return":
            return [st]
        if k == "decl":
            if st[3] is None:
                return [st]
            pre, v, post = self.expr(st[3])
            return pre + [("decl", st[1], st[2], v)] + post
        fail(f"{self.fn}: statement {k} inside a loop step is not supported")


def find_loops(st, out):
    if not isinstance(st, tuple):
        return
    if st[0] in ("while", "dowhile", "for"):
        out.append(st)
    for x in st[1:]:
        if isinstance(x, tuple):
            find_loops(x, out)
        elif isinstance(x, list):
            for y in x:
                if isinstance(y, tuple):
                    find_loops(y, out)


def collect_decls(st, out):
    if not isinstance(st, tuple):
        return
    if st[0] == "decl":
        out.append(st)
    for x in st[1:]:
        if isinstance(x, tuple):
            collect_decls(x, out)
        elif isinstance(x, list):
            for y in x:
                if isinstance(y, tuple):
                    collect_decls(y, out)


def translate_step(env, tgt, funcs):
    """kind "step": one iteration of the k-th loop of a function (or, with `stmts=(i, j)`, the statements i..j-1
    of the function body) as a definition
        inputs (loop state, memory operands, array contents)  ->  (status, new loop state, array index / write results)
    status: 0 = the loop ends (condition false / break), 1 = next iteration, 2.. = the n-th `return` of the body."""
    name = tgt["func"]
    header, ptext, btext = find_function(env.text, name)
    pr = Parser(lex(btext), env)
    blk = pr.block()
    params = parse_params(ptext, env)
    decls = []
    collect_decls(blk, decls)
    arrays = []
    for cexpr, nm in tgt.get("arrays", {}).items():
        q = Parser(lex(cexpr), env)
        arrays.append((q.expr(), nm))
    aliasable = {d[2] for d in decls if d[1][1] >= 1 and d[2] not in tgt.get("ptrlocals", [])}
    low = StepLower(name, arrays, aliasable, cursors=tgt.get("cursors", ()), emits=tgt.get("emits"),
                    ignore=tgt.get("ignore_calls", ()))
    low.copy_fields = tuple(tgt.get("copy_fields", ()))
    pre_alias = {}
    for pl, arrname in tgt.get("aliases", {}).items():
        # a pointer local set before the extracted statements: `*p` is the array element with index `<p>_index`
        if pl not in aliasable:
            fail(f"{name}: {pl} is not a pointer local")
        low.alias[pl] = (arrname, ("id", pl + "_index"))
        pre_alias[pl + "_index"] = UINT
    EXIT, CONT = ("num", (0, "", False)), ("num", (1, "", False))
    nret = [1]
    cont_stmts = []          # what `continue` runs before the next iteration (the step expression of a for loop)

    def fixret(st):
        if not isinstance(st, tuple):
            return st
        if st[0] == "return":
            nret[0] += 1
            return ("return", ("num", (nret[0], "", False)))
        if st[0] == "break":
            return ("return", EXIT)
        if st[0] == "continue":
            return ("block", list(cont_stmts) + [("return", CONT)])
        if st[0] in ("while", "dowhile", "for", "switch"):
            fail(f"{name}: nested loop / switch inside a loop step")
        return tuple(fixret(x) if isinstance(x, tuple) else ([fixret(y) for y in x] if isinstance(x, list) else x) for x in st)
    if "cond_of_if" in tgt:
        ifs = []

        def find_ifs(st):
            if isinstance(st, tuple):
                if st and st[0] == "if":
                    ifs.append(st)
                for x in st[1:]:
                    if isinstance(x, tuple):
                        find_ifs(x)
                    elif isinstance(x, list):
                        for y in x:
                            find_ifs(y)
        find_ifs(blk)
        if tgt["cond_of_if"] >= len(ifs):
            fail(f"{name}: has only {len(ifs)} if statements")
        c = ifs[tgt["cond_of_if"]][1]
        for w in tgt.get("expect", []):
            if not mentions_id(c, w):
                fail(f"{name}: if #{tgt['cond_of_if']} does not mention {w} (the numbering changed?)")
        pre, cv = low.cond(c)
        stmts = pre + [("if", cv, ("return", CONT), None), ("return", EXIT)]
    elif "then_of_if" in tgt:
        ifs = []

        def find_ifs2(st):
            if isinstance(st, tuple):
                if st and st[0] == "if":
                    ifs.append(st)
                for x in st[1:]:
                    if isinstance(x, tuple):
                        find_ifs2(x)
                    elif isinstance(x, list):
                        for y in x:
                            find_ifs2(y)
        find_ifs2(blk)
        if tgt["then_of_if"] >= len(ifs):
            fail(f"{name}: has only {len(ifs)} if statements")
        node = ifs[tgt["then_of_if"]]
        for w in tgt.get("expect", []):
            if not mentions_id(node[1], w):
                fail(f"{name}: if #{tgt['then_of_if']} does not mention {w} (the numbering changed?)")
        body = node[2][1] if node[2][0] == "block" else [node[2]]
        stmts = []
        for x in [fixret(y) for y in body]:
            stmts += low.stmt(x)
        stmts.append(("return", EXIT))
    elif "stmts" in tgt:
        i, j = tgt["stmts"]
        body = [fixret(x) for x in blk[1][i:j]]
        stmts = []
        for x in body:
            stmts += low.stmt(x)
        stmts.append(("return", EXIT))
    else:
        loops = []
        find_loops(blk, loops)
        if tgt["loop"] >= len(loops):
            fail(f"{name}: has only {len(loops)} loops")
        lp = loops[tgt["loop"]]
        for w in tgt.get("expect", []):
            if not mentions_id(lp, w):
                fail(f"{name}: loop {tgt['loop']} does not mention {w} (the numbering of the loops changed?)")
        if lp[0] == "while":
            pre, cv = low.cond(lp[1])
            stmts = pre + [("if", ("un", "!", cv), ("return", EXIT), None)] + low.stmt(fixret(lp[2])) + [("return", CONT)]
        elif lp[0] == "dowhile":
            stmts = low.stmt(fixret(lp[1]))
            pre, cv = low.cond(lp[2])
            stmts += pre + [("if", cv, ("return", CONT), None), ("return", EXIT)]
        else:
            # for (init; cond; step) body: one iteration = cond, body, step
            if lp[2] is None:
                fail(f"{name}: for loop without a condition")
            pre, cv = low.cond(lp[2])
            stepst = low.stmt(("expr", lp[3])) if lp[3] is not None else []
            cont_stmts.extend(stepst)
            if "body_from" in tgt:
                # only the statements of the body from this index on (and the step expression): status 0 = break
                bstm = lp[4][1][tgt["body_from"]:] if lp[4][0] == "block" else fail(f"{name}: loop body is not a block")
                stmts = []
                for x in bstm:
                    stmts += low.stmt(fixret(x))
                stmts += stepst + [("return", CONT)]
            else:
                stmts = pre + [("if", ("un", "!", cv), ("return", EXIT), None)] + low.stmt(fixret(lp[4])) + stepst + [("return", CONT)]
    # ---- variables
    tr_tgt = dict(tgt, func=name)
    types = {}
    for pn, pt, pnp in params:
        if pnp == 0 and isinstance(pt, CT):
            types[pn] = pt
        elif pnp >= 1 and pn in tgt.get("ptrvals", []):
            types[pn] = ULONG
    for d in decls:
        (dt, dn), nm = d[1], d[2]
        if dn == 0 and isinstance(dt, CT):
            types[nm] = dt
        elif nm in tgt.get("ptrlocals", []):
            types[nm] = ULONG
    for v, kind in low.pseudo.items():
        types[v] = {"index": UINT, "flag": UINT, "tmp": UINT, "cond": INT}.get(kind, ULONG)
    types.update(pre_alias)
    roots0 = {pn: (pt, pnp) for pn, pt, pnp in params}
    for d in decls:
        roots0[d[2]] = d[1]
    for c in tgt.get("cursors", ()):
        types[c] = ULONG                # element index
    for g in tgt.get("ptrglobals", ()):
        types[g] = ULONG                # address of a global object, compared with pointers only
    for v, (c, ver, f) in low.cursor_vars.items():
        t = env.path_type(("field", ("id", c), f), roots0)
        if t[1] or t[2] or not isinstance(t[0], CT):
            fail(f"{name}: {c}->{f} is not an integer member")
        types[v] = t[0]
    for v, kind in low.pseudo.items():
        if kind == "emit":
            types[v] = tgt.get("emit_type") and env.resolve(tgt["emit_type"].split()) or INT
    roots = {pn: (pt, pnp) for pn, pt, pnp in params}
    for d in decls:
        roots[d[2]] = d[1]

    def mk():
        tr = Translator(env, tr_tgt, funcs=funcs)
        tr.ret = INT
        for v, t in types.items():
            tr.vars[v] = t
            kind = low.pseudo.get(v)
            if kind in (None, "content"):
                tr.defined.add(v)           # inputs: loop state, array contents, members of the elements under the cursors
            if v in tgt.get("ptrvals", []) or v in tgt.get("ptrlocals", []):
                pass
        for cexpr, spec in tgt.get("mem", {}).items():
            q = Parser(lex(cexpr), env)
            mast = q.expr()
            nm, tyname = spec
            if tyname == "ptr":
                cty = ULONG
                t = env.path_type(mast, roots)
                if not (t[1] >= 1 and t[2] == 0):
                    fail(f"{name}: memory operand {cexpr!r} is not a pointer")
            elif tyname.startswith("unchecked "):
                cty = env.resolve(tyname.split()[1:])
            else:
                cty = env.resolve(tyname.split())
                t = env.path_type(mast, roots)
                if not isinstance(cty, CT) or t[1] or t[2] or t[0] != cty:
                    fail(f"{name}: memory operand {cexpr!r} has C type {t}, not {tyname}")
            tr.mem.append((mast, nm))
            tr.vars[nm] = cty
            tr.defined.add(nm)
        # write flags start at 0
        return tr
    inits = [("expr", ("assign", "=", ("id", v), ("num", (0, "", False)))) for v, kind in low.pseudo.items()
             if kind in ("flag", "emit")] + \
            [("expr", ("assign", "=", ("id", v), ("num", (0, "", False)))) for v, kind in low.pseudo.items()
             if kind in ("index", "value") and v.endswith(("_wr_index", "_wr_value"))]
    # declarations met again inside the step must not clash with the registered variables
    def strip_decl(st):
        if isinstance(st, tuple) and st[0] == "decl":
            return ("block", []) if st[3] is None else ("expr", ("assign", "=", ("id", st[2]), st[3]))
        if isinstance(st, tuple):
            return tuple(strip_decl(x) if isinstance(x, tuple) else ([strip_decl(y) for y in x] if isinstance(x, list) else x) for x in st)
        return st
    stmts = [strip_decl(x) for x in inits + stmts]
    probe = mk()
    Body(probe, False, lambda v: "0").seq(stmts, lambda: "0")
    outs = [v for v in types if v in probe.assigned and low.pseudo.get(v) not in ("tmp", "cond")] + \
           [nm for _, nm in probe.mem if nm in probe.assigned]
    tr = mk()

    def ret_text(v):
        for o in outs:
            if o not in tr.defined:
                fail(f"{name}: result {o} has no value on some path")
            if o not in tr.written:
                tr.input_reads.add(o)
        return "(" + ", ".join([v] + [lname(o) for o in outs]) + ")"
    text = Body(tr, False, ret_text).seq(stmts, lambda: fail(f"{name}: step falls off its end"))
    ins = [v for v in list(types) + [nm for _, nm in tr.mem] if v in tr.input_reads]
    allv = dict(types)
    allv.update({nm: tr.vars[nm] for _, nm in tr.mem})
    fi = FuncInfo()
    fi.cname, fi.lean, fi.mode = name, lname(tgt["name"]), tr.mode
    args = " ".join(f"({lname(v)} : {tr.ltype(allv[v])})" for v in ins)
    rty = " × ".join([tr.ltype(INT)] + [tr.ltype(allv[o]) for o in outs])
    sig = ", ".join(f"{v} : {allv[v].cname()}" for v in ins)
    res = ", ".join(["status : 0 loop ends / 1 next iteration / 2.. n-th return"] + [f"{o} : {allv[o].cname()}" for o in outs])
    what = (f"condition of if #{tgt['cond_of_if']} (status 1 = true)" if "cond_of_if" in tgt else
            f"then-branch of if #{tgt['then_of_if']}" if "then_of_if" in tgt else
            f"statements {tgt['stmts']}" if "stmts" in tgt else f"one iteration of loop #{tgt['loop']}")
    fi.text = (f"/-- `{tgt['file']}:{name}`, {what} ({tr.mode} mode).  Arguments: {sig}.  Result: ({res}). -/\n"
               f"def {fi.lean} {args} : {rty} :=\n{Body.ind(None, text)}\n")
    if "NEGATIVE_CONSTANT" in fi.text:
        fail(f"{name}: a negative constant survives")
    return fi


def mentions_id(e, w):
    if isinstance(e, tuple):
        if e[:1] == ("id",) and len(e) > 1 and e[1] == w:
            return True
        if e and e[0] == "field" and e[2] == w:
            return True
        return any(mentions_id(x, w) for x in e[1:] if isinstance(x, (tuple, list)))
    if isinstance(e, list):
        return any(mentions_id(x, w) for x in e)
    return False


def probe_param_vars(tr, nm, env):
    """member variables of struct parameter nm, in declaration order"""
    return [nm + "_" + f for f in env.struct_fields(tr.tgt["structs"][nm]) if f is not None and nm + "_" + f in tr.vars]


# =============================================================================== main
HEADER = """import Pixman.Lemmas.CSem
import Pixman.Gen.Combine32Macros
/-! REGENERATED on every run by tools/gen_cfuncs.py from the preprocessed C sources — never edit.
One definition per C function / statement block; the docstring names `file:function`, the C type of
every argument and result.  Integer semantics: see tools/gen_cfuncs.py and Pixman/Lemmas/CSem.lean. -/
set_option linter.unusedVariables false
namespace Pixman.Gen.CFuncs
open Pixman.CSem Pixman.Gen

"""


def main():
    repo, outdir = sys.argv[1], sys.argv[2]
    base = Path(os.environ.get("VERIF_SCRATCH", "/var/tmp"))
    scratch = Path(tempfile.mkdtemp(prefix="pixman-verif-gen.", dir=str(base)))
    try:
        envs = {}
        funcs = {}
        chunks = []
        xm = None
        for tgt in TARGETS:
            key = (tgt["file"], tuple(tgt.get("defs", ())), bool(tgt.get("xmacros")), repr(tgt.get("stub")))
            if tgt.get("xmacros"):
                if xm is None:
                    xm = combine32_macros(repo)
                tgt = dict(tgt, _xmacros=xm)
            if key not in envs:
                envs[key] = Env(preprocess(repo, tgt["file"], scratch, tgt.get("defs", ()),
                                           keep_macros=set(xm) if tgt.get("xmacros") else None,
                                           stub=tgt.get("stub")))
            env = envs[key]
            if tgt.get("kind") == "cond":
                fi = translate_condition(env, tgt)
                chunks.append(fi.text)
                continue
            if tgt.get("kind") == "step":
                fi = translate_step(env, tgt, funcs)
                chunks.append(fi.text)
                continue
            fi = translate_function(env, tgt, funcs)
            funcs[tgt.get("name", tgt["func"])] = fi
            chunks.append(fi.text)
        text = HEADER + "\n".join(chunks) + "\nend Pixman.Gen.CFuncs\n"
        write_if_changed(Path(outdir) / "CFuncs.lean", text)
    finally:
        shutil.rmtree(scratch, ignore_errors=True)


if __name__ == "__main__":
    try:
        main()
    except Fail as ex:
        print(f"gen_cfuncs: {ex}")
        sys.exit(1)

import Pixman.Lemmas.Blend
import Pixman.Gen.Combine32Macros
/-! C01 — compositing equations (narrow / 8-bit pipeline): property theorems.

1. scalar facts about the rounding macros;
2. lane theorems: every `UN8_rb_*` / `UN8x4_*` macro is the per-channel map of the scalar
   operation (no inter-lane carry);
3. every Porter-Duff / ADD combiner of `pixman-combine32.c`, unified and component alpha, early
   outs included, leaves in every channel the value `Spec.unified` / `Spec.componentAlpha` define;
4. bridges: the macro bodies REGENERATED from `pixman-combine32.h` are the model's. -/
namespace Pixman.Props.C01
open Pixman.Arith Pixman.Lanes Pixman.Spec Pixman.Combine32 Pixman.Lemmas

/-! ## 1. scalar facts -/

/-- `MUL_UN8` is `a·b/255` rounded to nearest. -/
theorem mulUn8_round (a b : Nat) (ha : a ≤ 255) (hb : b ≤ 255) : mulUn8 a b = rnd a b := by
  unfold mulUn8 rnd
  have hb' : b % 65536 = b := Nat.mod_eq_of_lt (by omega)
  rw [hb']
  have h : a * b ≤ 255 * 255 := Nat.mul_le_mul ha hb
  generalize a * b = p at h ⊢
  simp only [Nat.shiftRight_eq_div_pow, Nat.reducePow]
  have e1 : p % 4294967296 = p := Nat.mod_eq_of_lt (by omega)
  rw [e1]
  have e2 : (p + 128) % 4294967296 = p + 128 := Nat.mod_eq_of_lt (by omega)
  rw [e2]
  have e3 : ((p + 128) / 256 + (p + 128)) % 4294967296 = (p + 128) / 256 + (p + 128) :=
    Nat.mod_eq_of_lt (by omega)
  rw [e3]
  clear e1 e2 e3
  omega
example : mulUn8 0x7f 0x80 = 64 ∧ rnd 0x7f 0x80 = 64 := by decide

/-- the rounding is to nearest: `|255·rnd a b − a·b| ≤ 127` -/
theorem rnd_nearest (a b : Nat) : 255 * rnd a b ≤ a * b + 127 ∧ a * b ≤ 255 * rnd a b + 127 := by
  unfold rnd
  generalize a * b = p
  omega

theorem mulUn8_255 (a : Nat) (ha : a ≤ 255) : mulUn8 a 255 = a := by
  rw [mulUn8_round a 255 ha (Nat.le_refl _), rnd_255]

theorem mulUn8_zero (a : Nat) (ha : a ≤ 255) : mulUn8 a 0 = 0 := by
  rw [mulUn8_round a 0 ha (by omega), rnd_zero]

theorem mulUn8_le (a b : Nat) (ha : a ≤ 255) (hb : b ≤ 255) : mulUn8 a b ≤ 255 := by
  rw [mulUn8_round a b ha hb]; exact rnd_le a b ha hb

set_option maxRecDepth 8192 in
theorem addUn8_sat_aux : ∀ t, t < 511 →
    (t ||| ((0 + 4294967296 - (t >>> 8) % 4294967296) % 4294967296)) % 256 % 4294967296
      = min 255 t := by decide

/-- `ADD_UN8` is the saturating add. -/
theorem addUn8_sat (x y : Nat) (hx : x ≤ 255) (hy : y ≤ 255) : addUn8 x y = min 255 (x + y) := by
  unfold addUn8
  have e : (x + y) % 4294967296 = x + y := Nat.mod_eq_of_lt (by omega)
  simp only [e]
  exact addUn8_sat_aux (x + y) (by omega)
example : addUn8 0xfe 0x02 = 255 ∧ addUn8 0x7f 0x80 = 255 ∧ addUn8 1 2 = 3 := by decide

/-- `DIV_ONE_UN8` is `x/255` rounded to nearest (on the clamped range). -/
theorem divOneUn8_round (x : Nat) (hx : x ≤ 255 * 255) : divOneUn8 x = (2 * x + 255) / 510 := by
  unfold divOneUn8
  simp only [Nat.shiftRight_eq_div_pow, Nat.reducePow]
  have e2 : (x + 128) % 4294967296 = x + 128 := Nat.mod_eq_of_lt (by omega)
  rw [e2]
  have e3 : ((x + 128) + (x + 128) / 256) % 4294967296 = (x + 128) + (x + 128) / 256 :=
    Nat.mod_eq_of_lt (by omega)
  rw [e3]
  clear e2 e3
  omega
example : divOneUn8 (255 * 255) = 255 ∧ divOneUn8 127 = 0 ∧ divOneUn8 128 = 1 := by decide

/-- `DIV_UN8` is `255·a/b` rounded (ties up). -/
theorem divUn8_round (a b : Nat) (ha : a ≤ 255) (hb : b ≤ 255) :
    divUn8 a b = (a * 255 + b / 2) / b := by
  unfold divUn8
  have e1 : a % 65536 = a := Nat.mod_eq_of_lt (by omega)
  rw [e1]
  have e2 : (a * 255) % 4294967296 = a * 255 := Nat.mod_eq_of_lt (by omega)
  rw [e2]
  have e3 : (a * 255 + b / 2) % 4294967296 = a * 255 + b / 2 := Nat.mod_eq_of_lt (by omega)
  rw [e3]
example : divUn8 0x40 0x80 = 128 := by decide

/-! ## 2. lane theorems -/

private theorem mul_ch (c : Chan) (x a : Nat) (ha : a ≤ 255) :
    mulUn8 (chan c x) a = rnd (chan c x) a := mulUn8_round _ _ (chan_le c x) ha
private theorem mul_ch2 (c : Chan) (x y : Nat) :
    mulUn8 (chan c x) (chan c y) = rnd (chan c x) (chan c y) :=
  mulUn8_round _ _ (chan_le c x) (chan_le c y)
private theorem add_le (x y : Nat) (hx : x ≤ 255) (hy : y ≤ 255) : addUn8 x y = sat x y :=
  addUn8_sat x y hx hy

/-- `UN8_rb_MUL_UN8`: the red and blue lanes are multiplied independently. -/
theorem rbMulUn8_lanes (x a : Nat) (ha : a ≤ 255) :
    rbMulUn8 x a = mulUn8 (chan .r x) a * 65536 + mulUn8 (chan .b x) a := by
  rw [mul_ch .r x a ha, mul_ch .b x a ha]; exact rbMulUn8_eq x a ha
example : rbMulUn8 0x12ff34fe 0x80 = 0x80007f := by decide

/-- `UN8_rb_MUL_UN8_rb`. -/
theorem rbMulUn8rb_lanes (x a : Nat) :
    rbMulUn8rb x a = mulUn8 (chan .r x) (chan .r a) * 65536 + mulUn8 (chan .b x) (chan .b a) := by
  rw [mul_ch2 .r x a, mul_ch2 .b x a]; exact rbMulUn8rb_eq x a

/-- `UN8_rb_ADD_UN8_rb` on two lane pairs: saturating add, no carry from blue into red. -/
theorem rbAddUn8rb_lanes (r b r' b' : Nat) (hr : r ≤ 255) (hb : b ≤ 255) (hr' : r' ≤ 255)
    (hb' : b' ≤ 255) :
    rbAddUn8rb (r * 65536 + b) (r' * 65536 + b') = addUn8 r r' * 65536 + addUn8 b b' := by
  rw [addUn8_sat r r' hr hr', addUn8_sat b b' hb hb']
  exact rbAddUn8rb_eq r b r' b' hr hb hr' hb'
example : rbAddUn8rb 0x00ff0001 0x00010002 = 0x00ff0003 := by decide

theorem un8x4MulUn8_lanes (x a : Nat) (ha : a ≤ 255) :
    un8x4MulUn8 x a = ofChannels (fun c => mulUn8 (chan c x) a) := by
  simp only [mul_ch _ x a ha]; exact un8x4MulUn8_eq x a ha
example : un8x4MulUn8 0xff80407f 0x80 = 0x80402040 := by decide

theorem un8x4MulUn8x4_lanes (x a : Nat) :
    un8x4MulUn8x4 x a = ofChannels (fun c => mulUn8 (chan c x) (chan c a)) := by
  simp only [mul_ch2 _ x a]; exact un8x4MulUn8x4_eq x a

theorem un8x4AddUn8x4_lanes (x y : Nat) :
    un8x4AddUn8x4 x y = ofChannels (fun c => addUn8 (chan c x) (chan c y)) := by
  simp only [add_le _ _ (chan_le _ x) (chan_le _ y)]; exact un8x4AddUn8x4_eq x y
example : un8x4AddUn8x4 0xff80407f 0x01808081 = 0xffffc0ff := by decide

theorem un8x4MulUn8AddUn8x4_lanes (x a y : Nat) (ha : a ≤ 255) :
    un8x4MulUn8AddUn8x4 x a y
      = ofChannels (fun c => addUn8 (mulUn8 (chan c x) a) (chan c y)) := by
  simp only [mul_ch _ x a ha, add_le _ _ (rnd_le _ _ (chan_le _ x) ha) (chan_le _ y)]
  exact un8x4MulUn8AddUn8x4_eq x a y ha

theorem un8x4MulUn8AddUn8x4MulUn8_lanes (x a y b : Nat) (ha : a ≤ 255) (hb : b ≤ 255) :
    un8x4MulUn8AddUn8x4MulUn8 x a y b
      = ofChannels (fun c => addUn8 (mulUn8 (chan c x) a) (mulUn8 (chan c y) b)) := by
  simp only [mul_ch _ x a ha, mul_ch _ y b hb,
    add_le _ _ (rnd_le _ _ (chan_le _ x) ha) (rnd_le _ _ (chan_le _ y) hb)]
  exact un8x4MulUn8AddUn8x4MulUn8_eq x a y b ha hb

theorem un8x4MulUn8x4AddUn8x4_lanes (x a y : Nat) :
    un8x4MulUn8x4AddUn8x4 x a y
      = ofChannels (fun c => addUn8 (mulUn8 (chan c x) (chan c a)) (chan c y)) := by
  simp only [mul_ch2 _ x a, add_le _ _ (rnd_le _ _ (chan_le _ x) (chan_le _ a)) (chan_le _ y)]
  exact un8x4MulUn8x4AddUn8x4_eq x a y

theorem un8x4MulUn8x4AddUn8x4MulUn8_lanes (x a y b : Nat) (hb : b ≤ 255) :
    un8x4MulUn8x4AddUn8x4MulUn8 x a y b
      = ofChannels (fun c => addUn8 (mulUn8 (chan c x) (chan c a)) (mulUn8 (chan c y) b)) := by
  simp only [mul_ch2 _ x a, mul_ch _ y b hb,
    add_le _ _ (rnd_le _ _ (chan_le _ x) (chan_le _ a)) (rnd_le _ _ (chan_le _ y) hb)]
  exact un8x4MulUn8x4AddUn8x4MulUn8_eq x a y b hb
example : un8x4MulUn8x4AddUn8x4MulUn8 0xff80407f 0x80ff0001 0x10204080 0xff = 0x90a04080 := by
  decide

/-- channel extraction undoes `ofChannels` (so the lane theorems determine every channel) -/
theorem chan_ofChannels' (f : Chan → Nat) (hf : ∀ c, f c ≤ 255) (c : Chan) :
    chan c (ofChannels f) = f c := chan_ofChannels f hf c

/-! ## 3. combiners, unified alpha

Hypotheses: the three pixels are 32-bit words.  Conclusion: every channel of the combiner's
result is the Spec's, and the result is a 32-bit word. -/

section unified
variable (s d : Nat) (mask : Option Nat) (hs : s < 4294967296) (hd : d < 4294967296)
  (hm : ∀ m, mask = some m → m < 4294967296) (c : Chan)

theorem combineClear_spec : chan c (combineClear s mask d) = unified .clear c s mask d := by
  simp only [combineClear, unified, channel, factors, Factor.eval, rnd_zero, chan_zero]
  rfl

theorem combineDst_spec : chan c (combineDst s mask d) = unified .dst c s mask d := by
  simp only [combineDst, unified, channel, factors, Factor.eval, rnd_zero, rnd_255, Nat.zero_add]
  have := chan_le c d
  omega

include hm in
theorem combineSrcU_spec : chan c (combineSrcU s mask d) = unified .src c s mask d := by
  have e : combineSrcU s mask d = combineMask s mask := by cases mask <;> rfl
  rw [e, chan_combineMask' c s mask hm]
  simp only [unified, channel, factors, Factor.eval, rnd_zero, rnd_255, Nat.add_zero]
  have := maskedU_le c s mask
  omega

/-- the no-mask / opaque-mask body of `combine_over_u` (early outs `a == 0xff`, `s == 0`) -/
private theorem over_core (hs : s < 4294967296) (c : Chan) :
    chan c (if alpha8 s = 0xff then s
            else if s ≠ 0 then un8x4MulUn8AddUn8x4 d (alpha8 s ^^^ 0xff) s else d)
      = min 255 (chan c s + rnd (chan c d) (255 - chan .a s)) := by
  rw [alpha8_eq s hs]
  have hc := chan_le c s
  have hcd := chan_le c d
  have ha := chan_le .a s
  split
  · next h => rw [h]; simp only [Nat.sub_self, rnd_zero]; omega
  · split
    · rw [xor_ff _ (by omega), chan_mulUn8Add c d _ s (by omega)]
      simp only [sat]; omega
    · next h0 h =>
      have : s = 0 := Classical.not_not.mp h
      subst this
      simp only [chan_zero, Nat.sub_zero, rnd_255, Nat.zero_add]
      omega

include hs hm in
theorem combineOverU_spec : chan c (combineOverU s mask d) = unified .over c s mask d := by
  simp only [unified, channel, factors, Factor.eval, rnd_255]
  cases mask with
  | none => exact over_core s d hs c
  | some mk =>
    have hmk := hm mk rfl
    simp only [combineOverU, maskedU]
    rw [alpha8_eq mk hmk]
    split
    · next h => rw [h]; simp only [rnd_255]; exact over_core s d hs c
    · split
      · split
        · have hs' := lt_mulUn8 s (chan .a mk) (chan_le .a mk)
          rw [alpha8_eq _ (not32_lt _), chan_not32 .a _ hs',
            chan_mulUn8Add c d _ _ (by omega), chan_mulUn8 c s _ (chan_le .a mk),
            chan_mulUn8 .a s _ (chan_le .a mk)]
          simp only [sat]; omega
        · next h0 h1 h =>
          have : s = 0 := Classical.not_not.mp h
          subst this
          simp only [chan_zero, rnd_zero_left, Nat.sub_zero, rnd_255, Nat.zero_add]
          have := chan_le c d
          omega
      · next h0 h =>
        have : chan .a mk = 0 := Classical.not_not.mp h
        rw [this]
        simp only [rnd_zero, Nat.sub_zero, rnd_255, Nat.zero_add]
        have := chan_le c d
        omega

include hd hm in
theorem combineOverReverseU_spec :
    chan c (combineOverReverseU s mask d) = unified .overReverse c s mask d := by
  simp only [combineOverReverseU, unified, channel, factors, Factor.eval, rnd_255]
  rw [alpha8_eq _ (not32_lt _), chan_not32 .a d hd, chan_mulUn8Add c _ _ d (by omega),
    chan_combineMask' c s mask hm]
  rfl

include hd hm in
theorem combineInU_spec : chan c (combineInU s mask d) = unified .in_ c s mask d := by
  simp only [combineInU, unified, channel, factors, Factor.eval, rnd_zero, Nat.add_zero]
  rw [alpha8_eq d hd, chan_mulUn8 c _ _ (chan_le .a d), chan_combineMask' c s mask hm]
  have := rnd_le _ _ (maskedU_le c s mask) (chan_le .a d)
  omega

include hs hm in
theorem combineInReverseU_spec :
    chan c (combineInReverseU s mask d) = unified .inReverse c s mask d := by
  simp only [combineInReverseU, unified, channel, factors, Factor.eval, rnd_zero, Nat.zero_add]
  rw [alpha8_eq _ (lt_combineMask s mask hs hm), chan_combineMask' .a s mask hm,
    chan_mulUn8 c d _ (maskedU_le .a s mask)]
  have := rnd_le _ _ (chan_le c d) (maskedU_le .a s mask)
  omega

include hd hm in
theorem combineOutU_spec : chan c (combineOutU s mask d) = unified .out c s mask d := by
  simp only [combineOutU, unified, channel, factors, Factor.eval, rnd_zero, Nat.add_zero]
  rw [alpha8_eq _ (not32_lt _), chan_not32 .a d hd, chan_mulUn8 c _ _ (by omega),
    chan_combineMask' c s mask hm]
  have := rnd_le _ (255 - chan .a d) (maskedU_le c s mask) (by omega)
  omega

include hs hm in
theorem combineOutReverseU_spec :
    chan c (combineOutReverseU s mask d) = unified .outReverse c s mask d := by
  simp only [combineOutReverseU, unified, channel, factors, Factor.eval, rnd_zero, Nat.zero_add]
  rw [alpha8_eq _ (not32_lt _), chan_not32 .a _ (lt_combineMask s mask hs hm),
    chan_combineMask' .a s mask hm, chan_mulUn8 c d _ (by omega)]
  have := rnd_le _ (255 - maskedU .a s mask) (chan_le c d) (by omega)
  omega

include hs hd hm in
theorem combineAtopU_spec : chan c (combineAtopU s mask d) = unified .atop c s mask d := by
  simp only [combineAtopU, unified, channel, factors, Factor.eval]
  rw [alpha8_eq d hd, alpha8_eq _ (not32_lt _), chan_not32 .a _ (lt_combineMask s mask hs hm),
    chan_combineMask' .a s mask hm,
    chan_mulUn8AddMulUn8 c _ _ d _ (chan_le .a d) (by omega), chan_combineMask' c s mask hm]
  rfl

include hs hd hm in
theorem combineAtopReverseU_spec :
    chan c (combineAtopReverseU s mask d) = unified .atopReverse c s mask d := by
  simp only [combineAtopReverseU, unified, channel, factors, Factor.eval]
  rw [alpha8_eq _ (lt_combineMask s mask hs hm), alpha8_eq _ (not32_lt _), chan_not32 .a d hd,
    chan_combineMask' .a s mask hm,
    chan_mulUn8AddMulUn8 c _ _ d _ (by omega) (maskedU_le .a s mask),
    chan_combineMask' c s mask hm]
  rfl

include hs hd hm in
theorem combineXorU_spec : chan c (combineXorU s mask d) = unified .xor c s mask d := by
  simp only [combineXorU, unified, channel, factors, Factor.eval]
  rw [alpha8_eq _ (not32_lt _), alpha8_eq _ (not32_lt _), chan_not32 .a d hd,
    chan_not32 .a _ (lt_combineMask s mask hs hm), chan_combineMask' .a s mask hm,
    chan_mulUn8AddMulUn8 c _ _ d _ (by omega) (by omega), chan_combineMask' c s mask hm]
  rfl

include hm in
theorem combineAddU_spec : chan c (combineAddU s mask d) = unified .add c s mask d := by
  simp only [combineAddU, unified, channel, factors, Factor.eval, rnd_255]
  rw [chan_addUn8x4 c d _, chan_combineMask' c s mask hm]
  simp only [sat]; omega

end unified

/-! ## 3b. combiners, component alpha -/

section ca
variable (s m d : Nat) (hs : s < 4294967296) (hm : m < 4294967296) (hd : d < 4294967296)
  (c : Chan)

private theorem shr24_mod (x : Nat) (hx : x < 4294967296) : (x >>> 24) % 65536 = chan .a x := by
  rw [shr24_eq x hx]; have := chan_le .a x; omega

private theorem nshr24 (x : Nat) (hx : x < 4294967296) : (not32 x) >>> 24 = 255 - chan .a x := by
  rw [shr24_eq _ (not32_lt x), chan_not32 .a x hx]

private theorem nshr24_mod (x : Nat) (hx : x < 4294967296) :
    ((not32 x) >>> 24) % 65536 = 255 - chan .a x := by
  rw [nshr24 x hx]; omega

theorem combineClearCa_spec : chan c (combineClearCa s m d) = componentAlpha .clear c s m d := by
  simp only [combineClearCa, componentAlpha, channel, factors, Factor.eval, rnd_zero, chan_zero]
  rfl

theorem combineSrcCa_spec : chan c (combineSrcCa s m d) = componentAlpha .src c s m d := by
  simp only [combineSrcCa, componentAlpha, channel, factors, Factor.eval, rnd_zero, rnd_255,
    Nat.add_zero]
  rw [chan_combineMaskValueCa]
  have := rnd_le _ _ (chan_le c s) (chan_le c m)
  omega

include hs hm in
theorem combineOverCa_spec : chan c (combineOverCa s m d) = componentAlpha .over c s m d := by
  have H := combineMaskCa_spec s m hs hm
  simp only [combineOverCa, componentAlpha, channel, factors, Factor.eval, rnd_255]
  generalize combineMaskCa s m = p at H ⊢
  obtain ⟨s', m'⟩ := p
  obtain ⟨h1, h2, _, l2⟩ := H
  simp only [] at h1 h2 l2 ⊢
  rw [← h1 c, ← h2 c]
  split
  · rw [chan_mulUn8x4Add c d _ s', chan_not32 c m' l2]
    simp only [sat]; omega
  · next h =>
    have h0 : not32 m' = 0 := Classical.not_not.mp h
    rw [not32_eq_zero m' l2 h0, chan_ones]
    simp only [Nat.sub_self, rnd_zero, Nat.add_zero]
    have := chan_le c s'
    omega

include hd in
theorem combineOverReverseCa_spec :
    chan c (combineOverReverseCa s m d) = componentAlpha .overReverse c s m d := by
  simp only [combineOverReverseCa, componentAlpha, channel, factors, Factor.eval, rnd_255]
  rw [nshr24 d hd]
  split
  · rw [chan_mulUn8Add c _ _ d (by omega), chan_mulUn8x4 c s m]
    rfl
  · next h =>
    have h0 : 255 - chan .a d = 0 := Classical.not_not.mp h
    rw [h0, rnd_zero]
    have := chan_le c d
    omega

include hd in
theorem combineInCa_spec : chan c (combineInCa s m d) = componentAlpha .in_ c s m d := by
  simp only [combineInCa, componentAlpha, channel, factors, Factor.eval, rnd_zero, Nat.add_zero]
  rw [shr24_mod d hd]
  have hb := rnd_le _ _ (chan_le c s) (chan_le c m)
  split
  · split
    · rw [chan_mulUn8 c _ _ (chan_le .a d), chan_combineMaskValueCa]
      have := rnd_le _ _ hb (chan_le .a d)
      omega
    · next h =>
      have h0 : chan .a d = 255 := Classical.not_not.mp h
      rw [h0, rnd_255, chan_combineMaskValueCa]
      omega
  · next h =>
    have h0 : chan .a d = 0 := Classical.not_not.mp h
    rw [h0, rnd_zero, chan_zero]
    rfl

include hs in
theorem combineInReverseCa_spec :
    chan c (combineInReverseCa s m d) = componentAlpha .inReverse c s m d := by
  simp only [combineInReverseCa, componentAlpha, channel, factors, Factor.eval, rnd_zero,
    Nat.zero_add]
  rw [← chan_combineMaskAlphaCa c s m hs]
  have hb := rnd_le _ _ (chan_le c d) (chan_le c (combineMaskAlphaCa s m))
  split
  · split
    · rw [chan_mulUn8x4]; omega
    · next h =>
      have h0 : combineMaskAlphaCa s m = 0 := Classical.not_not.mp h
      rw [h0, chan_zero, rnd_zero]; rfl
  · next h =>
    have h0 : combineMaskAlphaCa s m = 4294967295 := Classical.not_not.mp h
    rw [h0, chan_ones, rnd_255]
    have := chan_le c d
    omega

include hd in
theorem combineOutCa_spec : chan c (combineOutCa s m d) = componentAlpha .out c s m d := by
  simp only [combineOutCa, componentAlpha, channel, factors, Factor.eval, rnd_zero, Nat.add_zero]
  rw [nshr24_mod d hd]
  have hb := rnd_le _ _ (chan_le c s) (chan_le c m)
  split
  · split
    · rw [chan_mulUn8 c _ _ (by omega), chan_combineMaskValueCa]
      have := rnd_le _ (255 - chan .a d) hb (by omega)
      omega
    · next h =>
      have h0 : 255 - chan .a d = 255 := Classical.not_not.mp h
      rw [h0, rnd_255, chan_combineMaskValueCa]
      omega
  · next h =>
    have h0 : 255 - chan .a d = 0 := Classical.not_not.mp h
    rw [h0, rnd_zero, chan_zero]
    rfl

include hs hm in
theorem combineOutReverseCa_spec :
    chan c (combineOutReverseCa s m d) = componentAlpha .outReverse c s m d := by
  simp only [combineOutReverseCa, componentAlpha, channel, factors, Factor.eval, rnd_zero,
    Nat.zero_add]
  rw [← chan_combineMaskAlphaCa c s m hs]
  have l := lt_combineMaskAlphaCa s m hs hm
  generalize combineMaskAlphaCa s m = m' at l ⊢
  split
  · split
    · rw [chan_mulUn8x4, chan_not32 c m' l]
      have := rnd_le _ (255 - chan c m') (chan_le c d) (by omega)
      omega
    · next h =>
      have h0 : not32 m' = 0 := Classical.not_not.mp h
      rw [not32_eq_zero m' l h0, chan_ones]
      simp only [Nat.sub_self, rnd_zero, chan_zero]
      rfl
  · next h =>
    have h0 : not32 m' = 4294967295 := Classical.not_not.mp h
    have h1 : m' = 0 := by
      have := not32_eq_ones m' h0
      rw [Nat.mod_eq_of_lt l] at this
      exact this
    rw [h1, chan_zero, Nat.sub_zero, rnd_255]
    have := chan_le c d
    omega

include hs hm hd in
theorem combineAtopCa_spec : chan c (combineAtopCa s m d) = componentAlpha .atop c s m d := by
  have H := combineMaskCa_spec s m hs hm
  simp only [combineAtopCa, componentAlpha, channel, factors, Factor.eval]
  generalize combineMaskCa s m = p at H ⊢
  obtain ⟨s', m'⟩ := p
  obtain ⟨h1, h2, _, l2⟩ := H
  simp only [] at h1 h2 l2 ⊢
  rw [← h1 c, ← h2 c, shr24_mod d hd, chan_mulUn8x4AddMulUn8 c d _ s' _ (chan_le .a d),
    chan_not32 c m' l2]
  simp only [sat]; omega

include hs hm hd in
theorem combineAtopReverseCa_spec :
    chan c (combineAtopReverseCa s m d) = componentAlpha .atopReverse c s m d := by
  have H := combineMaskCa_spec s m hs hm
  simp only [combineAtopReverseCa, componentAlpha, channel, factors, Factor.eval]
  generalize combineMaskCa s m = p at H ⊢
  obtain ⟨s', m'⟩ := p
  obtain ⟨h1, h2, _, _⟩ := H
  simp only [] at h1 h2 ⊢
  rw [← h1 c, ← h2 c, nshr24_mod d hd, chan_mulUn8x4AddMulUn8 c d _ s' _ (by omega)]
  simp only [sat]; omega

include hs hm hd in
theorem combineXorCa_spec : chan c (combineXorCa s m d) = componentAlpha .xor c s m d := by
  have H := combineMaskCa_spec s m hs hm
  simp only [combineXorCa, componentAlpha, channel, factors, Factor.eval]
  generalize combineMaskCa s m = p at H ⊢
  obtain ⟨s', m'⟩ := p
  obtain ⟨h1, h2, _, l2⟩ := H
  simp only [] at h1 h2 l2 ⊢
  rw [← h1 c, ← h2 c, nshr24_mod d hd, chan_mulUn8x4AddMulUn8 c d _ s' _ (by omega),
    chan_not32 c m' l2]
  simp only [sat]; omega

theorem combineAddCa_spec : chan c (combineAddCa s m d) = componentAlpha .add c s m d := by
  simp only [combineAddCa, componentAlpha, channel, factors, Factor.eval, rnd_255]
  rw [chan_addUn8x4, chan_combineMaskValueCa]
  simp only [sat]; omega

end ca

/-! ## 3b'. integer PDF blend modes: Multiply (exact integer rule).
The seven `PDF_SEPARABLE_BLEND_MODE` combiners (screen, overlay, darken, lighten, hard-light,
difference, exclusion) are modelled (`pdfSeparableU/Ca`) and held by the correspondence and the
real-valued oracle only: no theorem yet. -/

section multiply

theorem combineMultiplyU_spec (s d : Nat) (mask : Option Nat) (hs : s < 4294967296)
    (hd : d < 4294967296) (hm : ∀ m, mask = some m → m < 4294967296) (c : Chan) :
    chan c (combineMultiplyU s mask d) = multiplyUnified c s mask d := by
  simp only [combineMultiplyU, multiplyUnified, multiplyChannel]
  have hcm := lt_combineMask s mask hs hm
  rw [alpha8_eq _ (not32_lt _), alpha8_eq _ (not32_lt _), chan_not32 .a d hd, chan_not32 .a _ hcm,
    chan_addUn8x4, chan_mulUn8x4, chan_mulUn8AddMulUn8 c _ _ d _ (by omega) (by omega),
    chan_combineMask' c s mask hm, chan_combineMask' .a s mask hm]
  simp only [sat]; omega
example : combineMultiplyU 0x80402010 none 0xff808080 = 4284502088 := by decide

theorem combineMultiplyCa_spec (s m d : Nat) (hs : s < 4294967296) (hm : m < 4294967296)
    (hd : d < 4294967296) (c : Chan) :
    chan c (combineMultiplyCa s m d) = multiplyComponentAlpha c s m d := by
  have H := combineMaskCa_spec s m hs hm
  simp only [combineMultiplyCa, multiplyComponentAlpha, multiplyChannel]
  generalize combineMaskCa s m = p at H ⊢
  obtain ⟨s', m'⟩ := p
  obtain ⟨h1, h2, _, l2⟩ := H
  simp only [] at h1 h2 l2 ⊢
  rw [← h1 c, ← h2 c, alpha8_eq _ (not32_lt _), chan_not32 .a d hd, chan_addUn8x4, chan_mulUn8x4,
    chan_mulUn8x4AddMulUn8 c d _ s' _ (by omega), chan_not32 c m' l2]
  simp only [sat]; omega

end multiply

/-! ## 3b''. the seven `PDF_SEPARABLE_BLEND_MODE` combiners: structure theorem.
For ANY blend function: every channel of the result is `DIV_ONE_UN8 (CLAMP (numerator))` of that
channel's own numerator `isa·d + ida·s + blend (d, da, s, sa)` (alpha: `da·255 + sa·255 − sa·da`),
computed from the masked source — no channel influences another, the packing loses nothing.
PARTIAL with respect to C01: that the numerator equals the real-valued PDF equation for
premultiplied inputs is not proved here (the harness oracle checks it within half a step). -/

section pdf

theorem pdfSeparableU_channels_partial (blend : Int → Int → Int → Int → Int) (s d : Nat)
    (mask : Option Nat) (hs : s < 4294967296) (hd : d < 4294967296)
    (hm : ∀ m, mask = some m → m < 4294967296) (c : Chan) :
    chan c (pdfSeparableU blend s mask d) =
      pdfFinish (match c with
        | .a => pdfNumA (chan .a d) (maskedU .a s mask)
        | c => pdfNumC blend (chan c d) (chan .a d) (maskedU c s mask) (maskedU .a s mask)) := by
  have hcm := lt_combineMask s mask hs hm
  unfold pdfSeparableU
  simp only []
  rw [alpha8_mod _ hcm, alpha8_mod d hd, red8_eq, red8_eq, green8_eq, green8_eq, blue8_eq, blue8_eq]
  simp only [chan_combineMask' _ s mask hm]
  have hsa := maskedU_le .a s mask
  have hda := chan_le .a d
  rw [two_products_lt _ _ _ _ (by omega) (chan_le .r d) (by omega) (maskedU_le .r s mask),
    two_products_lt _ _ _ _ (by omega) (chan_le .g d) (by omega) (maskedU_le .g s mask),
    two_products_lt _ _ _ _ (by omega) (chan_le .b d) (by omega) (maskedU_le .b s mask)]
  have hb : ∀ v, divOneUn8 (clampU v 0 (255 * 255)) ≤ 255 := pdfFinish_le
  rw [pack_shifts _ _ _ _ (hb _) (hb _) (hb _) (hb _),
    chan_pack4 c _ _ _ _ (hb _) (hb _) (hb _) (hb _)]
  cases c <;> rfl

theorem pdfSeparableCa_channels_partial (blend : Int → Int → Int → Int → Int) (s m d : Nat)
    (hs : s < 4294967296) (hm : m < 4294967296) (hd : d < 4294967296) (c : Chan) :
    chan c (pdfSeparableCa blend s m d) =
      pdfFinish (match c with
        | .a => pdfNumA (chan .a d) (rnd (chan .a s) (chan .a m))
        | c => pdfNumC blend (chan c d) (chan .a d) (rnd (chan c s) (chan c m))
                 (rnd (chan c m) (chan .a s))) := by
  have H := combineMaskCa_spec s m hs hm
  unfold pdfSeparableCa
  simp only []
  generalize combineMaskCa s m = p at H ⊢
  obtain ⟨s', m'⟩ := p
  obtain ⟨h1, h2, l1, _⟩ := H
  simp only [] at h1 h2 l1 ⊢
  rw [alpha8_mod d hd, alpha8_eq s' l1, red8_eq, red8_eq, red8_eq, green8_eq, green8_eq, green8_eq,
    blue8_eq, blue8_eq, blue8_eq]
  simp only [h1, h2]
  have hda := chan_le .a d
  have hr := fun c => rnd_le _ _ (chan_le c s) (chan_le c m)
  have hr' := fun c => rnd_le _ _ (chan_le c m) (chan_le .a s)
  rw [two_products_lt _ _ _ _ (by omega) (chan_le .r d) (by omega) (hr .r),
    two_products_lt _ _ _ _ (by omega) (chan_le .g d) (by omega) (hr .g),
    two_products_lt _ _ _ _ (by omega) (chan_le .b d) (by omega) (hr .b)]
  have hb : ∀ v, divOneUn8 (clampU v 0 (255 * 255)) ≤ 255 := pdfFinish_le
  rw [pack_shifts _ _ _ _ (hb _) (hb _) (hb _) (hb _),
    chan_pack4 c _ _ _ _ (hb _) (hb _) (hb _) (hb _)]
  cases c <;> rfl

/-- a numerator that is a natural number below 2^32: clamp, then `x/255` to nearest -/
theorem pdfFinish_nat (N : Nat) (h : N < 4294967296) :
    pdfFinish (toU32 (N : Int)) = (2 * min N 65025 + 255) / 510 := by
  have e : toU32 (N : Int) = N := by
    unfold toU32
    have : ((N : Int) % 4294967296) = ((N % 4294967296 : Nat) : Int) := by omega
    rw [this, Int.toNat_natCast, Nat.mod_eq_of_lt h]
  rw [e]
  unfold pdfFinish clampU
  simp only [Nat.not_lt_zero, if_false]
  split
  · next hgt =>
    rw [divOneUn8_round _ (by omega)]
    have : min N 65025 = 65025 := by omega
    rw [this]
  · next hle =>
    rw [divOneUn8_round _ (by omega)]
    have : min N 65025 = N := by omega
    rw [this]

/-- alpha of every separable blend mode: `sₐ + dₐ − sₐ·dₐ/255` to nearest (never clamps) -/
theorem pdfAlpha_round (da sa : Nat) (hda : da ≤ 255) (hsa : sa ≤ 255) :
    pdfFinish (pdfNumA da sa) = (2 * (da * 255 + sa * 255 - sa * da) + 255) / 510 := by
  have hle : sa * da ≤ sa * 255 := Nat.mul_le_mul_left sa hda
  have hN : da * 255 + sa * 255 - sa * da ≤ 65025 := by
    -- (255 - sa) * (255 - da) ≥ 0
    have h1 : (255 - sa) * da ≤ (255 - sa) * 255 := Nat.mul_le_mul_left _ hda
    have h2 : (255 - sa) * da = 255 * da - sa * da := Nat.sub_mul 255 sa da
    have h3 : sa * da ≤ 255 * da := Nat.mul_le_mul_right da hsa
    have h4 : (255 - sa) * 255 = 255 * 255 - sa * 255 := Nat.sub_mul 255 sa 255
    omega
  have e : ((da : Int) * 0xff + (sa : Int) * 0xff - (sa : Int) * (da : Int))
      = ((da * 255 + sa * 255 - sa * da : Nat) : Int) := by
    have : sa * da ≤ da * 255 + sa * 255 := Nat.le_trans hle (Nat.le_add_left _ _)
    rw [Int.natCast_sub this]
    simp only [Int.natCast_add, Int.natCast_mul]
    rfl
  unfold pdfNumA
  rw [e, pdfFinish_nat _ (by omega)]
  have : min (da * 255 + sa * 255 - sa * da) 65025 = da * 255 + sa * 255 - sa * da := by omega
  rw [this]
example : pdfFinish (pdfNumA 0x80 0x80) = 192 := by decide

end pdf

/-! ## 3c. whole pixels: the combiner selected for an operator computes the Spec pixel -/

private theorem lt_ca_pair (s m : Nat) (hs : s < 4294967296) (hm : m < 4294967296) :
    (combineMaskCa s m).1 < 4294967296 := (combineMaskCa_spec s m hs hm).2.2.1

/-- every unified Porter-Duff / ADD combiner returns a 32-bit word -/
theorem combineU_lt (op : Op) (s d : Nat) (mask : Option Nat) (hs : s < 4294967296)
    (hd : d < 4294967296) (hm : ∀ m, mask = some m → m < 4294967296) :
    ∀ f, combineU? op.code = some f → f s mask d < 4294967296 := by
  intro f hf
  have hcm := lt_combineMask s mask hs hm
  cases op <;> simp only [Op.code, combineU?, Option.some.injEq] at hf <;> subst hf
  · simp [combineClear]
  · cases mask <;> simp only [combineSrcU] <;> assumption
  · exact hd
  · unfold combineOverU
    cases mask with
    | none =>
      simp only []
      repeat' split
      all_goals first | assumption | exact lt_mulUn8Add _ _ _ (by
        rw [alpha8_eq s hs, xor_ff _ (by have := chan_le .a s; omega)]; omega)
    | some mk =>
      simp only []
      repeat' split
      all_goals first
        | assumption
        | exact lt_mulUn8Add _ _ _ (by
            rw [alpha8_eq s hs, xor_ff _ (by have := chan_le .a s; omega)]; omega)
        | exact lt_mulUn8Add _ _ _ (by
            rw [alpha8_eq _ (not32_lt _)]; exact chan_le _ _)
  · exact lt_mulUn8Add _ _ _ (by rw [alpha8_eq _ (not32_lt _)]; exact chan_le _ _)
  · exact lt_mulUn8 _ _ (by rw [alpha8_eq d hd]; exact chan_le _ _)
  · exact lt_mulUn8 _ _ (by rw [alpha8_eq _ hcm]; exact chan_le _ _)
  · exact lt_mulUn8 _ _ (by rw [alpha8_eq _ (not32_lt _)]; exact chan_le _ _)
  · exact lt_mulUn8 _ _ (by rw [alpha8_eq _ (not32_lt _)]; exact chan_le _ _)
  · exact lt_mulUn8AddMulUn8 _ _ _ _ (by rw [alpha8_eq d hd]; exact chan_le _ _)
      (by rw [alpha8_eq _ (not32_lt _)]; exact chan_le _ _)
  · exact lt_mulUn8AddMulUn8 _ _ _ _ (by rw [alpha8_eq _ (not32_lt _)]; exact chan_le _ _)
      (by rw [alpha8_eq _ hcm]; exact chan_le _ _)
  · exact lt_mulUn8AddMulUn8 _ _ _ _ (by rw [alpha8_eq _ (not32_lt _)]; exact chan_le _ _)
      (by rw [alpha8_eq _ (not32_lt _)]; exact chan_le _ _)
  · exact lt_addUn8x4 _ _

/-- **C01, unified alpha.**  For each of the 13 operators the function installed in
`combine_32[op]` maps every 32-bit `s`, optional mask and `d` to exactly the Spec pixel. -/
theorem unified_correct (op : Op) (s d : Nat) (mask : Option Nat) (hs : s < 4294967296)
    (hd : d < 4294967296) (hm : ∀ m, mask = some m → m < 4294967296) :
    ∃ f, combineU? op.code = some f ∧ f s mask d = unifiedPixel op s mask d := by
  have key : ∀ f, combineU? op.code = some f → (∀ c, chan c (f s mask d) = unified op c s mask d)
      → f s mask d = unifiedPixel op s mask d := by
    intro f hf hc
    apply eq_of_chan_eq _ _ (combineU_lt op s d mask hs hd hm f hf)
      (ofChannels_lt _ (fun c => channel_le _ _ _ _ _))
    intro c
    rw [hc c]
    exact (chan_ofChannels (fun c => unified op c s mask d) (fun c => channel_le _ _ _ _ _) c).symm
  cases op
  · exact ⟨_, rfl, key _ rfl (combineClear_spec s d mask)⟩
  · exact ⟨_, rfl, key _ rfl (combineSrcU_spec s d mask hm)⟩
  · exact ⟨_, rfl, key _ rfl (combineDst_spec s d mask)⟩
  · exact ⟨_, rfl, key _ rfl (combineOverU_spec s d mask hs hm)⟩
  · exact ⟨_, rfl, key _ rfl (combineOverReverseU_spec s d mask hd hm)⟩
  · exact ⟨_, rfl, key _ rfl (combineInU_spec s d mask hd hm)⟩
  · exact ⟨_, rfl, key _ rfl (combineInReverseU_spec s d mask hs hm)⟩
  · exact ⟨_, rfl, key _ rfl (combineOutU_spec s d mask hd hm)⟩
  · exact ⟨_, rfl, key _ rfl (combineOutReverseU_spec s d mask hs hm)⟩
  · exact ⟨_, rfl, key _ rfl (combineAtopU_spec s d mask hs hd hm)⟩
  · exact ⟨_, rfl, key _ rfl (combineAtopReverseU_spec s d mask hs hd hm)⟩
  · exact ⟨_, rfl, key _ rfl (combineXorU_spec s d mask hs hd hm)⟩
  · exact ⟨_, rfl, key _ rfl (combineAddU_spec s d mask hm)⟩

example : ∃ f, combineU? Op.over.code = some f ∧
    f 0x80402010 (some 0x7f000000) 0xff102030 = unifiedPixel .over 0x80402010 (some 0x7f000000) 0xff102030 :=
  unified_correct .over _ _ _ (by decide) (by decide) (by intro m h; cases h; decide)
example : unifiedPixel .over 0x80402010 (some 0x7f000000) 0xff102030 = 0xff2c282c := by decide

/-- every component-alpha Porter-Duff / ADD combiner returns a 32-bit word -/
theorem combineCa_lt (op : Op) (s m d : Nat) (hs : s < 4294967296) (hm : m < 4294967296)
    (hd : d < 4294967296) :
    ∀ f, combineCa? op.code = some f → f s m d < 4294967296 := by
  intro f hf
  have H := combineMaskCa_spec s m hs hm
  have hv := lt_combineMaskValueCa s m hs
  cases op <;> simp only [Op.code, combineCa?, Option.some.injEq] at hf <;> subst hf
  · simp [combineClearCa]
  · exact hv
  · exact hd
  · unfold combineOverCa
    generalize combineMaskCa s m = p at H ⊢
    obtain ⟨s', m'⟩ := p
    simp only [] at H ⊢
    split
    · exact lt_mulUn8x4Add _ _ _
    · exact H.2.2.1
  · unfold combineOverReverseCa
    simp only []
    split
    · exact lt_mulUn8Add _ _ _ (by rw [shr24_eq _ (not32_lt _)]; exact chan_le _ _)
    · exact hd
  · unfold combineInCa
    simp only []
    rw [shr24_mod d hd]
    repeat' split
    · exact lt_mulUn8 _ _ (chan_le _ _)
    · exact hv
    · omega
  · unfold combineInReverseCa
    simp only []
    repeat' split
    · exact lt_mulUn8x4 _ _
    · omega
    · exact hd
  · unfold combineOutCa
    simp only []
    rw [nshr24_mod d hd]
    repeat' split
    · exact lt_mulUn8 _ _ (by omega)
    · exact hv
    · omega
  · unfold combineOutReverseCa
    simp only []
    repeat' split
    · exact lt_mulUn8x4 _ _
    · omega
    · exact hd
  · unfold combineAtopCa
    generalize combineMaskCa s m = p
    obtain ⟨s', m'⟩ := p
    simp only []
    exact lt_mulUn8x4AddMulUn8 _ _ _ _ (by rw [shr24_mod d hd]; exact chan_le _ _)
  · unfold combineAtopReverseCa
    generalize combineMaskCa s m = p
    obtain ⟨s', m'⟩ := p
    simp only []
    exact lt_mulUn8x4AddMulUn8 _ _ _ _ (by rw [nshr24_mod d hd]; omega)
  · unfold combineXorCa
    generalize combineMaskCa s m = p
    obtain ⟨s', m'⟩ := p
    simp only []
    exact lt_mulUn8x4AddMulUn8 _ _ _ _ (by rw [nshr24_mod d hd]; omega)
  · exact lt_addUn8x4 _ _

/-- **C01, component alpha.**  For each of the 13 operators the function installed in
`combine_32_ca[op]` (for `DST`: the no-op that serves the request instead) maps every 32-bit
`s`, `m`, `d` to exactly the Spec pixel. -/
theorem componentAlpha_correct (op : Op) (s m d : Nat) (hs : s < 4294967296)
    (hm : m < 4294967296) (hd : d < 4294967296) :
    ∃ f, combineCa? op.code = some f ∧ f s m d = componentAlphaPixel op s m d := by
  have key : ∀ f, combineCa? op.code = some f →
      (∀ c, chan c (f s m d) = componentAlpha op c s m d) →
      f s m d = componentAlphaPixel op s m d := by
    intro f hf hc
    apply eq_of_chan_eq _ _ (combineCa_lt op s m d hs hm hd f hf)
      (ofChannels_lt _ (fun c => channel_le _ _ _ _ _))
    intro c
    rw [hc c]
    exact (chan_ofChannels (fun c => componentAlpha op c s m d)
      (fun c => channel_le _ _ _ _ _) c).symm
  cases op
  · exact ⟨_, rfl, key _ rfl (combineClearCa_spec s m d)⟩
  · exact ⟨_, rfl, key _ rfl (combineSrcCa_spec s m d)⟩
  · refine ⟨_, rfl, key _ rfl (fun c => ?_)⟩
    simp only [componentAlpha, channel, factors, Factor.eval, rnd_zero, rnd_255, Nat.zero_add]
    have := chan_le c d
    omega
  · exact ⟨_, rfl, key _ rfl (combineOverCa_spec s m d hs hm)⟩
  · exact ⟨_, rfl, key _ rfl (combineOverReverseCa_spec s m d hd)⟩
  · exact ⟨_, rfl, key _ rfl (combineInCa_spec s m d hd)⟩
  · exact ⟨_, rfl, key _ rfl (combineInReverseCa_spec s m d hs)⟩
  · exact ⟨_, rfl, key _ rfl (combineOutCa_spec s m d hd)⟩
  · exact ⟨_, rfl, key _ rfl (combineOutReverseCa_spec s m d hs hm)⟩
  · exact ⟨_, rfl, key _ rfl (combineAtopCa_spec s m d hs hm hd)⟩
  · exact ⟨_, rfl, key _ rfl (combineAtopReverseCa_spec s m d hs hm hd)⟩
  · exact ⟨_, rfl, key _ rfl (combineXorCa_spec s m d hs hm hd)⟩
  · exact ⟨_, rfl, key _ rfl (combineAddCa_spec s m d)⟩

example : componentAlphaPixel .atop 0x80402010 0xff00807f 0x7f102030 = 2131763240 ∧
    combineAtopCa 0x80402010 0xff00807f 0x7f102030 = 2131763240 := by decide

/-! ## 4. bridges: regenerated macro bodies = model

`Pixman.Gen.Combine32Macros` is rewritten from `pixman-combine32.h` on every run; these hold by
unfolding, so any change of a macro body that changes its value breaks them. -/

section bridge
open Pixman.Gen.Combine32Macros

theorem gen_constants :
    MASK = 0xff ∧ ONE_HALF = 0x80 ∧ A_SHIFT = 24 ∧ R_SHIFT = 16 ∧ G_SHIFT = 8 ∧
    COMPONENT_SIZE = 8 ∧ A_MASK = 0xff000000 ∧ R_MASK = 0xff0000 ∧ G_MASK = 0xff00 ∧
    RB_MASK = 0xff00ff ∧ AG_MASK = 0xff00ff00 ∧ RB_ONE_HALF = 0x800080 ∧
    RB_MASK_PLUS_ONE = 0x1000100 := by decide

theorem gen_MUL_UN8 (a b : Nat) : MUL_UN8 a b = mulUn8 a b := rfl
theorem gen_DIV_UN8 (a b : Nat) : DIV_UN8 a b = divUn8 a b := rfl
theorem gen_ADD_UN8 (x y : Nat) : ADD_UN8 x y = addUn8 x y := rfl
theorem gen_DIV_ONE_UN8 (x : Nat) : DIV_ONE_UN8 x = divOneUn8 x := rfl
theorem gen_ALPHA_8 (x : Nat) : ALPHA_8 x = alpha8 x := rfl
theorem gen_RED_8 (x : Nat) : RED_8 x = red8 x := rfl
theorem gen_GREEN_8 (x : Nat) : GREEN_8 x = green8 x := rfl
theorem gen_BLUE_8 (x : Nat) : BLUE_8 x = blue8 x := rfl
theorem gen_UN8_rb_MUL_UN8 (x a : Nat) : (UN8_rb_MUL_UN8 x a).1 = rbMulUn8 x a := rfl
theorem gen_UN8_rb_ADD_UN8_rb (x y : Nat) : (UN8_rb_ADD_UN8_rb x y).1 = rbAddUn8rb x y := rfl
theorem gen_UN8_rb_MUL_UN8_rb (x a : Nat) : (UN8_rb_MUL_UN8_rb x a).1 = rbMulUn8rb x a := rfl
theorem gen_UN8x4_MUL_UN8 (x a : Nat) : UN8x4_MUL_UN8 x a = un8x4MulUn8 x a := rfl
theorem gen_UN8x4_MUL_UN8_ADD_UN8x4 (x a y : Nat) :
    UN8x4_MUL_UN8_ADD_UN8x4 x a y = un8x4MulUn8AddUn8x4 x a y := rfl
theorem gen_UN8x4_MUL_UN8_ADD_UN8x4_MUL_UN8 (x a y b : Nat) :
    UN8x4_MUL_UN8_ADD_UN8x4_MUL_UN8 x a y b = un8x4MulUn8AddUn8x4MulUn8 x a y b := rfl
theorem gen_UN8x4_MUL_UN8x4 (x a : Nat) : UN8x4_MUL_UN8x4 x a = un8x4MulUn8x4 x a := rfl
theorem gen_UN8x4_MUL_UN8x4_ADD_UN8x4 (x a y : Nat) :
    UN8x4_MUL_UN8x4_ADD_UN8x4 x a y = un8x4MulUn8x4AddUn8x4 x a y := rfl
theorem gen_UN8x4_MUL_UN8x4_ADD_UN8x4_MUL_UN8 (x a y b : Nat) :
    UN8x4_MUL_UN8x4_ADD_UN8x4_MUL_UN8 x a y b = un8x4MulUn8x4AddUn8x4MulUn8 x a y b := rfl
theorem gen_UN8x4_ADD_UN8x4 (x y : Nat) : UN8x4_ADD_UN8x4 x y = un8x4AddUn8x4 x y := rfl

/-- the regenerated `MUL_UN8` rounds to nearest (so a mutated macro fails here, not only in the
bridge) -/
theorem gen_MUL_UN8_round (a b : Nat) (ha : a ≤ 255) (hb : b ≤ 255) : MUL_UN8 a b = rnd a b := by
  rw [gen_MUL_UN8]; exact mulUn8_round a b ha hb

/-- the regenerated `UN8x4_MUL_UN8_ADD_UN8x4` is the per-channel `min 255 (rnd(x·a) + y)` -/
theorem gen_UN8x4_MUL_UN8_ADD_UN8x4_lanes (x a y : Nat) (ha : a ≤ 255) (c : Chan) :
    chan c (UN8x4_MUL_UN8_ADD_UN8x4 x a y) = min 255 (rnd (chan c x) a + chan c y) := by
  rw [gen_UN8x4_MUL_UN8_ADD_UN8x4]; exact chan_mulUn8Add c x a y ha
example : UN8x4_MUL_UN8_ADD_UN8x4 0xff80407f 0x80 0x01020304 = 2168595268 := by decide

end bridge

end Pixman.Props.C01

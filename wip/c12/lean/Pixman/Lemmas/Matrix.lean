import Pixman.Model.Matrix
import Pixman.Spec.FixedRound
import Pixman.Spec.Matrix
/-! Helper lemmas for the matrix model (C11): wrap removal, division with remainder, rounding. -/
namespace Pixman.Matrix
set_option linter.unusedSimpArgs false

/-- absolute value, written with `if` so that `omega` can split it -/
def iabs (x : Int) : Int := if x < 0 then -x else x

theorem wrapU64_of_range (x : Int) (h : 0 ≤ x ∧ x < 18446744073709551616) : wrapU64 x = x := by
  unfold wrapU64; omega
theorem wrapS64_of_range (x : Int) (h : -9223372036854775808 ≤ x ∧ x ≤ 9223372036854775807) : wrapS64 x = x := by
  unfold wrapS64; omega
theorem wrapS32_of_range (x : Int) (h : -2147483648 ≤ x ∧ x ≤ 2147483647) : wrapS32 x = x := by
  unfold wrapS32; omega
theorem wrapS16_of_range (x : Int) (h : -32768 ≤ x ∧ x ≤ 32767) : wrapS16 x = x := by
  unfold wrapS16; omega

/-- quotient/remainder package with variable divisor -/
theorem divmod_spec (t d : Int) (hd : 0 < d) :
    d * (t / d) + t % d = t ∧ 0 ≤ t % d ∧ t % d < d :=
  ⟨Int.mul_ediv_add_emod t d, Int.emod_nonneg t (by omega), Int.emod_lt_of_pos t hd⟩

/-- uniqueness of quotient: `t = d*q + r`, `0 ≤ r < d` -/
theorem div_eq_of_decomp (t d q r : Int) (hd : 0 < d) (h : t = d * q + r) (hr : 0 ≤ r ∧ r < d) :
    t / d = q ∧ t % d = r := by
  subst h
  constructor
  · rw [Int.add_comm, Int.add_mul_ediv_left _ _ (by omega : d ≠ 0), Int.ediv_eq_zero_of_lt hr.1 hr.2]; omega
  · rw [Int.add_comm, Int.add_mul_emod_self_left, Int.emod_eq_of_lt hr.1 hr.2]

/-- nearest rounding, ties up, from a division with remainder -/
theorem round_of_decomp (n d q r : Int) (hd : 0 < d) (h : n = d * q + r) (hr : 0 ≤ r ∧ r < d) :
    (2 * n + d) / (2 * d) = if 2 * r ≥ d then q + 1 else q := by
  split
  · have := (div_eq_of_decomp (2 * n + d) (2 * d) (q + 1) (2 * r - d) (by omega)
      (by subst h; simp only [Int.mul_add, Int.mul_one, Int.mul_assoc]; omega) (by omega)).1
    exact this
  · have := (div_eq_of_decomp (2 * n + d) (2 * d) q (2 * r + d) (by omega)
      (by subst h; simp only [Int.mul_add, Int.mul_assoc]; omega) (by omega)).1
    exact this

/-- one digit step of the schoolbook division: no `uint64_t` wrap, digit below 2^16 -/
theorem udiv_step (d r l : Int) (hd0 : 0 < d) (hd : d ≤ 281474976710656) (hr : 0 ≤ r ∧ r < d)
    (hl : 0 ≤ l ∧ l < 65536) :
    wrapU64 (wrapU64 (r * 65536) + l) = r * 65536 + l ∧
    0 ≤ (r * 65536 + l) / d ∧ (r * 65536 + l) / d < 65536 ∧
    0 ≤ (r * 65536 + l) % d ∧ (r * 65536 + l) % d < d ∧
    d * ((r * 65536 + l) / d) + (r * 65536 + l) % d = r * 65536 + l := by
  have hw : wrapU64 (wrapU64 (r * 65536) + l) = r * 65536 + l := by
    unfold wrapU64; omega
  have ⟨h1, h2, h3⟩ := divmod_spec (r * 65536 + l) d hd0
  refine ⟨hw, ?_, ?_, h2, h3, h1⟩
  · exact Int.ediv_nonneg (by omega) (by omega)
  · apply Int.ediv_lt_of_lt_mul hd0
    have : 65536 * d = d * 65536 := Int.mul_comm _ _
    omega

/-- accumulation of the quotient digits: no `uint64_t` wrap below 2^48 -/
theorem acc_step (q q' : Int) (hq : 0 ≤ q ∧ q < 281474976710656) (hq' : 0 ≤ q' ∧ q' < 65536) :
    wrapU64 (wrapU64 (q * 65536) + q') = q * 65536 + q' := by
  unfold wrapU64; omega

/-- (M2) schoolbook division: exactly the nearest quotient, ties up, for `0 < d ≤ 2^48` -/
theorem udivCore_spec (hi lo d : Int) (hhi : isU64 hi) (hlo : isU64 lo) (hd0 : 0 < d)
    (hd : d ≤ 281474976710656) :
    isU64 (udivCore hi lo d).1 ∧ isU64 (udivCore hi lo d).2 ∧
    (udivCore hi lo d).2 * 18446744073709551616 + (udivCore hi lo d).1
      = (2 * (hi * 18446744073709551616 + lo) + d) / (2 * d) := by
  unfold isU64 at hhi hlo
  obtain ⟨e0, r0a, r0b⟩ := divmod_spec hi d hd0
  have hqh : 0 ≤ hi / d := Int.ediv_nonneg (by omega) (by omega)
  simp only [udivCore]
  generalize hi % d = r0 at *
  generalize hi / d = qh at *
  obtain ⟨w1, q1a, q1b, r1a, r1b, e1⟩ := udiv_step d r0 (lo / 281474976710656) hd0 hd ⟨r0a, r0b⟩ (by omega)
  simp only [w1]
  generalize (r0 * 65536 + lo / 281474976710656) / d = q1 at *
  generalize (r0 * 65536 + lo / 281474976710656) % d = r1 at *
  obtain ⟨w2, q2a, q2b, r2a, r2b, e2⟩ := udiv_step d r1 (lo / 4294967296 % 65536) hd0 hd ⟨r1a, r1b⟩ (by omega)
  simp only [w2]
  generalize (r1 * 65536 + lo / 4294967296 % 65536) / d = q2 at *
  generalize (r1 * 65536 + lo / 4294967296 % 65536) % d = r2 at *
  obtain ⟨w3, q3a, q3b, r3a, r3b, e3⟩ := udiv_step d r2 (lo / 65536 % 65536) hd0 hd ⟨r2a, r2b⟩ (by omega)
  simp only [w3]
  generalize (r2 * 65536 + lo / 65536 % 65536) / d = q3 at *
  generalize (r2 * 65536 + lo / 65536 % 65536) % d = r3 at *
  obtain ⟨w4, q4a, q4b, r4a, r4b, e4⟩ := udiv_step d r3 (lo % 65536) hd0 hd ⟨r3a, r3b⟩ (by omega)
  simp only [w4]
  generalize (r3 * 65536 + lo % 65536) / d = q4 at *
  generalize (r3 * 65536 + lo % 65536) % d = r4 at *
  have a2 := acc_step q1 q2 (by omega) ⟨q2a, q2b⟩
  simp only [a2]
  have a3 := acc_step (q1 * 65536 + q2) q3 (by omega) ⟨q3a, q3b⟩
  simp only [a3]
  have a4 := acc_step ((q1 * 65536 + q2) * 65536 + q3) q4 (by omega) ⟨q4a, q4b⟩
  simp only [a4]
  have hw : wrapU64 (r4 * 2) = r4 * 2 := by unfold wrapU64; omega
  simp only [hw]
  have hN : hi * 18446744073709551616 + lo
      = d * (qh * 18446744073709551616 + (((q1 * 65536 + q2) * 65536 + q3) * 65536 + q4)) + r4 := by
    simp only [Int.mul_add, ← Int.mul_assoc]
    omega
  have hQr : 0 ≤ ((q1 * 65536 + q2) * 65536 + q3) * 65536 + q4 ∧
      ((q1 * 65536 + q2) * 65536 + q3) * 65536 + q4 < 18446744073709551616 := by omega
  clear a2 a3 a4 w1 w2 w3 w4 e1 e2 e3 e4
  generalize ((q1 * 65536 + q2) * 65536 + q3) * 65536 + q4 = Q at *
  have hround := round_of_decomp _ d _ r4 hd0 hN ⟨r4a, r4b⟩
  rw [hround]
  by_cases hc : r4 * 2 ≥ d
  · have hc' : 2 * r4 ≥ d := by omega
    have h2 : 2 * qh ≤ d * qh := Int.mul_le_mul_of_nonneg_right (by omega) hqh
    rw [if_pos hc', if_pos hc]
    by_cases hz : wrapU64 (Q + 1) = 0
    · simp only [hz, if_true]
      unfold wrapU64 at hz ⊢
      unfold isU64
      omega
    · simp only [hz, if_false]
      unfold wrapU64 at hz ⊢
      unfold isU64
      omega
  · have hc' : ¬ (2 * r4 ≥ d) := by omega
    have h1 : 1 * qh ≤ d * qh := Int.mul_le_mul_of_nonneg_right (by omega) hqh
    rw [if_neg hc', if_neg hc]
    unfold isU64
    omega


theorem sdivPrepare_spec (hi lo d : Int) (hhi : isI64 hi) (hlo : isU64 lo) (hd : isI64 d) :
    isU64 (sdivPrepare hi lo d).1 ∧ isU64 (sdivPrepare hi lo d).2.1 ∧
    ((sdivPrepare hi lo d).1 * 18446744073709551616 + (sdivPrepare hi lo d).2.1
        = iabs (hi * 18446744073709551616 + lo)) ∧
    ((sdivPrepare hi lo d).2.2.1 = iabs d) ∧
    ((sdivPrepare hi lo d).2.2.2 = (decide (hi < 0) != decide (d < 0))) := by
  unfold isI64 at hhi hd; unfold isU64 at hlo
  unfold sdivPrepare iabs isU64
  by_cases h1 : hi < 0 <;> by_cases h2 : d < 0 <;> by_cases h3 : lo = 0 <;>
    simp only [h1, h2, h3, if_true, if_false, ne_eq, not_true_eq_false, not_false_eq_true, decide_true, decide_false,
      Bool.not_true, Bool.not_false, bne_self_eq_false, Bool.true_bne, Bool.false_bne, Bool.bne_true, Bool.bne_false] <;>
    (try unfold wrapS64) <;> unfold wrapU64 <;>
    (refine ⟨?_, ?_, ?_, ?_, ?_⟩ <;> first | rfl | trivial | omega | (split <;> omega))


theorem sdivFinish_spec (qlo qhi : Int) (sign : Bool) (hlo : isU64 qlo) (hhi : isU64 qhi)
    (hQ : qhi * 18446744073709551616 + qlo < 170141183460469231731687303715884105728) :
    isI64 (sdivFinish qlo qhi sign).1 ∧ isI64 (sdivFinish qlo qhi sign).2 ∧
    (sdivFinish qlo qhi sign).2 * 18446744073709551616 + (sdivFinish qlo qhi sign).1 % 18446744073709551616
      = if sign then -(qhi * 18446744073709551616 + qlo) else qhi * 18446744073709551616 + qlo := by
  unfold isU64 at hlo hhi
  unfold sdivFinish isI64
  cases sign <;> by_cases h3 : qlo = 0 <;>
    simp only [h3, if_true, if_false, ne_eq, not_true_eq_false, not_false_eq_true, Bool.false_eq_true] <;>
    unfold wrapS64 <;> (try unfold wrapU64) <;> omega

/-- the assertion inside `rounded_sdiv_128_by_49` fails exactly for `|div| > 2^48` -/
theorem sdiv_abort_iff (hi lo d : Int) (hd : isI64 d) :
    roundedSdiv128By49 hi lo d = none ↔ iabs d > 281474976710656 := by
  simp only [roundedSdiv128By49, roundedUdiv128By48, udivAssert]
  have : (sdivPrepare hi lo d).2.2.1 = iabs d := by
    unfold isI64 at hd
    unfold sdivPrepare iabs
    by_cases h1 : hi < 0 <;> by_cases h2 : d < 0 <;>
      simp only [h1, h2, if_true, if_false] <;> (try unfold wrapS64) <;> unfold wrapU64 <;> omega
  rw [this]
  by_cases h : iabs d ≤ 281474976710656
  · simp only [h, decide_true, if_true]; constructor
    · intro h'; cases h'
    · intro h'; omega
  · simp only [h, decide_false]; constructor
    · intro _; omega
    · intro _; rfl

/-- (M2, signed wrapper) `rounded_sdiv_128_by_49` returns the quotient of the magnitudes rounded to
    nearest with ties up (i.e. ties away from zero), with the sign of the exact quotient, as a
    128-bit two's complement number `rhi:rlo`. -/
theorem sdiv_spec (hi lo d : Int) (hhi : isI64 hi) (hlo : isU64 lo)
    (hd : -281474976710656 ≤ d ∧ d ≤ 281474976710656) (hd0 : d ≠ 0)
    (hQ : (2 * iabs (hi * 18446744073709551616 + lo) + iabs d) / (2 * iabs d)
            < 170141183460469231731687303715884105728) :
    ∃ r, roundedSdiv128By49 hi lo d = some r ∧ isI64 r.1 ∧ isI64 r.2 ∧
      r.2 * 18446744073709551616 + r.1 % 18446744073709551616
        = if (decide (hi < 0) != decide (d < 0))
          then -((2 * iabs (hi * 18446744073709551616 + lo) + iabs d) / (2 * iabs d))
          else (2 * iabs (hi * 18446744073709551616 + lo) + iabs d) / (2 * iabs d) := by
  have hdI : isI64 d := by unfold isI64; omega
  obtain ⟨p1, p2, p3, p4, p5⟩ := sdivPrepare_spec hi lo d hhi hlo hdI
  have hda : 0 < iabs d ∧ iabs d ≤ 281474976710656 := by unfold iabs; split <;> omega
  simp only [roundedSdiv128By49, roundedUdiv128By48, udivAssert]
  have hlt : iabs d ≤ 281474976710656 := by unfold iabs; split <;> omega
  simp only [p4, hlt, decide_true, if_true]
  obtain ⟨u1, u2, u3⟩ := udivCore_spec _ _ (iabs d) p1 p2 hda.1 hda.2
  rw [p3] at u3
  refine ⟨_, rfl, ?_⟩
  have hf := sdivFinish_spec _ _ (sdivPrepare hi lo d).2.2.2 u1 u2 (by rw [u3]; exact hQ)
  rw [u3, p5] at hf
  rw [p5]
  exact hf

section
open Pixman.Spec.Fixed

theorem split_mul (a v : Int) : a * hi16 v * 65536 + a * lo16 v = a * v := by
  unfold hi16 lo16
  have h : v = v / 65536 * 65536 + v % 65536 := by omega
  rw [Int.mul_assoc, ← Int.mul_add, ← h]

/-- `tmp[i][0]·2^16 + tmp[i][1]` is the exact dot product -/
theorem row_exact (a b c : Int) (v : Vec) :
    rowHi a b c v * 65536 + rowLo a b c v = dot a b c v.x v.y v.z := by
  unfold rowHi rowLo dot
  have h1 := split_mul a v.x
  have h2 := split_mul b v.y
  have h3 := split_mul c v.z
  omega

/-- the rounding expression of the affine branch is `roundHalfUp` of the exact value -/
theorem roundRow_eq (h l : Int) : roundRow h l = roundHalfUp (h * 65536 + l) 65536 := by
  unfold roundRow roundHalfUp; omega

theorem wrapS32_eq_iff (x : Int) : wrapS32 x = x ↔ Rep32 x := by
  unfold wrapS32 Rep32; omega

/-- the truncation test of `pixman_transform_point{,_3d}` succeeds iff all three values fit `int32_t`,
    and then nothing is changed -/
theorem truncVec_spec (p : Vec) :
    ((truncVec p).1 = true ↔ Rep32 p.x ∧ Rep32 p.y ∧ Rep32 p.z) ∧ ((truncVec p).1 = true → (truncVec p).2 = p) := by
  unfold truncVec
  simp only [Bool.and_eq_true, decide_eq_true_eq, wrapS32_eq_iff, and_assoc]
  refine ⟨trivial, ?_⟩
  intro h; cases p
  simp only [← wrapS32_eq_iff] at h
  simp only [h.1, h.2.1, h.2.2]

/-- product bound used for the "no 64-bit overflow" facts -/
theorem mul_bounds (a b A B : Int) (ha : -A ≤ a ∧ a ≤ A) (hb : -B ≤ b ∧ b ≤ B) :
    -(A * B) ≤ a * b ∧ a * b ≤ A * B := by
  have h1 := Int.mul_nonneg (by omega : 0 ≤ A - a) (by omega : 0 ≤ B - b)
  have h2 := Int.mul_nonneg (by omega : 0 ≤ A + a) (by omega : 0 ≤ B + b)
  have h3 := Int.mul_nonneg (by omega : 0 ≤ A - a) (by omega : 0 ≤ B + b)
  have h4 := Int.mul_nonneg (by omega : 0 ≤ A + a) (by omega : 0 ≤ B - b)
  simp only [Int.sub_mul, Int.mul_sub, Int.add_mul, Int.mul_add] at h1 h2 h3 h4
  omega

theorem mulEntry_eq_spec (a0 a1 a2 b0 b1 b2 : Int) : mulEntry a0 a1 a2 b0 b1 b2 = entrySpec a0 a1 a2 b0 b1 b2 := by
  unfold mulEntry mulTerm entrySpec roundHalfUp
  generalize a0 * b0 = p0; generalize a1 * b1 = p1; generalize a2 * b2 = p2
  omega

theorem entryOk_iff (v : Int) : entryOk v = true ↔ Rep32 v := by
  unfold entryOk Rep32
  simp only [Bool.not_eq_true', Bool.or_eq_false_iff, decide_eq_false_iff_not]
  omega

/-- a successful `pixman_transform_point` leaves `int32_t` values behind -/
theorem transformPoint_true_isI32 (t : Transform) (v p : Vec) (h : transformPoint t v = some (true, p)) : p.isI32 := by
  unfold transformPoint at h
  split at h
  · cases h
  · cases h
  · rename_i tmp _
    injection h with h; injection h with h1 h2
    subst h2
    unfold Vec.isI32 isI32 wrapS32
    simp only
    omega

theorem boundsStep_spec (first : Bool) (b : Box16) (p : Vec) (hp : p.isI32) (ho : upperEdgeOverflows p = false) :
    Contains (boundsStep first b p) p ∧ (first = false → b.le (boundsStep first b p)) := by
  unfold Vec.isI32 isI32 at hp
  unfold upperEdgeOverflows at ho
  simp only [Bool.or_eq_false_iff, decide_eq_false_iff_not] at ho
  unfold Contains Box16.le boundsStep
  have cx : ceilInt p.x * 65536 ≥ p.x ∧ -32768 ≤ ceilInt p.x := by
    unfold ceilInt fixedToInt fixedFrac; split <;> omega
  have cy : ceilInt p.y * 65536 ≥ p.y ∧ -32768 ≤ ceilInt p.y := by
    unfold ceilInt fixedToInt fixedFrac; split <;> omega
  unfold fixedToInt
  have w1 := wrapS16_of_range (p.x / 65536) (by omega)
  have w2 := wrapS16_of_range (p.y / 65536) (by omega)
  have w3 := wrapS16_of_range (ceilInt p.x) (by omega)
  have w4 := wrapS16_of_range (ceilInt p.y) (by omega)
  simp only [w1, w2, w3, w4]
  generalize ceilInt p.x = X2 at *
  generalize ceilInt p.y = Y2 at *
  cases first
  · simp only [Bool.false_eq_true, if_false]
    refine ⟨⟨?_, ?_, ?_, ?_⟩, fun _ => ⟨?_, ?_, ?_, ?_⟩⟩ <;> split <;> omega
  · simp only [if_true]
    refine ⟨⟨?_, ?_, ?_, ?_⟩, fun h => by cases h⟩ <;> omega

theorem contains_mono (a b : Box16) (p : Vec) (h : a.le b) (hc : Contains a p) : Contains b p := by
  unfold Box16.le at h; unfold Contains at *
  omega

theorem boundsLoop_spec (t : Transform) (cs : List Vec) :
    ∀ (first : Bool) (b b' : Box16), boundsLoop t first b cs = some (true, b') →
      (first = false → b.le b') ∧
      ∀ c ∈ cs, ∃ p, transformPoint t c = some (true, p) ∧ Contains b' p := by
  induction cs with
  | nil =>
    intro first b b' h
    unfold boundsLoop at h
    injection h with h; injection h with _ h2
    subst h2
    exact ⟨fun _ => ⟨Int.le_refl _, Int.le_refl _, Int.le_refl _, Int.le_refl _⟩, fun c hc => by cases hc⟩
  | cons c rest ih =>
    intro first b b' h
    unfold boundsLoop at h
    split at h
    · cases h
    · injection h with h; injection h with h1 _; cases h1
    · rename_i p hp
      by_cases ho : upperEdgeOverflows p = true
      · rw [if_pos ho] at h
        injection h with h; injection h with h1 _; cases h1
      · rw [if_neg ho] at h
        have ho' : upperEdgeOverflows p = false := by simpa using ho
        have hI := transformPoint_true_isI32 t c p hp
        have ⟨s1, s2⟩ := boundsStep_spec first b p hI ho'
        have ⟨i1, i2⟩ := ih false (boundsStep first b p) b' h
        have g := i1 rfl
        refine ⟨fun hf => ?_, ?_⟩
        · have := s2 hf
          unfold Box16.le at *; omega
        · intro c' hc'
          cases hc' with
          | head => exact ⟨p, hp, contains_mono _ _ _ g s1⟩
          | tail _ hm => exact i2 c' hm

theorem bitLength_spec (x : Int) (h0 : 0 < x) (h1 : x < 2147483648) :
    ∃ s : Nat, bitLength x = (s : Int) ∧ 1 ≤ s ∧ s ≤ 31 ∧ (2 : Int) ^ (s - 1) ≤ x ∧ x < (2 : Int) ^ s := by
  unfold bitLength
  have hn : ¬ (x ≤ 0) := by omega
  simp only [hn, if_false]
  have hx : (x.toNat : Int) = x := Int.toNat_of_nonneg (by omega)
  have hne : x.toNat ≠ 0 := by omega
  have l1 := Nat.log2_self_le hne
  have l2 := @Nat.lt_log2_self x.toNat
  have l3 : x.toNat.log2 < 31 := (Nat.log2_lt hne).2 (by omega)
  refine ⟨x.toNat.log2 + 1, rfl, by omega, by omega, ?_, ?_⟩
  · rw [← hx, Nat.add_sub_cancel]; exact_mod_cast l1
  · rw [← hx]; exact_mod_cast l2

/-- small divisor (`hi32divbits == 0`): all bits are kept -/
theorem projDivisor_small (divint divfrac : Int) (hd : -4294967296 ≤ divint ∧ divint < 4294967296)
    (hf : 0 ≤ divfrac ∧ divfrac < 65536) :
    projDivisor divint divfrac = (divint * 65536 + divfrac, 32) := by
  unfold projDivisor
  have h1 : wrapS32 (divint / 4294967296) = divint / 4294967296 := by unfold wrapS32; omega
  simp only [h1]
  have h2 : (if divint / 4294967296 < 0 then -(divint / 4294967296) - 1 else divint / 4294967296) = 0 := by
    split <;> omega
  simp only [h2, if_true]
  congr 1
  unfold wrapS64 wrapU64; omega


/-- large divisor: reduced to 48 bits by an arithmetic right shift of `s` bits (`s` = bit length of the
    top 32 bits), the numerators are scaled by `32 - s` -/
theorem projDivisor_large (divint divfrac : Int) (hI : isI64 divint)
    (hd : ¬ (-4294967296 ≤ divint ∧ divint < 4294967296)) (hf : 0 ≤ divfrac ∧ divfrac < 65536) :
    ∃ s : Nat, 1 ≤ s ∧ s ≤ 31 ∧
      projDivisor divint divfrac = ((divint * 65536 + divfrac) / (2 : Int) ^ s, 32 - (s : Int)) ∧
      -(281474976710656 * (2 : Int) ^ s) ≤ divint * 65536 + divfrac ∧
      divint * 65536 + divfrac < 281474976710656 * (2 : Int) ^ s ∧
      (140737488355328 * (2 : Int) ^ s ≤ divint * 65536 + divfrac ∨
       divint * 65536 + divfrac < -(140737488355328 * (2 : Int) ^ s)) := by
  unfold isI64 at hI
  unfold projDivisor
  have h1 : wrapS32 (divint / 4294967296) = divint / 4294967296 := by unfold wrapS32; omega
  simp only [h1]
  generalize hh : (if divint / 4294967296 < 0 then -(divint / 4294967296) - 1 else divint / 4294967296) = h'
  have hpos : 0 < h' ∧ h' < 2147483648 := by subst hh; split <;> omega
  have hne : ¬ (h' = 0) := by omega
  simp only [hne, if_false]
  obtain ⟨s, hs, s1, s2, lo, hi⟩ := bitLength_spec h' hpos.1 hpos.2
  rw [hs]
  refine ⟨s, s1, s2, ?_⟩
  have hw : wrapS64 (divint + divfrac / 65536) = divint := by unfold wrapS64; omega
  have hm : divfrac % 65536 = divfrac := by omega
  have cases : s = 1 ∨ s = 2 ∨ s = 3 ∨ s = 4 ∨ s = 5 ∨ s = 6 ∨ s = 7 ∨ s = 8 ∨ s = 9 ∨ s = 10 ∨ s = 11 ∨ s = 12 ∨ s = 13 ∨ s = 14 ∨ s = 15 ∨ s = 16 ∨ s = 17 ∨ s = 18 ∨ s = 19 ∨ s = 20 ∨ s = 21 ∨ s = 22 ∨ s = 23 ∨ s = 24 ∨ s = 25 ∨ s = 26 ∨ s = 27 ∨ s = 28 ∨ s = 29 ∨ s = 30 ∨ s = 31 := by omega
  rcases cases with h|h|h|h|h|h|h|h|h|h|h|h|h|h|h|h|h|h|h|h|h|h|h|h|h|h|h|h|h|h|h <;> subst h <;>
    simp [fixed6416ToInt128, hw, hm] at lo hi ⊢ <;>
    (subst hh; (try unfold wrapS64 wrapU64); split at lo <;> omega)


/-- range of the divisor handed to `rounded_sdiv_128_by_49`: 49 bits including sign, never 0 in the
    projective branches.  The value `-2^48` IS reachable (defect A). -/
theorem projDivisor_range (divint divfrac : Int) (hI : isI64 divint) (hf : 0 ≤ divfrac ∧ divfrac < 65536) :
    -281474976710656 ≤ (projDivisor divint divfrac).1 ∧ (projDivisor divint divfrac).1 < 281474976710656 ∧
    ((projDivisor divint divfrac).1 = 0 → divint = 0 ∧ divfrac = 0) := by
  by_cases hd : -4294967296 ≤ divint ∧ divint < 4294967296
  · rw [projDivisor_small divint divfrac hd hf]; simp only; omega
  · obtain ⟨s, s1, s2, e, lo, hi, big⟩ := projDivisor_large divint divfrac hI hd hf
    rw [e]; simp only
    have hp : (0 : Int) < 2 ^ s := Int.pow_pos (by omega)
    generalize (2 : Int) ^ s = P at *
    generalize divint * 65536 + divfrac = D at *
    refine ⟨?_, ?_, ?_⟩
    · apply Int.le_ediv_of_mul_le hp; rw [Int.neg_mul]; exact lo
    · exact Int.ediv_lt_of_lt_mul hp hi
    · intro h0
      exfalso
      have e1 := Int.mul_ediv_add_emod D P
      have e2 := Int.emod_nonneg D (by omega : P ≠ 0)
      have e3 := Int.emod_lt_of_pos D hp
      rw [h0, Int.mul_zero] at e1
      omega

theorem projCoord_none_iff (h l div sb : Int) (hd : isI64 div) :
    projCoord h l div sb = none ↔ iabs div > 281474976710656 := by
  unfold projCoord
  simp only
  rw [← sdiv_abort_iff (fixed6416ToInt128 h l sb).1 (wrapU64 (fixed6416ToInt128 h l sb).2) div hd]
  split <;> simp_all


/-- No signed 64-bit overflow in the row computations of `pixman_transform_point_31_16{,_3d,_affine}`:
    for `int32_t` matrix entries and inputs admitted by the asserts, `tmp[i][0]`, `tmp[i][1]`,
    `tmp[i][1] + 0x8000`, `divint` and the rounded sum all fit `int64_t` (so the unbounded `Int`
    arithmetic of the model is the C arithmetic). -/
theorem rows_in_int64 (a b c : Int) (v : Vec) (ha : isI32 a) (hb : isI32 b) (hc : isI32 c)
    (hv : is3116 v.x ∧ is3116 v.y ∧ is3116 v.z) :
    isI64 (rowHi a b c v) ∧ isI64 (rowLo a b c v) ∧ isI64 (rowLo a b c v + 32768) ∧
    isI64 (rowHi a b c v + rowLo a b c v / 65536) ∧ isI64 (roundRow (rowHi a b c v) (rowLo a b c v)) := by
  unfold isI32 at ha hb hc
  unfold is3116 at hv
  unfold rowHi rowLo roundRow isI64 hi16 lo16
  have x1 := mul_bounds a (v.x / 65536) 2147483648 1073741824 (by omega) (by omega)
  have x2 := mul_bounds b (v.y / 65536) 2147483648 1073741824 (by omega) (by omega)
  have x3 := mul_bounds c (v.z / 65536) 2147483648 1073741824 (by omega) (by omega)
  have y1 := mul_bounds a (v.x % 65536) 2147483648 65536 (by omega) (by omega)
  have y2 := mul_bounds b (v.y % 65536) 2147483648 65536 (by omega) (by omega)
  have y3 := mul_bounds c (v.z % 65536) 2147483648 65536 (by omega) (by omega)
  generalize a * (v.x / 65536) = p1 at *
  generalize b * (v.y / 65536) = p2 at *
  generalize c * (v.z / 65536) = p3 at *
  generalize a * (v.x % 65536) = q1 at *
  generalize b * (v.y % 65536) = q2 at *
  generalize c * (v.z % 65536) = q3 at *
  omega

/-- No signed 64-bit overflow in `pixman_transform_multiply`: products, `partial + 0x8000` and the
    accumulated sum fit `int64_t` for `int32_t` operands. -/
theorem mulEntry_range (a0 a1 a2 b0 b1 b2 : Int) (h0 : isI32 a0) (h1 : isI32 a1) (h2 : isI32 a2)
    (k0 : isI32 b0) (k1 : isI32 b1) (k2 : isI32 b2) :
    isI64 (a0 * b0) ∧ isI64 (a0 * b0 + 32768) ∧ isI64 (a1 * b1 + 32768) ∧ isI64 (a2 * b2 + 32768) ∧
    isI64 (mulTerm a0 b0 + mulTerm a1 b1) ∧ isI64 (mulEntry a0 a1 a2 b0 b1 b2) := by
  unfold isI32 at *
  unfold mulEntry mulTerm isI64
  have x0 := mul_bounds a0 b0 2147483648 2147483648 (by omega) (by omega)
  have x1 := mul_bounds a1 b1 2147483648 2147483648 (by omega) (by omega)
  have x2 := mul_bounds a2 b2 2147483648 2147483648 (by omega) (by omega)
  generalize a0 * b0 = p0 at *
  generalize a1 * b1 = p1 at *
  generalize a2 * b2 = p2 at *
  omega

/-- `divint`, `divfrac` of the C code are the integer and fractional part of the exact `w` -/
theorem div_parts (a b c : Int) (v : Vec) :
    rowHi a b c v + rowLo a b c v / 65536 = dot a b c v.x v.y v.z / 65536 ∧
    rowLo a b c v % 65536 = dot a b c v.x v.y v.z % 65536 := by
  have := row_exact a b c v
  omega

theorem transformPoint_none_iff (t : Transform) (v : Vec) : transformPoint t v = none ↔ transformPoint3116 t v = none := by
  unfold transformPoint
  split <;> simp_all

/-- (M2, signed wrapper) `rounded_sdiv_128_by_49` on a signed 128-bit dividend `hi:lo` and
    `0 < |div| < 2^48`: does not abort and returns, as a 128-bit two's complement pair, the quotient
    rounded to nearest with ties away from zero. -/
theorem sdiv_spec_away (hi lo d : Int) (hhi : isI64 hi) (hlo : isU64 lo)
    (hd : -281474976710656 ≤ d ∧ d ≤ 281474976710656) (hd0 : d ≠ 0)
    (hQ : roundHalfUp (abs (hi * 18446744073709551616 + lo)) (abs d) < 170141183460469231731687303715884105728) :
    ∃ r, roundedSdiv128By49 hi lo d = some r ∧ isI64 r.1 ∧ isI64 r.2 ∧
      r.2 * 18446744073709551616 + r.1 % 18446744073709551616
        = roundHalfAway (hi * 18446744073709551616 + lo) d := by
  have e : ∀ x, abs x = iabs x := fun _ => rfl
  simp only [e, roundHalfUp] at hQ
  obtain ⟨r, h1, h2, h3, h4⟩ := sdiv_spec hi lo d hhi hlo hd hd0 hQ
  refine ⟨r, h1, h2, h3, ?_⟩
  rw [h4]
  unfold roundHalfAway roundHalfUp
  simp only [e]
  unfold isU64 at hlo
  have hs : (hi * 18446744073709551616 + lo < 0) ↔ hi < 0 := by omega
  by_cases c1 : hi < 0 <;> by_cases c2 : d < 0 <;> simp [c1, c2, hs]

theorem wrapU64_wrapS64 (x : Int) : wrapU64 (wrapS64 x) = x % 18446744073709551616 := by
  unfold wrapU64 wrapS64; omega
theorem wrapS64_add_mod (a b : Int) : wrapS64 (wrapS64 a + b) = wrapS64 (a + b) := by
  unfold wrapS64; omega

/-- `fixed_64_16_to_int128 (hi, lo, .., 32)`: the 128-bit pair is the 64.16 value times `2^16` -/
theorem to128_scale32 (h l : Int) (hr : isI64 (h + l / 65536)) :
    isI64 (fixed6416ToInt128 h l 32).1 ∧
    (fixed6416ToInt128 h l 32).1 * 18446744073709551616 + wrapU64 (fixed6416ToInt128 h l 32).2
      = (h * 65536 + l) * 65536 := by
  unfold isI64 at hr
  have hw : wrapS64 (h + l / 65536) = h + l / 65536 := wrapS64_of_range _ hr
  simp [fixed6416ToInt128, hw, wrapS64_add_mod, wrapU64_wrapS64]
  have hl : l = l / 65536 * 65536 + l % 65536 := by omega
  have hL : 0 ≤ l % 65536 ∧ l % 65536 < 65536 := by omega
  generalize l % 65536 = L at *
  have hX : (h * 65536 + l) * 65536 = (h + l / 65536) * 4294967296 + L * 65536 := by omega
  rw [hX]
  generalize h + l / 65536 = H at *
  have e : (wrapU64 H * 4294967296 + L * 65536) % 18446744073709551616 = H % 4294967296 * 4294967296 + L * 65536 := by
    unfold wrapU64; omega
  rw [e]
  unfold isI64
  omega

theorem fixed11216_spec (rhi rlo : Int) (h1 : isI64 rlo) (h2 : isI64 rhi) :
    fixed11216ToFixed4816 rhi rlo = clamp64 (rhi * 18446744073709551616 + rlo % 18446744073709551616) := by
  unfold isI64 at h1 h2
  unfold fixed11216ToFixed4816 clamp64 INT64_MAX INT64_MIN
  by_cases c : rlo / 9223372036854775808 = rhi
  · have : -9223372036854775808 ≤ rhi * 18446744073709551616 + rlo % 18446744073709551616 ∧
        rhi * 18446744073709551616 + rlo % 18446744073709551616 ≤ 9223372036854775807 := by omega
    have e : rhi * 18446744073709551616 + rlo % 18446744073709551616 = rlo := by omega
    simp only [c, ne_eq, not_true_eq_false, if_false]
    rw [e, if_pos h1]
  · have : ¬ (-9223372036854775808 ≤ rhi * 18446744073709551616 + rlo % 18446744073709551616 ∧
        rhi * 18446744073709551616 + rlo % 18446744073709551616 ≤ 9223372036854775807) := by omega
    simp only [c, ne_eq, not_false_eq_true, if_true, this, if_false]
    by_cases c2 : rhi ≥ 0
    · have : rhi * 18446744073709551616 + rlo % 18446744073709551616 ≥ 0 := by omega
      simp only [c2, this, if_true]
    · have : ¬ rhi * 18446744073709551616 + rlo % 18446744073709551616 ≥ 0 := by omega
      simp only [c2, this, if_false]

/-- one coordinate of the small-divisor projective branch: exact quotient, rounded to nearest
    (ties away from zero), clamped to the 48.16 type -/
theorem projCoord_small (h l W : Int) (hr : isI64 (h + l / 65536))
    (hW : -281474976710656 ≤ W ∧ W ≤ 281474976710656) (hW0 : W ≠ 0) :
    projCoord h l W 32 = some (clamp64 (roundHalfAway ((h * 65536 + l) * 65536) W)) := by
  obtain ⟨n1, n2⟩ := to128_scale32 h l hr
  unfold projCoord
  simp only
  have hQ : roundHalfUp (abs ((fixed6416ToInt128 h l 32).1 * 18446744073709551616 + wrapU64 (fixed6416ToInt128 h l 32).2)) (abs W)
      < 170141183460469231731687303715884105728 := by
    rw [n2]
    unfold isI64 at hr
    have hb : -79228162514264337593543950336 ≤ (h * 65536 + l) * 65536 ∧ (h * 65536 + l) * 65536 ≤ 79228162514264337593543950336 := by omega
    generalize (h * 65536 + l) * 65536 = N at *
    unfold roundHalfUp
    have hM : 0 ≤ abs N ∧ abs N ≤ 79228162514264337593543950336 := by unfold abs; split <;> omega
    have hD : 0 < abs W ∧ abs W ≤ 281474976710656 := by unfold abs; split <;> omega
    have := @Int.ediv_le_self (2 * abs N + abs W) (2 * abs W) (by omega)
    omega
  obtain ⟨r, e, r1, r2, rv⟩ := sdiv_spec_away _ (wrapU64 (fixed6416ToInt128 h l 32).2) W n1
    (by unfold isU64 wrapU64; omega) hW hW0 hQ
  rw [e]
  simp only
  rw [fixed11216_spec r.2 r.1 r1 r2, rv, n2]

theorem clamp64_cases (q : Int) :
    ((clamp64 q).2 = false ∧ (clamp64 q).1 = q) ∨ ((clamp64 q).2 = true ∧ ¬ Rep32 q) := by
  unfold clamp64 Rep32
  split
  · left; exact ⟨rfl, rfl⟩
  · right; refine ⟨rfl, ?_⟩; omega

theorem affine_isNearest (X : Int) : IsNearest (roundHalfUp X 65536) (X * 65536) 4294967296 := by
  have := roundHalfUp_isNearest X 65536 (by omega)
  unfold IsNearest at *
  generalize roundHalfUp X 65536 = q at *
  unfold abs at *
  split at this <;> split <;> omega

theorem negS32_exact (x : Int) (h : -2147483648 < x ∧ x ≤ 2147483647) : negS32 x = -x := by
  unfold negS32 wrapS32; omega

/-- error analysis of the precision-reduced division: a nearest rounding `q` of
    `⌊N/2^s⌋ / ⌊W/2^s⌋` with `|⌊W/2^s⌋| ≥ 2^47` and `|q| ≤ 2^31` is within one unit of `N / W` -/
theorem within_one_of_reduced (N W q : Int) (s : Nat) (s1 : 1 ≤ s) (s2 : s ≤ 31)
    (hq : IsNearest q (N / (2 : Int) ^ s) (W / (2 : Int) ^ s))
    (hD : 140737488355328 ≤ abs (W / (2 : Int) ^ s)) (hr : -2147483649 ≤ q ∧ q ≤ 2147483648) :
    IsWithinOne q N W := by
  unfold IsNearest at hq
  unfold IsWithinOne
  have hp : (0 : Int) < 2 ^ s := Int.pow_pos (by omega)
  have hW : W = W / 2 ^ s * 2 ^ s + W % 2 ^ s := by
    have := Int.mul_ediv_add_emod W (2 ^ s); rw [Int.mul_comm] at this; omega
  have w1 := Int.emod_nonneg W (by omega : (2 : Int) ^ s ≠ 0)
  have w2 := Int.emod_lt_of_pos W hp
  have e : q * W = q * (W / 2 ^ s) * 2 ^ s + q * (W % 2 ^ s) := by
    have := congrArg (fun z => q * z) hW
    simp only [Int.mul_add, Int.mul_assoc] at this ⊢; exact this
  have mb := mul_bounds q (W % 2 ^ s) 2147483649 (2 ^ s) (by omega) (by omega)
  generalize q * (W / 2 ^ s) = t at *
  generalize q * (W % 2 ^ s) = u at *
  generalize q * W = qW at *
  clear hW
  unfold abs at *
  have cases : s = 1 ∨ s = 2 ∨ s = 3 ∨ s = 4 ∨ s = 5 ∨ s = 6 ∨ s = 7 ∨ s = 8 ∨ s = 9 ∨ s = 10 ∨ s = 11 ∨ s = 12 ∨ s = 13 ∨ s = 14 ∨ s = 15 ∨ s = 16 ∨ s = 17 ∨ s = 18 ∨ s = 19 ∨ s = 20 ∨ s = 21 ∨ s = 22 ∨ s = 23 ∨ s = 24 ∨ s = 25 ∨ s = 26 ∨ s = 27 ∨ s = 28 ∨ s = 29 ∨ s = 30 ∨ s = 31 := by omega
  rcases cases with h|h|h|h|h|h|h|h|h|h|h|h|h|h|h|h|h|h|h|h|h|h|h|h|h|h|h|h|h|h|h <;> subst h <;> simp only [Int.reducePow] at * <;>
    (split at hq <;> split at hq <;> split at hD <;> split <;> split <;> omega)


/-- `fixed_64_16_to_int128 (hi, lo, .., 32 - s)`: the 128-bit pair is `⌊(64.16 value) · 2^16 / 2^s⌋` -/
theorem to128_reduced (h l : Int) (s : Nat) (s1 : 1 ≤ s) (s2 : s ≤ 31) (hr : isI64 (h + l / 65536)) :
    isI64 (fixed6416ToInt128 h l (32 - (s : Int))).1 ∧
    (fixed6416ToInt128 h l (32 - (s : Int))).1 * 18446744073709551616 + wrapU64 (fixed6416ToInt128 h l (32 - (s : Int))).2
      = ((h * 65536 + l) * 65536) / (2 : Int) ^ s := by
  unfold isI64 at hr
  have hw : wrapS64 (h + l / 65536) = h + l / 65536 := wrapS64_of_range _ hr
  have hL : 0 ≤ l % 65536 ∧ l % 65536 < 65536 := by omega
  have hX : (h * 65536 + l) * 65536 = (h + l / 65536) * 4294967296 + l % 65536 * 65536 := by omega
  rw [hX]
  generalize hH : h + l / 65536 = H at *
  generalize l % 65536 = L at *
  unfold isI64
  have cases : s = 1 ∨ s = 2 ∨ s = 3 ∨ s = 4 ∨ s = 5 ∨ s = 6 ∨ s = 7 ∨ s = 8 ∨ s = 9 ∨ s = 10 ∨ s = 11 ∨ s = 12 ∨ s = 13 ∨ s = 14 ∨ s = 15 ∨ s = 16 ∨ s = 17 ∨ s = 18 ∨ s = 19 ∨ s = 20 ∨ s = 21 ∨ s = 22 ∨ s = 23 ∨ s = 24 ∨ s = 25 ∨ s = 26 ∨ s = 27 ∨ s = 28 ∨ s = 29 ∨ s = 30 ∨ s = 31 := by omega
  rcases cases with h|h|h|h|h|h|h|h|h|h|h|h|h|h|h|h|h|h|h|h|h|h|h|h|h|h|h|h|h|h|h <;> subst h <;>
    simp [fixed6416ToInt128, hH, hw, wrapS64_add_mod, wrapU64_wrapS64] <;>
    (unfold wrapU64; omega)


/-- one projective coordinate, given what the 128-bit numerator pair represents -/
theorem projCoord_of_value (h l W sb N : Int) (n1 : isI64 (fixed6416ToInt128 h l sb).1)
    (n2 : (fixed6416ToInt128 h l sb).1 * 18446744073709551616 + wrapU64 (fixed6416ToInt128 h l sb).2 = N)
    (hb : -79228162514264337593543950336 ≤ N ∧ N ≤ 79228162514264337593543950336)
    (hW : -281474976710656 ≤ W ∧ W ≤ 281474976710656) (hW0 : W ≠ 0) :
    projCoord h l W sb = some (clamp64 (roundHalfAway N W)) := by
  unfold projCoord
  simp only
  have hQ : roundHalfUp (abs ((fixed6416ToInt128 h l sb).1 * 18446744073709551616 + wrapU64 (fixed6416ToInt128 h l sb).2)) (abs W)
      < 170141183460469231731687303715884105728 := by
    rw [n2]
    unfold roundHalfUp
    have hM : 0 ≤ abs N ∧ abs N ≤ 79228162514264337593543950336 := by unfold abs; split <;> omega
    have hD : 0 < abs W ∧ abs W ≤ 281474976710656 := by unfold abs; split <;> omega
    have := @Int.ediv_le_self (2 * abs N + abs W) (2 * abs W) (by omega)
    omega
  obtain ⟨r, e, r1, r2, rv⟩ := sdiv_spec_away _ (wrapU64 (fixed6416ToInt128 h l sb).2) W n1
    (by unfold isU64 wrapU64; omega) hW hW0 hQ
  rw [e]
  simp only
  rw [fixed11216_spec r.2 r.1 r1 r2, rv, n2]

theorem ediv_pow_bounds (N B : Int) (s : Nat) (hb : -B ≤ N ∧ N ≤ B) (hB : 0 ≤ B) :
    -B ≤ N / (2 : Int) ^ s ∧ N / (2 : Int) ^ s ≤ B := by
  have hp : (0 : Int) < 2 ^ s := Int.pow_pos (by omega)
  have h1 : (1 : Int) ≤ 2 ^ s := by omega
  constructor
  · apply Int.le_ediv_of_mul_le hp
    have := Int.mul_le_mul_of_nonneg_left h1 hB
    rw [Int.neg_mul]; omega
  · apply Int.ediv_le_of_le_mul hp
    have := Int.mul_le_mul_of_nonneg_left h1 hB
    omega


end

end Pixman.Matrix

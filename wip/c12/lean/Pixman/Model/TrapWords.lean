import Pixman.Model.Format
import Pixman.Model.Trap
/-!
  The row bodies of the trapezoid rasteriser on memory: `rasterize_edges_1/4` (pixman-edge-imp.h) and
  `rasterize_edges_8` (pixman-edge.c) as they read and write the little-endian byte memory of C10
  (`Model.Format.Mem`: `read8/read32/write8/write32`), statement by statement:

  * a1: `a += x >> 5; x &= 0x1f; MASK_BITS (x, width, startmask, nmiddle, endmask);` with `LEFT_MASK` /
    `RIGHT_MASK` (`SCREEN_SHIFT_RIGHT/LEFT` of a little-endian build), then the start word, the
    `while (nmiddle--)` loop of whole words and the end word (`a1Store`);
  * a4: `DEFINE_ALPHA`, `ADD_ALPHA` (`GET_4`/`PUT_4` on the byte holding the nibble, 8-bit wrap-around of
    `__a`, saturation by `__a | (0 - (__a >> 4))`), `STEP_ALPHA`;
  * a8: byte read-modify-write with `clip255`, `ADD_SATURATE_8`, the span-fill bookkeeping and the
    `MEMSET_WRAPPED (…, 0xff, …)` flush.

  `Pixman.Model.Trap` abstracts these to updates of a per-pixel array (`row1`, `row4`, `row8Fill`,
  `flushFill`); Lemmas/TrapWords.lean proves that the two agree (`Props.C12`, section "words").
  `line` is the byte address of the first word of the pixel row.
-/
namespace Pixman.TrapWords
open Pixman.Model.Format
open Pixman.Trap
open Pixman.Gen.SampleGrid

/-- `while (n--) body` -/
def whileDec {σ : Type} (body : σ → σ) : Nat → σ → σ
  | 0, s => s
  | k + 1, s => whileDec body k (body s)

/-! ### a1 -/

/-- `SCREEN_SHIFT_RIGHT (x, n)` of a little-endian build: `(uint32_t) (x << n)` -/
def screenShiftRight (x n : Nat) : Nat := (x <<< n) % 4294967296
/-- `SCREEN_SHIFT_LEFT (x, n)` of a little-endian build: `x >> n` -/
def screenShiftLeft (x n : Nat) : Nat := x >>> n

/-- `LEFT_MASK (x)`; `x & 0x1f` of an `int` is `x mod 32` -/
def leftMask (x : Int) : Nat :=
  if x % 32 ≠ 0 then screenShiftRight 0xffffffff (x % 32).toNat else 0

/-- `RIGHT_MASK (x)` -/
def rightMask (x : Int) : Nat :=
  if (32 - x) % 32 ≠ 0 then screenShiftLeft 0xffffffff ((32 - x) % 32).toNat else 0

/-- `MASK_BITS (x, w, l, n, r)`: `(l, n, r)` -/
def maskBits (x w : Int) : Nat × Int × Nat :=
  let n := w
  let r := rightMask (x + n)
  let l := leftMask x
  let lnr : Nat × Int × Nat :=
    if l ≠ 0 then
      let n := n - (32 - x % 32)
      if n < 0 then (l &&& r, 0, 0) else (l, n, r)
    else (l, n, r)
  (lnr.1, lnr.2.1 / 32, lnr.2.2)

/-- the three stores after `MASK_BITS`:
    `if (startmask) { WRITE (a, READ (a) | startmask); a++; }`
    `while (nmiddle--) WRITE (a++, 0xffffffff);`
    `if (endmask) WRITE (a, READ (a) | endmask);`   (`a` is a byte address here: `a++` adds 4).
    `Pixman.Gen.EdgeWords.a1Store` is regenerated from the source text and equals this by `rfl`. -/
def a1Store (m : Mem) (a : Nat) (startmask : Nat) (nmiddle : Int) (endmask : Nat) : Mem :=
  let s : Mem × Nat := (m, a)
  let s : Mem × Nat :=
    if startmask ≠ 0 then
      let s : Mem × Nat := (write32 s.1 s.2 (read32 s.1 s.2 ||| startmask), s.2)
      (s.1, s.2 + 4)
    else s
  let s : Mem × Nat := whileDec (fun (s : Mem × Nat) => (write32 s.1 s.2 4294967295, s.2 + 4)) nmiddle.toNat s
  let s : Mem × Nat :=
    if endmask ≠ 0 then (write32 s.1 s.2 (read32 s.1 s.2 ||| endmask), s.2)
    else s
  s.1

/-- the `#if N_BITS == 1` block for the pixels `lxi … rxi-1` of the row at `line` -/
def a1Span (m : Mem) (line : Nat) (lxi rxi : Int) : Mem :=
  let width := rxi - lxi
  let x := lxi
  let a := line + 4 * (x / 32).toNat          -- `a += x >> 5`
  let x := x % 32                              -- `x &= 0x1f`
  let mb := maskBits x width
  a1Store m a mb.1 mb.2.1 mb.2.2

/-- the body of the row loop of `rasterize_edges_1` on memory (same clamps as `row1`) -/
def row1W (m : Mem) (line : Nat) (width : Int) (lx0 rx0 : Int) : Mem :=
  let lx := wrap32 (lx0 + (xFracFirst 1 - 1))
  let rx := wrap32 (rx0 + (xFracFirst 1 - 1))
  let lx := if lx < 0 then 0 else lx
  let rx := if fixedToInt rx ≥ width then intToFixed width else rx
  if rx > lx then a1Span m line (fixedToInt lx) (fixedToInt rx) else m

/-! ### a4 -/

/-- `GET_4 (x, o)` (little endian: `SHIFT_4 (o) = o << 2`) -/
def get4 (x o : Nat) : Nat := (x >>> (o <<< 2)) &&& 0xf
/-- `PUT_4 (x, o, v)`; `~` is the complement of a 32-bit `int` -/
def put4 (x o v : Nat) : Nat :=
  (x &&& ((0xf <<< (o <<< 2)) ^^^ 4294967295)) ||| ((v &&& 0xf) <<< (o <<< 2))

/-- `ADD_ALPHA (a)` at `__ap = ap`, `__ao = ao`: `uint8_t __o = READ (__ap); uint8_t __a = a + GET_4 (__o, __ao);
    WRITE (__ap, PUT_4 (__o, __ao, __a | (0 - (__a >> 4))))`; `0 - k` in 32-bit two's complement -/
def addAlphaW (m : Mem) (ap ao a : Nat) : Mem :=
  let o := read8 m ap
  let a' := (a + get4 o ao) % 256
  write8 m ap (put4 o ao (a' ||| ((4294967296 - (a' >>> 4)) % 4294967296)))

/-- the `#else` block (`N_BITS == 4`): `DEFINE_ALPHA (line, lxi)`, then the `ADD_ALPHA` / `STEP_ALPHA` sequence -/
def a4Span (m : Mem) (line : Nat) (lxi rxi lxs rxs : Int) : Mem :=
  let ap := line + (lxi / 2).toNat             -- `(uint8_t *) line + (x >> 1)`
  let ao := (lxi % 2).toNat                    -- `x & 1`
  if lxi == rxi then
    addAlphaW m ap ao (rxs - lxs).toNat
  else
    let m := addAlphaW m ap ao (nXFrac 4 - lxs).toNat
    let s : Mem × Nat × Nat := (m, ap + ao, ao ^^^ 1)                  -- `STEP_ALPHA`
    let s := whileDec (fun (s : Mem × Nat × Nat) =>
        (addAlphaW s.1 s.2.1 s.2.2 (nXFrac 4).toNat, s.2.1 + s.2.2, s.2.2 ^^^ 1)) (rxi - (lxi + 1)).toNat s
    addAlphaW s.1 s.2.1 s.2.2 rxs.toNat

/-- the body of the row loop of `rasterize_edges_4` on memory (same clamps as `row4`) -/
def row4W (m : Mem) (line : Nat) (width : Int) (lx0 rx0 : Int) : Mem :=
  let lx := if lx0 < 0 then 0 else lx0
  let rx := if fixedToInt rx0 ≥ width then wrap32 (intToFixed width - 1) else rx0
  if rx > lx then
    a4Span m line (fixedToInt lx) (fixedToInt rx) (renderSamplesX lx 4) (renderSamplesX rx 4)
  else m

/-! ### a8 -/

/-- `WRITE (ap + i, clip255 (READ (ap + i) + v))` -/
def addByte (m : Mem) (a v : Nat) : Mem := write8 m a (clip255 (read8 m a + v))

/-- `ADD_SATURATE_8 (buf, val, length)` -/
def addSat8W (m : Mem) (buf val : Nat) : Nat → Mem
  | 0 => m
  | len + 1 => addSat8W (addByte m buf val) (buf + 1) val len

/-- `MEMSET_WRAPPED (image, dst, val, size)` without accessors: `memset` -/
def memsetW (m : Mem) (dst val : Nat) : Nat → Mem
  | 0 => m
  | size + 1 => memsetW (write8 m dst val) (dst + 1) val size

/-- `ADD_SATURATE_8 (ap + start, val, len)` with C `int` arguments -/
def addSat8WI (m : Mem) (line : Nat) (start val len : Int) : Mem :=
  addSat8W m (line + start.toNat) val.toNat len.toNat

/-- the row body of `rasterize_edges_8` on memory, with the span-fill bookkeeping (mirrors `row8Fill`) -/
def row8FillW (m : Mem) (line : Nat) (width : Int) (lx0 rx0 : Int) (fs : Fill) : Mem × Fill :=
  let lx := if lx0 < 0 then 0 else lx0
  let rx := if fixedToInt rx0 ≥ width then wrap32 (intToFixed width - 1) else rx0
  if rx > lx then
    let lxi := fixedToInt lx
    let rxi := fixedToInt rx
    let lxs := renderSamplesX lx 8
    let rxs := renderSamplesX rx 8
    if lxi == rxi then
      (addByte m (line + lxi.toNat) (rxs - lxs).toNat, fs)
    else
      let m := addByte m (line + lxi.toNat) (nXFrac 8 - lxs).toNat
      let lxi := lxi + 1
      let (m, fs) :=
        if rxi - lxi > 4 then
          if fs.start < 0 then
            (m, { start := lxi, stop := rxi, size := fs.size + 1 })
          else if lxi ≥ fs.stop || rxi < fs.start then
            (addSat8WI m line fs.start (fs.size * nXFrac 8) (fs.stop - fs.start),
             { start := lxi, stop := rxi, size := 1 })
          else
            let (m, fstart) :=
              if lxi > fs.start then
                (addSat8WI m line fs.start (fs.size * nXFrac 8) (lxi - fs.start), lxi)
              else if lxi < fs.start then
                (addSat8WI m line lxi (nXFrac 8) (fs.start - lxi), fs.start)
              else (m, fs.start)
            let (m, fstop) :=
              if rxi < fs.stop then
                (addSat8WI m line rxi (fs.size * nXFrac 8) (fs.stop - rxi), rxi)
              else if fs.stop < rxi then
                (addSat8WI m line fs.stop (nXFrac 8) (rxi - fs.stop), fs.stop)
              else (m, fs.stop)
            (m, { start := fstart, stop := fstop, size := fs.size + 1 })
        else
          (addSat8WI m line lxi (nXFrac 8) (rxi - lxi), fs)
      (addByte m (line + rxi.toNat) rxs.toNat, fs)
  else (m, fs)

/-- the flush of the pending fill on memory (mirrors `flushFill`) -/
def flushFillW (m : Mem) (line : Nat) (fs : Fill) : Mem :=
  if fs.start != fs.stop then
    if fs.size == nYFrac 8 then
      memsetW m (line + fs.start.toNat) 0xff (fs.stop - fs.start).toNat
    else
      addSat8WI m line fs.start (fs.size * nXFrac 8) (fs.stop - fs.start)
  else m

end Pixman.TrapWords

import Pixman.Model.Matrix
import Pixman.Model.MatrixF
/-! Line-protocol driver for the matrix domain (C11).  One request per line, one reply per line.
    Integers travel in decimal; a transform is 9 integers in row order; an optional transform
    pointer is `-` (NULL) or `+` followed by 9 integers. -/
namespace Driver.Matrix
open Pixman.Matrix

abbrev P := StateT (List String) Option

def tok : P String := fun s => match s with | [] => none | t :: r => some (t, r)
def int : P Int := do let t ← tok; (t.toInt?).elim failure pure
def i32 : P Int := do let x ← int; if isI32 x then pure x else failure
def i16 : P Int := do let x ← int; if isI16 x then pure x else failure
def i64 : P Int := do let x ← int; if isI64 x then pure x else failure
def u64 : P Int := do let x ← int; if isU64 x then pure x else failure
def transform : P Transform := do
  return ⟨← i32, ← i32, ← i32, ← i32, ← i32, ← i32, ← i32, ← i32, ← i32⟩
def optTransform : P (Option Transform) := do
  match ← tok with
  | "-" => pure none
  | "+" => do let t ← transform; pure (some t)
  | _ => failure
def vec32 : P Vec := do return ⟨← i32, ← i32, ← i32⟩
def vec64 : P Vec := do return ⟨← i64, ← i64, ← i64⟩

def fmtT (t : Transform) : String :=
  s!"{t.m00} {t.m01} {t.m02} {t.m10} {t.m11} {t.m12} {t.m20} {t.m21} {t.m22}"
def fmtOptT : Option Transform → String
  | none => "-"
  | some t => "+ " ++ fmtT t
def fmtV (v : Vec) : String := s!"{v.x} {v.y} {v.z}"
def fmtB (b : Bool) : String := if b then "1" else "0"
def fmtBV : Option (Bool × Vec) → String
  | none => "ABORT"
  | some (r, v) => fmtB r ++ " " ++ fmtV v
def fmtOV : Option Vec → String
  | none => "ABORT"
  | some v => fmtV v
def fmtPair (r : Bool × Option Transform × Option Transform) : String :=
  fmtB r.1 ++ " " ++ fmtOptT r.2.1 ++ " " ++ fmtOptT r.2.2

def request : P String := do
  let op ← tok
  match op with
  | "point" => do let t ← transform; let v ← vec32; pure (fmtBV (transformPoint t v))
  | "point3d" => do let t ← transform; let v ← vec32; pure (fmtBV (transformPoint3d t v))
  | "p31" => do let t ← transform; let v ← vec64; pure (fmtBV (transformPoint3116 t v))
  | "p31a" => do let t ← transform; let v ← vec64; pure (fmtOV (transformPoint3116Affine t v))
  | "p313d" => do let t ← transform; let v ← vec64; pure (fmtOV (transformPoint31163d t v))
  | "mul" => do
    let l ← transform; let r ← transform
    match multiply l r with
    | none => pure "0"
    | some d => pure ("1 " ++ fmtT d)
  | "init_identity" => pure (fmtT initIdentity)
  | "init_scale" => do let sx ← i32; let sy ← i32; pure (fmtT (initScale sx sy))
  | "init_rotate" => do let c ← i32; let s ← i32; pure (fmtT (initRotate c s))
  | "init_translate" => do let tx ← i32; let ty ← i32; pure (fmtT (initTranslate tx ty))
  | "scale" => do
    let f ← optTransform; let r ← optTransform; let sx ← i32; let sy ← i32
    pure (fmtPair (scale f r sx sy))
  | "rotate" => do
    let f ← optTransform; let r ← optTransform; let c ← i32; let s ← i32
    pure (fmtPair (rotate f r c s))
  | "translate" => do
    let f ← optTransform; let r ← optTransform; let tx ← i32; let ty ← i32
    pure (fmtPair (translate f r tx ty))
  | "bounds" => do
    let t ← transform
    let b : Box16 := ⟨← i16, ← i16, ← i16, ← i16⟩
    match bounds t b with
    | none => pure "ABORT"
    | some (r, b) => pure s!"{fmtB r} {b.x1} {b.y1} {b.x2} {b.y2}"
  | "is_identity" => do let t ← transform; pure (fmtB (isIdentity t))
  | "is_scale" => do let t ← transform; pure (fmtB (isScale t))
  | "is_int_translate" => do let t ← transform; pure (fmtB (isIntTranslate t))
  | "is_inverse" => do let a ← transform; let b ← transform; pure (fmtB (isInverse a b))
  -- white-box requests (static helpers of pixman-matrix.c)
  | "udiv" => do
    let hi ← u64; let lo ← u64; let d ← u64
    match roundedUdiv128By48 hi lo d with
    | none => pure "ABORT"
    | some (rlo, rhi) => pure s!"{rlo} {rhi}"
  | "sdiv" => do
    let hi ← i64; let lo ← u64; let d ← i64
    match roundedSdiv128By49 hi lo d with
    | none => pure "ABORT"
    | some (rlo, rhi) => pure s!"{rlo} {rhi}"
  | "to128" => do
    let hi ← i64; let lo ← i64; let sb ← int
    let (rhi, rlo) := fixed6416ToInt128 hi lo sb
    pure s!"{rhi} {rlo}"
  | "invert" => do
    let t ← transform
    match Pixman.MatrixF.invert t with
    | none => pure "0"
    | some none => pure "UNDEF"
    | some (some l) => pure ("1" ++ String.join (l.map fun x => s!" {x}"))
  | "finv" => do let x ← i32; pure s!"{fixedInverse x}"
  | _ => failure

def handle (line : String) : String :=
  let toks := (line.trimAscii.toString.splitOn " ").filter (· ≠ "")
  match request.run toks with
  | some (out, []) => out
  | some (_, _) => "bad-trailing"
  | none => "bad-op"

end Driver.Matrix

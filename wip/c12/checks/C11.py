"""C11 — fixed-point transform arithmetic is exactly rounded and reports overflow.

Proof obligations: Pixman.Props.C11 (model = lean/Pixman/Model/Matrix.lean).
Correspondence: harness/matrix.c (+ white-box matrix_wb.c for the static helpers) against `pixdrv matrix`
on every public integer pixman_transform_* entry point; each request runs in a forked child so that an
abort() is an observable.  Spec oracle: exact __int128 arithmetic inside the harness (nearest rounding,
FALSE iff unrepresentable, bounds contain corners, A x inv(A) ~ I, ...), independent of the model.
The floating point family (f_*) is oracle-only; pixman_transform_invert is additionally mirrored on Lean Float
(bit-exact correspondence, no theorem): level "partial" for those."""
import collections, json, re, subprocess
from concurrent.futures import ThreadPoolExecutor
from engine.core import log, sh, VERIF, REPO

REQUIRED = [
    "Pixman.Props.C11.rounded_udiv_128_by_48_nearest",
    "Pixman.Props.C11.rounded_udiv_128_by_48_assert",
    "Pixman.Props.C11.rounded_sdiv_128_by_49_nearest",
    "Pixman.Props.C11.rounded_sdiv_128_by_49_abort_iff",
    "Pixman.Props.C11.transformPoint3116_affine",
    "Pixman.Props.C11.transformPoint_affine",
    "Pixman.Props.C11.transformPoint3116Affine_spec",
    "Pixman.Props.C11.transformPoint31163d_spec",
    "Pixman.Props.C11.transformPoint3d_spec",
    "Pixman.Props.C11.tmp_in_int64",
    "Pixman.Props.C11.mulEntry_in_int64",
    "Pixman.Props.C11.entrySpec_error",
    "Pixman.Props.C11.entrySpec_exact",
    "Pixman.Props.C11.multiply_spec",
    "Pixman.Props.C11.bounds_contains_corners",
    "Pixman.Props.C11.bounds_never_aborts",
    "Pixman.Props.C11.transformPoint3116_never_aborts",
    "Pixman.Props.C11.transformPoint_never_aborts",
    "Pixman.Props.C11.transformPoint3116_projective_exact",
    "Pixman.Props.C11.transformPoint_exact",
    "Pixman.Props.C11.transformPoint3116_projective_reduced",
    "Pixman.Props.C11.transformPoint_within_one_partial",
    "Pixman.Props.C11.applyPair_spec",
    "Pixman.Props.C11.applyPair_exact",
    "Pixman.Props.C11.translate_spec",
    "Pixman.Props.C11.rotate_spec",
    "Pixman.Props.C11.fixedInverse_spec",
    "Pixman.Props.C11.scale_spec",
]

FLOAT_OPS = ("f_from", "f_to", "f_invert", "f_point", "f_bounds")   # oracle only; "invert" is also mirrored bit-exactly on Lean Float
MODELLED_NONTRIVIAL = ("point", "p31", "point3d", "p313d", "p31a", "mul", "scale", "rotate", "translate", "bounds")
WB_SYMS = ["wb_udiv", "wb_sdiv", "wb_to128", "wb_finv"]


def build_harness(ctx):
    b = ctx.build_pixman("plain")
    # assertions must be live in the library under test (they are part of the property: "never abort")
    cc = (b["dir"] / "compile_commands.json").read_text()
    if "NDEBUG" in cc:
        ctx.assumptions.append("WARNING: the library build defines NDEBUG; assertion failures are not observable")
    wb = ctx.scratch / "matrix_wb.o"
    cmd = ["gcc", "-O2", "-g", "-DHAVE_CONFIG_H", "-DPIXMAN_VERIF", "-I", str(VERIF / "harness")] + b["inc"] + \
          ["-c", str(VERIF / "harness" / "matrix_wb.c"), "-o", str(wb)]
    r = sh(cmd)
    if r.returncode == 0:
        r = sh(["objcopy"] + sum((["-G", s] for s in WB_SYMS), []) + [str(wb)])
    if r.returncode != 0:
        path = ctx.write_replay({"kind": "harness-build", "name": "matrix_wb",
                                 "what": "white-box unit no longer compiles against /repo/pixman/pixman-matrix.c "
                                         "(a static helper it wraps changed its interface)",
                                 "log_tail": r.stdout[-4000:]}, tag="harness")
        log(f"VIOLATION property={ctx.pid} replay={path} no-failing-input-found")
        ctx.violations.append({"replay": str(path)})
        ctx.finish(force_exit=1)
    return ctx.cc("matrix", ["matrix.c"], b, extra=["-DHAVE_WB", str(wb)])


def signature(kind, op, text):
    m = re.search(r"\[([^\]]*)\]\s*$", text or "")
    shape = m.group(1) if m else ""
    cls = (text or "").split(" ", 1)[0] if kind == "oracle" else "model-differs"
    return f"{op}|{kind}:{cls}|{shape}"


def run_streams(ctx, nper, nstreams):
    exe = build_harness(ctx)
    cdir = VERIF / "corpus" / "matrix"
    corpus = sorted(cdir.glob("*.txt")) if cdir.exists() else []

    def one(i):
        d = ctx.scratch / f"ms{i}"
        d.mkdir(exist_ok=True)
        ops, impl, orc, model = d / "ops.txt", d / "impl.txt", d / "oracle.txt", d / "model.txt"
        if i < len(corpus):
            ops.write_text(corpus[i].read_text())
            subprocess.run([str(exe), "exec", str(ops), str(impl), str(orc)], stderr=subprocess.DEVNULL)
        else:
            seed = ctx.seed * 1000 + i
            subprocess.run([str(exe), "gen", str(seed), str(nper), str(ops), str(impl), str(orc)], stderr=subprocess.DEVNULL)
        ctx.pixdrv("matrix", ops, model)
        return ops, impl, orc, model

    with ThreadPoolExecutor(max_workers=16) as ex:
        results = list(ex.map(one, range(len(corpus) + nstreams)))

    stats = collections.Counter()
    ops_hist = collections.Counter()
    nontrivial = set()
    samples = []
    findings = []      # (kind, op, request, impl, model, text)
    total = compared = 0
    for ops, impl, orc, model in results:
        with open(ops) as f:
            lo = f.read().split("\n")
        with open(impl) as f:
            li = f.read().split("\n")
        with open(model) as f:
            lm = f.read().split("\n")
        if lo and lo[-1] == "":
            lo.pop()
        n = len(lo)
        total += n
        if len(li) < n + 0 or len(lm) < n:
            findings.append(("stream", "stream", str(ops), None, None, "harness or driver produced fewer lines than requests"))
        for k in range(min(n, len(li), len(lm))):
            req = lo[k]
            if not req:
                continue
            op = req.split(" ", 1)[0]
            ops_hist[op] += 1
            if op in FLOAT_OPS:
                continue
            compared += 1
            a, m = li[k].strip(), lm[k].strip()
            if m == "UNDEF":        # a NaN reached a double->int cast (undefined in C): not compared
                stats["invert: NaN reached the cast (not compared)"] += 1
                continue
            if a != m:
                findings.append(("disagree", op, req, a, m, "model and implementation differ"))
            if op in MODELLED_NONTRIVIAL and a.startswith("1") and not req.endswith(" 0 0 65536 65536") :
                t = req.split(" ")
                if not (op in ("point", "p31") and t[7:10] == ["0", "0", "65536"]):
                    nontrivial.add(hash(req))
                    if len(samples) < 6 and op not in [s.split(" ", 1)[0] for s in samples]:
                        samples.append(req + "  =>  " + a)
        with open(orc) as f:
            for ol in f:
                ol = ol.strip()
                mm = re.match(r"ORACLE (\d+) (.*)", ol)
                if mm:
                    ln, text = int(mm.group(1)), mm.group(2)
                    req = lo[ln - 1] if 0 < ln <= n else "?"
                    a = li[ln - 1].strip() if 0 < ln <= len(li) else None
                    findings.append(("oracle", req.split(" ", 1)[0], req, a, None, text))
                    continue
                mm = re.match(r"STAT (\d+) (.*)", ol)
                if mm:
                    stats[mm.group(2)] += int(mm.group(1))
    ctx.cov["evaluations"] += total
    ctx.cov["distinct_nontrivial"] += len(nontrivial)
    ctx.cov["traces_validated_against_impl"] += compared
    ctx.cov["rule"] = ("independent requests (no state): matrices from {affine, scaled w, arbitrary, mild projective, one-entry w row, "
                       "identity with few changes}, entries from {0, +-1.0, +-2^k, +-2^k+-1, INT32_MIN/MAX(+-2), small nice values, small random, "
                       "random bit length}; for points a quarter of the requests solve for m22 so that w lands at 0+-3, 1.0+-2 or +-2^k+-2 "
                       "(k<64, in 32.32 units) and a sixth so that an affine result lands at +-2^31 +-3 half-units; 48.16 inputs at +-2^46 "
                       "and just outside; products at the int32 limit; boxes at the int16 limits.  non-trivial = modelled request answered "
                       "TRUE that is not an affine point request, distinct by full request text")
    ctx.cov["samples"] = samples
    ctx.extra["operation_histogram"] = dict(ops_hist)
    ctx.extra["harness_statistics"] = dict(stats)
    ctx.extra["float_family_requests(oracle only, not modelled)"] = sum(ops_hist[o] for o in FLOAT_OPS)
    return findings


def report(ctx, findings, limit=8):
    seen = collections.OrderedDict()
    for kind, op, req, a, m, text in findings:
        seen.setdefault(signature(kind, op, text), []).append((kind, op, req, a, m, text))
    n = 0
    summary = {}
    for sig, items in seen.items():
        kind, op, req, a, m, text = min(items, key=lambda it: len(it[2]))
        summary[sig] = len(items)
        if n >= limit:
            continue
        if ctx.violation({"kind": kind, "request": req, "implementation": a, "model": m, "oracle": text,
                          "how_to_replay": "bin/check C11 --replay <this file>   (or: printf '%s\\n' \"<request>\" > ops.txt; "
                                           "<scratch>/matrix-plain exec ops.txt impl.txt oracle.txt; "
                                           "lean/.lake/build/bin/pixdrv matrix < ops.txt)",
                          "count_in_run": len(items)}, signature=sig, what=f"{op}: {text}", tag=op):
            n += 1
    ctx.extra["finding_signatures"] = summary


def run(ctx):
    broken = ctx.lean_obligations("Pixman.Props.C11", REQUIRED)
    quick = ctx.tier == "quick"
    findings = run_streams(ctx, 60000 if quick else 400000, 16 if quick else 48)
    report(ctx, findings)
    if broken and not ctx.violations:
        ctx.broken_obligations_verdict(broken, "matrix correspondence streams and the exact-arithmetic oracle found no failing input")
    ctx.assumptions += [
        "multiply (and scale/rotate/translate, which are multiplications): 'correctly rounded' is read as the sum of the three per-term "
        "roundings ((a*b+0x8000)>>16), within 3/2 unit of the exact entry (DESIGN 6/C11, M6)",
        "scale: the reciprocal 2^32/s may be any 16.16 value within one unit of the exact one (the code truncates); a reciprocal outside int32 must give FALSE",
        "point: ties may go either way (affine branch rounds half up, projective branch half away from zero)",
        "bounds: containment is judged to the 16.16 resolution of the transformed corner",
        "float family (invert, f_transform_*, conversions): no theorem (partial); invert is mirrored operation by operation on Lean Float (bit-exact correspondence) and judged by the oracle, the f_* entry points are oracle only; invert is judged on entries <= 4.0 "
        "(exact double arithmetic) for singular input and on matrices whose exact inverse stays below 30000.0 for accuracy; NaN/inf inputs are not generated",
        "signed overflow that is undefined behaviour in C (negation of INT32_MIN inside the void pixman_transform_init_rotate, within_epsilon differences) is modelled as the "
        "two's complement wrap the compiled library shows",
        "int64 sums inside pixman_transform_point_31_16*/multiply are modelled unbounded; Props.C11.tmp_in_int64/mulEntry_in_int64 prove they fit",
    ]


def replay(ctx, path):
    obj = json.loads(open(path).read())
    req = obj.get("request")
    if not req or obj.get("kind") not in ("oracle", "disagree"):
        log(f"replay: {path} carries no request line ({obj.get('kind')}): {obj.get('what')}")
        return
    exe = build_harness(ctx)
    sh(["lake", "build", "pixdrv"], cwd=VERIF / "lean")
    d = ctx.scratch / "replay"
    d.mkdir(exist_ok=True)
    ops, impl, orc, model = d / "ops.txt", d / "impl.txt", d / "oracle.txt", d / "model.txt"
    ops.write_text(req + "\n")
    subprocess.run([str(exe), "exec", str(ops), str(impl), str(orc)], stderr=subprocess.DEVNULL)
    ctx.pixdrv("matrix", ops, model)
    a, m = impl.read_text().strip(), model.read_text().strip()
    log(f"request:        {req}\nimplementation: {a}\nmodel:          {m}")
    findings = []
    op = req.split(" ", 1)[0]
    if op not in FLOAT_OPS and a != m:
        findings.append(("disagree", op, req, a, m, "model and implementation differ"))
    for ol in orc.read_text().splitlines():
        mm = re.match(r"ORACLE (\d+) (.*)", ol.strip())
        if mm:
            log("oracle:         " + mm.group(2))
            findings.append(("oracle", op, req, a, None, mm.group(2)))
    ctx.cov["evaluations"] = 1
    report(ctx, findings)
    if not findings:
        log("replay: the request no longer fails")

import Pixman.Model.WidePipeline
import Pixman.Spec.PdfBlend
/-! Line-protocol driver for the `compositeq` domain (float pipeline of C01):

`op ca srcfmt maskfmt dstfmt S M D [@geometry] R`

`S M D` are the raw source / mask / destination pixels, `R` the destination pixel the library
left; each a colon-separated list of decimal numbers: one number for packed formats, the binary32
bit patterns `r:g:b:a` (`r:g:b`) for `rgba_float` (`rgb_float`), the 16-bit `red:green:blue:alpha`
of `pixman_image_create_solid_fill` for `solid`; `M` is `0` for `none`.

Reply: `ok` (R within one quantisation step of the Rat model at the exact inputs), `okp` (only at
an input perturbed by 2⁻²⁰), `ok-narrow` (the request runs in the 8-bit pipeline and R equals the
narrow model), or `BAD …` (model) / `SPEC …` (R accepted by the model of the code but more than
one step from the independent Render/PDF equations of `Pixman.Spec.PdfBlend`). -/
namespace Driver.CompositeQ
open Pixman.Model.WidePipeline Pixman.Model.CombineQ

def parsePres (t : String) : Option Pres :=
  if t == "none" then some .none
  else if t == "solid" then some .solid
  else (allFormats.find? (fun f => f.name == t)).map .bits

def parseVals (t : String) : Option (List Nat) := (t.splitOn ":").mapM (·.toNat?)

/-- decimal rendering of a rational with 7 digits, for messages only -/
def showQ (v : Rat) : String :=
  let neg := v < 0
  let a := if neg then -v else v
  let n := (a * 10000000).floor.toNat
  (if neg then "-" else "") ++ toString (n / 10000000) ++ "." ++
    String.ofList (List.replicate (7 - (toString (n % 10000000)).length) '0') ++ toString (n % 10000000)

def showPx (p : Px) : String := s!"a={showQ p.a} r={showQ p.r} g={showQ p.g} b={showQ p.b}"

/-- the narrow model's presentation of a request that runs in the 8-bit pipeline -/
def narrowPres (p : Pres) (vals : List Nat) : Option (Pixman.CompositePixel.Pres × Nat) :=
  match p, vals with
  | .none, _ => some (.none, 0)
  | .solid, [r, g, b, a] => some (.solid, ((a >>> 8) <<< 24) ||| ((r >>> 8) <<< 16) ||| ((g >>> 8) <<< 8) ||| (b >>> 8))
  | .bits f, [v] => match f.kind with
    | .unorm u => if f.wide then Option.none else some (.bits u false, v)
    | _ => Option.none
  | _, _ => Option.none

def chName : Nat → String
  | 0 => "a" | 1 => "r" | 2 => "g" | 3 => "b" | _ => "?"

/-- the optional geometry token `@id,w,h,sx,sy,mx,my,dx,dy` of a wide-row request (before the
library's result) says where in the images the pixel sits; the per-pixel model does not depend on it -/
def dropGeometry (toks : List String) : List String :=
  match toks with
  | [op, ca, sf, mf, df, s, m, d, g, r] => if g.startsWith "@" then [op, ca, sf, mf, df, s, m, d, r] else toks
  | _ => toks

def isInfBits (w : Nat) : Bool := w == 0x7f800000 || w == 0xff800000

/-- A binary32 SOURCE with infinite colour channels.  The Rat model has no infinities; such a
request is judged by the narrowing rule alone, and only where the library's binary32 evaluation is
determinate (no `∞·0`, no `∞ − ∞`): operators SRC, OVER, ADD (`MIN (1, s·1 + d·Fb)`), MULTIPLY
(`(1−da)·s + (1−sa)·d + d·s`, needs `da < 1` and `d > 0`), DARKEN, LIGHTEN (`(1−da)·s + … +
min/max (s·da, d·sa)`, needs `0 < da < 1`); the mask factor of the channel must be positive; the
other operands finite; a fixed-point (not sRGB-coded) destination.  Then channel value `+∞` must
narrow to the channel maximum and `−∞` to 0.  Reply `ok-inf`, `BAD inf-narrowing …`, or `skip-inf`. -/
def judgeInf (op' : Nat) (ca : Bool) (sp mp : Pres) (dfm : WFmt) (sv mv dv rv : List Nat) : String :=
  let colours : List Nat := sv.take 3        -- r g b words of rgba_float / rgb_float
  let alphaOk : Bool := match sp, sv with
    | .bits f, [_, _, _, a] => (match f.kind with | .rgbaFloat => !isInfBits a && (f32ToRat a).isSome | _ => false)
    | .bits f, [_, _, _] => (match f.kind with | .rgbFloat => true | _ => false)
    | _, _ => false
  match dfm.kind, dv, rv, alphaOk with
  | .unorm u, [dp], [lib], true =>
    -- destination operands of the channel
    match fetch (.bits dfm) [dp] with
    | Option.none => "skip-inf"
    | some dpx =>
      let mpx : Option (Option Px) := match mp with | .none => some Option.none | _ => (fetch mp mv).map some
      match mpx with
      | Option.none => "skip-inf"
      | some mq =>
        let (_, sr, sg, sb) := u.shifts
        let chans : List (Nat × Nat × Nat × Rat × Rat) :=       -- (index, width, shift, dest colour, mask factor)
          [(1, u.r, sr, dpx.r, match mq with | Option.none => 1 | some mm => if ca then mm.r else mm.a),
           (2, u.g, sg, dpx.g, match mq with | Option.none => 1 | some mm => if ca then mm.g else mm.a),
           (3, u.b, sb, dpx.b, match mq with | Option.none => 1 | some mm => if ca then mm.b else mm.a)]
        let da := dpx.a
        let determinate (dc mf : Rat) : Bool :=
          mf > 0 &&
          (op' == 1 || op' == 3 || op' == 12 ||
           (op' == 0x30 && da < 1 && dc > 0) ||
           ((op' == 0x33 || op' == 0x34) && 0 < da && da < 1))
        let results : List (Option String) := (chans.zip colours).map (fun ((i, n, sh, dc, mf), w) =>
          if !isInfBits w || n == 0 then Option.none
          else if !determinate dc mf then some "skip"
          else
            let got := (lib >>> sh) &&& (2 ^ n - 1)
            let want := if w == 0x7f800000 then 2 ^ n - 1 else 0
            if got == want then some "ok" else some s!"BAD inf-narrowing ch={chName i} op'={op'} stored {got}, an infinite channel must narrow to {want}")
        match results.find? (fun r => match r with | some s => s.startsWith "BAD" | _ => false) with
        | some (some s) => s
        | _ => if results.any (· == some "ok") then "ok-inf" else "skip-inf"
  | _, _, _, _ => "skip-inf"

/-- binary32 source with a colour channel far outside [0, 1] (|v| > 2): the library's rounding errors
scale with it; the request is then accepted when the stored value lies within one step of the
interval spanned by the model at the perturbed inputs (as for binary32 destinations) -/
def hdrPx (p : Px) : Bool := absQ p.r > 2 || absQ p.g > 2 || absQ p.b > 2 || absQ p.a > 2

def handle (line : String) : String :=
  match dropGeometry (line.trimAscii.toString.splitOn " " |>.filter (· ≠ "")) with
  | [op, ca, sf, mf, df, s, m, d, r] =>
    match op.toNat?, ca.toNat?, parsePres sf, parsePres mf, parsePres df, parseVals s, parseVals m,
          parseVals d, parseVals r with
    | some op, some ca, some sp, some mp, some (.bits dfm), some sv, some mv, some dv, some rv =>
      let ca := ca != 0
      let op' := effectiveOp op ca sp mp sv mv
      if runsNarrow op' sp mp (.bits dfm) then
        match narrowPres sp sv, narrowPres mp mv, narrowPres (.bits dfm) dv, rv with
        | some (nsp, nsv), some (nmp, nmv), some (ndp, ndv), [lib] =>
          match Pixman.CompositePixel.compositePixel op ca nsp nmp ndp nsv nmv ndv with
          | .pixel v => if v == lib then "ok-narrow" else s!"BAD narrow-model {v}"
          | _ => "BAD narrow-model-undefined"
        | _, _, _, _ => "bad-request"
      else if (match sp with | .bits f => isFloatDest f | _ => false) && (sv.take 3).any isInfBits then
        judgeInf op' ca sp mp dfm sv mv dv rv
      else
        match fetch sp sv, (match mp with | .none => some Option.none | _ => (fetch mp mv).map some),
              fetch (.bits dfm) dv with
        | some spx, some mpx, some dpx =>
          -- a component-alpha flag without a mask image has no effect
          let ca := ca && mpx.isSome
          let hull := isFloatDest dfm || hdrPx spx
          match allowance op' ca spx mpx dpx with
          | Option.none => "skip"
          | some tol =>
          match judge tol dfm rv (widePixel op' ca) hull spx mpx dpx with
          | Option.none => "bad-request"
          | some (.bad c v) => s!"BAD ch={chName c} op'={op'} model {showPx v}"
          | some mv =>
            let tag := match mv with | .ok => "ok" | .okPerturbed => "okp" | _ => "okh"
            match judge tol dfm rv (Pixman.Spec.PdfBlend.specPixel sqrtQ op ca) hull spx mpx dpx
                (fun s' m' d' => Pixman.Spec.PdfBlend.specPixel sqrtQ op ca s' m' d' false) with
            | some (.bad c w) => s!"SPEC ch={chName c} spec {showPx w}"
            | _ => tag        -- accepted, or no claim (operands not premultiplied / outside the Spec)
        | _, _, _ => "bad-request"
    | _, _, _, _, _, _, _, _, _ => "bad-request"
  | _ => "bad-request"

end Driver.CompositeQ

import Pixman.Lemmas.LifetimeAlpha
/-! The glyph cache operations preserve the structural invariant. -/
namespace Pixman.Model.Lifetime

theorem countP_erase_of_mem {α : Type} [DecidableEq α] (p : α → Bool) (l : List α) (a : α) (ha : a ∈ l) :
    (l.erase a).countP p + (if p a then 1 else 0) = l.countP p := by
  induction l with
  | nil => cases ha
  | cons b l ih =>
    by_cases hb : b = a
    · subst hb; rw [List.erase_cons_head, List.countP_cons]
    · have ha' : a ∈ l := by
        rcases List.mem_cons.1 ha with e | e
        · exact absurd e.symm hb
        · exact e
      rw [List.erase_cons_tail (by simpa using hb), List.countP_cons, List.countP_cons]
      have := ih ha'
      omega

/-- a change of the cache that keeps every `hold` (create, freeze, thaw, destroy of an empty cache) -/
theorem InvA.cache_same_hold {h h' : Heap} {pend : Nat → Nat} (hI : InvA h pend none)
    (e1 : h'.nimg = h.nimg) (e2 : h'.img = h.img) (e3 : h'.ext = h.ext) (e4 : h'.fired = h.fired)
    (e5 : h'.uaf = h.uaf) (e6 : h'.stuck = h.stuck) (hh : ∀ g, hold h' g = hold h g)
    (hc : ∀ c, h'.cache = some c → ∀ g, g ∈ c.entries → g.image < h.nimg ∧ h.ext g.image = 0) :
    InvA h' pend none := by
  apply hI.rebalance e1 e4 e5 e6
  · intro j; rw [e2]; exact ⟨rfl, rfl, rfl, rfl, rfl⟩
  · intro j _ _; rw [e2, e3, hh]
  · intro j hj hf; rw [e2]; have := hI.state j hj; omega
  · intro j hj hf; rw [e2, e3, hh]; exact ⟨rfl, hI.dead j hj hf⟩
  · intro j hj; rw [e3]; exact hI.unborn j hj
  · intro c hc' g hg; rw [e3]; exact hc c hc' g hg

theorem InvA.pres_cacheCreate {h : Heap} (hI : InvA h zero none) (hn : h.cache = none) :
    InvA (cacheCreate h) zero none := by
  apply hI.cache_same_hold <;> try rfl
  · intro g; simp [hold, cacheCreate, hn]
  · intro c hc g hg
    simp [cacheCreate] at hc; subst hc; simp at hg

theorem InvA.pres_cacheFreeze {h : Heap} (hI : InvA h zero none) : InvA (cacheFreeze h) zero none := by
  unfold cacheFreeze
  cases hc : h.cache with
  | none => exact hI
  | some c =>
    apply hI.cache_same_hold <;> try rfl
    · intro g; simp [hold, hc]
    · intro c' hc' g hg
      simp at hc'; subst hc'
      exact hI.centries c hc g hg

theorem InvA.pres_cacheThaw {h : Heap} (hI : InvA h zero none) : InvA (cacheThaw h) zero none := by
  unfold cacheThaw
  cases hc : h.cache with
  | none => exact hI
  | some c =>
    apply hI.cache_same_hold <;> try rfl
    · intro g; simp [hold, hc]
    · intro c' hc' g hg
      simp at hc'; subst hc'
      exact hI.centries c hc g hg

/-- `free_glyph` after the entry left the table: its reference on the private image is in flight -/
theorem InvA.pres_freeGlyph {h : Heap} {pend : Nat → Nat} (hI : InvA h pend none) (g : Glyph)
    (hp : ∀ j, pend j = if j = g.image then 1 else 0) :
    InvA (freeGlyph h g) zero none ∧ (freeGlyph h g).cache = h.cache := by
  unfold freeGlyph
  have hU := hI.unrefF (m := g.image) (pend' := zero) 1 (by rw [hp]; simp) (Or.inl (by simp))
    (by intro j; rw [hp]; by_cases hj : j = g.image <;> simp [hj, zero])
  refine ⟨?_, ?_⟩
  · exact hU.1.local rfl rfl rfl rfl rfl rfl (fun j => ⟨rfl, rfl, rfl, rfl, rfl, Or.inl rfl⟩)
  · show (unref h g.image).1.cache = h.cache
    obtain ⟨hm, hf⟩ := hI.live_of_pend (m := g.image) (by rw [hp]; simp)
    unfold unref fuel0
    cases ha : (h.img g.image).alphaMap with
    | none =>
      rw [unrefF_leaf 2 h _ ⟨hm, hf⟩ ha]; split <;> rfl
    | some a =>
      obtain ⟨ham, haf, han, _⟩ := hI.edge g.image a hm hf (by simp) ha
      have hne : a ≠ g.image := by intro e; rw [e] at han; rw [han] at ha; cases ha
      rw [unrefF_parent 1 h _ a ⟨hm, hf⟩ ha hne ⟨ham, haf⟩ han]
      split
      · have hl1 : (releaseH h g.image).live a := (live_releaseH_other hne).2 ⟨ham, haf⟩
        have hn1 : ((releaseH h g.image).img a).alphaMap = none := by simpa [hne] using han
        rw [unrefF_leaf 1 _ a hl1 hn1]; split <;> rfl
      · rfl

/-- removing entry `g` from the table (`remove_glyph`) and freeing it -/
theorem InvA.pres_dropEntry {h : Heap} (hI : InvA h zero none) {c : Cache} (hc : h.cache = some c)
    (rest : List Glyph) (g : Glyph) (hg : g ∈ c.entries)
    (hrest : ∀ t, rest.countP (fun e => e.image == t) + (if g.image = t then 1 else 0)
               = c.entries.countP (fun e => e.image == t))
    (hsub : ∀ e, e ∈ rest → e ∈ c.entries) :
    InvA (freeGlyph { h with cache := some { c with entries := rest } } g) zero none ∧
      (freeGlyph { h with cache := some { c with entries := rest } } g).cache = some { c with entries := rest } := by
  have hI1 : InvA { h with cache := some { c with entries := rest } } (fun j => if j = g.image then 1 else 0) none := by
    have hgl := hI.centries c hc g hg
    have hholdeq : ∀ t, hold h t = c.entries.countP (fun e => e.image == t) := by
      intro t; simp only [hold, hc]
    have hholdg : 1 ≤ hold h g.image := by
      have := hrest g.image
      rw [hholdeq]; simp at this; omega
    have hglive : (h.img g.image).freed = 0 := by
      by_cases hf : (h.img g.image).freed = 0
      · exact hf
      · have h0 : hold h g.image = 0 := (hI.dead _ hgl.1 hf).2.1
        rw [h0] at hholdg; omega
    apply hI.rebalance <;> try rfl
    · intro j; exact ⟨rfl, rfl, rfl, rfl, rfl⟩
    · intro j _ _
      have : hold { h with cache := some { c with entries := rest } } j + (if g.image = j then 1 else 0) = hold h j := by
        simp only [hold, hc]; exact hrest j
      by_cases hj : j = g.image
      · subst hj; simp [zero] at *; omega
      · have hj' : ¬ g.image = j := fun e => hj e.symm
        simp [zero, hj, hj'] at *; omega
    · intro j hj hf
      show 1 ≤ (h.img j).refCount
      have := hI.state j hj; omega
    · intro j hj hf
      have hd := hI.dead j hj hf
      have hjg : j ≠ g.image := by intro e; subst e; exact hf hglive
      have : hold { h with cache := some { c with entries := rest } } j + (if g.image = j then 1 else 0) = hold h j := by
        simp only [hold, hc]; exact hrest j
      refine ⟨rfl, hd.1, by omega, by simp [hjg]⟩
    · intro j hj
      have := hI.unborn j hj
      have hjg : j ≠ g.image := by omega
      simp [this.1, hjg]
    · intro c' hc' e he
      simp at hc'; subst hc'
      exact hI.centries c hc e (hsub e he)
  have := hI1.pres_freeGlyph g (fun j => rfl)
  exact ⟨this.1, this.2⟩

theorem InvA.pres_cacheRemove {h : Heap} (hI : InvA h zero none) (key : Nat) :
    InvA (cacheRemove h key) zero none := by
  unfold cacheRemove
  cases hc : h.cache with
  | none => exact hI
  | some c =>
    dsimp only
    cases hf : findGlyph c.entries key with
    | none => exact hI
    | some g =>
      have hg : g ∈ c.entries := List.mem_of_find?_eq_some hf
      dsimp only
      refine (hI.pres_dropEntry hc (c.entries.erase g) g hg ?_ ?_).1
      · intro t
        have := countP_erase_of_mem (fun e => e.image == t) c.entries g hg
        simpa using this
      · intro e he; exact List.mem_of_mem_erase he

theorem InvA.pres_clearTable {h : Heap} (c : Cache) (l : List Glyph) (hI : InvA h zero none)
    (hc : h.cache = some { c with entries := l }) :
    InvA (clearTable h c l) zero none ∧ (clearTable h c l).cache = some { c with entries := [] } := by
  induction l generalizing h with
  | nil => exact ⟨hI, hc⟩
  | cons g gs ih =>
    unfold clearTable
    have := hI.pres_dropEntry hc gs g (by simp) (by intro t; simp [List.countP_cons]) (by intro e he; simp [he])
    exact ih this.1 this.2

theorem InvA.pres_cacheDestroy {h : Heap} (hI : InvA h zero none) : InvA (cacheDestroy h) zero none := by
  unfold cacheDestroy
  cases hc : h.cache with
  | none => exact hI
  | some c =>
    dsimp only
    split
    · exact hI
    · have := hI.pres_clearTable c c.entries (by rw [hc])
      apply this.1.cache_same_hold <;> try rfl
      · intro g; simp [hold, this.2]
      · intro c' hc'; simp at hc'

theorem createBits_frame (h : Heap) (w ht : Nat) (own : Bool) (e0 : Nat) :
    (createBits h w ht own e0).2 = h.nimg ∧ (createBits h w ht own e0).1.nimg = h.nimg + 1 ∧
    (createBits h w ht own e0).1.cache = h.cache ∧
    (∀ j, j ≠ h.nimg → (createBits h w ht own e0).1.img j = h.img j) ∧
    (∀ j, (createBits h w ht own e0).1.ext j = if j = h.nimg then e0 else h.ext j) := by
  unfold createBits
  dsimp only
  split
  · refine ⟨rfl, rfl, rfl, ?_, ?_⟩
    · intro j hj; simp [allocate, Heap.modify, hj]
    · intro j; simp [allocate, Heap.modify]
  · refine ⟨rfl, rfl, rfl, ?_, ?_⟩
    · intro j hj; simp [allocate, Heap.modify, hj]
    · intro j; simp [allocate, Heap.modify]

theorem InvA.pres_createBits0 {h : Heap} (hI : InvA h zero none) (w ht : Nat) (own : Bool) :
    InvA (createBits h w ht own 0).1 (fun j => if j = h.nimg then 1 else 0) none := by
  have hA : InvA (allocate h .bits 0).1 (fun j => if j = h.nimg then 1 else 0) none :=
    hI.pres_allocate .bits 0 (by omega) (by intro j; by_cases hj : j = h.nimg <;> simp [hj, zero])
  unfold createBits
  dsimp only
  have hB : InvA ((allocate h .bits 0).1.modify (allocate h .bits 0).2 fun im => { im with width := w, height := ht })
      (fun j => if j = h.nimg then 1 else 0) none := by
    local_step hA, (Or.inl (fun im => rfl))
  split
  · dsimp only; local_step hB, (Or.inl (fun im => rfl))
  · exact hB

theorem InvA.pres_cacheInsert {h : Heap} (hI : InvA h zero none) (key i : Nat) (hh : h.holds i = true) :
    InvA (cacheInsert h key i).1 zero none := by
  have hl := hI.holds_live hh
  unfold cacheInsert
  cases hc : h.cache with
  | none => exact hI
  | some c =>
    dsimp only
    split
    · exact hI
    · rw [touch_live hl]
      split
      · exact hI
      · -- the glyph_t block, then the private copy
        have hI0 : InvA { h with glyphsMade := h.glyphsMade + 1 } zero none :=
          hI.local rfl rfl rfl rfl rfl rfl (fun j => ⟨rfl, rfl, rfl, rfl, rfl, Or.inl rfl⟩)
        generalize hh0 : ({ h with glyphsMade := h.glyphsMade + 1 } : Heap) = h0 at hI0 ⊢
        have hn0 : h0.nimg = h.nimg := by rw [← hh0]
        have hc0 : h0.cache = some c := by rw [← hh0]; exact hc
        have hi0 : h0.img = h.img := by rw [← hh0]
        have he0 : h0.ext = h.ext := by rw [← hh0]
        have hI1 := hI0.pres_createBits0 (h.img i).width (h.img i).height true
        obtain ⟨f1, f2, f3, f4, f5⟩ := createBits_frame h0 (h.img i).width (h.img i).height true 0
        generalize hcb : createBits h0 (h.img i).width (h.img i).height true 0 = r at hI1 f1 f2 f3 f4 f5 ⊢
        obtain ⟨h1, g⟩ := r
        dsimp only at hI1 f1 f2 f3 f4 f5 ⊢
        subst f1
        have hil : i ≠ h0.nimg := by rw [hn0]; have := hl.1; omega
        have hl1 : h1.live i := by
          unfold Heap.live; rw [f2, f4 i hil, hi0]; exact ⟨by have := hl.1; omega, hl.2⟩
        rw [touch_live hl1]
        have ht2 : touchOpt h1 (h1.img i).alphaMap = h1 := by
          cases ha : (h1.img i).alphaMap with
          | none => rfl
          | some a =>
            show touch h1 a = h1
            apply touch_live
            have ha' : (h.img i).alphaMap = some a := by rw [f4 i hil, hi0] at ha; exact ha
            obtain ⟨ham, haf, _, _⟩ := hI.edge i a hl.1 hl.2 (by simp) ha'
            have hal : a ≠ h0.nimg := by rw [hn0]; omega
            unfold Heap.live; rw [f2, f4 a hal, hi0]; exact ⟨by omega, haf⟩
        rw [ht2]
        -- the entry takes over the in-flight reference
        apply hI1.rebalance <;> try rfl
        · intro j; exact ⟨rfl, rfl, rfl, rfl, rfl⟩
        · intro j _ _
          show (h1.img j).refCount + _ = (h1.img j).refCount + _
          have hold1 : hold h1 j = c.entries.countP (fun e => e.image == j) := by simp only [hold, f3, hc0]
          have hold2 : hold { h1 with cache := some { c with entries := ⟨key, h.glyphsMade, h0.nimg⟩ :: c.entries } } j
              = c.entries.countP (fun e => e.image == j) + (if h0.nimg = j then 1 else 0) := by
            simp only [hold, List.countP_cons]; simp
          rw [hold1, hold2]
          by_cases hj : j = h0.nimg
          · subst hj; simp [zero]; omega
          · have hj' : ¬ h0.nimg = j := fun e => hj e.symm
            simp [zero, hj, hj']
        · intro j hj hf
          show 1 ≤ (h1.img j).refCount
          have := hI1.state j hj; omega
        · intro j hj hf
          have hd := hI1.dead j hj hf
          have hjn : j ≠ h0.nimg := by
            intro e; subst e
            have := hI1.count h0.nimg hj
            have := hI1.state h0.nimg hj
            simp at hd
          have hold1 : hold h1 j = c.entries.countP (fun e => e.image == j) := by simp only [hold, f3, hc0]
          have hold2 : hold { h1 with cache := some { c with entries := ⟨key, h.glyphsMade, h0.nimg⟩ :: c.entries } } j
              = c.entries.countP (fun e => e.image == j) + (if h0.nimg = j then 1 else 0) := by
            simp only [hold, List.countP_cons]; simp
          have hjn' : ¬ h0.nimg = j := fun e => hjn e.symm
          refine ⟨rfl, hd.1, ?_, rfl⟩
          rw [hold2, ← hold1, hd.2.1]; simp [hjn']
        · intro j hj
          have := hI1.unborn j hj
          exact ⟨this.1, rfl⟩
        · intro c' hc' e he
          simp at hc'; subst hc'
          rcases List.mem_cons.1 he with e1 | e1
          · subst e1; dsimp only; rw [f2]; refine ⟨by omega, ?_⟩
            show h1.ext h0.nimg = 0
            rw [f5]; simp
          · have := hI0.centries c hc0 e e1
            have hen : e.image ≠ h0.nimg := by omega
            refine ⟨by rw [f2]; omega, ?_⟩
            show h1.ext e.image = 0
            rw [f5, if_neg hen]; exact this.2

end Pixman.Model.Lifetime

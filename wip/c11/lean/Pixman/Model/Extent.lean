import Pixman.Model.Matrix
import Pixman.Model.Sample
import Pixman.Spec.FixedRound
/-
  C04 — the request analysis that licenses unchecked reads: `compute_transformed_extents` and
  `analyze_extent` of pixman/pixman.c, the `IS_16BIT` / `IS_16_16` macros, the
  FAST_PATH_SAMPLES_COVER_CLIP_{NEAREST,BILINEAR} decisions, and `pad_repeat_get_scanline_bounds`
  of pixman-inlines.h; plus the coordinate walks of the fetchers that rely on those decisions
  (nearest index `(x - e) >> 16`, bilinear taps `(x - 1/2) >> 16` and `+ 1`, the `x += ux` stepping).

  Hand-written, core Lean only, total functions, one Lean function per C function, C control flow
  kept.  `int`/`int32_t`/`pixman_fixed_t` values are `Int`s; conversions that can wrap in the C code
  are written with `wrapS32` (`pixman_int_to_fixed` is `(uint32_t) i << 16`); `int64_t` sums of
  `analyze_extent` cannot wrap (operands are int32) and are left unbounded.
-/
namespace Pixman.Model.Extent
open Pixman.Matrix Pixman.Sample

/-- `pixman_box32_t` -/
structure Box32 where
  x1 : Int
  y1 : Int
  x2 : Int
  y2 : Int
deriving Repr, DecidableEq, Inhabited

/-- `box_48_16_t` -/
structure Box48 where
  x1 : Int
  y1 : Int
  x2 : Int
  y2 : Int
deriving Repr, DecidableEq, Inhabited

/-- outcome of a function that may `abort()` inside `pixman_transform_point_31_16` (never happens
    for int32 inputs, `Props.C04.computeTransformedExtents_never_aborts`) or return FALSE -/
inductive Res (α : Type) where
  | abort : Res α
  | no : Res α
  | ok : α → Res α
deriving Repr, DecidableEq

/-- `pixman_fixed_e` -/
def fixedE : Int := 1
/-- `pixman_fixed_1 / 2` -/
def half : Int := 32768

/-- one iteration of the `for (i = 0; i < 4; ++i)` loop body after the transform succeeded -/
def accumulate (acc : Box48) (tx ty : Int) : Box48 :=
  let x1 := if tx < acc.x1 then tx else acc.x1
  let y1 := if ty < acc.y1 then ty else acc.y1
  let x2 := if tx > acc.x2 then tx else acc.x2
  let y2 := if ty > acc.y2 then ty else acc.y2
  ⟨x1, y1, x2, y2⟩

/-- the loop over the corner list -/
def cornerLoop (t : Transform) : List (Int × Int) → Box48 → Res Box48
  | [], acc => .ok acc
  | (x, y) :: rest, acc =>
    match transformPoint t ⟨x, y, fixed1⟩ with
    | none => .abort
    | some (false, _) => .no
    | some (true, p) => cornerLoop t rest (accumulate acc p.x p.y)

/-- the corners in the order the C loop visits them: `(i & 1) ? x1 : x2`, `(i & 2) ? y1 : y2` -/
def cornerList (x1 y1 x2 y2 : Int) : List (Int × Int) := [(x2, y2), (x1, y2), (x2, y1), (x1, y1)]

/-- `compute_transformed_extents (transform, extents, transformed)` -/
def computeTransformedExtents (transform : Option Transform) (e : Box32) : Res Box48 :=
  let x1 := wrapS32 (intToFixed e.x1 + half)
  let y1 := wrapS32 (intToFixed e.y1 + half)
  let x2 := wrapS32 (intToFixed e.x2 - half)
  let y2 := wrapS32 (intToFixed e.y2 - half)
  match transform with
  | none => .ok ⟨x1, y1, x2, y2⟩
  | some t => cornerLoop t (cornerList x1 y1 x2 y2) ⟨INT64_MAX, INT64_MAX, INT64_MIN, INT64_MIN⟩

/-- `IS_16BIT (x)` -/
def is16Bit (x : Int) : Bool := decide (x ≥ -32768) && decide (x ≤ 32767)
/-- `IS_16_16 (f)`: `pixman_min_fixed_48_16 <= f <= pixman_max_fixed_48_16` -/
def is1616 (f : Int) : Bool := decide (f ≥ -2147483648) && decide (f ≤ 2147483647)

/-- `pixman_filter_t` by enum value: FAST 0, GOOD 1, BEST 2, NEAREST 3, BILINEAR 4, CONVOLUTION 5,
    SEPARABLE_CONVOLUTION 6 -/
abbrev Filter := Int

/-- what `analyze_extent` reads from the image -/
structure Image where
  /-- `image->common.type == BITS` -/
  isBits : Bool
  width : Int
  height : Int
  /-- `(image->common.flags & FAST_PATH_ID_TRANSFORM) == FAST_PATH_ID_TRANSFORM` -/
  idTransform : Bool
  filter : Filter
  /-- `filter_params[0]`, `filter_params[1]` (read only for the two convolution filters) -/
  p0 : Int
  p1 : Int
  transform : Option Transform
  /-- `image->common.repeat` by enum value: NONE 0, NORMAL 1, PAD 2, REFLECT 3 (read only for an image
      without pixels) -/
  repeatMode : Int := 0
deriving Repr, Inhabited

/-- the two flags `analyze_extent` may OR into `*flags` -/
structure Flags where
  nearest : Bool
  bilinear : Bool
deriving Repr, DecidableEq, Inhabited

/-- per-filter sampling footprint `(x_off, y_off, width, height)`; `none` = the `default:` case -/
def footprint (img : Image) : Option (Int × Int × Int × Int) :=
  if img.isBits then
    if img.filter = 5 ∨ img.filter = 6 then
      some (wrapS32 (-fixedE - (wrapS32 (img.p0 - fixed1)) / 2),
            wrapS32 (-fixedE - (wrapS32 (img.p1 - fixed1)) / 2), img.p0, img.p1)
    else if img.filter = 1 ∨ img.filter = 2 ∨ img.filter = 4 then
      some (-half, -half, fixed1, fixed1)
    else if img.filter = 0 ∨ img.filter = 3 then
      some (-fixedE, -fixedE, 0, 0)
    else none
  else some (0, 0, 0, 0)

/-- the NEAREST cover test on the transformed extents -/
def coverNearest (tr : Box48) (w h : Int) : Bool :=
  decide (fixedToInt (tr.x1 - fixedE) ≥ 0) && decide (fixedToInt (tr.y1 - fixedE) ≥ 0) &&
  decide (fixedToInt (tr.x2 - fixedE) < w) && decide (fixedToInt (tr.y2 - fixedE) < h)

/-- the BILINEAR cover test on the transformed extents -/
def coverBilinear (tr : Box48) (w h : Int) : Bool :=
  decide (fixedToInt (tr.x1 - half) ≥ 0) && decide (fixedToInt (tr.y1 - half) ≥ 0) &&
  decide (fixedToInt (tr.x2 + half) < w) && decide (fixedToInt (tr.y2 + half) < h)

/-- the final 16.16 range test on the transformed expanded extents -/
def rangeOk (tr : Box48) (xoff yoff width height : Int) : Bool :=
  is1616 (tr.x1 + xoff - 8 * fixedE) && is1616 (tr.y1 + yoff - 8 * fixedE) &&
  is1616 (tr.x2 + xoff + 8 * fixedE + width) && is1616 (tr.y2 + yoff + 8 * fixedE + height)

def expand (e : Box32) : Box32 := ⟨e.x1 - 1, e.y1 - 1, e.x2 + 1, e.y2 + 1⟩

/-- `analyze_extent (image, extents, &flags)` for a non-NULL image: `(return value, flags OR-ed in)`.
    The flags are reported also when FALSE is returned (they have been stored through the pointer
    by then).  A NULL image returns TRUE at once (`analyzeExtentOpt`). -/
def analyzeExtent (img : Image) (e : Box32) : Res (Bool × Flags) :=
  if !(is16Bit (e.x1 - 1) && is16Bit (e.y1 - 1) && is16Bit (e.x2 + 1) && is16Bit (e.y2 + 1)) then
    .ok (false, ⟨false, false⟩)
  else if img.isBits ∧ (img.width ≥ 32767 ∨ img.height ≥ 32767) then
    .ok (false, ⟨false, false⟩)
  else if img.isBits ∧ ((img.width ≤ 0 ∨ img.height ≤ 0) ∧ img.repeatMode ≠ 0) then
    -- without pixels there is nothing to repeat; REPEAT_NONE stays transparent
    .ok (false, ⟨false, false⟩)
  else if img.isBits ∧ img.idTransform ∧ e.x1 ≥ 0 ∧ e.y1 ≥ 0 ∧ e.x2 ≤ img.width ∧ e.y2 ≤ img.height then
    .ok (true, ⟨true, false⟩)
  else
    match footprint img with
    | none => .ok (false, ⟨false, false⟩)
    | some (xoff, yoff, width, height) =>
      match computeTransformedExtents img.transform e with
      | .abort => .abort
      | .no => .ok (false, ⟨false, false⟩)
      | .ok tr =>
        let fl : Flags :=
          if img.isBits then ⟨coverNearest tr img.width img.height, coverBilinear tr img.width img.height⟩
          else ⟨false, false⟩
        match computeTransformedExtents img.transform (expand e) with
        | .abort => .abort
        | .no => .ok (false, fl)
        | .ok tr2 => .ok (rangeOk tr2 xoff yoff width height, fl)

def analyzeExtentOpt (img : Option Image) (e : Box32) : Res (Bool × Flags) :=
  match img with
  | none => .ok (true, ⟨false, false⟩)
  | some i => analyzeExtent i e

/-! ### the coordinate walks licensed by the flags -/

/-- nearest sample index: `pixman_fixed_to_int (x - pixman_fixed_e)` -/
def nearestIndex (x : Int) : Int := fixedToInt (x - fixedE)
/-- bilinear first tap: `pixman_fixed_to_int (x - pixman_fixed_1 / 2)`; the second is `+ 1` -/
def bilinearTap1 (x : Int) : Int := fixedToInt (x - half)
def bilinearTap2 (x : Int) : Int := bilinearTap1 x + 1

/-- the source coordinate (16.16, before the filter offset) of the centre of destination pixel
    `(i, j)` along row `(a b c)` of an affine matrix, as `pixman_transform_point_3d` /
    `pixman_transform_point` round it: `(a·X + b·Y + c·1.0 + 0x8000) >> 16`. -/
def sampleCoord (a b c i j : Int) : Int :=
  Pixman.Spec.Fixed.roundHalfUp (Pixman.Spec.Fixed.dot a b c (i * 65536 + 32768) (j * 65536 + 32768) 65536) 65536

/-- x coordinate of pixel `(i, j)`; no transform = identity -/
def sampleX (t : Option Transform) (i j : Int) : Int :=
  match t with
  | none => i * 65536 + 32768
  | some t => sampleCoord t.m00 t.m01 t.m02 i j
def sampleY (t : Option Transform) (i j : Int) : Int :=
  match t with
  | none => j * 65536 + 32768
  | some t => sampleCoord t.m10 t.m11 t.m12 i j

def Transform.isAffine (t : Transform) : Prop := t.m20 = 0 ∧ t.m21 = 0 ∧ t.m22 = 65536
def optAffine : Option Transform → Prop
  | none => True
  | some t => Transform.isAffine t ∧ t.isI32

/-- the scanline walk of the affine fetchers (`bits_image_fetch_nearest_affine_*`,
    `bits_image_fetch_bilinear_affine_*`, `__bits_image_fetch_affine_no_alpha`): transform the centre
    of the first pixel with `pixman_transform_point_3d`, subtract the filter offset `off`
    (`pixman_fixed_e` or `pixman_fixed_1/2`), then `x += ux` per pixel; value at pixel `k` of the
    scanline (int32 wrap explicit).  `none` = the fetcher returned early. -/
def walkX (t : Transform) (x y off : Int) (k : Nat) : Option Int :=
  match transformPoint3d t (pixelCentre x y) with
  | some (true, p) => some (stepped (wrapS32 (p.x - off)) t.m00 k)
  | _ => none
def walkY (t : Transform) (x y off : Int) (k : Nat) : Option Int :=
  match transformPoint3d t (pixelCentre x y) with
  | some (true, p) => some (stepped (wrapS32 (p.y - off)) t.m10 k)
  | _ => none

/-! ### pad_repeat_get_scanline_bounds (pixman-inlines.h) -/

/-- first half of `pad_repeat_get_scanline_bounds`: `(left_pad, width)` after the `if (vx < 0)` block.
    `/` on `int64_t` truncates towards zero (`Int.tdiv`); the `(int32_t) tmp` casts are explicit. -/
def padLeft (vx unitX width : Int) : Int × Int :=
  if vx < 0 then
    let tmp := Int.tdiv (unitX - 1 - vx) unitX
    if tmp > width then (width, 0) else (wrapS32 tmp, wrapS32 (width - wrapS32 tmp))
  else (0, width)

/-- `pad_repeat_get_scanline_bounds (source_image_width, vx, unit_x, &width, &left_pad, &right_pad)`:
    returns `(width', left_pad, right_pad)`. -/
def padRepeatGetScanlineBounds (srcWidth vx unitX width : Int) : Int × Int × Int :=
  let maxVx := srcWidth * 65536
  let lw := padLeft vx unitX width
  let tmp := Int.tdiv (unitX - 1 - vx + maxVx) unitX - lw.1
  if tmp < 0 then (0, lw.1, lw.2)
  else if tmp ≥ lw.2 then (lw.2, lw.1, 0)
  else (wrapS32 tmp, lw.1, wrapS32 (lw.2 - wrapS32 tmp))

end Pixman.Model.Extent

import Pixman.Gen.Formats
/-! Model of pixman's pixel-format codec (pixman/pixman-access.c, pixman-utils.c, pixman-private.h,
pixman.h), written function by function as the C code is (little-endian build):

* `PIXMAN_FORMAT_*` field extraction from a format *code* (a `Nat`);
* `get_shifts`, `unorm_to_unorm` (five `REPLICATE()` steps), `convert_channel`, `convert_pixel`,
  `convert_pixel_to_a8r8g8b8`, `convert_pixel_from_a8r8g8b8` (indexed formats through an abstract
  `Palette`);
* `READ`/`WRITE` of 1, 2, 4 bytes on a byte memory `Nat → Nat`, `FETCH_1/4/8/24`, `STORE_1/4/8/24`,
  `fetch_and_convert_pixel`, `convert_and_store_pixel`, and the three functions instantiated by
  `MAKE_ACCESSORS`: `fetch_scanline_*`, `store_scanline_*`, `fetch_pixel_*`;
* the wide paths over exact rationals: `unorm_to_float`, `float_to_unorm`, `pixman_expand_to_float`,
  `pixman_contract_from_float`, the 10-bit packed formats, a8r8g8b8_sRGB (`to_linear`, `to_srgb`),
  the generic float wrappers;
* `fetch_pixel_yuy2` (integer colour conversion).

Not modelled: IEEE-754 rounding (a C `float` is an exact `Rat` here; `u * (1.f / m)` is `u / m`),
negative row strides, big-endian builds, the 32-bit sRGB entry points (not reachable through
compositing: a8r8g8b8_sRGB is a wide format).  C `int`s that cannot be negative for valid images are
`Nat`.  Core Lean only. -/
namespace Pixman.Model.Format
open Pixman.Gen.Formats (TYPE_A TYPE_ARGB TYPE_ABGR TYPE_COLOR TYPE_GRAY TYPE_BGRA TYPE_RGBA TYPE_ARGB_SRGB)

/-! ## pixman.h: format codes -/

/-- `PIXMAN_FORMAT_RESHIFT(val, ofs, num)` -/
def reshift (val ofs num : Nat) : Nat :=
  ((val >>> ofs) &&& ((1 <<< num) - 1)) <<< ((val >>> 22) &&& 3)

def fmtBpp (f : Nat) : Nat := reshift f 24 8
def fmtType (f : Nat) : Nat := (f >>> 16) &&& 0x3f
def fmtA (f : Nat) : Nat := reshift f 12 4
def fmtR (f : Nat) : Nat := reshift f 8 4
def fmtG (f : Nat) : Nat := reshift f 4 4
def fmtB (f : Nat) : Nat := reshift f 0 4
def fmtVis (f : Nat) : Nat := f &&& 0xffff

/-- `PIXMAN_FORMAT(bpp,type,a,r,g,b)` -/
def mkFormat (bpp type a r g b : Nat) : Nat :=
  (bpp <<< 24) ||| (type <<< 16) ||| (a <<< 12) ||| (r <<< 8) ||| (g <<< 4) ||| b

def A8R8G8B8 : Nat := mkFormat 32 TYPE_ARGB 8 8 8 8
def X1R5G5B5 : Nat := mkFormat 16 TYPE_ARGB 0 5 5 5

/-! ## pixman-access.c: conversions -/

structure Shifts where
  a : Nat
  r : Nat
  g : Nat
  b : Nat
  deriving Repr, DecidableEq

/-- `get_shifts`.  (BGRA/RGBA: the code subtracts the width of the *previous* channel's neighbour —
`*g = *b - B`, `*r = *g - G`, `*a = *r - R` — kept literally; it is the natural layout only when the
widths are equal, which holds for the four 8888 formats that exist.) -/
def getShifts (f : Nat) : Shifts :=
  let t := fmtType f
  if t = TYPE_A then ⟨0, 0, 0, 0⟩
  else if t = TYPE_ARGB ∨ t = TYPE_ARGB_SRGB then
    let b := 0
    let g := b + fmtB f
    let r := g + fmtG f
    let a := r + fmtR f
    ⟨a, r, g, b⟩
  else if t = TYPE_ABGR then
    let r := 0
    let g := r + fmtR f
    let b := g + fmtG f
    let a := b + fmtB f
    ⟨a, r, g, b⟩
  else if t = TYPE_BGRA then
    let b := fmtBpp f - fmtB f
    let g := b - fmtB f
    let r := g - fmtG f
    let a := r - fmtR f
    ⟨a, r, g, b⟩
  else if t = TYPE_RGBA then
    let r := fmtBpp f - fmtR f
    let g := r - fmtR f
    let b := g - fmtG f
    let a := b - fmtB f
    ⟨a, r, g, b⟩
  else ⟨0, 0, 0, 0⟩

/-- one `REPLICATE()` step of `unorm_to_unorm`: state = (result, from_bits) -/
def replicate (res : Nat × Nat) (toBits : Nat) : Nat × Nat :=
  if res.2 < toBits then (res.1 ||| (res.1 >>> res.2), res.2 * 2) else res

/-- `unorm_to_unorm (val, from_bits, to_bits)` on `uint32_t` -/
def unormToUnorm (val fromBits toBits : Nat) : Nat :=
  if fromBits = 0 then 0
  else
    let val := val &&& ((1 <<< fromBits) - 1)
    if fromBits ≥ toBits then val >>> (fromBits - toBits)
    else
      let r0 := ((val <<< (toBits - fromBits)) % 4294967296, fromBits)
      let r := replicate (replicate (replicate (replicate (replicate r0 toBits) toBits) toBits)
        toBits) toBits
      r.1

/-- `convert_channel` -/
def convertChannel (pixel defValue nFrom fromShift nTo toShift : Nat) : Nat :=
  let v := if nFrom ≠ 0 ∧ nTo ≠ 0 then unormToUnorm (pixel >>> fromShift) nFrom nTo
           else if nTo ≠ 0 then defValue else 0
  ((v &&& ((1 <<< nTo) - 1)) <<< toShift) % 4294967296

/-- `convert_pixel (from, to, pixel)` -/
def convertPixel (src dst pixel : Nat) : Nat :=
  let s := getShifts src
  let d := getShifts dst
  let a := convertChannel pixel 4294967295 (fmtA src) s.a (fmtA dst) d.a
  let r := convertChannel pixel 0 (fmtR src) s.r (fmtR dst) d.r
  let g := convertChannel pixel 0 (fmtG src) s.g (fmtG dst) d.g
  let b := convertChannel pixel 0 (fmtB src) s.b (fmtB dst) d.b
  a ||| r ||| g ||| b

/-- `pixman_indexed_t`: `rgba[256]` and `ent[32768]` as data -/
structure Palette where
  rgba : Nat → Nat
  ent : Nat → Nat

/-- `CONVERT_RGB24_TO_Y15` -/
def rgb24ToY15 (s : Nat) : Nat :=
  (((s >>> 16) &&& 0xff) * 153 + ((s >>> 8) &&& 0xff) * 301 + (s &&& 0xff) * 58) >>> 2

def isIndexed (f : Nat) : Bool := fmtType f = TYPE_GRAY ∨ fmtType f = TYPE_COLOR

/-- `convert_pixel_to_a8r8g8b8` -/
def convertPixelToA8r8g8b8 (pal : Palette) (f pixel : Nat) : Nat :=
  if fmtType f = TYPE_GRAY ∨ fmtType f = TYPE_COLOR then pal.rgba pixel
  else convertPixel f A8R8G8B8 pixel

/-- `convert_pixel_from_a8r8g8b8` -/
def convertPixelFromA8r8g8b8 (pal : Palette) (f pixel : Nat) : Nat :=
  if fmtType f = TYPE_GRAY then
    let pixel := rgb24ToY15 pixel
    pal.ent (pixel &&& 0x7fff)
  else if fmtType f = TYPE_COLOR then
    let pixel := convertPixel A8R8G8B8 X1R5G5B5 pixel
    pal.ent (pixel &&& 0x7fff)
  else convertPixel A8R8G8B8 f pixel

/-! ## memory: `READ`/`WRITE` on little-endian bytes -/

/-- byte memory: address ↦ byte -/
abbrev Mem := Nat → Nat

/-- all cells are bytes -/
def Mem.Bytes (m : Mem) : Prop := ∀ a, m a < 256

def read8 (m : Mem) (a : Nat) : Nat := m a
def read16 (m : Mem) (a : Nat) : Nat := m a ||| (m (a + 1) <<< 8)
def read32 (m : Mem) (a : Nat) : Nat :=
  m a ||| (m (a + 1) <<< 8) ||| (m (a + 2) <<< 16) ||| (m (a + 3) <<< 24)

/- `@[noinline]`: keeps the compiled driver from re-evaluating the stored value inside the closure -/
@[noinline] def write8 (m : Mem) (a v : Nat) : Mem := fun x => if x = a then v % 256 else m x
@[noinline] def write16 (m : Mem) (a v : Nat) : Mem :=
  fun x => if x = a then v % 256 else if x = a + 1 then (v >>> 8) % 256 else m x
@[noinline] def write32 (m : Mem) (a v : Nat) : Mem :=
  fun x => if x = a then v % 256 else if x = a + 1 then (v >>> 8) % 256
    else if x = a + 2 then (v >>> 16) % 256 else if x = a + 3 then (v >>> 24) % 256 else m x

/-- `FETCH_1(img,l,o)` (little endian) -/
def fetch1 (m : Mem) (l o : Nat) : Nat := ((read32 m (l + 4 * (o >>> 5))) >>> (o &&& 0x1f)) &&& 1
/-- `FETCH_8(img,l,o)`: `o` is a *bit* offset -/
def fetch8 (m : Mem) (l o : Nat) : Nat := read8 m (l + (o >>> 3))
/-- `FETCH_4(img,l,o)` -/
def fetch4 (m : Mem) (l o : Nat) : Nat :=
  if (4 * o) &&& 4 ≠ 0 then fetch8 m l (4 * o) >>> 4 else fetch8 m l (4 * o) &&& 0xf
/-- `FETCH_24(img,l,o)` -/
def fetch24 (m : Mem) (l o : Nat) : Nat :=
  (read8 m (l + o * 3 + 0) <<< 0) ||| (read8 m (l + o * 3 + 1) <<< 8) ||| (read8 m (l + o * 3 + 2) <<< 16)

/-- `STORE_1(img,l,o,v)` -/
def store1 (m : Mem) (l o v : Nat) : Mem :=
  let d := l + 4 * (o >>> 5)
  let mask := 1 <<< (o &&& 0x1f)
  let vv := if v ≠ 0 then mask else 0
  write32 m d ((read32 m d &&& (mask ^^^ 4294967295)) ||| vv)
/-- `STORE_8(img,l,o,v)` -/
def store8 (m : Mem) (l o v : Nat) : Mem := write8 m (l + (o >>> 3)) v
/-- `STORE_4(img,l,o,v)` -/
def store4 (m : Mem) (l o v : Nat) : Mem :=
  let bo := 4 * o
  let v4 := v &&& 0x0f
  store8 m l bo (if bo &&& 4 ≠ 0 then (fetch8 m l bo &&& 0x0f) ||| (v4 <<< 4)
                 else (fetch8 m l bo &&& 0xf0) ||| v4)
/-- `STORE_24(img,l,o,v)` -/
def store24 (m : Mem) (l o v : Nat) : Mem :=
  let t := l + 3 * o
  let m := write8 m t ((v &&& 0x000000ff) >>> 0)
  let m := write8 m (t + 1) ((v &&& 0x0000ff00) >>> 8)
  write8 m (t + 2) ((v &&& 0x00ff0000) >>> 16)

/-- the `switch (PIXMAN_FORMAT_BPP (format))` of `fetch_and_convert_pixel`: the raw pixel -/
def fetchRaw (m : Mem) (bits offset bpp : Nat) : Nat :=
  if bpp = 1 then fetch1 m bits offset
  else if bpp = 4 then fetch4 m bits offset
  else if bpp = 8 then read8 m (bits + offset)
  else if bpp = 16 then read16 m (bits + 2 * offset)
  else if bpp = 24 then fetch24 m bits offset
  else if bpp = 32 then read32 m (bits + 4 * offset)
  else 0xffff00ff

/-- `fetch_and_convert_pixel` -/
def fetchAndConvertPixel (pal : Palette) (m : Mem) (bits offset f : Nat) : Nat :=
  convertPixelToA8r8g8b8 pal f (fetchRaw m bits offset (fmtBpp f))

/-- the `switch` of `convert_and_store_pixel` -/
def storeRaw (m : Mem) (dest offset bpp converted : Nat) : Mem :=
  if bpp = 1 then store1 m dest offset (converted &&& 0x01)
  else if bpp = 4 then store4 m dest offset (converted &&& 0xf)
  else if bpp = 8 then write8 m (dest + offset) (converted &&& 0xff)
  else if bpp = 16 then write16 m (dest + 2 * offset) (converted &&& 0xffff)
  else if bpp = 24 then store24 m dest offset converted
  else if bpp = 32 then write32 m (dest + 4 * offset) converted
  else write8 m dest 0

/-- `convert_and_store_pixel` -/
def convertAndStorePixel (pal : Palette) (m : Mem) (dest offset f pixel : Nat) : Mem :=
  storeRaw m dest offset (fmtBpp f) (convertPixelFromA8r8g8b8 pal f pixel)

/-- a `bits_image_t`: `bits` is the byte address of `image->bits`, `rowstride` counts `uint32_t`s -/
structure Image where
  format : Nat
  bits : Nat
  rowstride : Nat
  pal : Palette

def Image.row (img : Image) (y : Nat) : Nat := img.bits + 4 * (y * img.rowstride)

/-- the loop of `fetch_scanline_<format>`: `*buffer++ = fetch_and_convert_pixel (image, bits, x + i, format)` -/
def fetchScanlineLoop (pal : Palette) (m : Mem) (bits f : Nat) : (x width : Nat) → List Nat
  | _, 0 => []
  | x, w + 1 => fetchAndConvertPixel pal m bits x f :: fetchScanlineLoop pal m bits f (x + 1) w

/-- `fetch_scanline_<format> (image, x, y, width, buffer, mask)` -/
def fetchScanline (img : Image) (m : Mem) (x y width : Nat) : List Nat :=
  fetchScanlineLoop img.pal m (img.row y) img.format x width

/-- the loop of `store_scanline_<format>` -/
def storeScanlineLoop (pal : Palette) (dest f : Nat) : (m : Mem) → (x : Nat) → (values : List Nat) → Mem
  | m, _, [] => m
  | m, x, v :: vs => storeScanlineLoop pal dest f (convertAndStorePixel pal m dest x f v) (x + 1) vs

/-- `store_scanline_<format> (image, x, y, width, values)` -/
def storeScanline (img : Image) (m : Mem) (x y : Nat) (values : List Nat) : Mem :=
  storeScanlineLoop img.pal (img.row y) img.format m x values

/-- `fetch_pixel_<format> (image, offset, line)` -/
def fetchPixel (img : Image) (m : Mem) (offset line : Nat) : Nat :=
  fetchAndConvertPixel img.pal m (img.row line) offset img.format

/-! ## pixman-utils.c: float conversions over exact rationals -/

structure Argb where
  a : Rat
  r : Rat
  g : Rat
  b : Rat
  deriving Repr, DecidableEq

/-- `unorm_to_float (uint16_t u, int n_bits)`: `(u & m) * (1.f / (float) m)` without rounding -/
def unormToFloat (u nBits : Nat) : Rat :=
  let m := (1 <<< nBits) - 1
  (((u % 65536) &&& m : Nat) : Rat) * (1 / (m : Rat))

/-- `float_to_unorm (float f, int n_bits)` -/
def floatToUnorm (f : Rat) (nBits : Nat) : Nat :=
  let f := if f > 1 then 1 else f
  let f := if f < 0 then 0 else f
  let u := (f * (((1 <<< nBits : Nat)) : Rat)).floor.toNat % 4294967296
  let u := u - (u >>> nBits)
  u % 65536

/-- `multipliers[16]` of `pixman_expand_to_float` -/
def multiplier (n : Nat) : Rat := if n = 0 then 0 else 1 / ((((1 <<< n) - 1 : Nat)) : Rat)

/-- one pixel of `pixman_expand_to_float (dst, src, format, width)` -/
def expandToFloat (format pixel : Nat) : Argb :=
  let format := if fmtVis format = 0 then A8R8G8B8 else format
  let aSize := fmtA format
  let rSize := fmtR format
  let gSize := fmtG format
  let bSize := fmtB format
  let aShift := 32 - aSize
  let rShift := 24 - rSize
  let gShift := 16 - gSize
  let bShift := 8 - bSize
  let aMask := (1 <<< aSize) - 1
  let rMask := (1 <<< rSize) - 1
  let gMask := (1 <<< gSize) - 1
  let bMask := (1 <<< bSize) - 1
  { a := if aMask ≠ 0 then ((((pixel >>> aShift) &&& aMask : Nat)) : Rat) * multiplier aSize else 1
    r := ((((pixel >>> rShift) &&& rMask : Nat)) : Rat) * multiplier rSize
    g := ((((pixel >>> gShift) &&& gMask : Nat)) : Rat) * multiplier gSize
    b := ((((pixel >>> bShift) &&& bMask : Nat)) : Rat) * multiplier bSize }

/-- one pixel of `pixman_contract_from_float` -/
def contractFromFloat (p : Argb) : Nat :=
  (floatToUnorm p.a 8 <<< 24) ||| (floatToUnorm p.r 8 <<< 16) ||| (floatToUnorm p.g 8 <<< 8) |||
    (floatToUnorm p.b 8 <<< 0)

/-- `fetch_scanline_generic_float` / `fetch_pixel_generic_float`, one pixel -/
def fetchPixelGenericFloat (img : Image) (m : Mem) (offset line : Nat) : Argb :=
  expandToFloat img.format (fetchPixel img m offset line)

/-- `store_scanline_generic_float`: contract, then the 32-bit store -/
def storeScanlineGenericFloat (img : Image) (m : Mem) (x y : Nat) (values : List Argb) : Mem :=
  storeScanline img m x y (values.map contractFromFloat)

/-! ### packed 10-bit formats: `fetch_pixel_{a2r10g10b10,x2r10g10b10,a2b10g10r10,x2b10g10r10}_float` -/

def fetchA2r10g10b10Float (p : Nat) : Argb :=
  { a := unormToFloat (p >>> 30) 2, r := unormToFloat ((p >>> 20) &&& 0x3ff) 10,
    g := unormToFloat ((p >>> 10) &&& 0x3ff) 10, b := unormToFloat (p &&& 0x3ff) 10 }
def fetchX2r10g10b10Float (p : Nat) : Argb :=
  { a := 1, r := unormToFloat ((p >>> 20) &&& 0x3ff) 10,
    g := unormToFloat ((p >>> 10) &&& 0x3ff) 10, b := unormToFloat (p &&& 0x3ff) 10 }
def fetchA2b10g10r10Float (p : Nat) : Argb :=
  { a := unormToFloat (p >>> 30) 2, b := unormToFloat ((p >>> 20) &&& 0x3ff) 10,
    g := unormToFloat ((p >>> 10) &&& 0x3ff) 10, r := unormToFloat (p &&& 0x3ff) 10 }
def fetchX2b10g10r10Float (p : Nat) : Argb :=
  { a := 1, b := unormToFloat ((p >>> 20) &&& 0x3ff) 10,
    g := unormToFloat ((p >>> 10) &&& 0x3ff) 10, r := unormToFloat (p &&& 0x3ff) 10 }

def storeA2r10g10b10Float (v : Argb) : Nat :=
  (floatToUnorm v.a 2 <<< 30) ||| (floatToUnorm v.r 10 <<< 20) ||| (floatToUnorm v.g 10 <<< 10) ||| floatToUnorm v.b 10
def storeX2r10g10b10Float (v : Argb) : Nat :=
  (floatToUnorm v.r 10 <<< 20) ||| (floatToUnorm v.g 10 <<< 10) ||| floatToUnorm v.b 10
def storeA2b10g10r10Float (v : Argb) : Nat :=
  (floatToUnorm v.a 2 <<< 30) ||| (floatToUnorm v.b 10 <<< 20) ||| (floatToUnorm v.g 10 <<< 10) ||| floatToUnorm v.r 10
def storeX2b10g10r10Float (v : Argb) : Nat :=
  (floatToUnorm v.b 10 <<< 20) ||| (floatToUnorm v.g 10 <<< 10) ||| floatToUnorm v.r 10

/-! ### a8r8g8b8_sRGB -/

/-- the value of an IEEE-754 single with bit pattern `bits` (finite values only) -/
def f32ToRat (bits : Nat) : Rat :=
  let sign := (bits >>> 31) &&& 1
  let e := (bits >>> 23) &&& 0xff
  let mant := bits &&& 0x7fffff
  let mag : Rat :=
    if e = 0 then (mant : Rat) / ((2 ^ 149 : Nat) : Rat)
    else if e ≥ 150 then (((mant + 8388608) * 2 ^ (e - 150) : Nat) : Rat)
    else ((mant + 8388608 : Nat) : Rat) / ((2 ^ (150 - e) : Nat) : Rat)
  if sign = 1 then -mag else mag

/-- `to_linear[i]` -/
def toLinear (i : Nat) : Rat := f32ToRat (Pixman.Gen.Formats.toLinearU.getD i 0)

/-- the `while (high - low > 1)` loop of `to_srgb`, at most `fuel` rounds -/
def toSrgbLoop (f : Rat) : (fuel low high : Nat) → Nat × Nat
  | 0, low, high => (low, high)
  | fuel + 1, low, high =>
    if high - low > 1 then
      let mid := (low + high) / 2
      if toLinear mid > f then toSrgbLoop f fuel low mid else toSrgbLoop f fuel mid high
    else (low, high)

/-- `to_srgb (float f)` (the two float subtractions are exact here) -/
def toSrgb (f : Rat) : Nat :=
  let (low, high) := toSrgbLoop f 8 0 255
  if toLinear high - f < f - toLinear low then high else low

/-- `fetch_pixel_a8r8g8b8_sRGB_float` -/
def fetchSrgbFloat (p : Nat) : Argb :=
  { a := unormToFloat ((p >>> 24) &&& 0xff) 8, r := toLinear ((p >>> 16) &&& 0xff),
    g := toLinear ((p >>> 8) &&& 0xff), b := toLinear ((p >>> 0) &&& 0xff) }

/-- `store_scanline_a8r8g8b8_sRGB_float`, one pixel -/
def storeSrgbFloat (v : Argb) : Nat :=
  (floatToUnorm v.a 8 <<< 24) ||| (toSrgb v.r <<< 16) ||| (toSrgb v.g <<< 8) ||| toSrgb v.b

/-- float fetch of one raw 32-bit pixel of a wide format (the `fetch_pixel_float` column of `accessors[]`) -/
def fetchWide (name : String) (p : Nat) : Option Argb :=
  if name = "a2r10g10b10" then some (fetchA2r10g10b10Float p)
  else if name = "x2r10g10b10" then some (fetchX2r10g10b10Float p)
  else if name = "a2b10g10r10" then some (fetchA2b10g10r10Float p)
  else if name = "x2b10g10r10" then some (fetchX2b10g10r10Float p)
  else if name = "a8r8g8b8_sRGB" then some (fetchSrgbFloat p)
  else none

/-- float store of one pixel of a wide format (the `store_scanline_float` column) -/
def storeWide (name : String) (v : Argb) : Option Nat :=
  if name = "a2r10g10b10" then some (storeA2r10g10b10Float v)
  else if name = "x2r10g10b10" then some (storeX2r10g10b10Float v)
  else if name = "a2b10g10r10" then some (storeA2b10g10r10Float v)
  else if name = "x2b10g10r10" then some (storeX2b10g10r10Float v)
  else if name = "a8r8g8b8_sRGB" then some (storeSrgbFloat v)
  else none

/-! ### YUY2 (fetch only) -/

/-- the clamp-and-pack expression shared by `fetch_pixel_yuy2` and `fetch_pixel_yv12` -/
def yuvToArgb (y u v : Int) : Nat :=
  let r : Int := 0x012b27 * y + 0x019a2e * v
  let g : Int := 0x012b27 * y - 0x00d0f2 * v - 0x00647e * u
  let b : Int := 0x012b27 * y + 0x0206a2 * u
  let rr : Nat := if r ≥ 0 then (if r < 0x1000000 then r.toNat &&& 0xff0000 else 0xff0000) else 0
  let gg : Nat := if g ≥ 0 then (if g < 0x1000000 then (g.toNat >>> 8) &&& 0x00ff00 else 0x00ff00) else 0
  let bb : Nat := if b ≥ 0 then (if b < 0x1000000 then (b.toNat >>> 16) &&& 0x0000ff else 0x0000ff) else 0
  0xff000000 ||| rr ||| gg ||| bb

/-- `fetch_pixel_yuy2 (image, offset, line)`; `bits` = byte address of the row -/
def fetchPixelYuy2 (m : Mem) (bits offset : Nat) : Nat :=
  let y : Int := (m (bits + (offset <<< 1)) : Int) - 16
  let base := ((offset <<< 1) / 4) * 4       -- `(offset << 1) & -4`
  let u : Int := (m (bits + base + 1) : Int) - 128
  let v : Int := (m (bits + base + 3) : Int) - 128
  yuvToArgb y u v

/-- the loop of `fetch_scanline_yuy2 (image, x, line, width, buffer, mask)` (same expression per pixel) -/
def fetchScanlineYuy2Loop (m : Mem) (bits : Nat) : (x width : Nat) → List Nat
  | _, 0 => []
  | x, w + 1 => fetchPixelYuy2 m bits x :: fetchScanlineYuy2Loop m bits (x + 1) w

/-! ### YV12 (planar, fetch only): `YV12_SETUP`, `YV12_Y/U/V` for a non-negative stride

`bits`, `stride` and the two offsets count `uint32_t`s in the C code; the model keeps `bits` as a byte address and
multiplies the word offsets by 4.  The V plane follows the Y plane (`offset0 = stride * height`), the U plane
follows a V plane assumed to be a quarter of the Y plane (`offset1 = offset0 + (offset0 >> 2)`); a chroma row is
`stride >> 1` words and is shared by two image rows. -/

def yv12Offset0 (rowstride height : Nat) : Nat := rowstride * height
def yv12Offset1 (rowstride height : Nat) : Nat := yv12Offset0 rowstride height + (yv12Offset0 rowstride height >>> 2)

/-- byte address of `YV12_Y (line)` -/
def yv12Y (bits rowstride line : Nat) : Nat := bits + 4 * (rowstride * line)
/-- byte address of `YV12_U (line)` -/
def yv12U (bits rowstride height line : Nat) : Nat :=
  bits + 4 * (yv12Offset1 rowstride height + (rowstride >>> 1) * (line >>> 1))
/-- byte address of `YV12_V (line)` -/
def yv12V (bits rowstride height line : Nat) : Nat :=
  bits + 4 * (yv12Offset0 rowstride height + (rowstride >>> 1) * (line >>> 1))

/-- `fetch_pixel_yv12 (image, offset, line)` -/
def fetchPixelYv12 (m : Mem) (bits rowstride height offset line : Nat) : Nat :=
  let y : Int := (m (yv12Y bits rowstride line + offset) : Int) - 16
  let u : Int := (m (yv12U bits rowstride height line + (offset >>> 1)) : Int) - 128
  let v : Int := (m (yv12V bits rowstride height line + (offset >>> 1)) : Int) - 128
  yuvToArgb y u v

/-- the loop of `fetch_scanline_yv12` -/
def fetchScanlineYv12Loop (m : Mem) (bits rowstride height line : Nat) : (x width : Nat) → List Nat
  | _, 0 => []
  | x, w + 1 => fetchPixelYv12 m bits rowstride height x line :: fetchScanlineYv12Loop m bits rowstride height line (x + 1) w

/-- `fetch_pixel_generic_float` / `fetch_scanline_generic_float` for a format whose 32-bit fetch is given:
`pixman_expand_to_float` of the a8r8g8b8 value with the image's own format code (YUV and indexed formats have no
A/R/G/B bit counts: `PIXMAN_FORMAT_VIS` is 0 and the value is expanded as a8r8g8b8) -/
def genericFloatOf (format argb : Nat) : Argb := expandToFloat format argb

end Pixman.Model.Format

import Pixman.Model.Region
import Pixman.Model.CompositePixel
/-! `pixman_fill`, `pixman_blt`, `pixman_image_fill_boxes`, `pixman_image_fill_rectangles`
(pixman.c), `fast_path_fill` / `pixman_fill1/8/16/32` / `pixman_fill1_line` (pixman-fast-path.c),
`sse2_fill` / `sse2_blt` (pixman-sse2.c), `mmx_fill` / `mmx_blt` (pixman-mmx.c) and the delegation
loops of pixman-implementation.c, as they are in /repo now.

Memory is a little-endian word memory, represented as an initial content `Int → Nat` plus the log
of word stores made since (`Mem.get` reads through the log; a first-order value, so the compiled
model evaluates every store exactly once).  The index is a `uint32_t` index relative to an
arbitrary origin (negative indices exist: bottom-up images have a negative stride), the value is
the `uint32_t` stored there.  Byte address `a` is byte `a % 4` of word `a / 4`
(floor division), bit address `i` is bit `i % 32` of word `i / 32`: pixel `x` of an a1 row that
starts at word `w` is bit `32 w + x`, as `WORDS_BIGENDIAN` is not defined on x86.
Core Lean only. -/
namespace Pixman.Model.Fill
open Pixman.Region

inductive Mem where
  | init (f : Int → Nat)                  -- the content before the call
  | set (m : Mem) (a : Int) (v : Nat)     -- `origin[a] = v`

def U32 : Nat := 4294967296

/-- the word at index `b` -/
def Mem.get : Mem → Int → Nat
  | .init f, b => f b
  | .set m a v, b => if b = a then v else m.get b

/-- bit `i` of the memory -/
def Mem.bit (m : Mem) (i : Int) : Bool := (m.get (i / 32)).testBit (i % 32).toNat

/-- byte `a` of the memory -/
def Mem.byte (m : Mem) (a : Int) : Nat := (m.get (a / 4) >>> (8 * (a % 4).toNat)) % 256

/-- `~x` on `uint32_t` -/
def not32 (x : Nat) : Nat := x ^^^ 0xFFFFFFFF

/-! ### pixman_fill1_line -/

/-- `A1_FILL_MASK (n, offs)` without `WORDS_BIGENDIAN`: `(((1U << n) - 1) << offs)` -/
def a1FillMask (n offs : Nat) : Nat := (((1 <<< n) - 1) <<< offs) % U32

/-- `*dst |= mask` (v) or `*dst &= ~mask` (!v) -/
def maskWord (m : Mem) (dst : Int) (mask : Nat) (v : Bool) : Mem :=
  if v then m.set dst (m.get dst ||| mask) else m.set dst (m.get dst &&& not32 mask)

/-- the `while (width >= 32)` loop and the trailing partial word -/
def fill1LineTail (m : Mem) (dst : Int) (width : Nat) (v : Bool) : Mem :=
  if width ≥ 32 then
    fill1LineTail (m.set dst (if v then 0xFFFFFFFF else 0)) (dst + 1) (width - 32) v
  else if width > 0 then maskWord m dst (a1FillMask width 0) v
  else m
termination_by width

/-- `pixman_fill1_line (dst, offs, width, v)` -/
def fill1Line (m : Mem) (dst : Int) (offs width : Nat) (v : Bool) : Mem :=
  if offs ≠ 0 then
    let leading := 32 - offs
    if leading ≥ width then maskWord m dst (a1FillMask width offs) v
    else fill1LineTail (maskWord m dst (a1FillMask leading offs) v) (dst + 1) (width - leading) v
  else fill1LineTail m dst width v

/-! ### sub-word stores of a little-endian machine -/

/-- replace bits `[s, s+n)` of word `w` by the low `n` bits of `v` -/
def storeField (m : Mem) (w : Int) (s n : Nat) (v : Nat) : Mem :=
  m.set w ((m.get w &&& not32 ((((1 <<< n) - 1) <<< s) % U32)) ||| (((v % 2 ^ n) <<< s) % U32))

/-- `((uint8_t *) origin)[a] = v` -/
def store8 (m : Mem) (a : Int) (v : Nat) : Mem := storeField m (a / 4) (8 * (a % 4).toNat) 8 v
/-- `((uint16_t *) origin)[h] = v` -/
def store16 (m : Mem) (h : Int) (v : Nat) : Mem := storeField m (h / 2) (16 * (h % 2).toNat) 16 v
/-- `((uint32_t *) origin)[w] = v` -/
def store32 (m : Mem) (w : Int) (v : Nat) : Mem := m.set w (v % U32)

/-- `for (i = 0; i < n; ++i) dst[i] = v;` -/
def forStore (store : Mem → Int → Nat → Mem) (v : Nat) (dst : Int) : Nat → Mem → Mem
  | 0, m => m
  | n + 1, m => store (forStore store v dst n m) (dst + n) v

/-- `while (height--) { row (dst); dst += stride; }` -/
def rows (row : Mem → Int → Mem) (stride : Int) : Nat → Mem → Int → Mem
  | 0, m, _ => m
  | h + 1, m, dst => rows row stride h (row m dst) (dst + stride)

/-! ### pixman_fill1 / 8 / 16 / 32, fast_path_fill.  `bits` is the word index of the `bits`
pointer, `stride` is in `uint32_t` units, `x y` are C `int`s (`x >> 5` is floor division,
`x & 31` the non-negative remainder), `width height` are the non-negative C `int`s. -/

def fill1 (m : Mem) (bits stride x y : Int) (width height : Nat) (filler : Nat) : Mem :=
  let dst := bits + y * stride + x / 32
  let offs := (x % 32).toNat
  if filler &&& 1 ≠ 0 then rows (fun m d => fill1Line m d offs width true) stride height m dst
  else rows (fun m d => fill1Line m d offs width false) stride height m dst

def fill8 (m : Mem) (bits stride x y : Int) (width height : Nat) (filler : Nat) : Mem :=
  let byteStride := stride * 4
  let v := filler &&& 0xff
  let dst := bits * 4 + y * byteStride + x
  rows (fun m d => forStore store8 v d width m) byteStride height m dst

def fill16 (m : Mem) (bits stride x y : Int) (width height : Nat) (filler : Nat) : Mem :=
  let shortStride := stride * 4 / 2
  let v := filler &&& 0xffff
  let dst := bits * 2 + y * shortStride + x
  rows (fun m d => forStore store16 v d width m) shortStride height m dst

def fill32 (m : Mem) (bits stride x y : Int) (width height : Nat) (filler : Nat) : Mem :=
  let dst := bits + y * stride + x
  rows (fun m d => forStore store32 filler d width m) stride height m dst

/-- `fast_path_fill`: the `switch (bpp)`; `default: return FALSE` -/
def fastPathFill (m : Mem) (bits stride : Int) (bpp : Nat) (x y : Int) (width height : Nat)
    (filler : Nat) : Bool × Mem :=
  match bpp with
  | 1 => (true, fill1 m bits stride x y width height filler)
  | 8 => (true, fill8 m bits stride x y width height filler)
  | 16 => (true, fill16 m bits stride x y width height filler)
  | 32 => (true, fill32 m bits stride x y width height filler)
  | _ => (false, m)

/-! ### SIMD fills and blts as address-range programs

A row is processed by a sequence of guarded steps, each issuing stores of 1, 2, 4, 8 or 16 bytes at
the running byte pointer `d` while `w` bytes remain.  `al` is `(uintptr_t) origin`, the machine
address of byte 0 of the model memory (only `al % 16` matters; it is a multiple of 4). -/

structure Store where
  addr : Int
  size : Nat
deriving Repr, DecidableEq

structure RowSt where
  d : Int
  w : Nat
  out : List Store      -- most recent first
deriving Repr

/-- one store of `size` bytes at `d`; `d += size; w -= size` -/
def RowSt.emit (s : RowSt) (size : Nat) : RowSt := ⟨s.d + size, s.w - size, ⟨s.d, size⟩ :: s.out⟩

/-- `k` consecutive stores of `size` bytes (`save_128_aligned (d + 16 i)`, then `d += 16 k`) -/
def RowSt.emitMany (s : RowSt) (size : Nat) : Nat → RowSt
  | 0 => s
  | k + 1 => (s.emitMany size k).emit size

theorem emitMany_w (s : RowSt) (size k : Nat) : (s.emitMany size k).w = s.w - k * size := by
  induction k with
  | zero => simp [RowSt.emitMany]
  | succ k ih =>
    simp only [RowSt.emitMany, RowSt.emit, ih]
    rw [Nat.add_mul, Nat.one_mul, Nat.sub_sub]

/-- `if (w >= k*size && c) { k stores }` -/
def ifBlock (c : RowSt → Bool) (k size : Nat) (s : RowSt) : RowSt :=
  if k * size ≤ s.w ∧ c s = true then s.emitMany size k else s

/-- `while (w >= k*size && c) { k stores }` -/
def whileBlock (c : RowSt → Bool) (k size : Nat) (s : RowSt) : RowSt :=
  if _h : 0 < k * size ∧ k * size ≤ s.w ∧ c s = true then whileBlock c k size (s.emitMany size k)
  else s
termination_by s.w
decreasing_by rw [emitMany_w]; omega

/-- `(uintptr_t) d & mask` is non-zero, `mask + 1 = n` -/
def misaligned (al : Int) (n : Int) (s : RowSt) : Bool := (al + s.d) % n != 0
def always (_ : RowSt) : Bool := true

/-- one row of `sse2_fill` -/
def sse2FillRow (al : Int) (d : Int) (w : Nat) : List Store :=
  let s : RowSt := ⟨d, w, []⟩
  let s := ifBlock (misaligned al 2) 1 1 s
  let s := whileBlock (misaligned al 4) 1 2 s
  let s := whileBlock (misaligned al 16) 1 4 s
  let s := whileBlock always 8 16 s
  let s := ifBlock always 4 16 s
  let s := ifBlock always 2 16 s
  let s := ifBlock always 1 16 s
  let s := whileBlock always 1 4 s
  let s := ifBlock always 1 2 s
  let s := ifBlock always 1 1 s
  s.out.reverse

/-- one row of `mmx_fill` -/
def mmxFillRow (al : Int) (d : Int) (w : Nat) : List Store :=
  let s : RowSt := ⟨d, w, []⟩
  let s := ifBlock (misaligned al 2) 1 1 s
  let s := ifBlock (misaligned al 4) 1 2 s
  let s := whileBlock (misaligned al 8) 1 4 s
  let s := whileBlock always 8 8 s
  let s := whileBlock always 1 4 s
  let s := ifBlock always 1 2 s
  let s := ifBlock always 1 1 s
  s.out.reverse

/-- one row of `sse2_blt` -/
def sse2BltRow (al : Int) (d : Int) (w : Nat) : List Store :=
  let s : RowSt := ⟨d, w, []⟩
  let s := whileBlock (misaligned al 4) 1 2 s
  let s := whileBlock (misaligned al 16) 1 4 s
  let s := whileBlock always 4 16 s
  let s := whileBlock always 1 16 s
  let s := whileBlock always 1 4 s
  let s := ifBlock always 1 2 s
  s.out.reverse

/-- one row of `mmx_blt` -/
def mmxBltRow (al : Int) (d : Int) (w : Nat) : List Store :=
  let s : RowSt := ⟨d, w, []⟩
  let s := ifBlock (misaligned al 2) 1 1 s
  let s := ifBlock (misaligned al 4) 1 2 s
  let s := whileBlock (misaligned al 8) 1 4 s
  let s := whileBlock always 8 8 s
  let s := whileBlock always 1 4 s
  let s := ifBlock always 1 2 s
  s.out.reverse

/-- byte `k` of the 32-bit pattern (the 64/128-bit registers repeat it) -/
def patByte (filler : Nat) (k : Nat) : Nat := (filler >>> (8 * (k % 4))) % 256

/-- a store of `n` bytes of the replicated pattern at byte address `a` -/
def storePat (filler : Nat) (a : Int) : Nat → Mem → Mem
  | 0, m => m
  | n + 1, m => store8 (storePat filler a n m) (a + n) (patByte filler n)

def execFill (filler : Nat) : List Store → Mem → Mem
  | [], m => m
  | st :: l, m => execFill filler l (storePat filler st.addr st.size m)

/-- a copy of `n` bytes from `src` at `a + delta` to `dst` at `a` (separate memories: the areas
do not overlap) -/
def copyBytes (src : Mem) (delta : Int) (a : Int) : Nat → Mem → Mem
  | 0, m => m
  | n + 1, m => store8 (copyBytes src delta a n m) (a + n) (src.byte (a + n + delta))

def execCopy (src : Mem) (delta : Int) : List Store → Mem → Mem
  | [], m => m
  | st :: l, m => execCopy src delta l (copyBytes src delta st.addr st.size m)

/-- the replicated filler of `sse2_fill` -/
def sse2Filler (bpp filler : Nat) : Nat :=
  if bpp = 8 then
    let b := filler &&& 0xff
    let w := ((b <<< 8) ||| b) % U32
    (((w <<< 16) % U32) ||| w)
  else if bpp = 16 then ((filler &&& 0xffff) * 0x00010001) % U32
  else filler

/-- the replicated filler of `mmx_fill` -/
def mmxFiller (bpp filler : Nat) : Nat :=
  if bpp = 8 then ((filler &&& 0xff) * 0x01010101) % U32
  else if bpp = 16 then ((filler &&& 0xffff) * 0x00010001) % U32
  else filler

/-- the shared frame of `sse2_fill` / `mmx_fill`: bpp test, byte geometry, row loop -/
def simdFill (rowProg : Int → Int → Nat → List Store) (rep : Nat → Nat → Nat) (al : Int) (m : Mem)
    (bits stride : Int) (bpp : Nat) (x y : Int) (width height : Nat) (filler : Nat) : Bool × Mem :=
  if bpp = 8 ∨ bpp = 16 ∨ bpp = 32 then
    let bytesPP := bpp / 8
    -- stride = stride * 4 / bytesPP; byte_line = (bpp-unit pointer) + stride * y + x; stride *= bytesPP
    let ustride := stride * 4 / bytesPP
    let byteLine := (bits * (4 / bytesPP) + ustride * y + x) * bytesPP
    let byteWidth := bytesPP * width
    let f := rep bpp filler
    (true, rows (fun m d => execFill f (rowProg al d byteWidth) m) (ustride * bytesPP) height m byteLine)
  else (false, m)

def sse2Fill := simdFill sse2FillRow sse2Filler
def mmxFill := simdFill mmxFillRow mmxFiller

/-- `while (height--)` of the blts: two running pointers -/
def bltRows (rowProg : Int → Int → Nat → List Store) (al : Int) (src : Mem) (byteWidth : Nat)
    (sstride dstride : Int) : Nat → Mem → Int → Int → Mem
  | 0, m, _, _ => m
  | h + 1, m, s, d =>
    bltRows rowProg al src byteWidth sstride dstride h
      (execCopy src (s - d) (rowProg al d byteWidth) m) (s + sstride) (d + dstride)

/-- the shared frame of `sse2_blt` / `mmx_blt`; `src` and `dst` are distinct memories, `al` is the
machine address of byte 0 of the destination memory -/
def simdBlt (rowProg : Int → Int → Nat → List Store) (al : Int) (src dst : Mem)
    (srcBits dstBits srcStride dstStride : Int) (srcBpp dstBpp : Nat)
    (srcX srcY destX destY : Int) (width height : Nat) : Bool × Mem :=
  if srcBpp ≠ dstBpp then (false, dst)
  else if srcBpp = 16 ∨ srcBpp = 32 then
    let bytesPP := srcBpp / 8
    let ss := srcStride * 4 / bytesPP
    let ds := dstStride * 4 / bytesPP
    let srcBytes := (srcBits * (4 / bytesPP) + ss * srcY + srcX) * bytesPP
    let dstBytes := (dstBits * (4 / bytesPP) + ds * destY + destX) * bytesPP
    (true, bltRows rowProg al src (bytesPP * width) (ss * bytesPP) (ds * bytesPP) height dst
      srcBytes dstBytes)
  else (false, dst)

def sse2Blt := simdBlt sse2BltRow
def mmxBlt := simdBlt mmxBltRow

/-! ### the delegation chain (`_pixman_implementation_fill` / `_blt`) -/

inductive Impl | noop | ssse3 | sse2 | mmx | fast | general
deriving DecidableEq, Repr

/-- `imp->fill`, `none` = NULL -/
def Impl.fill (al : Int) : Impl →
    Option (Mem → Int → Int → Nat → Int → Int → Nat → Nat → Nat → Bool × Mem)
  | .sse2 => some (sse2Fill al)
  | .mmx => some (mmxFill al)
  | .fast => some fastPathFill
  | _ => none

/-- `imp->blt`, `none` = NULL -/
def Impl.blt (al : Int) : Impl →
    Option (Mem → Mem → Int → Int → Int → Int → Nat → Nat → Int → Int → Int → Int → Nat → Nat → Bool × Mem)
  | .sse2 => some (sse2Blt al)
  | .mmx => some (mmxBlt al)
  | _ => none

/-- `_pixman_implementation_fill`: the first implementation of the chain that accepts -/
def implementationFill (al : Int) : List Impl → Mem → Int → Int → Nat → Int → Int → Nat → Nat → Nat →
    Bool × Mem
  | [], m, _, _, _, _, _, _, _, _ => (false, m)
  | imp :: rest, m, bits, stride, bpp, x, y, w, h, filler =>
    match imp.fill al with
    | some f =>
      let r := f m bits stride bpp x y w h filler
      if r.1 then (true, r.2) else implementationFill al rest r.2 bits stride bpp x y w h filler
    | none => implementationFill al rest m bits stride bpp x y w h filler

/-- `_pixman_implementation_blt` -/
def implementationBlt (al : Int) : List Impl → Mem → Mem → Int → Int → Int → Int → Nat → Nat →
    Int → Int → Int → Int → Nat → Nat → Bool × Mem
  | [], _, d, _, _, _, _, _, _, _, _, _, _, _, _ => (false, d)
  | imp :: rest, s, d, sb, db, ss, ds, sbpp, dbpp, sx, sy, dx, dy, w, h =>
    match imp.blt al with
    | some f =>
      let r := f s d sb db ss ds sbpp dbpp sx sy dx dy w h
      if r.1 then (true, r.2) else implementationBlt al rest s r.2 sb db ss ds sbpp dbpp sx sy dx dy w h
    | none => implementationBlt al rest s d sb db ss ds sbpp dbpp sx sy dx dy w h

/-- the x86 chain for a `PIXMAN_DISABLE` setting (names disabled) -/
def chainOf (disabled : List String) : List Impl :=
  .noop :: ([(Impl.ssse3, "ssse3"), (.sse2, "sse2"), (.mmx, "mmx"), (.fast, "fast")].filter
    (fun p => !disabled.contains p.2)).map (·.1) ++ [.general]

/-- `pixman_fill` -/
def pixmanFill (al : Int) (chain : List Impl) := implementationFill al chain
/-- `pixman_blt` -/
def pixmanBlt (al : Int) (chain : List Impl) := implementationBlt al chain

/-! ### colours -/

structure Color where
  red : Nat
  green : Nat
  blue : Nat
  alpha : Nat
deriving Repr, DecidableEq

/-- `color_to_uint32` -/
def colorToUint32 (c : Color) : Nat :=
  ((c.alpha >>> 8 <<< 24) % U32) ||| (c.red >>> 8 <<< 16) ||| (c.green &&& 0xff00) ||| (c.blue >>> 8)

/-- `PIXMAN_FORMAT (bpp, type, a, r, g, b)` -/
def pixmanFormat (bpp type a r g b : Nat) : Nat :=
  (bpp <<< 24) ||| (type <<< 16) ||| (a <<< 12) ||| (r <<< 8) ||| (g <<< 4) ||| b
/-- `PIXMAN_FORMAT_BYTE` -/
def pixmanFormatByte (bpp type a r g b : Nat) : Nat :=
  ((bpp >>> 3) <<< 24) ||| (3 <<< 22) ||| (type <<< 16) ||| ((a >>> 3) <<< 12) ||| ((r >>> 3) <<< 8) |||
    ((g >>> 3) <<< 4) ||| (b >>> 3)
/-- `PIXMAN_FORMAT_RESHIFT (val, ofs, num)` -/
def formatReshift (val ofs num : Nat) : Nat :=
  ((val >>> ofs) &&& ((1 <<< num) - 1)) <<< ((val >>> 22) &&& 3)
def formatBpp (f : Nat) : Nat := formatReshift f 24 8
def formatType (f : Nat) : Nat := (f >>> 16) &&& 0x3f

def TYPE_A : Nat := 1
def TYPE_ARGB : Nat := 2
def TYPE_ABGR : Nat := 3
def TYPE_BGRA : Nat := 8
def TYPE_RGBA : Nat := 9
def TYPE_RGBA_FLOAT : Nat := 11

def PIXMAN_a8r8g8b8 := pixmanFormat 32 TYPE_ARGB 8 8 8 8
def PIXMAN_x8r8g8b8 := pixmanFormat 32 TYPE_ARGB 0 8 8 8
def PIXMAN_a8b8g8r8 := pixmanFormat 32 TYPE_ABGR 8 8 8 8
def PIXMAN_x8b8g8r8 := pixmanFormat 32 TYPE_ABGR 0 8 8 8
def PIXMAN_b8g8r8a8 := pixmanFormat 32 TYPE_BGRA 8 8 8 8
def PIXMAN_b8g8r8x8 := pixmanFormat 32 TYPE_BGRA 0 8 8 8
def PIXMAN_r8g8b8a8 := pixmanFormat 32 TYPE_RGBA 8 8 8 8
def PIXMAN_r8g8b8x8 := pixmanFormat 32 TYPE_RGBA 0 8 8 8
def PIXMAN_r5g6b5 := pixmanFormat 16 TYPE_ARGB 0 5 6 5
def PIXMAN_b5g6r5 := pixmanFormat 16 TYPE_ABGR 0 5 6 5
def PIXMAN_a8 := pixmanFormat 8 TYPE_A 8 0 0 0
def PIXMAN_a1 := pixmanFormat 1 TYPE_A 1 0 0 0

/-- the formats `color_to_pixel` accepts -/
def acceptedFormats : List Nat :=
  [PIXMAN_a8r8g8b8, PIXMAN_x8r8g8b8, PIXMAN_a8b8g8r8, PIXMAN_x8b8g8r8, PIXMAN_b8g8r8a8,
   PIXMAN_b8g8r8x8, PIXMAN_r8g8b8a8, PIXMAN_r8g8b8x8, PIXMAN_r5g6b5, PIXMAN_b5g6r5, PIXMAN_a8,
   PIXMAN_a1]

/-- `convert_8888_to_0565` -/
def convert8888To0565 (s : Nat) : Nat :=
  let a := (s >>> 3) &&& 0x1F001F
  let b := s &&& 0xFC00
  let a := a ||| (a >>> 5)
  let a := a ||| (b >>> 5)
  a % 65536

/-- `color_to_pixel`; `none` = FALSE -/
def colorToPixel (color : Color) (format : Nat) : Option Nat :=
  let c := colorToUint32 color
  if formatType format = TYPE_RGBA_FLOAT then none
  else if !acceptedFormats.contains format then none
  else
    let c := if formatType format = TYPE_ABGR then
        ((c &&& 0xff000000) >>> 0) ||| ((c &&& 0x00ff0000) >>> 16) ||| ((c &&& 0x0000ff00) >>> 0) |||
          (((c &&& 0x000000ff) <<< 16) % U32)
      else c
    let c := if formatType format = TYPE_BGRA then
        ((c &&& 0xff000000) >>> 24) ||| ((c &&& 0x00ff0000) >>> 8) |||
          (((c &&& 0x0000ff00) <<< 8) % U32) ||| (((c &&& 0x000000ff) <<< 24) % U32)
      else c
    let c := if formatType format = TYPE_RGBA then ((c &&& 0xff000000) >>> 24) ||| ((c <<< 8) % U32)
      else c
    let c := if format = PIXMAN_a1 then c >>> 31
      else if format = PIXMAN_a8 then c >>> 24
      else if format = PIXMAN_r5g6b5 ∨ format = PIXMAN_b5g6r5 then convert8888To0565 c
      else c
    some c

/-! ### pixman_image_fill_boxes / pixman_image_fill_rectangles -/

/-- what the functions look at in the destination bits image -/
structure Image where
  format : Nat            -- pixman_format_code_t
  width : Nat
  height : Nat
  rowstride : Int         -- in uint32_t units
  bits : Int              -- word index of `bits.bits`
  clip : Option Region    -- `common.clip_region` when `have_clip_region`

def OP_CLEAR : Nat := 0
def OP_SRC : Nat := 1
def OP_OVER : Nat := 3

/-- the operator / colour reduction at the top of `pixman_image_fill_boxes` -/
def reduceOp (op : Nat) (color : Color) : Nat × Color :=
  let op := if color.alpha = 0xffff then (if op = OP_OVER then OP_SRC else op) else op
  if op = OP_CLEAR then (OP_SRC, ⟨0, 0, 0, 0⟩) else (op, color)

/-- the region the shortcut fills: boxes ∩ image bounds ∩ clip; `none` = a region call failed -/
def fillRegion (img : Image) (boxes : List Box) : Option Region :=
  let r0 := initRects c32 boxes
  if !r0.2 then none else
  let r1 := intersectRect c32 r0.1 r0.1 0 0 img.width img.height
  if !r1.2 then none else
  match img.clip with
  | none => some r1.1
  | some clip =>
    let r2 := intersect false r1.1 r1.1 clip
    if !r2.2 then none else some r2.1

/-- the loop `for (j = 0; j < n_rects && filled; ++j) filled = pixman_fill (...)` -/
def fillRects (al : Int) (chain : List Impl) (img : Image) (pixel : Nat) : List Box → Mem → Bool × Mem
  | [], m => (true, m)
  | r :: rest, m =>
    let res := pixmanFill al chain m img.bits img.rowstride (formatBpp img.format) r.x1 r.y1
      (r.x2 - r.x1).toNat (r.y2 - r.y1).toNat pixel
    if res.1 then fillRects al chain img pixel rest res.2 else (false, res.2)

/-- pixel access for the 8/16/32 bpp formats of the compositing model -/
def readPx (m : Mem) (bpp : Nat) (idx : Int) : Nat :=
  if bpp = 32 then m.get idx % U32
  else if bpp = 16 then (m.get (idx / 2) >>> (16 * (idx % 2).toNat)) % 65536
  else (m.get (idx / 4) >>> (8 * (idx % 4).toNat)) % 256

def writePx (m : Mem) (bpp : Nat) (idx : Int) (v : Nat) : Mem :=
  if bpp = 32 then store32 m idx v else if bpp = 16 then store16 m idx v else store8 m idx v

/-- format code → the format record of the compositing model (C01) -/
def fmtOfCode (code : Nat) : Option Pixman.CompositePixel.Fmt :=
  Pixman.CompositePixel.formats.find? fun f =>
    let t := match f.type with
      | .a => TYPE_A | .argb => TYPE_ARGB | .abgr => TYPE_ABGR | .bgra => TYPE_BGRA | .rgba => TYPE_RGBA
    pixmanFormat f.bpp t f.a f.r f.g f.b == code

def inClip (img : Image) (x y : Int) : Bool :=
  match img.clip with
  | none => true
  | some r => r.rects.any fun b => inBox b x y

/-- `IS_16BIT` -/
def is16Bit (x : Int) : Bool := -32768 ≤ x && x ≤ 32767

/-- the pixels `pixman_image_composite32` reaches for one box: box ∩ image bounds ∩ clip -/
def boxPixels (img : Image) (b : Box) : List (Int × Int) :=
  (List.range img.height).flatMap fun (y : Nat) =>
    (List.range img.width).filterMap fun (x : Nat) =>
      if inBox b x y && inClip img x y then some ((x : Int), (y : Int)) else none

/-- the test at the top of `analyze_extent` applied to the solid source: the extents of the
composite region, moved to source space (`- dest_x + src_x`, `src_x = 0`) and widened by one, must
fit 16 bits; otherwise `pixman_image_composite32` returns without drawing -/
def sourceExtentsOk (px : List (Int × Int)) (b : Box) : Bool :=
  match px with
  | [] => false
  | p :: rest =>
    let ex1 := rest.foldl (fun a q => min a q.1) p.1
    let ex2 := rest.foldl (fun a q => max a q.1) p.1 + 1
    let ey1 := rest.foldl (fun a q => min a q.2) p.2
    let ey2 := rest.foldl (fun a q => max a q.2) p.2 + 1
    is16Bit (ex1 - b.x1 - 1) && is16Bit (ey1 - b.y1 - 1) && is16Bit (ex2 - b.x1 + 1) &&
      is16Bit (ey2 - b.y1 + 1)

/-- one pixel of the composite: the request model of C01 (solid source, no mask); `none` when the
pixel is outside that model (wide pipeline) -/
def compositeStep (img : Image) (f : Pixman.CompositePixel.Fmt) (op : Nat) (isOpaque : Bool) (solid : Nat)
    (m : Mem) (p : Int × Int) : Option Mem :=
  -- the solid image is flagged opaque iff its 16-bit alpha is 0xffff (`compute_image_info`); the
  -- request model of C01 flags a `.solid` opaque iff its 8-bit alpha is 255, so a solid whose
  -- 16-bit alpha is 0xff00..0xfffe is presented as an a8r8g8b8 image of the same value
  let src : Pixman.CompositePixel.Pres :=
    if isOpaque then .solid else .bits Pixman.CompositePixel.argb32 false
  let pxPerWord : Int := 32 / f.bpp
  let idx := (img.bits + p.2 * img.rowstride) * pxPerWord + p.1
  match Pixman.CompositePixel.compositePixel op false src .none (.bits f false) solid 0
      (readPx m f.bpp idx) with
  | .pixel v => some (writePx m f.bpp idx v)
  | _ => none

/-- `pixman_image_composite32 (op, solid, NULL, dest, 0, 0, 0, 0, x1, y1, x2 - x1, y2 - y1)` for one
box, pixel by pixel; `none` when a pixel is outside the model of C01 -/
def compositeBox (img : Image) (f : Pixman.CompositePixel.Fmt) (op : Nat) (isOpaque : Bool) (solid : Nat)
    (b : Box) (m : Mem) : Option Mem :=
  let px := boxPixels img b
  if !sourceExtentsOk px b then some m else
  px.foldlM (init := m) (compositeStep img f op isOpaque solid)

/-- the clamp of 51d8f75: `if (box.x1 < 0) box.x1 = 0; ... if (box.y2 > height) box.y2 = height;` -/
def cutToImage (img : Image) (b : Box) : Box :=
  ⟨if b.x1 < 0 then 0 else b.x1, if b.y1 < 0 then 0 else b.y1,
   if b.x2 > img.width then img.width else b.x2, if b.y2 > img.height then img.height else b.y2⟩

/-- the body of the compositing loop of `pixman_image_fill_boxes`: clamp the copy of the box to the
destination, `continue` when nothing is left, else composite -/
def compositeCut (img : Image) (f : Pixman.CompositePixel.Fmt) (op : Nat) (isOpaque : Bool) (solid : Nat)
    (b : Box) (m : Mem) : Option Mem :=
  let box := cutToImage img b
  if box.x1 ≥ box.x2 ∨ box.y1 ≥ box.y2 then some m
  else compositeBox img f op isOpaque solid box m

/-- `pixman_image_fill_boxes`.  Result: return value and memory; `none` when the compositing
fallback leaves the model of C01. -/
def fillBoxes (al : Int) (chain : List Impl) (op : Nat) (img : Image) (color : Color)
    (boxes : List Box) (m : Mem) : Option (Bool × Mem) :=
  let (op, color) := reduceOp op color
  -- the shortcut: `(some r, _)` = it returned `r`; `(none, m')` = control reached the compositing
  -- code below with memory `m'`
  let sc : Option (Bool × Mem) × Mem :=
    if op = OP_SRC then
      match colorToPixel color img.format with
      | some pixel =>
        match fillRegion img boxes with
        | none => (some (false, m), m)
        | some reg =>
          let r := fillRects al chain img pixel reg.rects m
          if r.1 then (some (true, r.2), r.2) else (none, r.2)
      | none => (none, m)
    else (none, m)
  match sc.1 with
  | some r => some r
  | none =>
    match fmtOfCode img.format with
    | none => none
    | some f =>
      (boxes.foldlM (init := sc.2) fun m b =>
        compositeCut img f op (color.alpha = 0xffff) (colorToUint32 color) b m).map
        fun m => (true, m)

/-- a `pixman_rectangle16_t` -/
structure Rect16 where
  x : Int
  y : Int
  width : Nat
  height : Nat

/-- the rect → box conversion of `pixman_image_fill_rectangles` (stack array for ≤ 6 rectangles,
`pixman_malloc_ab` above: same contents) -/
def rectsToBoxes (rects : List Rect16) : List Box :=
  rects.map fun r => ⟨r.x, r.y, r.x + r.width, r.y + r.height⟩

/-- `pixman_image_fill_rectangles` (no allocation failure) -/
def fillRectangles (al : Int) (chain : List Impl) (op : Nat) (img : Image) (color : Color)
    (rects : List Rect16) (m : Mem) : Option (Bool × Mem) :=
  fillBoxes al chain op img color (rectsToBoxes rects) m

end Pixman.Model.Fill

import Pixman.Lemmas.LifetimeCache
import Pixman.Lemmas.LifetimeCells
import Pixman.Spec.Lifetime
/-!
  C20 — image lifetime: resources released exactly once, when the last reference goes.

  All theorems are about EVERY history of operations (`List Op`, no bound on length or on the number
  of images) issued by a client that respects ownership (`step` = `apply` guarded by `Op.ok`: a
  call with a pointer the client holds no reference to is not made).  `Inv` is the reference-count
  invariant `InvA` with nothing in flight.
-/
namespace Pixman.Props.C20
open Pixman.Model.Lifetime Pixman.Spec.Lifetime

/-- the invariant between operations: nothing in flight, no stale field -/
def Inv (h : Heap) : Prop := InvA h zero none

/-- live parents of `m`: images that are allocated and whose alpha map is `m` -/
def parents (h : Heap) (m : Nat) : Nat := parentsX h none m

theorem inv_empty : Inv Heap.empty := by
  constructor
  · rfl
  · rfl
  · intro i _; exact ⟨rfl, rfl⟩
  · intro i hi; exact absurd hi (Nat.not_lt_zero i)
  · intro i hi; exact absurd hi (Nat.not_lt_zero i)
  · intro i hi; exact absurd hi (Nat.not_lt_zero i)
  · intro p m hp; exact absurd hp (Nat.not_lt_zero p)
  · intro i hi; exact absurd hi (Nat.not_lt_zero i)
  · intro c hc; cases hc
  · intro i; simp [Heap.empty]

theorem apply_preserves_inv (h : Heap) (op : Op) (hI : Inv h) (hok : op.ok h = true) :
    Inv (apply h op).1 := by
  unfold Inv at *
  cases op with
  | createBits w ht own => exact hI.pres_createBits w ht own
  | createSolid => exact hI.pres_createSolid
  | createGradient k n =>
    have := hI.pres_createGradient k n
    show InvA (match createGradient h k n with
      | (h, some id) => (h, Res.created id)
      | (h, none) => (h, Res.null)).1 zero none
    rcases hcg : createGradient h k n with ⟨h', _ | id⟩ <;> (rw [hcg] at this; exact this)
  | ref i => exact hI.pres_ref (by simpa [Op.ok] using hok)
  | unref i => exact (hI.pres_unref (by simpa [Op.ok] using hok)).1
  | setAlphaMap i m x y =>
    cases m with
    | none =>
      have hok' : h.holds i = true := by simpa [Op.ok] using hok
      exact hI.pres_setAlphaMap hok' none (by intro a ha; cases ha) x y
    | some a =>
      have hok' : h.holds i = true ∧ (h.holds a = true ∨ h.borrowed a = true) := by
        simpa [Op.ok] using hok
      refine hI.pres_setAlphaMap hok'.1 (some a) ?_ x y
      intro b hb; cases hb
      rcases hok'.2 with h1 | h1
      · exact hI.holds_live h1
      · exact hI.borrowed_live h1
  | setTransform i t => exact hI.pres_setTransform (by simpa [Op.ok] using hok) t
  | setFilter i f p =>
    have hok' : h.holds i = true := by
      simp only [Op.ok, Bool.and_eq_true] at hok
      exact hok.1
    exact hI.pres_setFilter hok' f p
  | setClip32 i n => exact hI.pres_setClip32 (by simpa [Op.ok] using hok) n
  | setClip16 i n => exact hI.pres_setClip16 (by simpa [Op.ok] using hok) n
  | setDestroy i f d => exact hI.pres_setDestroy (by simpa [Op.ok] using hok) f d
  | setIndexed i p => exact hI.pres_setIndexed (by simpa [Op.ok] using hok) p
  | cacheCreate => exact hI.pres_cacheCreate (by simpa [Op.ok] using hok)
  | cacheDestroy => exact hI.pres_cacheDestroy
  | cacheFreeze => exact hI.pres_cacheFreeze
  | cacheThaw => exact hI.pres_cacheThaw
  | cacheInsert key i =>
    have hok' : h.holds i = true := by
      simp only [Op.ok, Bool.and_eq_true] at hok
      exact hok.1
    exact hI.pres_cacheInsert key i hok'
  | cacheRemove key => exact hI.pres_cacheRemove key

theorem step_preserves_inv (h : Heap) (op : Op) (hI : Inv h) : Inv (step h op).1 := by
  unfold step
  by_cases hok : op.ok h = true
  · rw [if_pos hok]; exact apply_preserves_inv h op hI hok
  · rw [if_neg hok]; exact hI

theorem run_preserves_inv' (h : Heap) (ops : List Op) (hI : Inv h) : Inv (run h ops).1 := by
  induction ops generalizing h with
  | nil => exact hI
  | cons op ops ih =>
    unfold run
    exact ih (step h op).1 (step_preserves_inv h op hI)

/-- every state reachable by any history satisfies the invariant -/
theorem run_preserves_inv (ops : List Op) : Inv (run Heap.empty ops).1 :=
  run_preserves_inv' _ ops inv_empty

/-! ### L1 — the count is exactly the number of references -/

/-- (L1) `ref_count` of an allocated image = references held by the client + allocated images that
    have it as alpha map + glyph-cache entries that own it -/
theorem L1_ref_count_is_external_plus_parents (h : Heap) (hI : Inv h) (i : Nat) (ha : Allocated h i) :
    (h.img i).refCount = (h.ext i : Int) + parents h i + hold h i := by
  have := hI.count i ha.1 ha.2
  simpa [zero, parents] using this

theorem exists_parent_of_pos {h : Heap} {m : Nat} (hp : 0 < parents h m) :
    ∃ p, Allocated h p ∧ (h.img p).alphaMap = some m := by
  unfold parents parentsX at hp
  obtain ⟨p, hp1, hp2⟩ := List.countP_pos_iff.1 hp
  refine ⟨p, ⟨List.mem_range.1 hp1, ?_⟩, ?_⟩ <;> simp [edgeB] at hp2 <;> simp [hp2]

theorem exists_entry_of_pos {h : Heap} {g : Nat} (hp : 0 < hold h g) :
    ∃ c e, h.cache = some c ∧ e ∈ c.entries ∧ e.image = g := by
  unfold hold at hp
  cases hc : h.cache with
  | none => rw [hc] at hp; simp at hp
  | some c =>
    rw [hc] at hp
    obtain ⟨e, he1, he2⟩ := List.countP_pos_iff.1 hp
    exact ⟨c, e, rfl, he1, by simpa using he2⟩

/-! ### L2 — released exactly once, exactly when the last reference goes -/

/-- (L2) an image struct is allocated exactly while something refers to it -/
theorem L2_live_iff_referenced (h : Heap) (hI : Inv h) (i : Nat) (hi : i < h.nimg) :
    Allocated h i ↔ Referenced h i := by
  constructor
  · intro ha
    have h1 := L1_ref_count_is_external_plus_parents h hI i ha
    have h2 := hI.state i hi
    have : 0 < h.ext i ∨ 0 < parents h i ∨ 0 < hold h i := by
      have := ha.2; omega
    rcases this with h3 | h3 | h3
    · exact Or.inl h3
    · exact Or.inr (Or.inl (exists_parent_of_pos h3))
    · obtain ⟨c, e, hc, he, hg⟩ := exists_entry_of_pos h3
      exact Or.inr (Or.inr ⟨c, e, hc, he, hg⟩)
  · intro hr
    refine ⟨hi, ?_⟩
    by_cases hf : (h.img i).freed = 0
    · exact hf
    · have hd := hI.dead i hi hf
      rcases hr with h3 | ⟨p, hp, hpa⟩ | ⟨c, e, hc, he, hg⟩
      · omega
      · exact absurd (hI.edge p i hp.1 hp.2 (by simp) hpa).2.1 hf
      · have : 0 < hold h i := by
          unfold hold; rw [hc]
          exact List.countP_pos_iff.2 ⟨e, he, by simpa using hg⟩
        omega

/-- (L2) the struct is freed at most once, and it has been freed exactly when the count is 0 -/
theorem L2_released_exactly_once (h : Heap) (hI : Inv h) (i : Nat) (hi : i < h.nimg) :
    (h.img i).freed ≤ 1 ∧ ((h.img i).freed = 1 ↔ (h.img i).refCount = 0) ∧
      ((h.img i).freed = 0 ↔ 1 ≤ (h.img i).refCount) := by
  have := hI.state i hi; omega

/-- (L2) `pixman_image_unref` returns TRUE exactly when it drops the last reference -/
theorem L2_unref_true_iff_last (h : Heap) (hI : Inv h) (i : Nat) (hh : h.holds i = true) :
    (apply h (.unref i)).2 = .bool (decide ((h.img i).refCount = 1)) := by
  have := (hI.pres_unref hh).2.1
  show Res.bool (unref (dropExt h i) i).2 = _
  rw [this]

/-- (L2) the last `unref` frees the struct, any other `unref` does not; at that moment the destroy
    callback of the image (if it has one) fires, before those of anything it kept alive -/
theorem L2_unref_last_releases (h : Heap) (hI : Inv h) (i : Nat) (hh : h.holds i = true) :
    (((apply h (.unref i)).1.img i).freed = if (h.img i).refCount = 1 then 1 else 0) ∧
    ((h.img i).refCount = 1 → ∃ rest, (apply h (.unref i)).1.fired =
        h.fired ++ (if (h.img i).destroyFunc then [(i, (h.img i).destroyData)] else []) ++ rest) := by
  have := hI.pres_unref hh
  exact ⟨this.2.2.1, this.2.2.2⟩

/-- (L2) the destroy callback has fired exactly once for a released image that had one when it was
    released, and never for any other image -/
theorem L2_callback_exactly_once (h : Heap) (hI : Inv h) (i : Nat) :
    (h.fired.map Prod.fst).count i =
      if i < h.nimg ∧ (h.img i).freed ≠ 0 ∧ (h.img i).destroyFunc = true then 1 else 0 :=
  hI.fired i

/-! ### L3 — alpha maps -/

/-- (L3) an attached alpha map stays allocated as long as a parent is -/
theorem L3_map_outlives_parent (h : Heap) (hI : Inv h) (p m : Nat) (hp : Allocated h p)
    (hm : (h.img p).alphaMap = some m) : Allocated h m :=
  let e := hI.edge p m hp.1 hp.2 (by simp) hm
  ⟨e.1, e.2.1⟩

/-- (L3) no chains: an alpha map has no alpha map of its own (and is a bits image) -/
theorem L3_no_chains (h : Heap) (hI : Inv h) (p m : Nat) (hp : Allocated h p)
    (hm : (h.img p).alphaMap = some m) : (h.img m).alphaMap = none ∧ (h.img m).kind = .bits :=
  (hI.edge p m hp.1 hp.2 (by simp) hm).2.2

/-- (L3) no image is its own alpha map (60cda36) -/
theorem L3_no_self_loop (h : Heap) (hI : Inv h) (p : Nat) (hp : Allocated h p) :
    (h.img p).alphaMap ≠ some p := by
  intro hm
  have := (L3_no_chains h hI p p hp hm).1
  rw [this] at hm; cases hm

/-- (L3) `alpha_count` is an upper bound of the number of parents (`_pixman_image_fini` does not
    decrement it), which is what the chain guard needs -/
theorem L3_alpha_count_bounds_parents (h : Heap) (hI : Inv h) (m : Nat) (hm : Allocated h m) :
    (parents h m : Int) ≤ (h.img m).alphaCount :=
  hI.acount m hm.1 hm.2

/-! ### L4 — no use after free, no leak -/

/-- (L4) no operation of any history dereferences an image struct that is not allocated -/
theorem L4_no_use_after_free (ops : List Op) : (run Heap.empty ops).1.uaf = 0 :=
  (run_preserves_inv ops).uaf

/-- (L4) `_pixman_image_fini` never recurses deeper than image -> alpha map -/
theorem L4_recursion_budget_suffices (ops : List Op) : (run Heap.empty ops).1.stuck = 0 :=
  (run_preserves_inv ops).stuck

/-- (L4) once the client has dropped every reference and destroyed the cache, every image struct
    has been freed -/
theorem L4_no_leak (h : Heap) (hI : Inv h) (hext : ∀ i, h.ext i = 0) (hc : h.cache = none)
    (i : Nat) (hi : i < h.nimg) : (h.img i).freed = 1 := by
  have hhold : ∀ g, hold h g = 0 := by intro g; simp [hold, hc]
  have key : ∀ j, j < h.nimg → (h.img j).freed = 0 → 0 < parents h j := by
    intro j hj hf
    have h1 := L1_ref_count_is_external_plus_parents h hI j ⟨hj, hf⟩
    have h2 := hI.state j hj
    rw [hext, hhold] at h1
    have : (0:Int) < parents h j := by omega
    exact Int.natCast_pos.1 this
  by_cases hf : (h.img i).freed = 0
  · obtain ⟨p, hp, hpa⟩ := exists_parent_of_pos (key i hi hf)
    obtain ⟨q, hq, hqa⟩ := exists_parent_of_pos (key p hp.1 hp.2)
    have := (L3_no_chains h hI q p hq hqa).1
    rw [this] at hpa; cases hpa
  · have := hI.state i hi; omega

/-- the glyph cache's copy of an image is private: the client holds no reference to it, and it
    stays allocated while the entry exists -/
theorem cache_copy_is_private (h : Heap) (hI : Inv h) (c : Cache) (hc : h.cache = some c)
    (g : Glyph) (hg : g ∈ c.entries) : h.ext g.image = 0 ∧ Allocated h g.image := by
  have h1 := hI.centries c hc g hg
  refine ⟨h1.2, (L2_live_iff_referenced h hI g.image h1.1).2 ?_⟩
  exact Or.inr (Or.inr ⟨c, g, hc, hg, rfl⟩)

/-! ### L2, owned buffers — per image (PARTIAL: not lifted to histories)

  The statements below are about one image record.  What is missing for the full-strength claim
  "in every reachable state every block ever handed out was freed exactly once, or is the one its
  field points to" is the induction over histories showing that no operation touches the owning
  fields of an image other than the setters of that image and its own release (a frame argument
  over all operations, not done).  The correspondence check covers it empirically: the exact table
  of library blocks is compared with the model's `liveBlocks` after every call. -/

/-- (L2, partial) when the last reference goes, every block the image still owns is freed, once;
    blocks replaced earlier were freed once when they were replaced: nothing is left -/
theorem L2_release_frees_owned_blocks_partial (im : Image) (h : im.cellsOk) :
    im.fin.cellsDead ∧ (im.freed = 0 → im.fin.liveBlocks = 0) := by
  refine ⟨Image.cellsDead_fin h, fun hf => ?_⟩
  exact Image.liveBlocks_dead (Image.cellsDead_fin h) (by simp [hf])

/-- (L2, partial) the three ways a setter replaces an owned buffer keep "exactly the current block
    is unfreed": `free (old); p = NULL` (identity transform, one-rectangle clip),
    `free (old); p = malloc ()` (filter parameters, clip data), `p = malloc ()` into an empty field -/
theorem L2_setter_frees_old_buffer_once_partial (c : Cell) (h : c.ok) :
    c.free.clear.ok ∧ c.free.alloc.ok ∧ (c.ptr = none → c.alloc.ok) :=
  ⟨Cell.ok_free_clear h, Cell.ok_free_alloc h, Cell.ok_alloc h⟩

/-- non-vacuity: a field that went through alloc, replace, clear -/
example : (Cell.alloc {}).free.alloc.free.clear.ok :=
  Cell.ok_free_clear (Cell.ok_free_alloc (Cell.ok_alloc Cell.ok_empty rfl))

/-! ### non-vacuity: concrete histories (evaluated by the kernel) -/

/-- parent 0 with alpha map 1; the client drops the map first, then the parent: both structs are
    released by the last `unref`, which returns TRUE, and the callback of the parent fires once -/
def demo : List Op :=
  [.createBits 2 2 true, .createBits 1 1 true, .setAlphaMap 0 (some 1) 1 2, .setDestroy 0 true 7,
   .unref 1, .setTransform 0 (some 3), .unref 0]

example : (run Heap.empty demo).2 =
    [.created 0, .created 1, .unit, .unit, .bool false, .bool true, .bool true] := by decide
example : ((run Heap.empty demo).1.img 0).freed = 1 ∧ ((run Heap.empty demo).1.img 1).freed = 1 ∧
    (run Heap.empty demo).1.fired = [(0, 7)] := by decide
/-- before the last unref: L1 has a non-trivial instance (count 1 = 0 client + 1 parent) -/
example : Allocated (run Heap.empty (demo.take 5)).1 1 ∧ (run Heap.empty (demo.take 5)).1.ext 1 = 0 ∧
    parents (run Heap.empty (demo.take 5)).1 1 = 1 ∧ ((run Heap.empty (demo.take 5)).1.img 1).refCount = 1 := by
  decide
/-- self attachment and chains are refused -/
def demo2 : List Op :=
  [.createBits 2 2 true, .createBits 1 1 true, .createBits 1 1 true, .setAlphaMap 0 (some 0) 0 0,
   .setAlphaMap 0 (some 1) 0 0, .setAlphaMap 1 (some 2) 0 0, .setAlphaMap 2 (some 0) 0 0]
example : ((run Heap.empty demo2).1.img 0).alphaMap = some 1 ∧ ((run Heap.empty demo2).1.img 1).alphaMap = none ∧
    ((run Heap.empty demo2).1.img 2).alphaMap = none := by decide
/-- re-attaching the SAME map through the parent, after the client dropped its own reference to the
    map (seeded C20-m1): the call is made (borrowed), only the origin moves, the map stays allocated
    with the one reference its parent holds, no callback fires; everything goes with the parent -/
def demo3 : List Op :=
  [.createBits 2 2 true, .createBits 1 1 true, .setDestroy 1 true 9, .setAlphaMap 0 (some 1) 1 2,
   .unref 1, .setAlphaMap 0 (some 1) 5 (-3), .unref 0]
example : (run Heap.empty demo3).2 =
    [.created 0, .created 1, .unit, .unit, .bool false, .unit, .bool true] := by decide
example : Allocated (run Heap.empty (demo3.take 6)).1 1 ∧
    ((run Heap.empty (demo3.take 6)).1.img 1).refCount = 1 ∧
    ((run Heap.empty (demo3.take 6)).1.img 0).alphaX = 5 ∧ ((run Heap.empty (demo3.take 6)).1.img 0).alphaY = -3 ∧
    (run Heap.empty (demo3.take 6)).1.fired = [] ∧ (run Heap.empty demo3).1.fired = [(1, 9)] ∧
    ((run Heap.empty demo3).1.img 1).freed = 1 := by decide
/-- a glyph-cache copy (image 1 here) is not borrowable, and neither is a map of nobody -/
example : (run Heap.empty [.createBits 2 2 true, .cacheCreate, .cacheFreeze, .cacheInsert 0 0,
    .setAlphaMap 0 (some 1) 0 0]).2 = [.created 0, .unit, .unit, .bool true, .refused] := by decide

/-- the ownership guard is not vacuous: a client without a reference makes no call -/
example : (run Heap.empty [.createSolid, .unref 0, .unref 0]).2 = [.created 0, .bool true, .refused] := by
  decide

/-- Repaired defect S1 (d80eb11): `pixman_image_set_indexed` on a gradient used to overwrite
    `gradient.stops`; now it returns for non-bits images: after the last unref the stops array has
    been freed exactly once and no foreign pointer was passed to `free ()`. -/
def demoS1 : List Op := [.createGradient .linear 2, .setIndexed 0 (some 1), .unref 0]
example : (run Heap.empty demoS1).2 = [.created 0, .unit, .bool true] ∧
    ((run Heap.empty demoS1).1.img 0).badFrees = 0 ∧ ((run Heap.empty demoS1).1.img 0).stops.frees 0 = 1 := by
  decide

end Pixman.Props.C20

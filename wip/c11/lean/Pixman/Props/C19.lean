import Pixman.Model.Fill
import Pixman.Spec.Fill
import Pixman.Lemmas.Fill
import Pixman.Lemmas.FillSimd
import Pixman.Lemmas.FillPattern
import Pixman.Lemmas.FillBlt
import Pixman.Props.C05
/-! C19 — blt, fill and fill_boxes affect exactly the rectangle and agree with compositing. -/
namespace Pixman.Props.C19
open Pixman.Model.Fill Pixman.Spec.Fill Pixman.Lemmas.Fill Pixman.Lemmas.FillSimd Pixman.Lemmas.FillPattern Pixman.Lemmas.FillBlt

/-! ## pixman_fill1_line -/

/-- `pixman_fill1_line` sets exactly bits `[offs, offs + width)` of the row that starts at word
`dst` and leaves every other bit of the memory alone — for every width, no bound -/
theorem fill1Line_exact (m : Mem) (dst : Int) (offs width : Nat) (v : Bool) (hoffs : offs < 32)
    (i : Int) :
    (fill1Line m dst offs width v).bit i =
      if dst * 32 + offs ≤ i ∧ i < dst * 32 + offs + width then v else m.bit i :=
  fill1Line_bit m dst offs width v hoffs i

example (m : Mem) : (fill1Line m 2 29 40 true).bit 93 = true ∧ (fill1Line m 2 29 40 true).bit 132 = true ∧
    (fill1Line m 2 29 40 true).bit 133 = m.bit 133 ∧ (fill1Line m 2 29 40 false).bit 100 = false := by
  simp only [fill1Line_exact _ _ _ _ _ (by decide : 29 < 32)]
  refine ⟨?_, ?_, ?_, ?_⟩
  · rw [if_pos (by decide)]
  · rw [if_pos (by decide)]
  · rw [if_neg (by decide)]
  · rw [if_pos (by decide)]

/-! ## pixman_fill1 / 8 / 16 / 32 and fast_path_fill -/

theorem and_one_ne_zero (f : Nat) : (f &&& 1 ≠ 0) ↔ f.testBit 0 = true := by
  rw [Nat.and_one_is_mod, Nat.testBit_zero]; simp

theorem lowMask_testBit (f k j : Nat) (hj : j < k) : (f &&& (2 ^ k - 1)).testBit j = f.testBit j := by
  rw [Nat.testBit_and, Nat.testBit_two_pow_sub_one]; simp [hj]

theorem exists_lt_congr {h : Nat} {A B : Nat → Prop} (e : ∀ r, A r ↔ B r) :
    (∃ r : Nat, r < h ∧ A r) ↔ (∃ r : Nat, r < h ∧ B r) :=
  ⟨fun ⟨r, hr, ha⟩ => ⟨r, hr, (e r).1 ha⟩, fun ⟨r, hr, hb⟩ => ⟨r, hr, (e r).2 hb⟩⟩

theorem rowStart1 (bits stride x y : Int) (r : Nat) :
    (bits + y * stride + x / 32 + r * stride) * 32 + ((x % 32).toNat : Int) =
      rowStart bits stride 1 x y r := by
  unfold rowStart
  have e1 : (y + r) * stride = y * stride + r * stride := Int.add_mul _ _ _
  have c : ((32 / 1 : Nat) : Int) = 32 := by decide
  rw [e1, c]
  generalize y * stride = ys
  generalize (r : Int) * stride = rs
  omega

theorem rowStart8 (bits stride x y : Int) (r : Nat) :
    bits * 4 + y * (stride * 4) + x + r * (stride * 4) = rowStart bits stride 8 x y r := by
  unfold rowStart
  have c : ((32 / 8 : Nat) : Int) = 4 := by decide
  rw [c]; grind

theorem rowStart16 (bits stride x y : Int) (r : Nat) :
    bits * 2 + y * (stride * 4 / 2) + x + r * (stride * 4 / 2) = rowStart bits stride 16 x y r := by
  unfold rowStart
  have c : ((32 / 16 : Nat) : Int) = 2 := by decide
  have d : stride * 4 / 2 = stride * 2 := by omega
  rw [c, d]; grind

theorem rowStart32 (bits stride x y : Int) (r : Nat) :
    bits + y * stride + x + r * stride = rowStart bits stride 32 x y r := by
  unfold rowStart
  have c : ((32 / 32 : Nat) : Int) = 1 := by decide
  rw [c]; grind

/-- a row loop whose rows set exactly `width` consecutive `bpp`-bit units starting at the row
pointer fills exactly the rectangle -/
theorem filled_of_rows (m : Mem) (row : Mem → Int → Mem) (ustride d0 : Int) (bpp : Nat)
    (width height value : Nat) (bits stride x y : Int)
    (hrow : ∀ m d i, (row m d).bit i =
      if d ≤ i / (bpp : Int) ∧ i / (bpp : Int) < d + width then value.testBit (i % (bpp : Int)).toNat
      else m.bit i)
    (hstart : ∀ r : Nat, d0 + r * ustride = rowStart bits stride bpp x y r) :
    FilledExactly m.bit (rows row ustride height m d0).bit bits stride bpp x y width height value := by
  intro i
  have R := rows_bit row ustride (fun i => value.testBit (i % (bpp : Int)).toNat)
    (fun d i => d ≤ i / (bpp : Int) ∧ i / (bpp : Int) < d + width)
    (fun m d i hs => by rw [hrow, if_pos hs])
    (fun m d i hs => by rw [hrow, if_neg hs])
    i height m d0
  have eqv : InRect bits stride bpp x y width height (i / (bpp : Int)) ↔
      ∃ r : Nat, r < height ∧ d0 + r * ustride ≤ i / (bpp : Int) ∧ i / (bpp : Int) < d0 + r * ustride + width := by
    unfold InRect
    apply exists_lt_congr
    intro r
    rw [hstart r]
  exact ⟨fun h => R.1 (eqv.1 h), fun h => R.2 (fun hh => h (eqv.2 hh))⟩

/-- `pixman_fill1` writes exactly the rectangle -/
theorem fill1_exact (m : Mem) (bits stride x y : Int) (width height filler : Nat) :
    FilledExactly m.bit (fill1 m bits stride x y width height filler).bit bits stride 1 x y width
      height filler := by
  intro i
  have hx : (x % 32).toNat < 32 := by omega
  have key : ∀ v : Bool, v = filler.testBit 0 →
      ((InRect bits stride 1 x y width height (i / (1 : Nat)) →
        (rows (fun m d => fill1Line m d (x % 32).toNat width v) stride height m
          (bits + y * stride + x / 32)).bit i = filler.testBit (i % (1 : Nat)).toNat) ∧
      (¬ InRect bits stride 1 x y width height (i / (1 : Nat)) →
        (rows (fun m d => fill1Line m d (x % 32).toNat width v) stride height m
          (bits + y * stride + x / 32)).bit i = m.bit i)) := by
    intro v hv
    have R := rows_bit (fun m d => fill1Line m d (x % 32).toNat width v) stride (fun _ => v)
      (fun d i => d * 32 + ((x % 32).toNat : Int) ≤ i ∧ i < d * 32 + ((x % 32).toNat : Int) + width)
      (fun m d i hs => by rw [fill1Line_bit _ _ _ _ _ hx, if_pos hs])
      (fun m d i hs => by rw [fill1Line_bit _ _ _ _ _ hx, if_neg hs])
      i height m (bits + y * stride + x / 32)
    have i1 : i / ((1 : Nat) : Int) = i := by simp
    have eqv : InRect bits stride 1 x y width height (i / (1 : Nat)) ↔
        ∃ r : Nat, r < height ∧ (bits + y * stride + x / 32 + r * stride) * 32 + ((x % 32).toNat : Int) ≤ i ∧
          i < (bits + y * stride + x / 32 + r * stride) * 32 + ((x % 32).toNat : Int) + width := by
      unfold InRect
      apply exists_lt_congr
      intro r
      rw [rowStart1, i1]
    have h0 : (i % ((1 : Nat) : Int)).toNat = 0 := by omega
    rw [h0, ← hv]
    exact ⟨fun h => R.1 (eqv.1 h), fun h => R.2 (fun hh => h (eqv.2 hh))⟩
  unfold fill1
  simp only []
  by_cases hf : filler &&& 1 ≠ 0
  · rw [if_pos hf]
    exact key true ((and_one_ne_zero filler).1 hf).symm
  · rw [if_neg hf]
    have : filler.testBit 0 = false := by
      cases h : filler.testBit 0
      · rfl
      · exact absurd ((and_one_ne_zero filler).2 h) hf
    exact key false this.symm

example (m : Mem) : (fill1 m 10 (-3) 37 1 40 2 1).bit ((10 + 1 * -3) * 32 + 37) = true ∧
    (fill1 m 10 (-3) 37 1 40 2 1).bit ((10 + 2 * -3) * 32 + 76) = true ∧
    (fill1 m 10 (-3) 37 1 40 2 1).bit ((10 + 2 * -3) * 32 + 77) = m.bit ((10 + 2 * -3) * 32 + 77) := by
  have h := fill1_exact m 10 (-3) 37 1 40 2 1
  refine ⟨?_, ?_, ?_⟩
  · exact (h _).1 ⟨0, by decide, by decide, by decide⟩
  · exact (h _).1 ⟨1, by decide, by decide, by decide⟩
  · refine (h _).2 ?_
    rintro ⟨r, hr, h1, h2⟩
    have : r = 0 ∨ r = 1 := by omega
    rcases this with rfl | rfl
    · revert h1; decide
    · revert h2; decide

theorem c8 : ((8 : Nat) : Int) = 8 := by decide
theorem c16 : ((16 : Nat) : Int) = 16 := by decide
theorem c32 : ((32 : Nat) : Int) = 32 := by decide

/-- `pixman_fill8` writes exactly the rectangle, with the filler narrowed to 8 bits -/
theorem fill8_exact (m : Mem) (bits stride x y : Int) (width height filler : Nat) :
    FilledExactly m.bit (fill8 m bits stride x y width height filler).bit bits stride 8 x y width
      height filler := by
  unfold fill8
  apply filled_of_rows
  · intro m d i
    rw [c8, forStore_bit store8 8 (by decide) store8_bit]
    by_cases h : d ≤ i / 8 ∧ i / 8 < d + width
    · rw [if_pos h, if_pos h]
      exact lowMask_testBit filler 8 _ (by omega)
    · rw [if_neg h, if_neg h]
  · intro r; exact rowStart8 bits stride x y r

/-- `pixman_fill16` writes exactly the rectangle, with the filler narrowed to 16 bits -/
theorem fill16_exact (m : Mem) (bits stride x y : Int) (width height filler : Nat) :
    FilledExactly m.bit (fill16 m bits stride x y width height filler).bit bits stride 16 x y width
      height filler := by
  unfold fill16
  apply filled_of_rows
  · intro m d i
    rw [c16, forStore_bit store16 16 (by decide) store16_bit]
    by_cases h : d ≤ i / 16 ∧ i / 16 < d + width
    · rw [if_pos h, if_pos h]
      exact lowMask_testBit filler 16 _ (by omega)
    · rw [if_neg h, if_neg h]
  · intro r; exact rowStart16 bits stride x y r

/-- `pixman_fill32` writes exactly the rectangle -/
theorem fill32_exact (m : Mem) (bits stride x y : Int) (width height filler : Nat) :
    FilledExactly m.bit (fill32 m bits stride x y width height filler).bit bits stride 32 x y width
      height filler := by
  unfold fill32
  apply filled_of_rows
  · intro m d i
    rw [c32, forStore_bit store32 32 (by decide) store32_bit]
  · intro r; exact rowStart32 bits stride x y r

/-- `fast_path_fill`: for the depths it supports it returns TRUE and the memory is the old one
with exactly the rectangle filled — every `x`, `y`, width, height, stride (also negative), no
bound -/
theorem fastPathFill_exact (m : Mem) (bits stride : Int) (bpp : Nat) (x y : Int)
    (width height filler : Nat) (hb : bpp = 1 ∨ bpp = 8 ∨ bpp = 16 ∨ bpp = 32) :
    (fastPathFill m bits stride bpp x y width height filler).1 = true ∧
    FilledExactly m.bit (fastPathFill m bits stride bpp x y width height filler).2.bit bits stride
      bpp x y width height filler := by
  rcases hb with rfl | rfl | rfl | rfl
  · exact ⟨rfl, fill1_exact m bits stride x y width height filler⟩
  · exact ⟨rfl, fill8_exact m bits stride x y width height filler⟩
  · exact ⟨rfl, fill16_exact m bits stride x y width height filler⟩
  · exact ⟨rfl, fill32_exact m bits stride x y width height filler⟩

/-- every other depth: FALSE, and the memory is untouched -/
theorem fastPathFill_unsupported (m : Mem) (bits stride : Int) (bpp : Nat) (x y : Int)
    (width height filler : Nat) (hb : bpp ≠ 1 ∧ bpp ≠ 8 ∧ bpp ≠ 16 ∧ bpp ≠ 32) :
    fastPathFill m bits stride bpp x y width height filler = (false, m) := by
  unfold fastPathFill
  split <;> first | omega | rfl

example (m : Mem) : fastPathFill m 0 4 24 1 1 5 5 0xffffff = (false, m) :=
  fastPathFill_unsupported m 0 4 24 1 1 5 5 0xffffff (by decide)
example (m : Mem) : fastPathFill m 0 4 4 1 1 5 5 0xf = (false, m) :=
  fastPathFill_unsupported m 0 4 4 1 1 5 5 0xf (by decide)

/-! ## SIMD fills and blts: the row programs as address ranges

`Tiles a l b`: the stores of `l`, in program order, are non-empty, start at `a`, each starts where
the previous one ended, and the last ends at `b` — every byte of `[a, b)` is written exactly once
and no other byte is written. -/

/-- `sse2_fill` row program, every alignment `al + d` and every byte width `W`: the stores tile
`[d, d + W)` exactly and each store is aligned to its size (so `save_128_aligned` never faults) -/
theorem sse2FillRow_tiles (al d : Int) (W : Nat) :
    Tiles d (sse2FillRow al d W) (d + W) ∧
    ∀ st ∈ sse2FillRow al d W, (al + st.addr) % (st.size : Int) = 0 :=
  have h := sse2FillRow_done al d W 1 (Or.inl rfl) (Int.one_dvd _) (Nat.one_dvd _)
  ⟨h.tiles, h.aligned⟩

/-- `mmx_fill` row program -/
theorem mmxFillRow_tiles (al d : Int) (W : Nat) :
    Tiles d (mmxFillRow al d W) (d + W) ∧
    ∀ st ∈ mmxFillRow al d W, (al + st.addr) % (st.size : Int) = 0 :=
  have h := mmxFillRow_done al d W 1 (Or.inl rfl) (Int.one_dvd _) (Nat.one_dvd _)
  ⟨h.tiles, h.aligned⟩

/-- for 16 and 32 bpp (`B` = 2, 4 bytes per pixel; pixel-aligned row start and width) every store
of the fills is a whole number of pixels, so the replicated pattern lands on pixel boundaries -/
theorem fillRow_whole_pixels (al d : Int) (W B : Nat) (hB : B = 1 ∨ B = 2 ∨ B = 4)
    (hd : (B : Int) ∣ al + d) (hw : B ∣ W) :
    (∀ st ∈ sse2FillRow al d W, B ∣ st.size) ∧ (∀ st ∈ mmxFillRow al d W, B ∣ st.size) :=
  ⟨(sse2FillRow_done al d W B hB hd hw).sizes, (mmxFillRow_done al d W B hB hd hw).sizes⟩

/-- `sse2_blt` row program (16/32 bpp: even row start and even byte width) -/
theorem sse2BltRow_tiles (al d : Int) (W : Nat) (hd : (2 : Int) ∣ al + d) (hw : 2 ∣ W) :
    Tiles d (sse2BltRow al d W) (d + W) ∧
    ∀ st ∈ sse2BltRow al d W, (al + st.addr) % (st.size : Int) = 0 :=
  have h := sse2BltRow_done al d W 2 (Or.inl rfl) hd hw
  ⟨h.tiles, h.aligned⟩

/-- `mmx_blt` row program -/
theorem mmxBltRow_tiles (al d : Int) (W : Nat) (hd : (2 : Int) ∣ al + d) (hw : 2 ∣ W) :
    Tiles d (mmxBltRow al d W) (d + W) ∧
    ∀ st ∈ mmxBltRow al d W, (al + st.addr) % (st.size : Int) = 0 :=
  have h := mmxBltRow_done al d W 2 (Or.inl rfl) hd hw
  ⟨h.tiles, h.aligned⟩

/- e.g. `sse2FillRow 0 13 40 = [(13,1), (14,2), (16,16), (32,16), (48,4), (52,1)]`,
`mmxFillRow 4 1 17 = [(1,1), (2,2), (4,4), (8,4), (12,4), (16,2)]` (`#eval`) -/
example := sse2FillRow_tiles 0 13 40
example := fillRow_whole_pixels 4 8 40 2 (Or.inr (Or.inl rfl)) ⟨6, rfl⟩ ⟨20, rfl⟩
example := sse2BltRow_tiles 0 6 30 ⟨3, rfl⟩ ⟨15, rfl⟩
example := mmxBltRow_tiles 0 6 30 ⟨3, rfl⟩ ⟨15, rfl⟩

/-- one row of a SIMD fill: for a pixel-aligned row pointer exactly the `B * width` bytes of the row
hold the pixel value -/
theorem simdRow_bit (rowProg : Int → Int → Nat → List Store)
    (hprog : ∀ (al d : Int) (W B : Nat), (B = 1 ∨ B = 2 ∨ B = 4) → (B : Int) ∣ al + d → B ∣ W →
      Done al d W B (rowProg al d W))
    (rep : Nat → Nat → Nat) (hrep : rep = sse2Filler ∨ rep = mmxFiller) (al : Int) (hal : (4 : Int) ∣ al)
    (B : Nat) (hB : B = 1 ∨ B = 2 ∨ B = 4) (f width : Nat) (m : Mem) (d : Int) (hd : (B : Int) ∣ d)
    (i : Int) :
    (execFill (rep (8 * B) f) (rowProg al d (B * width)) m).bit i =
      if d ≤ i / 8 ∧ i / 8 < d + (B * width : Nat) then
        f.testBit (8 * ((i / 8) % (B : Int)).toNat + (i % 8).toNat)
      else m.bit i := by
  have hald : (B : Int) ∣ al + d := by
    apply Int.dvd_add _ hd
    rcases hB with rfl | rfl | rfl <;> omega
  have D := hprog al d (B * width) B hB hald (Nat.dvd_mul_right _ _)
  exact execFill_bit _ f B hB (fun k j hj => rep_pattern rep hrep B f k j hB hj) i _ d _ m D.tiles
    D.sizes hd

/-- the row loop of a SIMD fill writes exactly the rectangle -/
theorem simdRows_exact (rowProg : Int → Int → Nat → List Store)
    (hprog : ∀ (al d : Int) (W B : Nat), (B = 1 ∨ B = 2 ∨ B = 4) → (B : Int) ∣ al + d → B ∣ W →
      Done al d W B (rowProg al d W))
    (rep : Nat → Nat → Nat) (hrep : rep = sse2Filler ∨ rep = mmxFiller) (al : Int) (hal : (4 : Int) ∣ al)
    (B : Nat) (hB : B = 1 ∨ B = 2 ∨ B = 4) (f width height : Nat) (m : Mem) (d0 us : Int)
    (bits stride x y : Int) (hd0 : (B : Int) ∣ d0) (hus : (B : Int) ∣ us)
    (hstart : ∀ r : Nat, d0 + r * us = rowStart bits stride (8 * B) x y r * B) :
    FilledExactly m.bit
      (rows (fun m d => execFill (rep (8 * B) f) (rowProg al d (B * width)) m) us height m d0).bit
      bits stride (8 * B) x y width height f := by
  intro i
  have R := rows_bit_inv (fun m d => execFill (rep (8 * B) f) (rowProg al d (B * width)) m) us
    (fun i => f.testBit (8 * ((i / 8) % (B : Int)).toNat + (i % 8).toNat))
    (fun d i => d ≤ i / 8 ∧ i / 8 < d + (B * width : Nat))
    (fun d => (B : Int) ∣ d) (fun d hd => Int.dvd_add hd hus)
    (fun m d i hd hs => by
      show (execFill (rep (8 * B) f) (rowProg al d (B * width)) m).bit i = _
      rw [simdRow_bit rowProg hprog rep hrep al hal B hB f width m d hd, if_pos hs])
    (fun m d i hd hs => by
      show (execFill (rep (8 * B) f) (rowProg al d (B * width)) m).bit i = _
      rw [simdRow_bit rowProg hprog rep hrep al hal B hB f width m d hd, if_neg hs])
    i height m d0 hd0
  have eqv : InRect bits stride (8 * B) x y width height (i / ((8 * B : Nat) : Int)) ↔
      ∃ r : Nat, r < height ∧ d0 + r * us ≤ i / 8 ∧ i / 8 < d0 + r * us + (B * width : Nat) := by
    unfold InRect
    apply exists_lt_congr
    intro r
    rw [hstart r]
    generalize rowStart bits stride (8 * B) x y r = rs
    rcases hB with rfl | rfl | rfl <;> omega
  have ev : f.testBit (8 * ((i / 8) % (B : Int)).toNat + (i % 8).toNat) =
      f.testBit (i % ((8 * B : Nat) : Int)).toNat := by
    congr 1
    rcases hB with rfl | rfl | rfl <;> omega
  rw [← ev]
  exact ⟨fun h => R.1 (eqv.1 h), fun h => R.2 (fun hh => h (eqv.2 hh))⟩

/-- `sse2_fill` / `mmx_fill` (`rowProg`, `rep` = the row program and filler replication of either):
for 8, 16 and 32 bpp they return TRUE and the memory is the old one with exactly the rectangle
filled — every x, width, height, stride (also negative) and every alignment of the buffer
(`al`, the machine address of word 0, is a multiple of 4 as `bits` is a `uint32_t *`) -/
theorem simdFill_exact (rowProg : Int → Int → Nat → List Store)
    (hprog : ∀ (al d : Int) (W B : Nat), (B = 1 ∨ B = 2 ∨ B = 4) → (B : Int) ∣ al + d → B ∣ W →
      Done al d W B (rowProg al d W))
    (rep : Nat → Nat → Nat) (hrep : rep = sse2Filler ∨ rep = mmxFiller) (al : Int) (hal : (4 : Int) ∣ al)
    (m : Mem) (bits stride : Int) (bpp : Nat) (x y : Int) (width height filler : Nat)
    (hb : bpp = 8 ∨ bpp = 16 ∨ bpp = 32) :
    (simdFill rowProg rep al m bits stride bpp x y width height filler).1 = true ∧
    FilledExactly m.bit (simdFill rowProg rep al m bits stride bpp x y width height filler).2.bit
      bits stride bpp x y width height filler := by
  unfold simdFill
  rw [if_pos hb]
  refine ⟨rfl, ?_⟩
  simp only []
  rcases hb with rfl | rfl | rfl
  · have := simdRows_exact rowProg hprog rep hrep al hal 1 (Or.inl rfl) filler width height m
      ((bits * (4 / ((8 / 8 : Nat) : Int)) + stride * 4 / ((8 / 8 : Nat) : Int) * y + x) * ((8 / 8 : Nat) : Int))
      (stride * 4 / ((8 / 8 : Nat) : Int) * ((8 / 8 : Nat) : Int)) bits stride x y
      (Int.one_dvd _) (Int.one_dvd _)
      (fun r => by
        unfold rowStart
        have c : ((32 / (8 * 1) : Nat) : Int) = 4 := by decide
        have c1 : ((8 / 8 : Nat) : Int) = 1 := by decide
        rw [c]; try rw [c1]
        have d : stride * 4 / 1 = stride * 4 := by omega
        have d4 : (4 : Int) / 1 = 4 := by decide
        rw [d, d4]; grind)
    exact this
  · have := simdRows_exact rowProg hprog rep hrep al hal 2 (Or.inr (Or.inl rfl)) filler width height m
      ((bits * (4 / ((16 / 8 : Nat) : Int)) + stride * 4 / ((16 / 8 : Nat) : Int) * y + x) * ((16 / 8 : Nat) : Int))
      (stride * 4 / ((16 / 8 : Nat) : Int) * ((16 / 8 : Nat) : Int)) bits stride x y
      (Int.dvd_mul_left _ _) (Int.dvd_mul_left _ _)
      (fun r => by
        unfold rowStart
        have c : ((32 / (8 * 2) : Nat) : Int) = 2 := by decide
        have c1 : ((16 / 8 : Nat) : Int) = 2 := by decide
        rw [c]; try rw [c1]
        have d : stride * 4 / 2 = stride * 2 := by omega
        have d4 : (4 : Int) / 2 = 2 := by decide
        rw [d, d4]; grind)
    exact this
  · have := simdRows_exact rowProg hprog rep hrep al hal 4 (Or.inr (Or.inr rfl)) filler width height m
      ((bits * (4 / ((32 / 8 : Nat) : Int)) + stride * 4 / ((32 / 8 : Nat) : Int) * y + x) * ((32 / 8 : Nat) : Int))
      (stride * 4 / ((32 / 8 : Nat) : Int) * ((32 / 8 : Nat) : Int)) bits stride x y
      (Int.dvd_mul_left _ _) (Int.dvd_mul_left _ _)
      (fun r => by
        unfold rowStart
        have c : ((32 / (8 * 4) : Nat) : Int) = 1 := by decide
        have c1 : ((32 / 8 : Nat) : Int) = 4 := by decide
        rw [c]; try rw [c1]
        have d : stride * 4 / 4 = stride := by omega
        have d4 : (4 : Int) / 4 = 1 := by decide
        rw [d, d4]; grind)
    exact this

/-- `sse2_fill` writes exactly the rectangle -/
theorem sse2Fill_exact (al : Int) (hal : (4 : Int) ∣ al) (m : Mem) (bits stride : Int) (bpp : Nat)
    (x y : Int) (width height filler : Nat) (hb : bpp = 8 ∨ bpp = 16 ∨ bpp = 32) :
    (sse2Fill al m bits stride bpp x y width height filler).1 = true ∧
    FilledExactly m.bit (sse2Fill al m bits stride bpp x y width height filler).2.bit
      bits stride bpp x y width height filler :=
  simdFill_exact sse2FillRow sse2FillRow_done sse2Filler (Or.inl rfl) al hal m bits stride bpp x y
    width height filler hb

/-- `mmx_fill` writes exactly the rectangle -/
theorem mmxFill_exact (al : Int) (hal : (4 : Int) ∣ al) (m : Mem) (bits stride : Int) (bpp : Nat)
    (x y : Int) (width height filler : Nat) (hb : bpp = 8 ∨ bpp = 16 ∨ bpp = 32) :
    (mmxFill al m bits stride bpp x y width height filler).1 = true ∧
    FilledExactly m.bit (mmxFill al m bits stride bpp x y width height filler).2.bit
      bits stride bpp x y width height filler :=
  simdFill_exact mmxFillRow mmxFillRow_done mmxFiller (Or.inr rfl) al hal m bits stride bpp x y
    width height filler hb

example := sse2Fill_exact 12 ⟨3, rfl⟩ (.init fun _ => 0) 7 (-5) 16 3 1 40 3 0xabcd (Or.inr (Or.inl rfl))

/-- `sse2_fill` / `mmx_fill`: any depth other than 8, 16, 32 is declined with the memory untouched -/
theorem simdFill_unsupported (rowProg : Int → Int → Nat → List Store) (rep : Nat → Nat → Nat) (al : Int)
    (m : Mem) (bits stride : Int) (bpp : Nat) (x y : Int) (width height filler : Nat)
    (hb : bpp ≠ 8 ∧ bpp ≠ 16 ∧ bpp ≠ 32) :
    simdFill rowProg rep al m bits stride bpp x y width height filler = (false, m) := by
  unfold simdFill
  rw [if_neg (by omega)]

/-- `sse2_blt` / `mmx_blt`: different depths, or a depth other than 16 and 32: FALSE, destination
untouched -/
theorem simdBlt_declines (rowProg : Int → Int → Nat → List Store) (al : Int) (src dst : Mem)
    (sb db ss ds : Int) (sbpp dbpp : Nat) (sx sy dx dy : Int) (w h : Nat)
    (hb : sbpp ≠ dbpp ∨ (sbpp ≠ 16 ∧ sbpp ≠ 32)) :
    simdBlt rowProg al src dst sb db ss ds sbpp dbpp sx sy dx dy w h = (false, dst) := by
  unfold simdBlt
  by_cases h1 : sbpp ≠ dbpp
  · rw [if_pos h1]
  · rw [if_neg h1, if_neg (by omega)]

/-- the row loop of a SIMD blt copies exactly the rectangle -/
theorem bltRows_exact (rowProg : Int → Int → Nat → List Store)
    (hprog : ∀ (al d : Int) (W B : Nat), (B = 2 ∨ B = 4) → (B : Int) ∣ al + d → B ∣ W →
      Done al d W B (rowProg al d W))
    (al : Int) (hal : (4 : Int) ∣ al) (B : Nat) (hB : B = 2 ∨ B = 4) (src m : Mem) (w h : Nat)
    (s0 d0 ssB dsB sbits sstride dbits dstride sx sy dx dy : Int)
    (hd0 : (B : Int) ∣ d0) (hds : (B : Int) ∣ dsB)
    (hsd : ∀ r : Nat, d0 + r * dsB = rowStart dbits dstride (8 * B) dx dy r * B)
    (hss : ∀ r : Nat, s0 + r * ssB = rowStart sbits sstride (8 * B) sx sy r * B) :
    CopiedExactly src.bit m.bit (bltRows rowProg al src (B * w) ssB dsB h m s0 d0).bit sbits sstride
      dbits dstride (8 * B) sx sy dx dy w h := by
  intro i
  have h2 : ∀ z : Int, (B : Int) ∣ z → (2 : Int) ∣ z := by
    intro z hz; rcases hB with rfl | rfl <;> omega
  have hT : ∀ d : Int, (2 : Int) ∣ d → Tiles d (rowProg al d (B * w)) (d + (B * w : Nat)) := by
    intro d hd
    have h2w : 2 ∣ B * w := by rcases hB with rfl | rfl <;> omega
    exact (hprog al d (B * w) 2 (Or.inl rfl) (by omega) h2w).tiles
  obtain ⟨R1, R2⟩ := bltRows_bit rowProg al src (B * w) ssB dsB hT (h2 _ hds) i h m s0 d0 (h2 _ hd0)
  have cov : ∀ r : Nat, (d0 + r * dsB ≤ i / 8 ∧ i / 8 < d0 + r * dsB + (B * w : Nat)) ↔
      (rowStart dbits dstride (8 * B) dx dy r ≤ i / ((8 * B : Nat) : Int) ∧
        i / ((8 * B : Nat) : Int) < rowStart dbits dstride (8 * B) dx dy r + w) := by
    intro r
    rw [hsd r]
    generalize rowStart dbits dstride (8 * B) dx dy r = rs
    rcases hB with rfl | rfl <;> omega
  constructor
  · intro hn
    apply R1
    rintro ⟨r, hr, hc⟩
    exact hn ⟨r, hr, (cov r).1 hc⟩
  · intro r hr hc hlater
    rw [R2 r hr ((cov r).2 hc) (fun r' h1 h2' hc' => hlater r' h1 h2' ((cov r').1 hc')), hsd r, hss r]
    generalize rowStart dbits dstride (8 * B) dx dy r = rd
    generalize rowStart sbits sstride (8 * B) sx sy r = rs
    congr 1
    rcases hB with rfl | rfl <;> omega

/-- `sse2_blt` / `mmx_blt` (`rowProg` = the row program of either) for equal depths 16 or 32:
TRUE, and the destination is the old one with exactly the rectangle copied from the source buffer —
every offset, width, height, pair of strides (also negative), every alignment -/
theorem simdBlt_exact (rowProg : Int → Int → Nat → List Store)
    (hprog : ∀ (al d : Int) (W B : Nat), (B = 2 ∨ B = 4) → (B : Int) ∣ al + d → B ∣ W →
      Done al d W B (rowProg al d W))
    (al : Int) (hal : (4 : Int) ∣ al) (src dst : Mem) (sb db ss ds : Int) (bpp : Nat)
    (sx sy dx dy : Int) (w h : Nat) (hb : bpp = 16 ∨ bpp = 32) :
    (simdBlt rowProg al src dst sb db ss ds bpp bpp sx sy dx dy w h).1 = true ∧
    CopiedExactly src.bit dst.bit (simdBlt rowProg al src dst sb db ss ds bpp bpp sx sy dx dy w h).2.bit
      sb ss db ds bpp sx sy dx dy w h := by
  unfold simdBlt
  rw [if_neg (by simp), if_pos hb]
  refine ⟨rfl, ?_⟩
  simp only []
  rcases hb with rfl | rfl
  · exact bltRows_exact rowProg hprog al hal 2 (Or.inl rfl) src dst w h _ _ _ _ sb ss db ds sx sy dx dy
      (Int.dvd_mul_left _ _) (Int.dvd_mul_left _ _)
      (fun r => by
        unfold rowStart
        have c : ((32 / (8 * 2) : Nat) : Int) = 2 := by decide
        have c1 : ((16 / 8 : Nat) : Int) = 2 := by decide
        rw [c]; try rw [c1]
        have d : ds * 4 / 2 = ds * 2 := by omega
        have d4 : (4 : Int) / 2 = 2 := by decide
        rw [d, d4]; grind)
      (fun r => by
        unfold rowStart
        have c : ((32 / (8 * 2) : Nat) : Int) = 2 := by decide
        have c1 : ((16 / 8 : Nat) : Int) = 2 := by decide
        rw [c]; try rw [c1]
        have d : ss * 4 / 2 = ss * 2 := by omega
        have d4 : (4 : Int) / 2 = 2 := by decide
        rw [d, d4]; grind)
  · exact bltRows_exact rowProg hprog al hal 4 (Or.inr rfl) src dst w h _ _ _ _ sb ss db ds sx sy dx dy
      (Int.dvd_mul_left _ _) (Int.dvd_mul_left _ _)
      (fun r => by
        unfold rowStart
        have c : ((32 / (8 * 4) : Nat) : Int) = 1 := by decide
        have c1 : ((32 / 8 : Nat) : Int) = 4 := by decide
        rw [c]; try rw [c1]
        have d : ds * 4 / 4 = ds := by omega
        have d4 : (4 : Int) / 4 = 1 := by decide
        rw [d, d4]; grind)
      (fun r => by
        unfold rowStart
        have c : ((32 / (8 * 4) : Nat) : Int) = 1 := by decide
        have c1 : ((32 / 8 : Nat) : Int) = 4 := by decide
        rw [c]; try rw [c1]
        have d : ss * 4 / 4 = ss := by omega
        have d4 : (4 : Int) / 4 = 1 := by decide
        rw [d, d4]; grind)

/-- `sse2_blt` copies exactly the rectangle -/
theorem sse2Blt_exact (al : Int) (hal : (4 : Int) ∣ al) (src dst : Mem) (sb db ss ds : Int) (bpp : Nat)
    (sx sy dx dy : Int) (w h : Nat) (hb : bpp = 16 ∨ bpp = 32) :
    (sse2Blt al src dst sb db ss ds bpp bpp sx sy dx dy w h).1 = true ∧
    CopiedExactly src.bit dst.bit (sse2Blt al src dst sb db ss ds bpp bpp sx sy dx dy w h).2.bit
      sb ss db ds bpp sx sy dx dy w h :=
  simdBlt_exact sse2BltRow (fun al d W B hB => sse2BltRow_done al d W B hB) al hal src dst sb db ss ds
    bpp sx sy dx dy w h hb

/-- `mmx_blt` copies exactly the rectangle -/
theorem mmxBlt_exact (al : Int) (hal : (4 : Int) ∣ al) (src dst : Mem) (sb db ss ds : Int) (bpp : Nat)
    (sx sy dx dy : Int) (w h : Nat) (hb : bpp = 16 ∨ bpp = 32) :
    (mmxBlt al src dst sb db ss ds bpp bpp sx sy dx dy w h).1 = true ∧
    CopiedExactly src.bit dst.bit (mmxBlt al src dst sb db ss ds bpp bpp sx sy dx dy w h).2.bit
      sb ss db ds bpp sx sy dx dy w h :=
  simdBlt_exact mmxBltRow (fun al d W B hB => mmxBltRow_done al d W B hB) al hal src dst sb db ss ds
    bpp sx sy dx dy w h hb

example := sse2Blt_exact 8 ⟨2, rfl⟩ (.init fun i => i.toNat) (.init fun _ => 0) 5 9 7 (-6) 16 3 1 11 2 33 3
  (Or.inl rfl)

/-! ## the delegation chain -/

/-- every implementation's `fill` either accepts or leaves the memory as it was -/
theorem implFill_false_unchanged (al : Int) (imp : Impl) (f) (hf : imp.fill al = some f) (m : Mem)
    (bits stride : Int) (bpp : Nat) (x y : Int) (w h filler : Nat)
    (hr : (f m bits stride bpp x y w h filler).1 = false) :
    (f m bits stride bpp x y w h filler).2 = m := by
  cases imp <;> simp only [Impl.fill, Option.some.injEq, reduceCtorEq] at hf
  · subst hf
    revert hr; unfold sse2Fill simdFill
    by_cases hb : bpp = 8 ∨ bpp = 16 ∨ bpp = 32
    · rw [if_pos hb]; intro hr; cases hr
    · rw [if_neg hb]; intro _; rfl
  · subst hf
    revert hr; unfold mmxFill simdFill
    by_cases hb : bpp = 8 ∨ bpp = 16 ∨ bpp = 32
    · rw [if_pos hb]; intro hr; cases hr
    · rw [if_neg hb]; intro _; rfl
  · subst hf
    revert hr; unfold fastPathFill
    split <;> intro hr <;> first | rfl | cases hr

/-- `_pixman_implementation_fill` returns FALSE only when every implementation declined, and then
nothing was written -/
theorem implementationFill_false_unchanged (al : Int) (chain : List Impl) (m : Mem)
    (bits stride : Int) (bpp : Nat) (x y : Int) (w h filler : Nat)
    (hr : (implementationFill al chain m bits stride bpp x y w h filler).1 = false) :
    (implementationFill al chain m bits stride bpp x y w h filler).2 = m := by
  induction chain generalizing m with
  | nil => rfl
  | cons imp rest ih =>
    unfold implementationFill at hr ⊢
    cases hf : imp.fill al with
    | none => simp only [hf] at hr ⊢; exact ih m hr
    | some f =>
      simp only [hf] at hr ⊢
      by_cases h1 : (f m bits stride bpp x y w h filler).1 = true
      · rw [if_pos h1] at hr; cases hr
      · rw [if_neg h1] at hr ⊢
        have h2 : (f m bits stride bpp x y w h filler).1 = false := by
          cases hh : (f m bits stride bpp x y w h filler).1 <;> simp_all
        have h3 := implFill_false_unchanged al imp f hf m bits stride bpp x y w h filler h2
        rw [h3] at hr ⊢
        exact ih m hr

/-- the result of the chain is the result of the first implementation that accepts -/
theorem implementationFill_exact (al : Int) (chain : List Impl) (m : Mem)
    (bits stride : Int) (bpp : Nat) (x y : Int) (w h filler : Nat)
    (hr : (implementationFill al chain m bits stride bpp x y w h filler).1 = true) :
    ∃ imp ∈ chain, ∃ f, imp.fill al = some f ∧ (f m bits stride bpp x y w h filler).1 = true ∧
      (implementationFill al chain m bits stride bpp x y w h filler).2 =
        (f m bits stride bpp x y w h filler).2 := by
  induction chain generalizing m with
  | nil => cases hr
  | cons imp rest ih =>
    unfold implementationFill at hr ⊢
    cases hf : imp.fill al with
    | none =>
      simp only [hf] at hr ⊢
      obtain ⟨i, hi, f, h1, h2, h3⟩ := ih m hr
      exact ⟨i, List.mem_cons_of_mem _ hi, f, h1, h2, h3⟩
    | some f =>
      simp only [hf] at hr ⊢
      by_cases h1 : (f m bits stride bpp x y w h filler).1 = true
      · rw [if_pos h1]
        exact ⟨imp, List.mem_cons_self, f, hf, h1, rfl⟩
      · rw [if_neg h1] at hr ⊢
        have h2 : (f m bits stride bpp x y w h filler).1 = false := by
          cases hh : (f m bits stride bpp x y w h filler).1 <;> simp_all
        have h3 := implFill_false_unchanged al imp f hf m bits stride bpp x y w h filler h2
        rw [h3] at hr ⊢
        obtain ⟨i, hi, g, g1, g2, g3⟩ := ih m hr
        exact ⟨i, List.mem_cons_of_mem _ hi, g, g1, g2, g3⟩

/-- **pixman_fill** on any implementation chain (`al`: machine address of word 0, a multiple of 4):
TRUE means the memory is the old one with exactly the rectangle filled with the filler narrowed to
`bpp` bits; FALSE means nothing changed (`implementationFill_false_unchanged`) -/
theorem pixmanFill_true_exact (al : Int) (hal : (4 : Int) ∣ al) (chain : List Impl) (m : Mem)
    (bits stride : Int) (bpp : Nat) (x y : Int) (w h filler : Nat)
    (hr : (pixmanFill al chain m bits stride bpp x y w h filler).1 = true) :
    FilledExactly m.bit (pixmanFill al chain m bits stride bpp x y w h filler).2.bit bits stride bpp
      x y w h filler := by
  obtain ⟨imp, _, f, hf, h1, h2⟩ := implementationFill_exact al chain m bits stride bpp x y w h filler hr
  unfold pixmanFill
  rw [h2]
  cases imp <;> simp only [Impl.fill, Option.some.injEq, reduceCtorEq] at hf
  · subst hf
    by_cases hb : bpp = 8 ∨ bpp = 16 ∨ bpp = 32
    · exact (sse2Fill_exact al hal m bits stride bpp x y w h filler hb).2
    · rw [show sse2Fill = simdFill sse2FillRow sse2Filler from rfl,
        simdFill_unsupported _ _ _ _ _ _ _ _ _ _ _ _ (by omega)] at h1
      cases h1
  · subst hf
    by_cases hb : bpp = 8 ∨ bpp = 16 ∨ bpp = 32
    · exact (mmxFill_exact al hal m bits stride bpp x y w h filler hb).2
    · rw [show mmxFill = simdFill mmxFillRow mmxFiller from rfl,
        simdFill_unsupported _ _ _ _ _ _ _ _ _ _ _ _ (by omega)] at h1
      cases h1
  · subst hf
    by_cases hb : bpp = 1 ∨ bpp = 8 ∨ bpp = 16 ∨ bpp = 32
    · exact (fastPathFill_exact m bits stride bpp x y w h filler hb).2
    · rw [fastPathFill_unsupported _ _ _ _ _ _ _ _ _ (by omega)] at h1
      cases h1

/-- with only the general implementation left (`PIXMAN_DISABLE="fast mmx sse2 ssse3"`) `pixman_fill`
declines every request and writes nothing -/
theorem pixmanFill_general_declines (al : Int) (m : Mem) (bits stride : Int) (bpp : Nat) (x y : Int)
    (w h filler : Nat) :
    pixmanFill al (chainOf ["fast", "mmx", "sse2", "ssse3"]) m bits stride bpp x y w h filler =
      (false, m) := by
  have : chainOf ["fast", "mmx", "sse2", "ssse3"] = [.noop, .general] := by decide
  rw [this]; rfl

example : chainOf [] = [.noop, .ssse3, .sse2, .mmx, .fast, .general] := by decide
example : chainOf ["ssse3", "sse2", "mmx"] = [.noop, .fast, .general] := by decide

/-- every implementation's `blt` either accepts or leaves the destination as it was -/
theorem implementationBlt_false_unchanged (al : Int) (chain : List Impl) (s d : Mem)
    (sb db ss ds : Int) (sbpp dbpp : Nat) (sx sy dx dy : Int) (w h : Nat)
    (hr : (implementationBlt al chain s d sb db ss ds sbpp dbpp sx sy dx dy w h).1 = false) :
    (implementationBlt al chain s d sb db ss ds sbpp dbpp sx sy dx dy w h).2 = d := by
  have key : ∀ (rowProg : Int → Int → Nat → List Store) (d : Mem),
      (simdBlt rowProg al s d sb db ss ds sbpp dbpp sx sy dx dy w h).1 = false →
      (simdBlt rowProg al s d sb db ss ds sbpp dbpp sx sy dx dy w h).2 = d := by
    intro rowProg d hr
    revert hr; unfold simdBlt
    by_cases h1 : sbpp ≠ dbpp
    · rw [if_pos h1]; intro _; rfl
    · rw [if_neg h1]
      by_cases h2 : sbpp = 16 ∨ sbpp = 32
      · rw [if_pos h2]; intro hr; cases hr
      · rw [if_neg h2]; intro _; rfl
  induction chain generalizing d with
  | nil => rfl
  | cons imp rest ih =>
    unfold implementationBlt at hr ⊢
    cases imp <;> simp only [Impl.blt] at hr ⊢
    case sse2 =>
      by_cases h1 : (sse2Blt al s d sb db ss ds sbpp dbpp sx sy dx dy w h).1 = true
      · rw [if_pos h1] at hr; cases hr
      · rw [if_neg h1] at hr ⊢
        have h2 : (sse2Blt al s d sb db ss ds sbpp dbpp sx sy dx dy w h).1 = false := by
          cases hh : (sse2Blt al s d sb db ss ds sbpp dbpp sx sy dx dy w h).1 <;> simp_all
        have h3 := key sse2BltRow d h2
        unfold sse2Blt at hr ⊢
        rw [h3] at hr ⊢
        exact ih d hr
    case mmx =>
      by_cases h1 : (mmxBlt al s d sb db ss ds sbpp dbpp sx sy dx dy w h).1 = true
      · rw [if_pos h1] at hr; cases hr
      · rw [if_neg h1] at hr ⊢
        have h2 : (mmxBlt al s d sb db ss ds sbpp dbpp sx sy dx dy w h).1 = false := by
          cases hh : (mmxBlt al s d sb db ss ds sbpp dbpp sx sy dx dy w h).1 <;> simp_all
        have h3 := key mmxBltRow d h2
        unfold mmxBlt at hr ⊢
        rw [h3] at hr ⊢
        exact ih d hr
    all_goals exact ih d hr

/-- a declining SIMD blt leaves the destination as it was -/
theorem simdBlt_false_unchanged (rowProg : Int → Int → Nat → List Store) (al : Int) (s d : Mem)
    (sb db ss ds : Int) (sbpp dbpp : Nat) (sx sy dx dy : Int) (w h : Nat)
    (hr : (simdBlt rowProg al s d sb db ss ds sbpp dbpp sx sy dx dy w h).1 = false) :
    (simdBlt rowProg al s d sb db ss ds sbpp dbpp sx sy dx dy w h).2 = d := by
  revert hr; unfold simdBlt
  by_cases h1 : sbpp ≠ dbpp
  · rw [if_pos h1]; intro _; rfl
  · rw [if_neg h1]
    by_cases h2 : sbpp = 16 ∨ sbpp = 32
    · rw [if_pos h2]; intro hr; cases hr
    · rw [if_neg h2]; intro _; rfl

/-- an accepting SIMD blt had equal depths of 16 or 32 bits -/
theorem simdBlt_true (rowProg : Int → Int → Nat → List Store) (al : Int) (src dst : Mem)
    (sb db ss ds : Int) (sbpp dbpp : Nat) (sx sy dx dy : Int) (w h : Nat)
    (hr : (simdBlt rowProg al src dst sb db ss ds sbpp dbpp sx sy dx dy w h).1 = true) :
    sbpp = dbpp ∧ (sbpp = 16 ∨ sbpp = 32) := by
  by_cases h1 : sbpp ≠ dbpp
  · rw [simdBlt_declines _ _ _ _ _ _ _ _ _ _ _ _ _ _ _ _ (Or.inl h1)] at hr; cases hr
  · by_cases h2 : sbpp = 16 ∨ sbpp = 32
    · exact ⟨by omega, h2⟩
    · rw [simdBlt_declines _ _ _ _ _ _ _ _ _ _ _ _ _ _ _ _ (Or.inr (by omega))] at hr; cases hr

/-- **pixman_blt** on any implementation chain, source and destination in different buffers: TRUE
means equal depths (16 or 32) and the destination is the old one with exactly the rectangle copied;
FALSE means nothing changed (`implementationBlt_false_unchanged`) -/
theorem pixmanBlt_true_exact (al : Int) (hal : (4 : Int) ∣ al) (chain : List Impl) (s d : Mem)
    (sb db ss ds : Int) (sbpp dbpp : Nat) (sx sy dx dy : Int) (w h : Nat)
    (hr : (pixmanBlt al chain s d sb db ss ds sbpp dbpp sx sy dx dy w h).1 = true) :
    sbpp = dbpp ∧ (sbpp = 16 ∨ sbpp = 32) ∧
    CopiedExactly s.bit d.bit (pixmanBlt al chain s d sb db ss ds sbpp dbpp sx sy dx dy w h).2.bit
      sb ss db ds sbpp sx sy dx dy w h := by
  unfold pixmanBlt at hr ⊢
  induction chain with
  | nil => cases hr
  | cons imp rest ih =>
    unfold implementationBlt at hr ⊢
    cases imp <;> simp only [Impl.blt] at hr ⊢
    case sse2 =>
      by_cases h1 : (sse2Blt al s d sb db ss ds sbpp dbpp sx sy dx dy w h).1 = true
      · rw [if_pos h1]
        obtain ⟨e, hb⟩ := simdBlt_true sse2BltRow al s d sb db ss ds sbpp dbpp sx sy dx dy w h h1
        subst e
        exact ⟨rfl, hb, (sse2Blt_exact al hal s d sb db ss ds sbpp sx sy dx dy w h hb).2⟩
      · rw [if_neg h1] at hr ⊢
        have h2 : (sse2Blt al s d sb db ss ds sbpp dbpp sx sy dx dy w h).1 = false := by
          cases hh : (sse2Blt al s d sb db ss ds sbpp dbpp sx sy dx dy w h).1 <;> simp_all
        have h3 : (sse2Blt al s d sb db ss ds sbpp dbpp sx sy dx dy w h).2 = d :=
          simdBlt_false_unchanged sse2BltRow al s d sb db ss ds sbpp dbpp sx sy dx dy w h h2
        rw [h3] at hr ⊢
        exact ih hr
    case mmx =>
      by_cases h1 : (mmxBlt al s d sb db ss ds sbpp dbpp sx sy dx dy w h).1 = true
      · rw [if_pos h1]
        obtain ⟨e, hb⟩ := simdBlt_true mmxBltRow al s d sb db ss ds sbpp dbpp sx sy dx dy w h h1
        subst e
        exact ⟨rfl, hb, (mmxBlt_exact al hal s d sb db ss ds sbpp sx sy dx dy w h hb).2⟩
      · rw [if_neg h1] at hr ⊢
        have h2 : (mmxBlt al s d sb db ss ds sbpp dbpp sx sy dx dy w h).1 = false := by
          cases hh : (mmxBlt al s d sb db ss ds sbpp dbpp sx sy dx dy w h).1 <;> simp_all
        have h3 : (mmxBlt al s d sb db ss ds sbpp dbpp sx sy dx dy w h).2 = d :=
          simdBlt_false_unchanged mmxBltRow al s d sb db ss ds sbpp dbpp sx sy dx dy w h h2
        rw [h3] at hr ⊢
        exact ih hr
    all_goals exact ih hr

/-- no implementation of the chain copies without MMX/SSE2: `pixman_blt` declines -/
theorem pixmanBlt_fast_declines (al : Int) (s d : Mem) (sb db ss ds : Int) (sbpp dbpp : Nat)
    (sx sy dx dy : Int) (w h : Nat) :
    pixmanBlt al (chainOf ["ssse3", "sse2", "mmx"]) s d sb db ss ds sbpp dbpp sx sy dx dy w h = (false, d) := by
  have : chainOf ["ssse3", "sse2", "mmx"] = [.noop, .fast, .general] := by decide
  rw [this]; rfl

/-! ## pixman_image_fill_boxes: operator reduction, rect → box -/

/-- the operator reduction: CLEAR is SRC with the zero colour, OVER with an opaque colour is SRC,
everything else is left alone -/
theorem reduceOp_cases (op : Nat) (c : Color) :
    (op = OP_CLEAR → reduceOp op c = (OP_SRC, ⟨0, 0, 0, 0⟩)) ∧
    (op = OP_OVER → c.alpha = 0xffff → reduceOp op c = (OP_SRC, c)) ∧
    (op = OP_OVER → c.alpha ≠ 0xffff → reduceOp op c = (OP_OVER, c)) ∧
    (op ≠ OP_CLEAR → op ≠ OP_OVER → reduceOp op c = (op, c)) := by
  unfold reduceOp OP_CLEAR OP_SRC OP_OVER
  refine ⟨?_, ?_, ?_, ?_⟩
  · rintro rfl; by_cases h : c.alpha = 0xffff <;> simp [h]
  · rintro rfl h; simp [h]
  · rintro rfl h; simp [h]
  · intro h1 h2; by_cases h : c.alpha = 0xffff <;> simp [h, h1, h2]

/-- the region the direct-fill shortcut fills is exactly (union of the boxes) ∩ image bounds ∩ clip
— the intersection with the bounds is what d5a0451 added.  (Region algebra: C05.) -/
theorem fillRegion_exact (img : Image) (boxes : List Pixman.Region.Box)
    (hr : ∀ b ∈ boxes, Pixman.Region.BoxInRange Pixman.Region.c32 b)
    (hw : (img.width : Int) ≤ 2147483647) (hh : (img.height : Int) ≤ 2147483647)
    (hclip : ∀ c, img.clip = some c → Pixman.Region.Canon c) :
    ∃ reg, fillRegion img boxes = some reg ∧ Pixman.Region.Canon reg ∧
      ∀ x y : Int, reg.Mem x y ↔
        (Pixman.Region.MemL boxes x y ∧ (0 ≤ x ∧ x < img.width ∧ 0 ≤ y ∧ y < img.height) ∧
          ∀ c, img.clip = some c → c.Mem x y) := by
  obtain ⟨a1, a2, a3⟩ := Pixman.Props.C05.initRects_exact Pixman.Region.c32 (by decide) (by decide) boxes hr
  obtain ⟨b1, b2, b3⟩ := Pixman.Props.C05.intersectRect_exact Pixman.Region.c32
    (Pixman.Region.initRects Pixman.Region.c32 boxes).1 (Pixman.Region.initRects Pixman.Region.c32 boxes).1
    0 0 img.width img.height a2
  have hbox : Pixman.Region.rectBox Pixman.Region.c32 0 0 img.width img.height =
      ⟨0, 0, 0 + img.width, 0 + img.height⟩ :=
    Pixman.Region.rectBox_inRange Pixman.Region.c32 (by decide) 0 0 img.width img.height (by decide)
      (by decide) (by simp only [Pixman.Region.Cfg.max, Pixman.Region.c32]; omega)
      (by simp only [Pixman.Region.Cfg.max, Pixman.Region.c32]; omega)
  have hbm : ∀ x y : Int, (Pixman.Region.rectBox Pixman.Region.c32 0 0 img.width img.height).Mem x y ↔
      (0 ≤ x ∧ x < img.width ∧ 0 ≤ y ∧ y < img.height) := by
    intro x y; rw [hbox]; simp only [Pixman.Region.Box.Mem]; omega
  unfold fillRegion
  simp only [a1, b1, Bool.not_true, Bool.false_eq_true, if_false]
  cases hc : img.clip with
  | none =>
    refine ⟨_, rfl, b2, ?_⟩
    intro x y
    rw [b3 x y, a3 x y, hbm x y]
    constructor
    · rintro ⟨h1, h2⟩; exact ⟨h1, h2, fun c hcc => by cases hcc⟩
    · rintro ⟨h1, h2, _⟩; exact ⟨h1, h2⟩
  | some c =>
    have hcan := hclip c hc
    obtain ⟨c1, c2, c3⟩ := Pixman.Props.C05.intersect_exact false
      (Pixman.Region.intersectRect Pixman.Region.c32 (Pixman.Region.initRects Pixman.Region.c32 boxes).1
        (Pixman.Region.initRects Pixman.Region.c32 boxes).1 0 0 img.width img.height).1
      (Pixman.Region.intersectRect Pixman.Region.c32 (Pixman.Region.initRects Pixman.Region.c32 boxes).1
        (Pixman.Region.initRects Pixman.Region.c32 boxes).1 0 0 img.width img.height).1 c b2 hcan
      (fun e => by cases e)
    simp only [c1, Bool.not_true, Bool.false_eq_true, if_false]
    refine ⟨_, rfl, c2, ?_⟩
    intro x y
    rw [c3 x y, b3 x y, a3 x y, hbm x y]
    constructor
    · rintro ⟨⟨h1, h2⟩, h3⟩; exact ⟨h1, h2, fun c' hcc => by cases hcc; exact h3⟩
    · rintro ⟨h1, h2, h3⟩; exact ⟨⟨h1, h2⟩, h3 c rfl⟩

/-! ## colours -/

/-- `color_to_pixel` accepts exactly the twelve listed formats -/
theorem colorToPixel_accepts (c : Color) (format : Nat) :
    (colorToPixel c format).isSome = acceptedFormats.contains format := by
  unfold colorToPixel
  by_cases h : acceptedFormats.contains format = true
  · have hm : format ∈ acceptedFormats := List.contains_iff_mem.1 h
    have hf : formatType format ≠ TYPE_RGBA_FLOAT := by
      simp only [acceptedFormats, List.mem_cons, List.not_mem_nil, or_false] at hm
      rcases hm with rfl | rfl | rfl | rfl | rfl | rfl | rfl | rfl | rfl | rfl | rfl | rfl <;> decide
    simp only [hf, h, if_false, Bool.not_true, Bool.false_eq_true, Option.isSome_some]
  · have h' : acceptedFormats.contains format = false := by
      cases hh : acceptedFormats.contains format <;> simp_all
    by_cases hf : formatType format = TYPE_RGBA_FLOAT
    · simp only [hf, if_true, Option.isSome_none, h']
    · simp only [hf, if_false, h', Bool.not_false, if_true, Option.isSome_none]

/-- the accepted formats have the depths the fills support (or 1 bpp: only `fast_path_fill`) -/
theorem acceptedFormats_bpp : ∀ f ∈ acceptedFormats, formatBpp f = 32 ∨ formatBpp f = 16 ∨
    formatBpp f = 8 ∨ formatBpp f = 1 := by decide

example : (colorToPixel ⟨0xffff, 0x8000, 0, 0xffff⟩ PIXMAN_r5g6b5) = some 0xfc00 ∧
    (colorToPixel ⟨0xffff, 0x8000, 0, 0xffff⟩ PIXMAN_a8b8g8r8) = some 0xff0080ff ∧
    (colorToPixel ⟨0xffff, 0x8000, 0, 0xffff⟩ PIXMAN_b8g8r8a8) = some 0x0080ffff ∧
    (colorToPixel ⟨0, 0, 0, 0x8000⟩ PIXMAN_a1) = some 1 ∧
    (colorToPixel ⟨0, 0, 0, 0x8000⟩ (pixmanFormat 32 TYPE_ARGB 2 10 10 10)) = none := by decide

/-- a pixel index lies in one of the rectangles of the list -/
def InRects (img : Image) (rects : List Pixman.Region.Box) (p : Int) : Prop :=
  ∃ r ∈ rects, InRect img.bits img.rowstride (formatBpp img.format) r.x1 r.y1 (r.x2 - r.x1).toNat
    (r.y2 - r.y1).toNat p

/-- the loop over the rectangles of the fill region: when it reports success, exactly the pixels
of the rectangles hold `pixel` narrowed to the depth, every other bit is unchanged -/
theorem fillRects_exact (al : Int) (hal : (4 : Int) ∣ al) (chain : List Impl) (img : Image)
    (pixel : Nat) (rects : List Pixman.Region.Box) (m : Mem)
    (hr : (fillRects al chain img pixel rects m).1 = true) (i : Int) :
    (InRects img rects (i / (formatBpp img.format : Int)) →
      (fillRects al chain img pixel rects m).2.bit i =
        pixel.testBit (i % (formatBpp img.format : Int)).toNat) ∧
    (¬ InRects img rects (i / (formatBpp img.format : Int)) →
      (fillRects al chain img pixel rects m).2.bit i = m.bit i) := by
  induction rects generalizing m with
  | nil =>
    exact ⟨fun ⟨r, hr', _⟩ => absurd hr' (by simp), fun _ => rfl⟩
  | cons r rest ih =>
    unfold fillRects at hr ⊢
    simp only [] at hr ⊢
    by_cases h1 : (pixmanFill al chain m img.bits img.rowstride (formatBpp img.format) r.x1 r.y1
        (r.x2 - r.x1).toNat (r.y2 - r.y1).toNat pixel).1 = true
    · rw [if_pos h1] at hr ⊢
      have F := pixmanFill_true_exact al hal chain m img.bits img.rowstride (formatBpp img.format)
        r.x1 r.y1 (r.x2 - r.x1).toNat (r.y2 - r.y1).toNat pixel h1 i
      obtain ⟨ih1, ih2⟩ := ih _ hr
      constructor
      · rintro ⟨r', hr', hin⟩
        by_cases hq : InRects img rest (i / (formatBpp img.format : Int))
        · exact ih1 hq
        · rw [ih2 hq]
          rcases List.mem_cons.1 hr' with rfl | hmem
          · exact F.1 hin
          · exact absurd ⟨r', hmem, hin⟩ hq
      · intro hn
        have hq : ¬ InRects img rest (i / (formatBpp img.format : Int)) :=
          fun ⟨r', hr', hin⟩ => hn ⟨r', List.mem_cons_of_mem _ hr', hin⟩
        rw [ih2 hq]
        exact F.2 (fun hin => hn ⟨r, List.mem_cons_self, hin⟩)
    · rw [if_neg h1] at hr; cases hr

/-- **the direct-fill shortcut of pixman_image_fill_boxes** (after the operator reduction the
operator is SRC, `color_to_pixel` accepts the format, the chain fills the depth): the call returns
TRUE and the memory is the old one with exactly the pixels of (boxes ∩ image bounds ∩ clip)
— see `fillRegion_exact` — set to `color_to_pixel (colour)`; nothing else changes -/
theorem fillBoxes_shortcut_exact (al : Int) (hal : (4 : Int) ∣ al) (chain : List Impl) (op : Nat)
    (img : Image) (color : Color) (boxes : List Pixman.Region.Box) (m : Mem) (pixel : Nat)
    (reg : Pixman.Region.Region)
    (hop : (reduceOp op color).1 = OP_SRC)
    (hpix : colorToPixel (reduceOp op color).2 img.format = some pixel)
    (hreg : fillRegion img boxes = some reg)
    (hfill : (fillRects al chain img pixel reg.rects m).1 = true) :
    ∃ m', fillBoxes al chain op img color boxes m = some (true, m') ∧
      ∀ i : Int,
        (InRects img reg.rects (i / (formatBpp img.format : Int)) →
          m'.bit i = pixel.testBit (i % (formatBpp img.format : Int)).toNat) ∧
        (¬ InRects img reg.rects (i / (formatBpp img.format : Int)) → m'.bit i = m.bit i) := by
  refine ⟨(fillRects al chain img pixel reg.rects m).2, ?_, fillRects_exact al hal chain img pixel
    reg.rects m hfill⟩
  unfold fillBoxes
  generalize reduceOp op color = rc at hop hpix ⊢
  obtain ⟨op', c'⟩ := rc
  simp only [] at hop hpix
  simp only [hop, hpix, hreg, hfill, if_true]

/-- when `pixman_fill` declines (no implementation fills the depth: d1db8ab) or the format is not
one `color_to_pixel` accepts, `pixman_image_fill_boxes` composites the solid over each box -/
theorem fillBoxes_fallback (al : Int) (chain : List Impl) (op : Nat) (img : Image) (color : Color)
    (boxes : List Pixman.Region.Box) (m : Mem)
    (h : (reduceOp op color).1 ≠ OP_SRC ∨ colorToPixel (reduceOp op color).2 img.format = none) :
    fillBoxes al chain op img color boxes m =
      match fmtOfCode img.format with
      | none => none
      | some f =>
        (boxes.foldlM (init := m) fun m b =>
          compositeCut img f (reduceOp op color).1 ((reduceOp op color).2.alpha = 0xffff)
            (colorToUint32 (reduceOp op color).2) b m).map fun m => (true, m) := by
  unfold fillBoxes
  generalize reduceOp op color = rc at h ⊢
  obtain ⟨op', c'⟩ := rc
  simp only [] at h
  rcases h with h | h
  · simp only [if_neg h]; rfl
  · by_cases h1 : op' = OP_SRC
    · simp only [h1, h, if_true]; rfl
    · simp only [if_neg h1]; rfl

/-! ### the compositing loop after 51d8f75: every box is cut to the destination first -/

theorem flatMap_congr' {α β : Type} (l : List α) (f g : α → List β) (h : ∀ a ∈ l, f a = g a) :
    l.flatMap f = l.flatMap g := by
  induction l with
  | nil => rfl
  | cons a rest ih =>
    rw [List.flatMap_cons, List.flatMap_cons, h a List.mem_cons_self,
      ih (fun x hx => h x (List.mem_cons_of_mem _ hx))]

theorem filterMap_congr' {α β : Type} (l : List α) (f g : α → Option β) (h : ∀ a ∈ l, f a = g a) :
    l.filterMap f = l.filterMap g := by
  induction l with
  | nil => rfl
  | cons a rest ih =>
    rw [List.filterMap_cons, List.filterMap_cons, h a List.mem_cons_self,
      ih (fun x hx => h x (List.mem_cons_of_mem _ hx))]

/-- inside the image the cut box and the box contain the same pixels -/
theorem inBox_cut (img : Image) (b : Pixman.Region.Box) (x y : Nat) (hx : x < img.width)
    (hy : y < img.height) :
    Pixman.Region.inBox (cutToImage img b) x y = Pixman.Region.inBox b x y := by
  unfold Pixman.Region.inBox cutToImage
  simp only []
  have e1 : (decide ((if b.x2 > (img.width : Int) then (img.width : Int) else b.x2) > (x : Int))) =
      decide (b.x2 > (x : Int)) := by
    apply decide_eq_decide.2; split <;> omega
  have e2 : (decide ((if b.x1 < 0 then 0 else b.x1) ≤ (x : Int))) = decide (b.x1 ≤ (x : Int)) := by
    apply decide_eq_decide.2; split <;> omega
  have e3 : (decide ((if b.y2 > (img.height : Int) then (img.height : Int) else b.y2) > (y : Int))) =
      decide (b.y2 > (y : Int)) := by
    apply decide_eq_decide.2; split <;> omega
  have e4 : (decide ((if b.y1 < 0 then 0 else b.y1) ≤ (y : Int))) = decide (b.y1 ≤ (y : Int)) := by
    apply decide_eq_decide.2; split <;> omega
  rw [e1, e2, e3, e4]

/-- cutting a box to the image does not change the pixels `pixman_image_composite32` reaches:
box ∩ image bounds ∩ clip -/
theorem boxPixels_cut (img : Image) (b : Pixman.Region.Box) :
    boxPixels img (cutToImage img b) = boxPixels img b := by
  unfold boxPixels
  apply flatMap_congr'
  intro y hy
  apply filterMap_congr'
  intro x hx
  rw [inBox_cut img b x y (List.mem_range.1 hx) (List.mem_range.1 hy)]

/-- the pixels reached lie inside the image and inside the box -/
theorem mem_boxPixels (img : Image) (b : Pixman.Region.Box) (p : Int × Int) (hp : p ∈ boxPixels img b) :
    0 ≤ p.1 ∧ p.1 < img.width ∧ 0 ≤ p.2 ∧ p.2 < img.height ∧ b.x1 ≤ p.1 ∧ p.1 < b.x2 ∧
      b.y1 ≤ p.2 ∧ p.2 < b.y2 := by
  unfold boxPixels at hp
  obtain ⟨y, hy, hp⟩ := List.mem_flatMap.1 hp
  obtain ⟨x, hx, hp⟩ := List.mem_filterMap.1 hp
  have hx' := List.mem_range.1 hx
  have hy' := List.mem_range.1 hy
  by_cases hc : (Pixman.Region.inBox b x y && inClip img x y) = true
  · rw [if_pos hc] at hp
    cases hp
    simp only [Bool.and_eq_true] at hc
    have hb := hc.1
    unfold Pixman.Region.inBox at hb
    simp only [Bool.and_eq_true, decide_eq_true_eq] at hb
    simp only []
    omega
  · rw [if_neg hc] at hp; cases hp

theorem foldl_min_bounds (l : List (Int × Int)) (g : Int × Int → Int) (a lo hi : Int)
    (ha : lo ≤ a ∧ a ≤ hi) (h : ∀ q ∈ l, lo ≤ g q ∧ g q ≤ hi) :
    lo ≤ l.foldl (fun acc q => min acc (g q)) a ∧ l.foldl (fun acc q => min acc (g q)) a ≤ hi := by
  induction l generalizing a with
  | nil => exact ha
  | cons q rest ih =>
    have hq := h q List.mem_cons_self
    exact ih (min a (g q)) (by omega) (fun x hx => h x (List.mem_cons_of_mem _ hx))

theorem foldl_max_bounds (l : List (Int × Int)) (g : Int × Int → Int) (a lo hi : Int)
    (ha : lo ≤ a ∧ a ≤ hi) (h : ∀ q ∈ l, lo ≤ g q ∧ g q ≤ hi) :
    lo ≤ l.foldl (fun acc q => max acc (g q)) a ∧ l.foldl (fun acc q => max acc (g q)) a ≤ hi := by
  induction l generalizing a with
  | nil => exact ha
  | cons q rest ih =>
    have hq := h q List.mem_cons_self
    exact ih (max a (g q)) (by omega) (fun x hx => h x (List.mem_cons_of_mem _ hx))

/-- **no far-origin exception any more**: for a box cut to a destination of at most 32766 × 32766
pixels the 16-bit source-extent test of `pixman_image_composite32` passes whenever there is a pixel
to draw -/
theorem sourceExtentsOk_cut (img : Image) (hw : img.width ≤ 32766) (hh : img.height ≤ 32766)
    (b : Pixman.Region.Box) (hne : boxPixels img (cutToImage img b) ≠ []) :
    sourceExtentsOk (boxPixels img (cutToImage img b)) (cutToImage img b) = true := by
  have hall : ∀ q ∈ boxPixels img (cutToImage img b),
      ((cutToImage img b).x1 ≤ q.1 ∧ q.1 ≤ (img.width : Int) - 1) ∧
      ((cutToImage img b).y1 ≤ q.2 ∧ q.2 ≤ (img.height : Int) - 1) := by
    intro q hq
    have := mem_boxPixels img _ q hq
    omega
  have hx1 : 0 ≤ (cutToImage img b).x1 := by unfold cutToImage; simp only []; split <;> omega
  have hy1 : 0 ≤ (cutToImage img b).y1 := by unfold cutToImage; simp only []; split <;> omega
  generalize cutToImage img b = c at hne hall hx1 hy1 ⊢
  generalize boxPixels img c = px at hne hall ⊢
  cases px with
  | nil => exact absurd rfl hne
  | cons p rest =>
    unfold sourceExtentsOk
    simp only []
    have hp := hall p List.mem_cons_self
    have hr : ∀ q ∈ rest, _ := fun q hq => hall q (List.mem_cons_of_mem _ hq)
    have m1 := foldl_min_bounds rest (fun q => q.1) p.1 c.x1 ((img.width : Int) - 1) hp.1
      (fun q hq => (hr q hq).1)
    have m2 := foldl_max_bounds rest (fun q => q.1) p.1 c.x1 ((img.width : Int) - 1) hp.1
      (fun q hq => (hr q hq).1)
    have m3 := foldl_min_bounds rest (fun q => q.2) p.2 c.y1 ((img.height : Int) - 1) hp.2
      (fun q hq => (hr q hq).2)
    have m4 := foldl_max_bounds rest (fun q => q.2) p.2 c.y1 ((img.height : Int) - 1) hp.2
      (fun q hq => (hr q hq).2)
    simp only [is16Bit, Bool.and_eq_true, decide_eq_true_eq]
    omega

/-- **the compositing loop of pixman_image_fill_boxes, one box** (destination at most
32766 × 32766): the solid is composited on exactly the pixels of box ∩ image bounds ∩ clip, in
row-major order, whatever the coordinates of the box — the clamp neither loses nor adds a pixel
and the request is never dropped -/
theorem compositeCut_exact (img : Image) (hw : img.width ≤ 32766) (hh : img.height ≤ 32766)
    (f : Pixman.CompositePixel.Fmt) (op : Nat) (isOpaque : Bool) (solid : Nat)
    (b : Pixman.Region.Box) (m : Mem) :
    compositeCut img f op isOpaque solid b m =
      (boxPixels img b).foldlM (init := m) (compositeStep img f op isOpaque solid) := by
  unfold compositeCut
  simp only []
  by_cases he : (cutToImage img b).x1 ≥ (cutToImage img b).x2 ∨ (cutToImage img b).y1 ≥ (cutToImage img b).y2
  · rw [if_pos he]
    have hnil : boxPixels img b = [] := by
      rw [← boxPixels_cut]
      cases hpx : boxPixels img (cutToImage img b) with
      | nil => rfl
      | cons p rest =>
        have := mem_boxPixels img _ p (hpx ▸ List.mem_cons_self)
        omega
    rw [hnil]; rfl
  · rw [if_neg he]
    unfold compositeBox
    simp only []
    by_cases hne : boxPixels img (cutToImage img b) = []
    · rw [← boxPixels_cut img b, hne]
      simp [sourceExtentsOk]
    · rw [sourceExtentsOk_cut img hw hh b hne, boxPixels_cut]
      simp

example : compositeCut ⟨PIXMAN_a8r8g8b8, 3, 3, 3, 0, none⟩ Pixman.CompositePixel.argb32 3 false 0x80800000
    ⟨1, -36336, 5, 5⟩ (.init fun _ => 0) =
    (boxPixels ⟨PIXMAN_a8r8g8b8, 3, 3, 3, 0, none⟩ ⟨1, -36336, 5, 5⟩).foldlM (init := .init fun _ => 0)
      (compositeStep ⟨PIXMAN_a8r8g8b8, 3, 3, 3, 0, none⟩ Pixman.CompositePixel.argb32 3 false 0x80800000) :=
  compositeCut_exact _ (by decide) (by decide) _ _ _ _ _ _

/-- `pixman_image_fill_rectangles` hands `pixman_image_fill_boxes` the boxes
`(x, y, x + width, y + height)` in the same order -/
theorem rectsToBoxes_exact (rects : List Rect16) (i : Nat) (hi : i < rects.length) :
    (rectsToBoxes rects).length = rects.length ∧
    (rectsToBoxes rects)[i]? = some ⟨rects[i].x, rects[i].y, rects[i].x + rects[i].width,
      rects[i].y + rects[i].height⟩ := by
  unfold rectsToBoxes
  simp [hi]

end Pixman.Props.C19

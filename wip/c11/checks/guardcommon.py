"""C04 runtime oracle: the guard-page drawing sweep (harness/guard.c).

One process per implementation configuration (PIXMAN_DISABLE) and stream; each request line carries the side
the PROT_NONE page is on.  A fault / canary change / out-of-storage accessor call / hang / SIGFPE is an ORACLE
line naming the request line, which is the replay.  Thorough tier adds an AddressSanitizer build of library
and harness (malloc'ed exact blocks: redzones on both sides)."""
import collections, os, re, subprocess
from concurrent.futures import ThreadPoolExecutor
from engine.core import log, VERIF

GUARD_RULE = ("guard domain, independent requests, every bits image in an exactly-sized buffer flush against a PROT_NONE page (after the end / "
              "before the start, 50% each; 25% moved 4..12 bytes away for the other alignments; canary on the open side), 25% negative stride, 30% padded "
              "stride, 12% checking accessors: composite32 70% {14 operators; dest 15 formats 1..128 bpp, size 0..130; source bits (16 formats incl. yuy2, "
              "size 0..2000 and 8000..32766 x 1..2) / solid / linear gradient; mask none 60% / solid / bits (+component alpha 20%); repeat NONE/NORMAL/PAD/REFLECT; "
              "filter nearest 45% / bilinear 38% / convolution / separable convolution (1..5 taps, 0..2 phase bits); transform none 12%, integer translation 8%, "
              "BOUNDARY-CONSTRUCTED 45% (scale/flip/90-degree rotation/shear, translation solved so that the extreme sample of the request lands on a source edge "
              "0, -e, w-e, w, the +-1/2 variants, or the int32 limit, +-2 units), arbitrary affine 15%, projective 20%; optional destination clip}; trapezoids 16% "
              "{rasterize_trapezoid, add_traps, add_trapezoids, composite_trapezoids, add/composite_triangles; a8/a4/a1 (+ other formats through the composite "
              "kinds); coordinates near the image, at +-32767.99, INT32_MIN/MAX and random}; fill_boxes / fill_rectangles 7% with boxes beyond the image and at the "
              "int16/int32 limits; glyphs 7% {composite_glyphs(_no_mask), positions at the int32/int16 limits, origins +-40000}. Sources/masks without pixels (width or "
              "height 0) occur in ~8% of the composite requests with every repeat mode: with a repeat mode the destination must stay untouched, SRC from an "
              "untransformed REPEAT_NONE one must clear the a8r8g8b8 destination rectangle (fix d0c8131).")


def build_guard(ctx, flavour="plain"):
    b = ctx.build_pixman(flavour)
    return ctx.cc("guard", ["guard.c"], b)


def images(req):
    """The image specs of a guard request, in order (dst first): list of (kind, [ints])."""
    t = req.split()
    out = []
    i = 0
    while i < len(t):
        k = t[i]
        if k == "B" and i + 14 < len(t):
            try:
                out.append(("B", [int(x) for x in t[i + 1:i + 15]]))
            except ValueError:
                out.append(("B", []))
            i += 15
            i += 10 if i < len(t) and t[i] == "+" else 1
        elif k == "S":
            out.append(("S", []))
            i += 2
        elif k == "L":
            out.append(("L", []))
            i += 2
            i += 10 if i < len(t) and t[i] == "+" else 1
        elif k == "N":
            out.append(("N", []))
            i += 1
        else:
            i += 1
    return out


def shape_of(req):
    """Shape of a guard request for the failure signature: is a sampled (non-destination) image without pixels?"""
    for kind, v in images(req)[1:]:
        if kind == "B" and len(v) >= 3 and (v[1] == 0 or v[2] == 0):
            return "empty-source"
    return "nonempty"


def signature(req, text):
    op = req.split(" ", 1)[0]
    if op == "trap":
        op = "trap" + req.split()[1]
    elif op == "fill":
        op = "fill" + req.split()[1]
    m = re.search(r"\[([^\]]*)\]\s*$", text)
    tag = m.group(1) if m else "?"
    shape = shape_of(req)
    if shape == "empty-source":
        kind = "hang" if tag == "hang" else "sigfpe" if tag == "sigfpe" else "oob-read" if tag.endswith("read") else tag
        if tag.startswith("process-died") and "AddressSanitizer" in text and not tag.endswith("write"):
            kind = "oob-read"
        if tag.startswith("canary") or tag.endswith("write"):
            kind = "oob-write"
        if "SIGFPE" in text or "FPE" in text:
            kind = "sigfpe"
        return f"{op}|empty-source|{kind}"
    if op.startswith("trap") and tag == "sigfpe":
        # one cause for every trapezoid entry point: dx / dy in pixman_edge_init after dy (or dx) wrapped int32
        return "trap|nonempty|sigfpe"
    return f"{op}|{shape}|{tag}"


def run_streams(ctx, exe, configs, nper, nstreams, env_extra=None, label="guard", workers=8, per_line=False):
    cdir = VERIF / "corpus" / "guard"
    files = sorted(cdir.glob("*.txt")) if cdir.exists() else []
    corpus = []     # request texts; with per_line (sanitizer flavour: a report ends the process) one request each
    for f in files:
        lines = [l for l in f.read_text().splitlines(True) if l.strip() and not l.startswith("#")]
        corpus += lines if per_line else ["".join(lines)]
    jobs = []
    for ci, cfg in enumerate(configs):
        for k in range(len(corpus)):
            jobs.append((ci, cfg, "corpus", k))
        for k in range(nstreams):
            jobs.append((ci, cfg, "gen", k))

    def one(job):
        ci, cfg, kind, k = job
        d = ctx.scratch / f"{label}-{ci}-{kind}{k}"
        d.mkdir(exist_ok=True)
        ops, impl, orc = d / "ops.txt", d / "impl.txt", d / "oracle.txt"
        env = dict(os.environ)
        env["PIXMAN_DISABLE"] = cfg
        env.pop("GUARD_SELFTEST", None)
        if env_extra:
            env.update(env_extra)
        if kind == "corpus":
            ops.write_text(corpus[k])
            r = subprocess.run([str(exe), "exec", str(ops), str(impl), str(orc)], stdout=subprocess.DEVNULL, stderr=subprocess.PIPE, env=env, text=True)
        else:
            # the same request stream for every configuration: stream k of seed s
            seed = ctx.seed * 1000 + k
            r = subprocess.run([str(exe), "gen", str(seed), str(nper), str(ops), str(impl), str(orc)], stdout=subprocess.DEVNULL, stderr=subprocess.PIPE, env=env, text=True)
        return job, ops, impl, orc, r.returncode, r.stderr[:3000] + r.stderr[-3000:]

    with ThreadPoolExecutor(max_workers=workers) as ex:
        results = list(ex.map(one, jobs))

    findings = []     # (cfg, req, text)
    stats = collections.Counter()
    per_cfg = collections.Counter()
    ops_hist = collections.Counter()
    total = 0
    samples = []
    for (ci, cfg, kind, k), ops, impl, orc, rc, err in results:
        lo = ops.read_text().split("\n") if ops.exists() else []
        if lo and lo[-1] == "":
            lo.pop()
        li = impl.read_text().split("\n") if impl.exists() else []
        n_done = len([x for x in li if x != ""]) if kind == "gen" else len(li) - 1
        total += len(lo)
        per_cfg[cfg or "(default)"] += len(lo)
        for l in lo:
            ops_hist[l.split(" ", 1)[0]] += 1
        if kind == "gen" and ci == 0 and k == 0:
            for l in lo:
                opn = l.split(" ", 1)[0]
                if sum(1 for s in samples if s.startswith(opn)) < 1 and " + " in l:
                    samples.append(l[:400])
        if rc != 0:
            # the process died (sanitizer report, uncaught signal): the last request written is the culprit
            done = len([x for x in li if x != ""])
            req = (lo[done] if kind == "corpus" and done < len(lo) else lo[-1]) if lo else "?"
            tail = [x for x in err.splitlines() if "SUMMARY" in x] or [x for x in err.splitlines() if "ERROR" in x]
            rw = "read" if "READ of size" in err else "write" if "WRITE of size" in err else "access"
            text = (tail[0].strip() if tail else f"harness exited with status {rc}")[:300] + f" [process-died|{rw}]"
            findings.append((cfg, req, text))
        for ol in (orc.read_text().splitlines() if orc.exists() else []):
            mm = re.match(r"ORACLE (\d+) (.*)", ol.strip())
            if mm:
                ln = int(mm.group(1))
                findings.append((cfg, lo[ln - 1] if 0 < ln <= len(lo) else "?", mm.group(2)))
                continue
            mm = re.match(r"STAT (\d+) (.*)", ol.strip())
            if mm:
                stats[mm.group(2)] += int(mm.group(1))
    return findings, stats, per_cfg, ops_hist, total, samples


def report(ctx, findings, flavour, limit=10):
    seen = collections.OrderedDict()
    for cfg, req, text in findings:
        seen.setdefault(signature(req, text), []).append((cfg, req, text))
    n = 0
    for sig, items in seen.items():
        cfg, req, text = min(items, key=lambda it: len(it[1]))
        ctx.extra.setdefault("finding_signatures", {})[sig] = len(items)
        if n >= limit:
            continue
        if ctx.violation({"kind": "oracle", "domain": "guard", "request": req, "PIXMAN_DISABLE": cfg, "library_flavour": flavour,
                          "configurations_hit": sorted({c or "(default)" for c, _, _ in items}),
                          "oracle": text, "how_to_replay": "bin/check C04 --replay <this file>  (or: PIXMAN_DISABLE='<cfg>' <scratch>/guard-plain exec ops.txt impl.txt oracle.txt)",
                          "count_in_run": len(items)}, signature=sig, what=f"{req.split(' ', 1)[0]}: {text}", tag="guard"):
            n += 1


def selftest(ctx, exe):
    """The oracle must see a 4-byte overrun: storage of slot k made one word shorter than described."""
    seen = {}
    for slot_no, role in ((1, "dst"), (2, "src"), (3, "mask")):
        d = ctx.scratch / f"selftest{slot_no}"
        d.mkdir(exist_ok=True)
        env = dict(os.environ)
        env["PIXMAN_DISABLE"] = ""
        env["GUARD_SELFTEST"] = str(slot_no)
        subprocess.run([str(exe), "gen", "77", "3000", str(d / "ops.txt"), str(d / "impl.txt"), str(d / "orc.txt")],
                       stdout=subprocess.DEVNULL, stderr=subprocess.DEVNULL, env=env)
        txt = (d / "orc.txt").read_text() if (d / "orc.txt").exists() else ""
        seen[role] = len(re.findall(rf"ORACLE \d+ .*(\[fault\|{role}\||\[accessor\||\[canary\|{role})", txt))
    return seen


def run_guard(ctx, configs, quick):
    exe = build_guard(ctx, "plain")
    st = selftest(ctx, exe)
    ctx.extra["guard_selftest(findings when the storage is 4 bytes shorter than described)"] = st
    if min(st.values()) == 0:
        ctx.violation({"kind": "harness-selftest", "domain": "guard", "selftest": st}, signature="guard-selftest",
                      what="the guard-page oracle no longer sees a 4-byte overrun of a deliberately shortened buffer", found_input=False, tag="selftest")
    nper, nstreams = (20000, 6) if quick else (60000, 8)
    findings, stats, per_cfg, ops_hist, total, samples = run_streams(ctx, exe, configs, nper, nstreams, workers=8 if quick else 16)
    report(ctx, findings, "plain")
    ctx.cov["evaluations"] += total
    ctx.cov["samples"] += samples
    ctx.extra["guard_rule"] = GUARD_RULE
    ctx.extra["guard_requests_per_configuration"] = dict(per_cfg)
    ctx.extra["guard_operation_histogram"] = dict(ops_hist)
    ctx.extra["guard_harness_statistics"] = dict(stats)
    ctx.extra["guard_configurations"] = [c or "(default)" for c in configs]
    if not quick:
        exe_a = build_guard(ctx, "asanonly")
        env = {"GUARD_MALLOC": "1", "ASAN_OPTIONS": "detect_leaks=0:allocator_may_return_null=1:handle_segv=0:handle_sigfpe=0:handle_abort=0"}
        f2, s2, p2, o2, t2, _ = run_streams(ctx, exe_a, ["", "fast mmx sse2 ssse3"], 25000, 4, env_extra=env, label="asan", workers=8, per_line=True)
        report(ctx, f2, "asanonly")
        ctx.cov["evaluations"] += t2
        ctx.extra["guard_asan_requests_per_configuration"] = dict(p2)
        ctx.extra["guard_asan_statistics"] = dict(s2)


def replay_guard(ctx, obj):
    exe = build_guard(ctx, "plain")
    d = ctx.scratch / "replay"
    d.mkdir(exist_ok=True)
    ops, impl, orc = d / "ops.txt", d / "impl.txt", d / "oracle.txt"
    ops.write_text(obj["request"] + "\n")
    env = dict(os.environ)
    env["PIXMAN_DISABLE"] = obj.get("PIXMAN_DISABLE", "")
    subprocess.run([str(exe), "exec", str(ops), str(impl), str(orc)], stdout=subprocess.DEVNULL, stderr=subprocess.DEVNULL, env=env)
    log(f"request:        {obj['request']}\nPIXMAN_DISABLE: '{env['PIXMAN_DISABLE']}'\nimplementation: {impl.read_text().strip()}")
    findings = []
    for ol in orc.read_text().splitlines():
        mm = re.match(r"ORACLE (\d+) (.*)", ol.strip())
        if mm:
            log("oracle:         " + mm.group(2))
            findings.append((env["PIXMAN_DISABLE"], obj["request"], mm.group(2)))
    ctx.cov["evaluations"] = 1
    report(ctx, findings, "plain")
    if not findings:
        log("replay: the request no longer fails")

"""C19 — blt, fill and fill_boxes affect exactly the rectangle and agree with compositing."""
import collections, json, os, re, shutil, subprocess
from concurrent.futures import ThreadPoolExecutor
from engine.core import VERIF, log

P = "Pixman.Props.C19."
REQUIRED = [P + n for n in [
    # pixman_fill1_line and the C fills
    "fill1Line_exact", "fill1_exact", "fill8_exact", "fill16_exact", "fill32_exact",
    "fastPathFill_exact", "fastPathFill_unsupported",
    # SIMD range programs: tiling, alignment, whole pixels; executed result
    "sse2FillRow_tiles", "mmxFillRow_tiles", "sse2BltRow_tiles", "mmxBltRow_tiles", "fillRow_whole_pixels",
    "simdFill_exact", "sse2Fill_exact", "mmxFill_exact", "simdFill_unsupported",
    # blt
    "simdBlt_exact", "sse2Blt_exact", "mmxBlt_exact", "simdBlt_declines", "simdBlt_false_unchanged", "simdBlt_true",
    # delegation chain
    "implFill_false_unchanged", "implementationFill_false_unchanged", "implementationFill_exact",
    "pixmanFill_true_exact", "pixmanFill_general_declines", "implementationBlt_false_unchanged",
    "pixmanBlt_true_exact", "pixmanBlt_fast_declines",
    # colours, fill_boxes
    "colorToPixel_accepts", "acceptedFormats_bpp", "reduceOp_cases", "fillRegion_exact", "fillRects_exact",
    "fillBoxes_shortcut_exact", "fillBoxes_fallback", "rectsToBoxes_exact",
    # the compositing loop after 51d8f75 (boxes cut to the destination): exactly box ∩ bounds ∩ clip, never dropped
    "boxPixels_cut", "mem_boxPixels", "sourceExtentsOk_cut", "compositeCut_exact",
]]

CONFIGS = [(0, ""), (1, "ssse3 sse2"), (2, "ssse3 sse2 mmx"), (3, "fast mmx sse2 ssse3")]
CFGNAME = {0: "default", 1: "mmx", 2: "fast", 3: "general"}
OPN = {0: "CLEAR", 1: "SRC", 2: "DST", 3: "OVER", 4: "OVER_REVERSE", 5: "IN", 6: "IN_REVERSE", 7: "OUT", 8: "OUT_REVERSE",
       9: "ATOP", 10: "ATOP_REVERSE", 11: "XOR", 12: "ADD", 13: "SATURATE"}

RULE = ("three streams, each executed once per implementation chain in its own process (PIXMAN_DISABLE unset / 'ssse3 sse2' / "
        "'ssse3 sse2 mmx' / 'fast mmx sse2 ssse3') and replayed line by line through the Lean model: (fill) pixman_fill over "
        "bpp {1,4,8,16,24,32} x x 0..70 x width 0..70 x stride kind {minimal, padded, negative} x height 0..3 (quick: 3 of the 12 "
        "(stride,height) pairs per (bpp,x,width), thorough: all), edge-biased fillers, buffer word 0 at machine address 0/4/8/12 "
        "mod 16, zero/one/hashed initial content, plus unusual depths and shapes up to 2000x1200 bits; (blt) pixman_blt over 12 "
        "depth pairs (same and different), dx 0..40, width 0..70, random source offsets/strides/heights, separate buffers; (boxes) "
        "pixman_image_fill_boxes / fill_rectangles with every operator (70% the 14 Porter-Duff ones), 16-bit colours edge-biased, "
        "30 destination formats (70% the 12 color_to_pixel accepts), 0..12 boxes partly/wholly outside, empty, inverted, far "
        "away, clip none / empty / 1..4 rectangles, positive and negative rowstride. Non-trivial: fill/blt request with width>0 "
        "and height>0; boxes request with at least one box that meets the clipped image; distinct by request text without the "
        "chain field")


def env_for(disable):
    e = dict(os.environ)
    e.pop("PIXMAN_DISABLE", None)
    if disable:
        e["PIXMAN_DISABLE"] = disable
    return e


def strip_cfg(line):
    t = line.split(" ")
    return " ".join(t[:1] + t[2:])


def far_box(line):
    """a box / rectangle whose origin is more than 32767 px left of / above something visible"""
    t = line.split()
    try:
        w, h = int(t[4]), int(t[5])
        nclip = int(t[15])
        pos = 16 + (4 * nclip if nclip > 0 else 0)
        nb = int(t[pos]); pos += 1
        for i in range(nb):
            x1, y1 = int(t[pos + 4 * i]), int(t[pos + 4 * i + 1])
            if x1 < w + 1 - 32767 or y1 < h + 1 - 32767:
                return True
    except (ValueError, IndexError):
        pass
    return False


def nontrivial(line):
    t = line.split()
    try:
        if t[0] == "fill":
            return int(t[9]) > 0 and int(t[10]) > 0
        if t[0] == "blt":
            return int(t[15]) > 0 and int(t[16]) > 0
        if t[0] in ("boxes", "rects"):
            w, h = int(t[4]), int(t[5])
            nclip = int(t[15])
            pos = 16 + (4 * nclip if nclip > 0 else 0)
            if nclip == 0:
                return False
            nb = int(t[pos]); pos += 1
            for i in range(nb):
                a, b, c, d = (int(v) for v in t[pos + 4 * i: pos + 4 * i + 4])
                if t[0] == "rects":
                    c, d = a + c, b + d
                if max(a, 0) < min(c, w) and max(b, 0) < min(d, h):
                    return True
    except (ValueError, IndexError):
        pass
    return False


def signature(kind, line, text):
    t = line.split()
    op = t[0] if t else "?"
    if kind == "stream":
        return f"{op}|stream"
    if op in ("boxes", "rects"):
        if "[far-origin" in text:
            return "fill_boxes|far-origin|compositing path omits a box whose visible part is more than 32767 px right of or below its origin"
        try:
            fmt, o = int(t[3]), int(t[10])
        except (ValueError, IndexError):
            fmt, o = -1, -1
        what = re.sub(r"word \d+ is [0-9a-f]+, compositing gives [0-9a-f]+ \(initially [0-9a-f]+\)", "", text)
        what = re.sub(r"word \d+ .*", "", what).strip()
        return f"{op}|{kind}|fmt={fmt:#x}|op={OPN.get(o, hex(o))}|{what}"
    try:
        bpp = t[6] if op == "fill" else f"{t[9]}->{t[10]}"
    except IndexError:
        bpp = "?"
    what = re.sub(r"word \d+ is [0-9a-f]+, expected [0-9a-f]+", "", text)
    what = re.sub(r"(destination|source) word \d+", r"\1", what).strip()
    return f"{op}|{kind}|bpp={bpp}|cfg={CFGNAME.get(int(t[1]), '?') if len(t) > 1 and t[1].isdigit() else '?'}|{what}"


def run_one(job):
    """one (stream, chain) pair: generate (or take the corpus file), execute, run the model in
    `nsplit` parallel pieces, compare."""
    exe, pixdrv, d, cfg, disable, kind, seed, tier, corpus_path, nsplit = job
    os.makedirs(d, exist_ok=True)
    ops, impl, orc = f"{d}/ops.txt", f"{d}/impl.txt", f"{d}/oracle.txt"
    if corpus_path:
        shutil.copy(corpus_path, ops)
    else:
        subprocess.run([exe, "gen", str(seed), kind, str(cfg), str(tier), ops], stderr=subprocess.DEVNULL)
    r1 = subprocess.run([exe, "exec", str(cfg), ops, impl, orc], env=env_for(disable), stdout=subprocess.DEVNULL,
                        stderr=subprocess.PIPE, text=True)
    with open(ops) as f:
        lines = f.read().split("\n")
    if lines and lines[-1] == "":
        lines.pop()
    # model, in pieces
    n = len(lines)
    step = max(1, (n + nsplit - 1) // nsplit)
    pieces = [(i, lines[i:i + step]) for i in range(0, n, step)]

    def piece(p):
        i, ls = p
        r = subprocess.run([pixdrv, "fill"], input="\n".join(ls) + "\n", stdout=subprocess.PIPE, stderr=subprocess.PIPE, text=True)
        out = r.stdout.split("\n")
        if out and out[-1] == "":
            out.pop()
        return out

    with ThreadPoolExecutor(max_workers=nsplit) as ex:
        outs = list(ex.map(piece, pieces))
    model = [l for o in outs for l in o]
    with open(impl) as f:
        impl_lines = f.read().split("\n")
    if impl_lines and impl_lines[-1] == "":
        impl_lines.pop()
    res = dict(cfg=cfg, kind=kind, n=n, findings=[], hist=collections.Counter(), nontrivial=set(), samples=[], unmodelled=0,
               notes=collections.Counter(), compared=0)
    if len(impl_lines) != n or len(model) != n or n == 0:
        res["findings"].append(dict(kind="stream", line=f"{kind} {cfg}", impl=None, model=None, cfg=cfg,
                                    text=f"stream incomplete: {n} requests, {len(impl_lines)} library replies (exit {r1.returncode} "
                                         f"{r1.stderr[-200:]!r}), {len(model)} model replies; seed {seed}"))
        return res
    orc_lines = {}
    with open(orc) as f:
        for ol in f:
            mm = re.match(r"(ORACLE|NOTE) (\d+) (.*)", ol.strip())
            if not mm:
                continue
            if mm.group(1) == "NOTE":
                res["notes"][mm.group(3).split(":")[0]] += 1
            else:
                orc_lines.setdefault(int(mm.group(2)), mm.group(3))
    for i, (l, a, m) in enumerate(zip(lines, impl_lines, model), 1):
        t = l.split(" ", 1)[0]
        if t == "fill":
            res["hist"]["fill bpp=" + l.split(" ")[6] + " ret=" + a[:1]] += 1
        elif t == "blt":
            tt = l.split(" ")
            res["hist"][f"blt {tt[9]}->{tt[10]} ret=" + a[:1]] += 1
        else:
            tt = l.split(" ")
            res["hist"][f"{t} op={OPN.get(int(tt[10]), 'other')}"] += 1
            res["hist"][f"{t} fmt={int(tt[3]):#x}"] += 1
        if nontrivial(l):
            res["nontrivial"].add(strip_cfg(l))
            if len(res["samples"]) < 1 and i % 997 == 3 and len(l) < 260:
                res["samples"].append(l + "  ->  " + a[:120])
        if a == "bad-request" or m == "bad-request":
            res["findings"].append(dict(kind="stream", line=l, impl=a, model=m, cfg=cfg, text="request rejected by the harness or the driver"))
            continue
        if i in orc_lines:
            res["findings"].append(dict(kind="oracle", line=l, impl=a, model=m, cfg=cfg, text=orc_lines[i]))
            continue
        if m == "unmodelled":
            res["unmodelled"] += 1
            continue
        res["compared"] += 1
        if a != m:
            res["findings"].append(dict(kind="model-disagree", line=l, impl=a, model=m, cfg=cfg,
                                        text="Lean model and library differ while the library passes the oracle"))
    shutil.rmtree(d, ignore_errors=True)
    return res


def run(ctx):
    broken = ctx.lean_obligations("Pixman.Props.C19", REQUIRED)
    quick = ctx.tier == "quick"
    b = ctx.build_pixman("plain")
    exe = str(ctx.cc("fill", ["fill.c"], b))
    pixdrv = str(VERIF / "lean" / ".lake" / "build" / "bin" / "pixdrv")
    tier = 0 if quick else 1
    jobs = []
    corpus_dir = VERIF / "corpus" / "fill"
    corpus = sorted(corpus_dir.glob("*.txt")) if corpus_dir.exists() else []
    for c in corpus:
        mm = re.search(r"cfg(\d)", c.name)
        cfgs = [int(mm.group(1))] if mm else [0, 1, 2, 3]
        for cfg in cfgs:
            # a corpus file without a cfg tag is run under every chain: rewrite the chain field
            if mm:
                path = str(c)
            else:
                path = str(ctx.scratch / f"corpus-{c.stem}-{cfg}.txt")
                with open(path, "w") as f:
                    for l in c.read_text().split("\n"):
                        if l.strip() and not l.startswith("#"):
                            t = l.split(" ")
                            t[1] = str(cfg)
                            f.write(" ".join(t) + "\n")
            jobs.append((exe, pixdrv, str(ctx.scratch / f"c-{c.stem}-{cfg}"), cfg, CONFIGS[cfg][1], "corpus", 0, tier, path, 1))
    for cfg, disable in CONFIGS:
        for kind, nsplit in (("fill", 4), ("blt", 2), ("boxes", 2)):
            jobs.append((exe, pixdrv, str(ctx.scratch / f"s-{kind}-{cfg}"), cfg, disable, kind, ctx.seed, tier, None, nsplit))
    with ThreadPoolExecutor(max_workers=4 if quick else 6) as ex:
        results = list(ex.map(run_one, jobs))

    findings, hist, nontriv, samples = [], collections.Counter(), set(), []
    total = compared = unmodelled = 0
    notes = collections.Counter()
    per = collections.Counter()
    for r in results:
        total += r["n"]; compared += r["compared"]; unmodelled += r["unmodelled"]
        hist.update(r["hist"]); nontriv |= r["nontrivial"]; notes.update(r["notes"])
        per[f"{r['kind']}[{CFGNAME[r['cfg']]}]"] += r["n"]
        if r["kind"] != "corpus":
            samples += r["samples"]
        findings += [dict(f, stream=r["kind"]) for f in r["findings"]]
    ctx.cov["evaluations"] = total
    ctx.cov["distinct_nontrivial"] = len(nontriv)
    ctx.cov["traces_validated_against_impl"] = compared
    ctx.cov["rule"] = RULE
    ctx.cov["samples"] = samples[:8]
    ctx.extra["requests_per_stream"] = dict(per)
    ctx.extra["histogram"] = {k: v for k, v in sorted(hist.items())}
    ctx.extra["boxes_requests_outside_the_compositing_model"] = unmodelled
    ctx.extra["notes"] = dict(notes)

    seen = collections.OrderedDict()
    for f in findings:
        seen.setdefault(signature(f["kind"], f["line"], f["text"]), []).append(f)
    nrep = 0
    for sig, items in seen.items():
        f = min(items, key=lambda it: len(it["line"]))
        if nrep >= 8:
            break
        if ctx.violation({"kind": f["kind"], "request": f["line"], "implementation": f["impl"], "model": f["model"], "oracle": f["text"],
                          "env": {"PIXMAN_DISABLE": CONFIGS[f["cfg"]][1]}, "domain": "fill", "count_in_run": len(items),
                          "how_to_replay": "bin/check C19 --replay <this file>  (runs `harness/fill exec <cfg>` on the request under the "
                                           "recorded PIXMAN_DISABLE and `pixdrv fill` on the same line)"},
                         signature=sig, what=f"{f['line'].split(' ')[0]} [{CFGNAME[f['cfg']]}] {f['kind']}: {f['text']}",
                         tag=f["line"].split(" ")[0]):
            nrep += 1
    if broken and not ctx.violations:
        ctx.broken_obligations_verdict(broken, "fill/blt/boxes correspondence streams on four chains and the bit-level oracle found no failing input")
    ctx.assumptions += [
        "width, height >= 0 (a negative height makes `while (height--)` run off the buffer: outside the statement); every addressed "
        "bit lies inside the caller's buffer (C04's concern); source and destination of pixman_blt do not overlap (separate memories)",
        "x86-64 little endian chain noop/ssse3/sse2/mmx/fast/general; other architectures' fills (NEON, MIPS DSPr2, VMX, ...) are not built here",
        "the SIMD stores are modelled at byte granularity (an n-byte store writes n bytes of the replicated pattern); alignment of "
        "every store to its size is a proved property of the range programs, the hardware semantics of movdqa/movq is trusted",
        "fill_boxes vs compositing: compared on the defined bits of every pixel (the x bits of x8r8g8b8 etc. are written differently "
        "by the direct fill and by compositing); the Lean model covers the 21 formats of C01 plus a1 on the direct-fill path, the "
        "remaining formats/operators (a4, 24 bpp, 10-bit, sRGB, float; float-pipeline operators) are checked by the oracle only",
        "no allocation failure (fill_rectangles' heap box array, region code: C15); destination without alpha map and accessors "
        "(the direct fill bypasses both: not part of the statement's quantifier)",
    ]


def replay(ctx, path):
    obj = json.loads(open(path).read())
    if obj.get("kind") in ("broken-proof-obligation", "build", "harness-build"):
        log(f"replay of kind {obj.get('kind')}: re-run the check itself")
        return
    b = ctx.build_pixman("plain")
    exe = str(ctx.cc("fill", ["fill.c"], b))
    ctx.lean_obligations("Pixman.Props.C19", [])
    line = obj["request"]
    cfg = int(line.split(" ")[1])
    d = ctx.scratch / "replay"
    d.mkdir(exist_ok=True)
    (d / "ops.txt").write_text(line + "\n")
    subprocess.run([exe, "exec", str(cfg), str(d / "ops.txt"), str(d / "impl.txt"), str(d / "orc.txt")], env=env_for(CONFIGS[cfg][1]),
                   stdout=subprocess.DEVNULL, stderr=subprocess.DEVNULL)
    ctx.pixdrv("fill", d / "ops.txt", d / "model.txt")
    a, m, o = (d / "impl.txt").read_text().strip(), (d / "model.txt").read_text().strip(), (d / "orc.txt").read_text().strip()
    log(f"  {line}\n  library: {a}\n  model:   {m}\n  oracle:  {o or 'passes'}")
    if o.startswith("ORACLE") or (m != "unmodelled" and a != m):
        ctx.violation(obj, signature=obj.get("signature"), what=obj.get("what", "replay still fails"))

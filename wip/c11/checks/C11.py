"""C11 — fixed-point transform arithmetic is exactly rounded and reports overflow.

Proof obligations: Pixman.Props.C11 (model = lean/Pixman/Model/Matrix.lean).
Correspondence: harness/matrix.c (+ white-box matrix_wb.c for the static helpers) against `pixdrv matrix`
on every public integer pixman_transform_* entry point; each request runs in a forked child so that an
abort() is an observable.  Spec oracle: exact __int128 arithmetic inside the harness (nearest rounding,
FALSE iff unrepresentable, bounds contain corners, A x inv(A) ~ I, ...), independent of the model.
The floating point family is modelled over exact rationals (Model/MatrixQ.lean, Props/C11Float.lean, `_partial`: IEEE rounding not
modelled): pixman_transform_invert is tied three ways (rational model = exact oracle literally; library within the double rounding
bound of the exact inverse; bit-exact Lean Float mirror); the other f_* entry points are judged by the long double oracle."""
import collections, json, re, subprocess
from concurrent.futures import ThreadPoolExecutor
from engine.core import log, sh, VERIF, REPO

REQUIRED = [
    "Pixman.Props.C11.rounded_udiv_128_by_48_nearest",
    "Pixman.Props.C11.rounded_udiv_128_by_48_assert",
    "Pixman.Props.C11.rounded_sdiv_128_by_49_nearest",
    "Pixman.Props.C11.rounded_sdiv_128_by_49_abort_iff",
    "Pixman.Props.C11.transformPoint3116_affine",
    "Pixman.Props.C11.transformPoint_affine",
    "Pixman.Props.C11.transformPoint3116Affine_spec",
    "Pixman.Props.C11.transformPoint31163d_spec",
    "Pixman.Props.C11.transformPoint3d_spec",
    "Pixman.Props.C11.tmp_in_int64",
    "Pixman.Props.C11.mulEntry_in_int64",
    "Pixman.Props.C11.entrySpec_error",
    "Pixman.Props.C11.entrySpec_exact",
    "Pixman.Props.C11.multiply_spec",
    "Pixman.Props.C11.bounds_contains_corners",
    "Pixman.Props.C11.bounds_never_aborts",
    "Pixman.Props.C11.transformPoint3116_never_aborts",
    "Pixman.Props.C11.transformPoint_never_aborts",
    "Pixman.Props.C11.transformPoint3116_projective_exact",
    "Pixman.Props.C11.transformPoint_exact",
    "Pixman.Props.C11.transformPoint3116_projective_reduced",
    "Pixman.Props.C11.transformPoint_reduced_sharp",
    "Pixman.Props.C11.transformPoint_within_one",
    "Pixman.Props.C11.transformPoint_w_zero",
    "Pixman.Props.C11.withinEpsilon_spec",
    "Pixman.Props.C11.withinEpsilon_int32min",
    "Pixman.Props.C11.isZero_iff",
    "Pixman.Props.C11.isOne_iff",
    "Pixman.Props.C11.isSame_iff",
    "Pixman.Props.C11.isInt_iff",
    "Pixman.Props.C11.isInverse_iff",
    "Pixman.Props.C11.isInverse_spec",
    "Pixman.Props.C11.isIdentity_spec",
    "Pixman.Props.C11.isScale_spec",
    "Pixman.Props.C11.isIntTranslate_spec",
    "Pixman.Props.C11.applyPair_spec",
    "Pixman.Props.C11.applyPair_exact",
    "Pixman.Props.C11.translate_spec",
    "Pixman.Props.C11.rotate_spec",
    "Pixman.Props.C11.fixedInverse_spec",
    "Pixman.Props.C11.scale_spec",
]

# the floating point entry points over exact rationals (Model/MatrixQ.lean); every one is `_partial`: IEEE rounding is not modelled
REQUIRED_FLOAT = ["Pixman.Props.C11Float." + t for t in (
    "det_eq_detSpec_partial", "fInvert_none_iff_partial", "fInvert_inverse_partial", "fInvert_unique_partial",
    "fMultiply_eq_mulSpec_partial", "entryToFixed_none_iff", "entryToFixed_some",
    "toFixed_isSome_iff", "toFixed_some", "detSpec_fromFixed_partial", "detSpec_fromFixed_zero_iff_partial",
    "invert_singular_partial", "invert_some_partial", "invert_none_iff_partial",
    "fPoint3d_spec_partial", "fPoint_none_iff_partial", "fPoint_some_partial", "fBounds_contains_corners_partial",
    "entryFromDouble_finite", "from_to_roundtrip", "from_to_refused", "toFixed_fromFixed", "to_from_within",
    "pair_stays_inverse_partial", "fScale_spec_partial", "fTranslate_spec_partial", "fRotate_spec_partial",
)]

FLOAT_OPS = ("f_from", "f_to", "f_invert", "f_point", "f_bounds", "f_mul", "f_scale", "f_rotate", "f_translate")   # oracle only; "invert" is also mirrored bit-exactly on Lean Float
FLOAT_LITERAL = ("f_from", "f_to")   # exact binary64 model, literal equality with the library
FLOAT_RATIONAL = ("f_invert", "f_point", "f_bounds", "f_mul", "f_scale", "f_rotate", "f_translate")   # rational model compared literally with the harness's exact arithmetic; library judged by the oracle
MODELLED_NONTRIVIAL = ("point", "p31", "point3d", "p313d", "p31a", "mul", "scale", "rotate", "translate", "bounds")
WB_SYMS = ["wb_udiv", "wb_sdiv", "wb_to128", "wb_finv"]


def build_harness(ctx):
    b = ctx.build_pixman("plain")
    # assertions must be live in the library under test (they are part of the property: "never abort")
    cc = (b["dir"] / "compile_commands.json").read_text()
    if "NDEBUG" in cc:
        ctx.assumptions.append("WARNING: the library build defines NDEBUG; assertion failures are not observable")
    wb = ctx.scratch / "matrix_wb.o"
    cmd = ["gcc", "-O2", "-g", "-DHAVE_CONFIG_H", "-DPIXMAN_VERIF", "-I", str(VERIF / "harness")] + b["inc"] + \
          ["-c", str(VERIF / "harness" / "matrix_wb.c"), "-o", str(wb)]
    r = sh(cmd)
    if r.returncode == 0:
        r = sh(["objcopy"] + sum((["-G", s] for s in WB_SYMS), []) + [str(wb)])
    if r.returncode != 0:
        path = ctx.write_replay({"kind": "harness-build", "name": "matrix_wb",
                                 "what": "white-box unit no longer compiles against /repo/pixman/pixman-matrix.c "
                                         "(a static helper it wraps changed its interface)",
                                 "log_tail": r.stdout[-4000:]}, tag="harness")
        log(f"VIOLATION property={ctx.pid} replay={path} no-failing-input-found")
        ctx.violations.append({"replay": str(path)})
        ctx.finish(force_exit=1)
    return ctx.cc("matrix", ["matrix.c"], b, extra=["-DHAVE_WB", str(wb)])


def signature(kind, op, text):
    m = re.search(r"\[([^\]]*)\]\s*$", text or "")
    shape = m.group(1) if m else ""
    cls = (text or "").split(" ", 1)[0] if kind == "oracle" else "model-differs"
    return f"{op}|{kind}:{cls}|{shape}"


def run_streams(ctx, nper, nstreams):
    exe = build_harness(ctx)
    cdir = VERIF / "corpus" / "matrix"
    corpus = sorted(cdir.glob("*.txt")) if cdir.exists() else []

    def one(i):
        d = ctx.scratch / f"ms{i}"
        d.mkdir(exist_ok=True)
        ops, impl, orc, model = d / "ops.txt", d / "impl.txt", d / "oracle.txt", d / "model.txt"
        if i < len(corpus):
            ops.write_text(corpus[i].read_text())
            subprocess.run([str(exe), "exec", str(ops), str(impl), str(orc)], stderr=subprocess.DEVNULL)
        else:
            seed = ctx.seed * 1000 + i
            subprocess.run([str(exe), "gen", str(seed), str(nper), str(ops), str(impl), str(orc)], stderr=subprocess.DEVNULL)
        ctx.pixdrv("matrix", ops, model)
        return ops, impl, orc, model

    with ThreadPoolExecutor(max_workers=16) as ex:
        results = list(ex.map(one, range(len(corpus) + nstreams)))

    stats = collections.Counter()
    ops_hist = collections.Counter()
    nontrivial = set()
    samples = []
    findings = []      # (kind, op, request, impl, model, text)
    observations = []  # counted, not judged (see assumptions)
    total = compared = 0
    for ops, impl, orc, model in results:
        with open(ops) as f:
            lo = f.read().split("\n")
        with open(impl) as f:
            li = f.read().split("\n")
        with open(model) as f:
            lm = f.read().split("\n")
        if lo and lo[-1] == "":
            lo.pop()
        n = len(lo)
        total += n
        if len(li) < n + 0 or len(lm) < n:
            findings.append(("stream", "stream", str(ops), None, None, "harness or driver produced fewer lines than requests"))
        for k in range(min(n, len(li), len(lm))):
            req = lo[k]
            if not req:
                continue
            op = req.split(" ", 1)[0]
            ops_hist[op] += 1
            if op in FLOAT_RATIONAL:
                # "<library (doubles / box)> | <exact-arithmetic verdict of the harness>"  vs  the Lean rational model, literally
                aq = li[k].strip().partition(" | ")[2]
                mq = lm[k].strip()
                if aq != mq:
                    findings.append(("disagree", op, req, aq, mq, f"rational model (Model/MatrixQ.lean) and the exact-arithmetic oracle differ [{op}, rational]"))
                else:
                    stats[f"{op}: rational model = exact oracle"] += 1
                    if not aq.startswith("0") and "; 0" not in aq:
                        nontrivial.add(hash("q" + req))
                compared += 1
                continue
            if op in FLOAT_LITERAL:
                # fixed/float conversions: the binary64 model (Model/Binary64.lean + MatrixQ.entryFromDouble / fixedToDoubleBits) must equal the library LITERALLY
                a = li[k].strip()
                a = a.partition(" | ")[2] if op == "f_to" else a
                m = lm[k].strip()
                compared += 1
                if m == "UNDEF":
                    stats["f_from: NaN reached the cast (not compared)"] += 1
                elif a != m:
                    findings.append(("disagree", op, req, a, m, f"binary64 model and implementation differ [{op}, literal]"))
                else:
                    stats[f"{op}: binary64 model = library (literal)"] += 1
                    if a.startswith("1 ") or op == "f_to":
                        nontrivial.add(hash("q" + req))
                continue
            if op in FLOAT_OPS:
                continue
            compared += 1
            a, m = li[k].strip(), lm[k].strip()
            if op == "invert":
                # "<library> | <exact-arithmetic verdict of the harness>"  vs  "<Lean Float mirror> | <Lean rational model>"
                a, _, aq = a.partition(" | ")
                m, _, mq = m.partition(" | ")
                if aq != mq:
                    findings.append(("disagree", op, req, aq, mq, "rational model (Model/MatrixQ.lean) and the exact-arithmetic oracle differ [invert, rational]"))
                else:
                    stats["invert: rational model = exact oracle (" + ("TRUE" if aq.startswith("1") else "FALSE, singular" if aq == "0 S" else "FALSE, overflow") + ")"] += 1
                    if aq.startswith("1"):
                        nontrivial.add(hash("q" + req))
            if m == "UNDEF":        # a NaN reached a double->int cast (undefined in C): not compared
                stats["invert: NaN reached the cast (not compared)"] += 1
                continue
            if a != m:
                findings.append(("disagree", op, req, a, m, "model and implementation differ"))
            if op in MODELLED_NONTRIVIAL and a.startswith("1") and not req.endswith(" 0 0 65536 65536") :
                t = req.split(" ")
                if not (op in ("point", "p31") and t[7:10] == ["0", "0", "65536"]):
                    nontrivial.add(hash(req))
                    if len(samples) < 6 and op not in [s.split(" ", 1)[0] for s in samples]:
                        samples.append(req + "  =>  " + a)
        with open(orc) as f:
            for ol in f:
                ol = ol.strip()
                mm = re.match(r"ORACLE (\d+) (.*)", ol)
                if mm:
                    ln, text = int(mm.group(1)), mm.group(2)
                    req = lo[ln - 1] if 0 < ln <= n else "?"
                    a = li[ln - 1].strip() if 0 < ln <= len(li) else None
                    findings.append(("oracle", req.split(" ", 1)[0], req, a, None, text))
                    continue
                mm = re.match(r"STAT (\d+) (.*)", ol)
                if mm:
                    stats[mm.group(2)] += int(mm.group(1))
                    continue
                mm = re.match(r"OBSERVE (\d+) (.*)", ol)
                if mm:
                    ln = int(mm.group(1))
                    if len(observations) < 6 and 0 < ln <= n:
                        observations.append({"request": lo[ln - 1], "implementation": li[ln - 1].strip() if ln <= len(li) else None, "what": mm.group(2)})
    ctx.cov["evaluations"] += total
    ctx.cov["distinct_nontrivial"] += len(nontrivial)
    ctx.cov["traces_validated_against_impl"] += compared
    ctx.cov["rule"] = ("independent requests (no state): matrices from {affine, scaled w, arbitrary, mild projective, one-entry w row, "
                       "identity with few changes}, entries from {0, +-1.0, +-2^k, +-2^k+-1, INT32_MIN/MAX(+-2), small nice values, small random, "
                       "random bit length}; for points a quarter of the requests solve for m22 so that w lands at 0+-3, 1.0+-2 or +-2^k+-2 "
                       "(k<64, in 32.32 units) and a sixth so that an affine result lands at +-2^31 +-3 half-units; 48.16 inputs at +-2^46 "
                       "and just outside; products at the int32 limit; boxes at the int16 limits.  non-trivial = modelled request answered "
                       "TRUE that is not an affine point request, distinct by full request text")
    ctx.cov["samples"] = samples
    ctx.extra["operation_histogram"] = dict(ops_hist)
    ctx.extra["harness_statistics"] = dict(stats)
    ctx.extra["observations(counted, not judged)"] = observations
    for o in observations[:2]:
        log(f"OBSERVATION (not judged): {o['what']}: {o['request']}  =>  {o['implementation']}")
    ctx.extra["float_family_requests(binary64 model = library, literal: f_from, f_to)"] = sum(ops_hist[o] for o in FLOAT_LITERAL)
    ctx.extra["float_family_requests(rational model = exact oracle; library within rounding bound)"] = sum(ops_hist[o] for o in FLOAT_RATIONAL + ("invert",))
    return findings


def report(ctx, findings, limit=8):
    seen = collections.OrderedDict()
    for kind, op, req, a, m, text in findings:
        seen.setdefault(signature(kind, op, text), []).append((kind, op, req, a, m, text))
    n = 0
    summary = {}
    for sig, items in seen.items():
        kind, op, req, a, m, text = min(items, key=lambda it: len(it[2]))
        summary[sig] = len(items)
        if n >= limit:
            continue
        if ctx.violation({"kind": kind, "request": req, "implementation": a, "model": m, "oracle": text,
                          "how_to_replay": "bin/check C11 --replay <this file>   (or: printf '%s\\n' \"<request>\" > ops.txt; "
                                           "<scratch>/matrix-plain exec ops.txt impl.txt oracle.txt; "
                                           "lean/.lake/build/bin/pixdrv matrix < ops.txt)",
                          "count_in_run": len(items)}, signature=sig, what=f"{op}: {text}", tag=op):
            n += 1
    ctx.extra["finding_signatures"] = summary


def run(ctx):
    broken = ctx.lean_obligations("Pixman.Props.C11", REQUIRED + REQUIRED_FLOAT, extra_modules=["Pixman.Props.C11Float"])
    quick = ctx.tier == "quick"
    findings = run_streams(ctx, 60000 if quick else 400000, 16 if quick else 48)
    report(ctx, findings)
    if broken and not ctx.violations:
        ctx.broken_obligations_verdict(broken, "matrix correspondence streams and the exact-arithmetic oracle found no failing input")
    ctx.assumptions += [
        "multiply (and scale/rotate/translate, which are multiplications): 'correctly rounded' is read as the sum of the three per-term "
        "roundings ((a*b+0x8000)>>16), within 3/2 unit of the exact entry (DESIGN 6/C11, M6)",
        "scale: the reciprocal 2^32/s may be any 16.16 value within one unit of the exact one (the code truncates); a reciprocal outside int32 must give FALSE",
        "point: ties may go either way (affine branch rounds half up, projective branch half away from zero)",
        "bounds: containment is judged to the 16.16 resolution of the transformed corner",
        "float family: modelled over exact rationals (Model/MatrixQ.lean; theorems Props/C11Float.lean, all `_partial`: IEEE-754 rounding of the "
        "individual double operations is not modelled).  pixman_transform_invert: (a) the rational model must reproduce literally the verdict of the harness's "
        "exact __int128 arithmetic (singular / overflow / the nine nearest 16.16 values); (b) the library must agree with the exact inverse within the a-posteriori "
        "bound of its own rounding errors, u = 2^-53: |det_fl - det| <= 6u*SD = kappa*|det| (SD = sum |m_i0|(|m m|+|m m|)), judged when kappa < 1/4, entry error "
        "E_k = (4/3)(4.1u*SC_k + kappa*|c_k|)*2^32/|det| + 2^-21 units (SC_k = |m m|+|m m| of the cofactor c_k): TRUE required when every |x_k| <= 32767.0 - E_k, FALSE "
        "required when some |x_k| > 32767.0 + E_k, a TRUE result must lie in [floor(x_k - E_k + 1/2), floor(x_k + E_k + 1/2)]; (c) bit-exact mirror on Lean Float (no theorem). "
        "Exactly singular input must give FALSE when every intermediate of the determinant is exactly representable in double; when it is not (products of two entries "
        "need more than 53 bits) the library's verdict is counted and listed under observations, not judged: it does return TRUE with a meaningless matrix for some exactly "
        "singular 16.16 matrices with large, nearly proportional rows.  NaN/inf inputs are not generated.  pixman_f_transform_invert / point / point_3d / bounds on 16.16 matrices seen as doubles: the rational model must "
        "reproduce literally the harness's exact verdict (reduced fractions / integer box); the library is judged against the exact values by the oracle (f_invert: the same "
        "bound in relative form; f_point: 16 ulp of the term magnitudes when w is free of cancellation; f_bounds: floor/ceil of the exact corner, one edge unit of slack only when "
        "the quotient lies within 2^-51 relative of an integer, corners up to 30000).  f_mul / f_scale / f_rotate / f_translate (operands = 16.16 values as exact doubles): rational model = exact fractions literally, library within 4u * sum |terms| of each entry.  "
        "f_from / f_to: the conversions on binary64 bit patterns are modelled EXACTLY (Model/Binary64.lean: value of a double; encoding of f/65536) and must equal the library literally, "
        "directed at neighbours of ties, of the range limits and subnormals.  Since /repo 50296f6 the double->16.16 entry conversion has no inexact operation on an in-range double (scaling by 2^16, floor, "
        "an exactly decided comparison of the fraction with 0.5), so MatrixQ.entryToFixed on the exact value IS the library's function and its theorems (nearest, ties up; round trips) are not `_partial`.  "
        "Predicates is_identity/is_scale/is_int_translate/is_inverse: model = library literally + two-unit-tolerance spec oracle; entries equal to INT32_MIN (negation wraps: undefined in C, "
        "the compiled code treats INT32_MIN as 'about zero') are modelled as the wrap and excluded from the spec oracle",
        "signed overflow that is undefined behaviour in C (negation of INT32_MIN inside the void pixman_transform_init_rotate, within_epsilon differences) is modelled as the "
        "two's complement wrap the compiled library shows",
        "int64 sums inside pixman_transform_point_31_16*/multiply are modelled unbounded; Props.C11.tmp_in_int64/mulEntry_in_int64 prove they fit",
    ]


def replay(ctx, path):
    obj = json.loads(open(path).read())
    req = obj.get("request")
    if not req or obj.get("kind") not in ("oracle", "disagree"):
        log(f"replay: {path} carries no request line ({obj.get('kind')}): {obj.get('what')}")
        return
    exe = build_harness(ctx)
    sh(["lake", "build", "pixdrv"], cwd=VERIF / "lean")
    d = ctx.scratch / "replay"
    d.mkdir(exist_ok=True)
    ops, impl, orc, model = d / "ops.txt", d / "impl.txt", d / "oracle.txt", d / "model.txt"
    ops.write_text(req + "\n")
    subprocess.run([str(exe), "exec", str(ops), str(impl), str(orc)], stderr=subprocess.DEVNULL)
    ctx.pixdrv("matrix", ops, model)
    a, m = impl.read_text().strip(), model.read_text().strip()
    log(f"request:        {req}\nimplementation: {a}\nmodel:          {m}")
    findings = []
    op = req.split(" ", 1)[0]
    if op == "invert":
        a, _, aq = a.partition(" | ")
        m, _, mq = m.partition(" | ")
        if aq != mq:
            findings.append(("disagree", op, req, aq, mq, "rational model (Model/MatrixQ.lean) and the exact-arithmetic oracle differ [invert, rational]"))
        if m == "UNDEF":
            m = a
    if op in FLOAT_LITERAL:
        al = a.partition(" | ")[2] if op == "f_to" else a
        if m != "UNDEF" and al != m:
            findings.append(("disagree", op, req, al, m, f"binary64 model and implementation differ [{op}, literal]"))
    if op in FLOAT_RATIONAL:
        aq = a.partition(" | ")[2]
        if aq != m:
            findings.append(("disagree", op, req, aq, m, f"rational model (Model/MatrixQ.lean) and the exact-arithmetic oracle differ [{op}, rational]"))
    if op not in FLOAT_OPS and a != m:
        findings.append(("disagree", op, req, a, m, "model and implementation differ"))
    for ol in orc.read_text().splitlines():
        mm = re.match(r"ORACLE (\d+) (.*)", ol.strip())
        if mm:
            log("oracle:         " + mm.group(2))
            findings.append(("oracle", op, req, a, None, mm.group(2)))
    ctx.cov["evaluations"] = 1
    report(ctx, findings)
    if not findings:
        log("replay: the request no longer fails")

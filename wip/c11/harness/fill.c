/* C19 — pixman_fill / pixman_blt / pixman_image_fill_boxes / pixman_image_fill_rectangles.
 *   fill gen  <seed> <kind> <cfg> <tier> <ops_out>        kind: fill | blt | boxes ; tier: 0 quick, 1 thorough
 *   fill exec <cfg> <ops_in> <impl_out> <oracle_out>
 * cfg: 0 PIXMAN_DISABLE unset, 1 "ssse3 sse2", 2 "ssse3 sse2 mmx", 3 "fast mmx sse2 ssse3".  The
 * library reads PIXMAN_DISABLE in its constructor, so the caller sets the environment of the exec
 * process; exec refuses to run when the environment does not match <cfg>.
 * Request lines (integers, decimal) — see lean/Driver/Fill.lean for the field lists.
 * Reply: return value, then the words of the destination buffer that differ from the initial
 * pattern as runs `index*count=hex` (boxes/rects: words masked to the defined bits of the format).
 * Oracle (independent of the Lean model):
 *   fill : TRUE => exactly the bits of the rectangle hold the filler narrowed to bpp, every other
 *          bit of the buffer (row padding, neighbouring sub-word pixels, guard words) is unchanged;
 *          FALSE => nothing changed.
 *   blt  : TRUE => the destination rectangle holds the source rectangle, everything else and the
 *          whole source buffer unchanged; FALSE => nothing changed.
 *   boxes/rects : the result equals compositing a solid-fill image of the colour over each box with
 *          the same operator on an identical destination (same clip), on the defined bits of every
 *          pixel; every bit outside the pixel rows is unchanged; the call returns TRUE.  The boxes
 *          of the reference are first cut to the image bounds (the same picture for a solid source):
 *          pixman_image_composite32 itself returns without drawing when the visible part of a request
 *          lies more than 32767 pixels from its origin (fill_boxes cuts its boxes since 51d8f75);
 *          a failure of that kind is tagged [far-origin].
 *          Second reference for formats with at most 8 bits per channel: a 1x1 repeating a8r8g8b8
 *          image holding color_to_uint32 (colour).
 */
#include <stdio.h>
#include <stdlib.h>
#include <string.h>
#include <stdint.h>
#include <pixman.h>
#include "rng.h"

static const char *cfgenv[4] = { "", "ssse3 sse2", "ssse3 sse2 mmx", "fast mmx sse2 ssse3" };

static uint32_t pat (uint64_t pseed, uint64_t i)
{
    if (pseed == 0) return 0;
    if (pseed == 1) return 0xffffffffu;
    uint32_t h = (uint32_t) (pseed * 0x9E3779B1ull + i * 0x85EBCA6Bull + 0x165667B1ull);
    h ^= h >> 15; h *= 0x2C1B3C6Du; h ^= h >> 12;
    return h;
}

/* a word buffer whose word 0 sits at machine address = al (mod 16) */
typedef struct { void *raw; uint32_t *w; uint32_t *snap; long n; } wbuf_t;
static void wb_make (wbuf_t *b, long n, int al, uint64_t pseed)
{
    if (posix_memalign (&b->raw, 64, (size_t) n * 4 + 128)) abort ();
    b->w = (uint32_t *) ((char *) b->raw + 64 + (al & 12));
    b->snap = malloc ((size_t) n * 4 + 4);
    b->n = n;
    for (long i = 0; i < n; i++) b->snap[i] = b->w[i] = pat (pseed, (uint64_t) i);
}
static void wb_free (wbuf_t *b) { free (b->raw); free (b->snap); }

static void print_runs (FILE *f, const uint32_t *w, const uint32_t *init, long n, uint32_t mask)
{
    long start = 0, len = 0; uint32_t val = 0;
    for (long i = 0; i < n; i++)
    {
        uint32_t v = w[i] & mask;
        int changed = v != (init[i] & mask);
        if (changed && len > 0 && v == val) len++;
        else
        {
            if (len > 0) fprintf (f, " %ld*%ld=%08x", start, len, val);
            if (changed) { start = i; len = 1; val = v; } else len = 0;
        }
    }
    if (len > 0) fprintf (f, " %ld*%ld=%08x", start, len, val);
}

static int getbit (const uint32_t *w, long long b) { return (w[b >> 5] >> (b & 31)) & 1; }
static void setbit (uint32_t *w, long long b, int v) { if (v) w[b >> 5] |= 1u << (b & 31); else w[b >> 5] &= ~(1u << (b & 31)); }

#define MAXQ 600
static long long q[MAXQ]; static int nq;
static int parse (char *line, char *op)
{
    char *p = line; nq = 0;
    while (*p == ' ') p++;
    int k = 0; while (*p && *p != ' ' && *p != '\n' && k < 15) op[k++] = *p++;
    op[k] = 0;
    while (*p)
    {
        char *e; long long v = strtoll (p, &e, 10);
        if (e == p) break;
        if (nq >= MAXQ) return 0;
        q[nq++] = v; p = e;
    }
    while (*p == ' ' || *p == '\n' || *p == '\r') p++;
    return *p == 0;
}

/* ------------------------------------------------------------------ fill */
static void exec_fill (FILE *out, FILE *orc, long ln, int cfg)
{
    if (nq != 12 || q[0] != cfg) { fprintf (out, "bad-request\n"); return; }
    int al = (int) q[1]; long n = (long) q[2]; long bits = (long) q[3]; int stride = (int) q[4]; int bpp = (int) q[5];
    int x = (int) q[6], y = (int) q[7], w = (int) q[8], h = (int) q[9]; uint32_t filler = (uint32_t) q[10]; uint64_t pseed = (uint64_t) q[11];
    if (n < 1 || n > 100000 || w < 0 || h < 0 || bits < 0 || bits >= n) { fprintf (out, "bad-request\n"); return; }
    /* every addressed bit must lie inside the buffer (the harness, not the library, is wrong otherwise) */
    for (int r = 0; r < h; r++)
    {
        long long b0 = ((long long) bits + (long long) (y + r) * stride) * 32 + (long long) x * bpp;
        long long b1 = b0 + (long long) w * bpp;
        if (b0 < 0 || b1 > (long long) n * 32) { fprintf (out, "bad-request\n"); return; }
    }
    wbuf_t b; wb_make (&b, n, al, pseed);
    int ret = pixman_fill (b.w + bits, stride, bpp, x, y, w, h, filler);
    fprintf (out, "%d", ret ? 1 : 0);
    print_runs (out, b.w, b.snap, n, 0xffffffffu);
    fprintf (out, "\n");
    /* oracle */
    uint32_t *exp = malloc ((size_t) n * 4);
    memcpy (exp, b.snap, (size_t) n * 4);
    if (ret)
        for (int r = 0; r < h; r++)
        {
            long long b0 = ((long long) bits + (long long) (y + r) * stride) * 32 + (long long) x * bpp;
            for (long long k = 0; k < (long long) w * bpp; k++)
                setbit (exp, b0 + k, (int) ((filler >> ((k % bpp) & 31)) & 1) & ((k % bpp) < 32));
        }
    for (long i = 0; i < n; i++)
        if (exp[i] != b.w[i])
        {
            fprintf (orc, "ORACLE %ld fill bpp=%d ret=%d: word %ld is %08x, expected %08x (%s)\n", ln, bpp, ret, i, b.w[i], exp[i],
                     ret ? "rectangle not exactly filled" : "FALSE returned but memory changed");
            break;
        }
    free (exp); wb_free (&b);
}

/* ------------------------------------------------------------------ blt */
static void exec_blt (FILE *out, FILE *orc, long ln, int cfg)
{
    if (nq != 18 || q[0] != cfg) { fprintf (out, "bad-request\n"); return; }
    int al = (int) q[1]; long sn = (long) q[2], dn = (long) q[3]; long sbits = (long) q[4], dbits = (long) q[5];
    int ss = (int) q[6], ds = (int) q[7], sbpp = (int) q[8], dbpp = (int) q[9];
    int sx = (int) q[10], sy = (int) q[11], dx = (int) q[12], dy = (int) q[13], w = (int) q[14], h = (int) q[15];
    uint64_t sp = (uint64_t) q[16], dp = (uint64_t) q[17];
    if (sn < 1 || dn < 1 || sn > 100000 || dn > 100000 || w < 0 || h < 0) { fprintf (out, "bad-request\n"); return; }
    for (int r = 0; r < h; r++)
    {
        long long s0 = ((long long) sbits + (long long) (sy + r) * ss) * 32 + (long long) sx * sbpp;
        long long d0 = ((long long) dbits + (long long) (dy + r) * ds) * 32 + (long long) dx * dbpp;
        if (s0 < 0 || s0 + (long long) w * sbpp > (long long) sn * 32 || d0 < 0 || d0 + (long long) w * dbpp > (long long) dn * 32)
        { fprintf (out, "bad-request\n"); return; }
    }
    wbuf_t s, d; wb_make (&s, sn, (al + 4) & 12, sp); wb_make (&d, dn, al, dp);
    int ret = pixman_blt (s.w + sbits, d.w + dbits, ss, ds, sbpp, dbpp, sx, sy, dx, dy, w, h);
    fprintf (out, "%d", ret ? 1 : 0);
    print_runs (out, d.w, d.snap, dn, 0xffffffffu);
    fprintf (out, "\n");
    uint32_t *exp = malloc ((size_t) dn * 4);
    memcpy (exp, d.snap, (size_t) dn * 4);
    if (ret && sbpp != dbpp)
        fprintf (orc, "ORACLE %ld blt %d->%d bpp returned TRUE: not a copy\n", ln, sbpp, dbpp);
    if (ret && sbpp == dbpp)
        for (int r = 0; r < h; r++)
        {
            long long s0 = ((long long) sbits + (long long) (sy + r) * ss) * 32 + (long long) sx * sbpp;
            long long d0 = ((long long) dbits + (long long) (dy + r) * ds) * 32 + (long long) dx * dbpp;
            for (long long k = 0; k < (long long) w * dbpp; k++) setbit (exp, d0 + k, getbit (s.snap, s0 + k));
        }
    for (long i = 0; i < dn; i++)
        if (exp[i] != d.w[i])
        {
            fprintf (orc, "ORACLE %ld blt bpp=%d ret=%d: destination word %ld is %08x, expected %08x (%s)\n", ln, dbpp, ret, i, d.w[i], exp[i],
                     ret ? "rectangle not exactly copied" : "FALSE returned but memory changed");
            break;
        }
    for (long i = 0; i < sn; i++)
        if (s.w[i] != s.snap[i]) { fprintf (orc, "ORACLE %ld blt bpp=%d ret=%d: source word %ld changed\n", ln, sbpp, ret, i); break; }
    free (exp); wb_free (&s); wb_free (&d);
}

/* ------------------------------------------------------------------ fill_boxes / fill_rectangles */
static uint32_t chan_mask (int n, int sh) { return n ? ((n >= 32 ? 0xffffffffu : ((1u << n) - 1)) << sh) : 0; }
/* defined bits of one pixel, for formats of at most 32 bpp */
static uint32_t pixel_mask (pixman_format_code_t f)
{
    int bpp = PIXMAN_FORMAT_BPP (f), a = PIXMAN_FORMAT_A (f), r = PIXMAN_FORMAT_R (f), g = PIXMAN_FORMAT_G (f), b = PIXMAN_FORMAT_B (f);
    switch (PIXMAN_FORMAT_TYPE (f))
    {
    case PIXMAN_TYPE_A: return chan_mask (a, 0);
    case PIXMAN_TYPE_ARGB: case PIXMAN_TYPE_ARGB_SRGB: return chan_mask (b, 0) | chan_mask (g, b) | chan_mask (r, b + g) | chan_mask (a, b + g + r);
    case PIXMAN_TYPE_ABGR: return chan_mask (r, 0) | chan_mask (g, r) | chan_mask (b, r + g) | chan_mask (a, r + g + b);
    case PIXMAN_TYPE_BGRA: return chan_mask (b, bpp - b) | chan_mask (g, bpp - b - g) | chan_mask (r, bpp - b - g - r) | chan_mask (a, bpp - b - g - r - a);
    case PIXMAN_TYPE_RGBA: return chan_mask (r, bpp - r) | chan_mask (g, bpp - r - g) | chan_mask (b, bpp - r - g - b) | chan_mask (a, bpp - r - g - b - a);
    default: return 0xffffffffu;
    }
}
static uint32_t word_mask (pixman_format_code_t f)
{
    int bpp = PIXMAN_FORMAT_BPP (f);
    uint32_t px = pixel_mask (f);
    if (bpp == 32) return px;
    if (bpp == 16) return (px & 0xffff) * 0x10001u;
    if (bpp == 8) return (px & 0xff) * 0x1010101u;
    if (bpp == 4) return (px & 0xf) * 0x11111111u;
    return 0xffffffffu;     /* 1, 24, 128 bpp: every bit defined */
}

static pixman_image_t *mk_dest (pixman_format_code_t fmt, int width, int height, uint32_t *bits, int rowstride, int nclip, const long long *clip)
{
    pixman_image_t *img = pixman_image_create_bits_no_clear (fmt, width, height, bits, rowstride * 4);
    if (!img) return NULL;
    if (nclip >= 0)
    {
        pixman_box32_t bx[64];
        for (int i = 0; i < nclip; i++) { bx[i].x1 = (int) clip[4 * i]; bx[i].y1 = (int) clip[4 * i + 1]; bx[i].x2 = (int) clip[4 * i + 2]; bx[i].y2 = (int) clip[4 * i + 3]; }
        pixman_region32_t r;
        pixman_region32_init_rects (&r, bx, nclip);
        pixman_image_set_clip_region32 (img, &r);
        pixman_region32_fini (&r);
    }
    return img;
}

static void exec_boxes (FILE *out, FILE *orc, long ln, int cfg, int is_rects)
{
    if (nq < 16 || q[0] != cfg) { fprintf (out, "bad-request\n"); return; }
    int al = (int) q[1]; pixman_format_code_t fmt = (pixman_format_code_t) q[2]; int width = (int) q[3], height = (int) q[4];
    int rowstride = (int) q[5]; long bits = (long) q[6]; long n = (long) q[7]; uint64_t pseed = (uint64_t) q[8];
    int op = (int) q[9]; pixman_color_t color = { (uint16_t) q[10], (uint16_t) q[11], (uint16_t) q[12], (uint16_t) q[13] };
    int nclip = (int) q[14];
    int pos = 15;
    if (nclip > 64 || nclip < -1) { fprintf (out, "bad-request\n"); return; }
    const long long *clip = q + pos;
    if (nclip > 0) pos += 4 * nclip;
    if (pos >= nq) { fprintf (out, "bad-request\n"); return; }
    int nb = (int) q[pos++];
    if (nb < 0 || nb > 64 || pos + 4 * nb != nq) { fprintf (out, "bad-request\n"); return; }
    const long long *bx = q + pos;
    int bpp = PIXMAN_FORMAT_BPP (fmt);
    if (width < 1 || height < 1 || n < 1 || n > 100000) { fprintf (out, "bad-request\n"); return; }
    long long rowbits = (long long) width * bpp;
    for (int r = 0; r < height; r++)
    {
        long long b0 = ((long long) bits + (long long) r * rowstride) * 32;
        if (b0 < 0 || b0 + ((rowbits + 31) / 32) * 32 > (long long) n * 32) { fprintf (out, "bad-request\n"); return; }
    }
    wbuf_t A, B, C, D; wb_make (&A, n, al, pseed); wb_make (&B, n, al, pseed); wb_make (&C, n, al, pseed); wb_make (&D, n, al, pseed);
    pixman_image_t *da = mk_dest (fmt, width, height, A.w + bits, rowstride, nclip, clip);
    pixman_image_t *db = mk_dest (fmt, width, height, B.w + bits, rowstride, nclip, clip);
    pixman_image_t *dc = mk_dest (fmt, width, height, C.w + bits, rowstride, nclip, clip);
    pixman_image_t *dd = mk_dest (fmt, width, height, D.w + bits, rowstride, nclip, clip);
    if (!da || !db || !dc || !dd) { fprintf (out, "bad-request\n"); return; }
    int ret;
    pixman_box32_t boxes[64];
    if (is_rects)
    {
        pixman_rectangle16_t rects[64];
        for (int i = 0; i < nb; i++)
        {
            rects[i].x = (int16_t) bx[4 * i]; rects[i].y = (int16_t) bx[4 * i + 1]; rects[i].width = (uint16_t) bx[4 * i + 2]; rects[i].height = (uint16_t) bx[4 * i + 3];
            boxes[i].x1 = rects[i].x; boxes[i].y1 = rects[i].y; boxes[i].x2 = rects[i].x + rects[i].width; boxes[i].y2 = rects[i].y + rects[i].height;
        }
        ret = pixman_image_fill_rectangles ((pixman_op_t) op, da, &color, nb, rects);
    }
    else
    {
        for (int i = 0; i < nb; i++) { boxes[i].x1 = (int) bx[4 * i]; boxes[i].y1 = (int) bx[4 * i + 1]; boxes[i].x2 = (int) bx[4 * i + 2]; boxes[i].y2 = (int) bx[4 * i + 3]; }
        ret = pixman_image_fill_boxes ((pixman_op_t) op, da, &color, nb, boxes);
    }
    uint32_t wm = word_mask (fmt);
    fprintf (out, "%d", ret ? 1 : 0);
    print_runs (out, A.w, A.snap, n, wm);
    fprintf (out, "\n");

    /* reference 1: a solid-fill image of the colour composited over each box */
    pixman_image_t *solid = pixman_image_create_solid_fill (&color);
    for (int i = 0; i < nb; i++)
        pixman_image_composite32 ((pixman_op_t) op, solid, NULL, db, 0, 0, 0, 0, boxes[i].x1, boxes[i].y1, boxes[i].x2 - boxes[i].x1, boxes[i].y2 - boxes[i].y1);
    /* classification aid: the same with every box first cut to the image bounds (for a solid source
     * the same picture; pixman_image_composite32 itself drops a request whose visible part lies more
     * than 32767 pixels right of / below the box origin) */
    for (int i = 0; i < nb; i++)
    {
        int x1 = boxes[i].x1 < 0 ? 0 : boxes[i].x1, y1 = boxes[i].y1 < 0 ? 0 : boxes[i].y1;
        int x2 = boxes[i].x2 > width ? width : boxes[i].x2, y2 = boxes[i].y2 > height ? height : boxes[i].y2;
        if (x1 < x2 && y1 < y2) pixman_image_composite32 ((pixman_op_t) op, solid, NULL, dd, 0, 0, 0, 0, x1, y1, x2 - x1, y2 - y1);
    }
    pixman_image_unref (solid);
    /* reference 2: 1x1 repeating a8r8g8b8 image (8 bits per channel: only for narrow destinations) */
    int narrow = bpp <= 32 && PIXMAN_FORMAT_A (fmt) <= 8 && PIXMAN_FORMAT_R (fmt) <= 8 && PIXMAN_FORMAT_G (fmt) <= 8 && PIXMAN_FORMAT_B (fmt) <= 8
                 && PIXMAN_FORMAT_TYPE (fmt) != PIXMAN_TYPE_ARGB_SRGB && op <= PIXMAN_OP_SATURATE
                 && color.alpha % 257 == 0 && color.red % 257 == 0 && color.green % 257 == 0 && color.blue % 257 == 0;
    if (narrow)
    {
        uint32_t px = ((uint32_t) (color.alpha >> 8) << 24) | ((uint32_t) (color.red >> 8) << 16) | (color.green & 0xff00) | (color.blue >> 8);
        pixman_image_t *one = pixman_image_create_bits (PIXMAN_a8r8g8b8, 1, 1, &px, 4);
        pixman_image_set_repeat (one, PIXMAN_REPEAT_NORMAL);
        for (int i = 0; i < nb; i++)
            pixman_image_composite32 ((pixman_op_t) op, one, NULL, dc, 0, 0, 0, 0, boxes[i].x1, boxes[i].y1, boxes[i].x2 - boxes[i].x1, boxes[i].y2 - boxes[i].y1);
        pixman_image_unref (one);
    }
    if (!ret) fprintf (orc, "ORACLE %ld boxes: the call reported failure\n", ln);
    /* compare: inside the pixel rows on defined bits, elsewhere exactly the initial content */
    uint8_t *inrow = calloc ((size_t) n, 1);    /* 1: word entirely pixels, 2: partly */
    uint32_t *pm = calloc ((size_t) n, 4);      /* per word: which bits are pixel bits (and defined) */
    for (int r = 0; r < height; r++)
    {
        long long b0 = ((long long) bits + (long long) r * rowstride) * 32;
        for (long long k = 0; k < rowbits; k++) pm[(b0 + k) >> 5] |= 1u << ((b0 + k) & 31);
    }
    /* the reference is D: B with every box first cut to the image bounds.  B == D unless
     * pixman_image_composite32 dropped a request (visible part more than 32767 px from the box origin) */
    int eqD = 1, eqBD = 1; long wD = -1;
    for (long i = 0; i < n; i++)
    {
        uint32_t m = pm[i] & wm;
        if ((A.w[i] & m) != (D.w[i] & m)) { if (eqD) wD = i; eqD = 0; }
        if ((B.w[i] & m) != (D.w[i] & m)) eqBD = 0;
    }
    if (eqD && !eqBD) fprintf (orc, "NOTE %ld far-origin box drawn by the direct fill (composite32 would drop it)\n", ln);
    int done = 0;
    for (long i = 0; i < n && !done; i++)
    {
        uint32_t m = pm[i] & wm;
        if ((A.w[i] & ~pm[i]) != (A.snap[i] & ~pm[i]))
        { fprintf (orc, "ORACLE %ld boxes frame: word %ld outside the pixel rows changed (%08x -> %08x)\n", ln, i, A.snap[i], A.w[i]); done = 1; }
        else if (!eqD && i == wD)
        {
            fprintf (orc, "ORACLE %ld boxes vs solid composite%s: word %ld is %08x, compositing gives %08x (initially %08x)\n", ln,
                     !eqBD ? " [far-origin: a box whose visible part is more than 32767 px from its origin is omitted]" : "", i, A.w[i] & m, D.w[i] & m, A.snap[i] & m);
            done = 1;
        }
        else if (eqD && eqBD && narrow && (A.w[i] & m) != (C.w[i] & m))
        { fprintf (orc, "ORACLE %ld boxes vs 1x1 repeat composite: word %ld is %08x, compositing gives %08x (initially %08x)\n", ln, i, A.w[i] & m, C.w[i] & m, A.snap[i] & m); done = 1; }
    }
    free (inrow); free (pm);
    pixman_image_unref (da); pixman_image_unref (db); pixman_image_unref (dc); pixman_image_unref (dd);
    wb_free (&A); wb_free (&B); wb_free (&C); wb_free (&D);
}

/* ------------------------------------------------------------------ generators */
static uint32_t edge_u32 (void)
{
    static const uint32_t e[] = { 0, 0xffffffffu, 1, 0x80000000u, 0xfe, 0xff, 0x100, 0xffff, 0x10000, 0xff00ff00u, 0x00ff00ffu, 0xfffffffeu, 0x7fffffffu };
    if (rng_chance (45)) return e[rng_n ((int) (sizeof e / sizeof e[0]))];
    return rng_u32 ();
}
static long long pick_pseed (void) { int k = rng_n (10); return k == 0 ? 0 : k == 1 ? 1 : 2 + (long long) (rng_u32 () & 0x3fffffff); }

static void gen_fill_line (FILE *f, int cfg, int bpp, int x, int w, int kind, int h)
{
    int y = rng_n (3);
    long long need = ((long long) (x + w) * bpp + 31) / 32; if (need < 1) need = 1;
    int pad = kind == 0 ? 0 : kind == 1 ? 1 + rng_n (3) : rng_n (3);
    long sabs = (long) need + pad;
    int nrows = y + h + 1;
    int G = 3 + rng_n (4);
    long n = G + (long) nrows * sabs + G;
    long bits = kind == 2 ? G + (long) (nrows - 1) * sabs : G;
    long stride = kind == 2 ? -sabs : sabs;
    fprintf (f, "fill %d %d %ld %ld %ld %d %d %d %d %d %u %lld\n", cfg, 4 * rng_n (4), n, bits, stride, bpp, x, y, w, h, edge_u32 (), pick_pseed ());
}
static const int fill_bpps[] = { 1, 4, 8, 16, 24, 32 };
static void gen_fill (FILE *f, int cfg, int tier)
{
    for (int bi = 0; bi < 6; bi++)
        for (int x = 0; x <= 70; x++)
            for (int w = 0; w <= 70; w++)
            {
                if (tier)
                {
                    for (int kind = 0; kind < 3; kind++) for (int h = 0; h <= 3; h++) gen_fill_line (f, cfg, fill_bpps[bi], x, w, kind, h);
                }
                else
                {
                    /* quick: three of the twelve (stride kind, height) combinations per (bpp, x, width) */
                    int k0 = rng_n (12);
                    for (int j = 0; j < 3; j++) { int c = (k0 + 5 * j) % 12; gen_fill_line (f, cfg, fill_bpps[bi], x, w, c % 3, c / 3); }
                }
            }
    /* a few unusual depths and large shapes */
    static const int odd[] = { 0, 2, 3, 5, 7, 12, 15, 31, 33, 64, 128, 20, 48 };
    for (int i = 0; i < 13; i++) for (int j = 0; j < 6; j++)
    {
        long long ps = pick_pseed ();
        fprintf (f, "fill %d %d %d %d %d %d %d %d %d %d %u %lld\n", cfg, 4 * rng_n (4), 400, 40, 20, odd[i], rng_n (4), rng_n (3), rng_n (5), rng_n (4), edge_u32 (), ps);
    }
    for (int i = 0; i < (tier ? 4000 : 400); i++)
    {
        int bpp = fill_bpps[rng_n (6)];
        gen_fill_line (f, cfg, bpp, rng_n (2000), rng_n (1200), rng_n (3), rng_n (6));
    }
}

static void gen_blt_line (FILE *f, int cfg, int sbpp, int dbpp, int dx, int w)
{
    int sx = rng_n (40), sy = rng_n (3), dy = rng_n (3), h = rng_n (4);
    long long sneed = ((long long) (sx + w) * sbpp + 31) / 32; if (sneed < 1) sneed = 1;
    long long dneed = ((long long) (dx + w) * dbpp + 31) / 32; if (dneed < 1) dneed = 1;
    long ssabs = (long) sneed + rng_n (3), dsabs = (long) dneed + rng_n (3);
    int sneg = rng_chance (25), dneg = rng_chance (25);
    int G = 3 + rng_n (4);
    int srows = sy + h + 1, drows = dy + h + 1;
    long sn = 2 * G + srows * ssabs, dn = 2 * G + drows * dsabs;
    long sbits = sneg ? G + (srows - 1) * ssabs : G, dbits = dneg ? G + (drows - 1) * dsabs : G;
    long long sp = pick_pseed (); long long dp = pick_pseed ();
    if (sp < 2 && rng_chance (80)) sp = 2 + (rng_u32 () & 0xffffff);
    fprintf (f, "blt %d %d %ld %ld %ld %ld %ld %ld %d %d %d %d %d %d %d %d %lld %lld\n", cfg, 4 * rng_n (4), sn, dn, sbits, dbits,
             sneg ? -ssabs : ssabs, dneg ? -dsabs : dsabs, sbpp, dbpp, sx, sy, dx, dy, w, h, sp, dp);
}
static void gen_blt (FILE *f, int cfg, int tier)
{
    static const int pairs[][2] = { { 32, 32 }, { 16, 16 }, { 8, 8 }, { 1, 1 }, { 4, 4 }, { 24, 24 }, { 16, 32 }, { 32, 16 }, { 8, 32 }, { 32, 8 }, { 16, 8 }, { 1, 8 } };
    int reps = tier ? 6 : 1;
    for (int rep = 0; rep < reps; rep++)
        for (int p = 0; p < 12; p++)
        {
            int full = p < 2;       /* the depths some implementation copies */
            for (int dx = 0; dx <= (full ? 40 : 12); dx++)
                for (int w = 0; w <= 70; w += (full ? 1 : 3))
                    gen_blt_line (f, cfg, pairs[p][0], pairs[p][1], dx, w);
        }
    for (int i = 0; i < (tier ? 3000 : 300); i++) { int p = rng_n (2); gen_blt_line (f, cfg, pairs[p][0], pairs[p][1], rng_n (600), rng_n (900)); }
}

static const pixman_format_code_t box_fmts[] = {
    PIXMAN_a8r8g8b8, PIXMAN_x8r8g8b8, PIXMAN_a8b8g8r8, PIXMAN_x8b8g8r8, PIXMAN_b8g8r8a8, PIXMAN_b8g8r8x8, PIXMAN_r8g8b8a8, PIXMAN_r8g8b8x8,
    PIXMAN_r5g6b5, PIXMAN_b5g6r5, PIXMAN_a8, PIXMAN_a1,
    PIXMAN_a4, PIXMAN_r8g8b8, PIXMAN_b8g8r8, PIXMAN_a2r10g10b10, PIXMAN_x2r10g10b10, PIXMAN_a2b10g10r10, PIXMAN_a1r5g5b5, PIXMAN_x1r5g5b5,
    PIXMAN_a4r4g4b4, PIXMAN_x4r4g4b4, PIXMAN_r3g3b2, PIXMAN_a2r2g2b2, PIXMAN_x4a4, PIXMAN_a8r8g8b8_sRGB, PIXMAN_rgba_float, PIXMAN_rgb_float, PIXMAN_r1g2b1, PIXMAN_a1r1g1b1 };
#define NBF ((int) (sizeof box_fmts / sizeof box_fmts[0]))
static int edge_u16 (void)
{
    static const int e[] = { 0xffff, 0xffff, 0xff00, 0, 0, 0x00ff, 0x0100, 0x8000, 0x7fff, 0xfeff, 0xff01, 0x0001, 0x8080 };
    if (rng_chance (60)) return e[rng_n (13)];
    return (int) (rng_u32 () & 0xffff);
}
static int pick_op (void)
{
    int k = rng_n (100);
    if (k < 70) return rng_n (14);
    if (k < 78) return 0x10 + rng_n (12);
    if (k < 86) return 0x20 + rng_n (12);
    return 0x30 + rng_n (15);
}
static int coord (int size)
{
    int k = rng_n (100);
    if (k < 55) return rng_range (-3, size + 3);
    if (k < 80) { static const int e[] = { 0, 1, -1 }; return (rng_chance (50) ? 0 : size) + e[rng_n (3)]; }
    if (k < 92) return rng_range (-40, size + 40);
    if (k < 97) return rng_chance (50) ? rng_range (-70000, -30000) : rng_range (30000, 70000);
    return rng_chance (50) ? -1000000000 : 1000000000;
}
static void gen_boxes_line (FILE *f, int cfg)
{
    int is_rects = rng_chance (30);
    pixman_format_code_t fmt = rng_chance (70) ? box_fmts[rng_n (12)] : box_fmts[rng_n (NBF)];
    int bpp = PIXMAN_FORMAT_BPP (fmt);
    int width = rng_chance (20) ? 1 + rng_n (3) : 1 + rng_n (bpp >= 128 ? 12 : 70), height = 1 + rng_n (5);
    long need = ((long) width * bpp + 31) / 32;
    long sabs = need + (rng_chance (50) ? 0 : 1 + rng_n (2));
    if (bpp > 32) sabs = (sabs + 3) / 4 * 4;      /* _pixman_bits_image_init wants rowstride % 4 == 0 for the float formats */
    int neg = rng_chance (20);
    int G = 3 + rng_n (4);
    long n = 2 * G + height * sabs;
    long bits = neg ? G + (height - 1) * sabs : G;
    int a = edge_u16 ();
    fprintf (f, "%s %d %d %u %d %d %ld %ld %ld %lld %d %d %d %d %d", is_rects ? "rects" : "boxes", cfg, 4 * rng_n (4), (unsigned) fmt, width, height,
             neg ? -sabs : sabs, bits, n, pick_pseed (), pick_op (), edge_u16 (), edge_u16 (), edge_u16 (), a);
    if (rng_chance (40)) fprintf (f, " -1");
    else
    {
        int nc = rng_chance (15) ? 0 : 1 + rng_n (4);
        fprintf (f, " %d", nc);
        for (int i = 0; i < nc; i++)
        {
            int x1 = rng_range (-4, width + 2), y1 = rng_range (-2, height + 1);
            int x2 = rng_chance (8) ? x1 - rng_n (2) : x1 + 1 + rng_n (width + 4), y2 = rng_chance (8) ? y1 : y1 + 1 + rng_n (height + 2);
            fprintf (f, " %d %d %d %d", x1, y1, x2, y2);
        }
    }
    int nb = rng_chance (10) ? 0 : rng_chance (15) ? 7 + rng_n (6) : 1 + rng_n (5);
    fprintf (f, " %d", nb);
    for (int i = 0; i < nb; i++)
    {
        if (is_rects)
        {
            int x = coord (width), y = coord (height);
            if (x < -32768) x = -32768; if (x > 32767) x = 32767; if (y < -32768) y = -32768; if (y > 32767) y = 32767;
            int w = rng_chance (10) ? 0 : rng_chance (8) ? 65535 : rng_n (width + 6), h = rng_chance (10) ? 0 : rng_chance (8) ? 65535 : rng_n (height + 4);
            fprintf (f, " %d %d %d %d", x, y, w, h);
        }
        else
        {
            int x1 = coord (width), y1 = coord (height), x2, y2;
            int k = rng_n (100);
            if (k < 8) { x2 = x1; y2 = coord (height); }              /* empty */
            else if (k < 14) { x2 = x1 - 1 - rng_n (5); y2 = y1 + 2; } /* negative */
            else if (k < 18) { x2 = coord (width); y2 = y1 - rng_n (3); }
            else { x2 = coord (width); y2 = coord (height); if (rng_chance (80)) { if (x2 < x1) { int t = x1; x1 = x2; x2 = t; } if (y2 < y1) { int t = y1; y1 = y2; y2 = t; } } }
            fprintf (f, " %d %d %d %d", x1, y1, x2, y2);
        }
    }
    fprintf (f, "\n");
}

int main (int argc, char **argv)
{
    if (argc >= 7 && !strcmp (argv[1], "gen"))
    {
        uint64_t seed = strtoull (argv[2], 0, 10); int cfg = atoi (argv[4]), tier = atoi (argv[5]);
        FILE *f = fopen (argv[6], "w"); if (!f) return 2;
        rng_seed (seed * 16 + (uint64_t) cfg * 4 + (argv[3][0] == 'f' ? 0 : argv[3][1] == 'l' ? 1 : 2));
        if (!strcmp (argv[3], "fill")) gen_fill (f, cfg, tier);
        else if (!strcmp (argv[3], "blt")) gen_blt (f, cfg, tier);
        else if (!strcmp (argv[3], "boxes")) { long cnt = tier ? 400000 : 40000; for (long i = 0; i < cnt; i++) gen_boxes_line (f, cfg); }
        else return 2;
        fclose (f);
        return 0;
    }
    if (argc >= 6 && !strcmp (argv[1], "exec"))
    {
        int cfg = atoi (argv[2]);
        const char *e = getenv ("PIXMAN_DISABLE");
        if (cfg < 0 || cfg > 3 || strcmp (e ? e : "", cfgenv[cfg])) { fprintf (stderr, "fill exec: PIXMAN_DISABLE does not match cfg %d\n", cfg); return 3; }
        FILE *in = fopen (argv[3], "r"), *out = fopen (argv[4], "w"), *orc = fopen (argv[5], "w");
        if (!in || !out || !orc) return 2;
        static char line[16384]; char op[16]; long ln = 0;
        while (fgets (line, sizeof line, in))
        {
            ln++;
            if (!parse (line, op)) { fprintf (out, "bad-request\n"); continue; }
            if (!strcmp (op, "fill")) exec_fill (out, orc, ln, cfg);
            else if (!strcmp (op, "blt")) exec_blt (out, orc, ln, cfg);
            else if (!strcmp (op, "boxes")) exec_boxes (out, orc, ln, cfg, 0);
            else if (!strcmp (op, "rects")) exec_boxes (out, orc, ln, cfg, 1);
            else fprintf (out, "bad-request\n");
        }
        fclose (out); fclose (orc);
        return 0;
    }
    fprintf (stderr, "usage: fill gen <seed> <kind> <cfg> <tier> <ops_out> | fill exec <cfg> <ops_in> <impl_out> <oracle_out>\n");
    return 2;
}

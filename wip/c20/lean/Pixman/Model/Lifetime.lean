/-
  Model of image lifetime in pixman (property C20): pixman/pixman-image.c
  (`_pixman_image_allocate`, `pixman_image_ref/unref`, `_pixman_image_fini`,
  `pixman_image_set_alpha_map`, `set_destroy_function`, `set_transform/filter/clip_region`),
  pixman-bits-image.c (`create_bits` / `free_me`), the gradients' stop arrays and the image copies
  owned by a glyph cache (pixman-glyph.c insert / remove / destroy).

  Hand-written; one Lean function per C function, C statement order kept.  Tied to the code by the
  correspondence check `harness/lifetime.c` <-> `pixdrv lifetime`.

  Memory.  Every pointer field that owns a heap block is a `Cell`: the block it points to (blocks of
  one field are numbered in allocation order), how many were allocated, and how many times `free()`
  was called on each of them.  `free (field)` is `Cell.free` (it does NOT clear the pointer, as in
  C), `field = NULL` is `Cell.clear`, `field = malloc (..)` is `Cell.alloc`.  The image struct
  itself is the block `freed` counts.  A double free is therefore a block with count 2, a leak a
  block with count 0 that nothing points to, a use after free an access (`touch`) to an image whose
  `freed` is not 0 — all representable, so that the theorems of Props/C20 say something.

  Out of the model: allocation failure (C15); the contents of pixel buffers; the hash-table layout
  and the eviction of the glyph cache (C17: the cache here is the abstract map, histories insert a
  key only while it is absent and stay below the high-water mark).
-/
namespace Pixman.Model.Lifetime

inductive Kind where
  | bits | linear | conical | radial | solid
deriving DecidableEq, Repr, Inhabited

/-- a pointer field owning a heap block -/
structure Cell where
  ptr : Option Nat := none
  allocated : Nat := 0
  frees : Nat → Nat := fun _ => 0

/-- `free (field)`; `free (NULL)` does nothing; the field keeps its value -/
def Cell.free (c : Cell) : Cell :=
  match c.ptr with
  | none => c
  | some g => { c with frees := fun k => if k = g then c.frees k + 1 else c.frees k }

/-- `field = NULL` -/
def Cell.clear (c : Cell) : Cell := { c with ptr := none }

/-- `field = malloc (..)` (a block never handed out before) -/
def Cell.alloc (c : Cell) : Cell := { c with ptr := some c.allocated, allocated := c.allocated + 1 }

/-- blocks of this field that were allocated and not freed, minus surplus frees -/
def Cell.liveBlocks (c : Cell) : Int :=
  (c.allocated : Int) - (((List.range c.allocated).map c.frees).sum : Nat)

/-- `image_common_t` + the owning fields of `bits_image_t` / `gradient_t` -/
structure Image where
  kind : Kind := .solid
  width : Nat := 0                 -- bits.width / bits.height (read by the glyph cache's copy)
  height : Nat := 0
  refCount : Int := 0
  freed : Nat := 0                 -- times `free (image)` ran
  alphaMap : Option Nat := none    -- common.alpha_map (an image id)
  alphaCount : Int := 0
  alphaX : Int := 0
  alphaY : Int := 0
  freeMe : Cell := {}              -- bits.free_me
  transform : Cell := {}           -- common.transform
  transformVal : Nat := 0          -- contents of *transform (a token; 0 = identity)
  filter : Nat := 3                -- PIXMAN_FILTER_NEAREST
  filterParams : Cell := {}        -- common.filter_params
  nFilterParams : Int := 0
  haveClip : Bool := false
  clipData : Cell := {}            -- common.clip_region.data when it is a heap block
  clipSize : Nat := 0              -- clip_region.data->size (0: NULL or the static empty data)
  clipRects : Nat := 0             -- number of rectangles of clip_region
  stops : Cell := {}               -- gradient.stops (the block starts one element earlier)
  indexed : Option Nat := none     -- bits.indexed (a client pointer; not owned)
  destroyFunc : Bool := false
  destroyData : Nat := 0

/-- one entry of the glyph cache: `glyph_t` block number and the cache's private image -/
structure Glyph where
  key : Nat
  blk : Nat
  image : Nat
deriving Repr, DecidableEq

structure Cache where
  freeze : Int := 0
  entries : List Glyph := []       -- most recently inserted first

structure Heap where
  nimg : Nat := 0                          -- images created so far; ids are 0 .. nimg-1
  img : Nat → Image := fun _ => {}
  ext : Nat → Nat := fun _ => 0            -- GHOST: references held by the client
  fired : List (Nat × Nat) := []           -- destroy callbacks in firing order: (image, data)
  uaf : Nat := 0                           -- accesses to an image struct that is not allocated
  stuck : Nat := 0                         -- recursion budget exhausted (never, see Props)
  cache : Option Cache := none             -- the glyph cache, while it exists
  cachesMade : Nat := 0
  cachesFreed : Nat := 0
  glyphsMade : Nat := 0                    -- `glyph_t` blocks allocated
  glyphFrees : Nat → Nat := fun _ => 0     -- `free (glyph)` calls per block

def Heap.modify (h : Heap) (i : Nat) (f : Image → Image) : Heap :=
  { h with img := fun j => if j = i then f (h.img j) else h.img j }

/-- the image struct is allocated and has not been freed -/
def Heap.live (h : Heap) (i : Nat) : Prop := i < h.nimg ∧ (h.img i).freed = 0

instance (h : Heap) (i : Nat) : Decidable (h.live i) := by unfold Heap.live; exact inferInstance

/-- every dereference of an image pointer goes through here -/
def touch (h : Heap) (i : Nat) : Heap :=
  if h.live i then h else { h with uaf := h.uaf + 1 }

/-- `_pixman_image_allocate` + `_pixman_image_init`: a new struct with `ref_count = 1`; the client
    (or the glyph cache, `ext0 = 0`) holds that reference -/
def allocate (h : Heap) (k : Kind) (ext0 : Nat) : Heap × Nat :=
  let id := h.nimg
  ({ h with nimg := id + 1
            img := fun j => if j = id then { kind := k, refCount := 1 } else h.img j
            ext := fun j => if j = id then ext0 else h.ext j }, id)

/-- `pixman_image_create_bits (format, w, h, bits, stride)`: the library allocates the pixels
    (`free_me`) exactly when `bits == NULL && width && height` -/
def createBits (h : Heap) (w ht : Nat) (own : Bool) (ext0 : Nat) : Heap × Nat :=
  let (h, id) := allocate h .bits ext0
  let h := h.modify id fun im => { im with width := w, height := ht }
  if own ∧ w ≠ 0 ∧ ht ≠ 0 then (h.modify id fun im => { im with freeMe := im.freeMe.alloc }, id)
  else (h, id)

def createSolid (h : Heap) : Heap × Nat := allocate h .solid 1

/-- `pixman_image_create_{linear,radial,conical}_gradient`; `n_stops <= 0` makes
    `_pixman_init_gradient` fail: the struct is freed again and NULL returned (no trace here) -/
def createGradient (h : Heap) (k : Kind) (nStops : Int) : Heap × Option Nat :=
  if nStops ≤ 0 then (h, none)
  else
    let (h, id) := allocate h k 1
    (h.modify id fun im => { im with stops := im.stops.alloc }, some id)

/-- `pixman_image_ref` -/
def ref (h : Heap) (i : Nat) : Heap :=
  (touch h i).modify i fun im => { im with refCount := im.refCount + 1 }

/-! `_pixman_image_fini`, statement by statement, as record updates of the image itself -/

/-- `common->ref_count--` -/
def Image.dec (im : Image) : Image := { im with refCount := im.refCount - 1 }

/-- `pixman_region32_fini (&clip_region); free (transform); free (filter_params)` -/
def Image.finiCommon (im : Image) : Image :=
  { im with clipData := im.clipData.free, transform := im.transform.free, filterParams := im.filterParams.free }

def Image.isGradient (im : Image) : Bool :=
  decide (im.kind = .linear ∨ im.kind = .radial ∨ im.kind = .conical)

/-- gradients: `free (stops - 1)` -/
def Image.finiStops (im : Image) : Image :=
  if im.isGradient then { im with stops := im.stops.free } else im

/-- bits: `free (free_me)` -/
def Image.finiBits (im : Image) : Image :=
  if im.kind = .bits then { im with freeMe := im.freeMe.free } else im

/-- `free (image)` -/
def Image.freeSelf (im : Image) : Image := { im with freed := im.freed + 1 }

/-- `if (destroy_func) destroy_func (image, destroy_data)` -/
def fire (h : Heap) (i : Nat) : Heap :=
  if (h.img i).destroyFunc then { h with fired := h.fired ++ [(i, (h.img i).destroyData)] } else h

/-- `pixman_image_unref` = `_pixman_image_fini` + `free (image)`.  The recursion of
    `_pixman_image_fini` into the alpha map is bounded by a budget (`stuck` counts exhaustion). -/
def unrefF : Nat → Heap → Nat → Heap × Bool
  | 0, h, _ => ({ h with stuck := h.stuck + 1 }, false)
  | fuel + 1, h, i =>
    let h := touch h i
    let h := h.modify i Image.dec
    if (h.img i).refCount = 0 then
      let h := fire h i
      let h := h.modify i Image.finiCommon
      -- if (alpha_map) pixman_image_unref (alpha_map)
      let h := match (h.img i).alphaMap with
        | some m => (unrefF fuel h m).1
        | none => h
      let h := h.modify i Image.finiStops
      let h := h.modify i Image.finiBits
      (h.modify i Image.freeSelf, true)
    else (h, false)

/-- budget used by the operations: an image, its alpha map, and one spare level -/
def fuel0 : Nat := 3

def unref (h : Heap) (i : Nat) : Heap × Bool := unrefF fuel0 h i

/-- `pixman_image_set_destroy_function` -/
def setDestroy (h : Heap) (i : Nat) (func : Bool) (data : Nat) : Heap :=
  (touch h i).modify i fun im => { im with destroyFunc := func, destroyData := data }

/-- `pixman_image_set_indexed (image, indexed)`: returns for images that are not bits images (since
    d80eb11; before, the store went through a `bits_image_t` cast: on a gradient it overwrote
    `gradient.stops` — same offset — so the stops array was lost and `_pixman_image_fini` freed
    `indexed - 1`). -/
def setIndexed (h : Heap) (i : Nat) (p : Option Nat) : Heap :=
  (touch h i).modify i fun im =>
    -- if (image->type != BITS) return;
    if im.kind ≠ .bits then im
    -- if (bits->indexed == indexed) return;
    else if im.indexed = p then im else { im with indexed := p }

/-- `pixman_image_set_transform`; `t = none` is NULL, `some 0` the identity matrix, `some k` another
    matrix (the client's pointer is never the image's own copy) -/
def setTransform (h : Heap) (i : Nat) (t : Option Nat) : Heap × Bool :=
  let h := touch h i
  let im := h.img i
  -- if (common->transform == transform) return TRUE
  if t = none ∧ im.transform.ptr = none then (h, true)
  -- if (!transform || identity) { free (common->transform); common->transform = NULL; }
  else if t = none ∨ t = some 0 then
    (h.modify i fun im => { im with transform := im.transform.free.clear, transformVal := 0 }, true)
  -- if (common->transform && memcmp (..) == 0) return TRUE
  else if im.transform.ptr ≠ none ∧ t = some im.transformVal then (h, true)
  else
    -- if (common->transform == NULL) common->transform = malloc (..); memcpy
    let h := if im.transform.ptr = none then
               h.modify i fun im => { im with transform := im.transform.alloc } else h
    (h.modify i fun im => { im with transformVal := t.getD 0 }, true)

def fixedToInt (x : Int) : Int := x / 65536     -- pixman_fixed_to_int: arithmetic shift

/-- `pixman_image_set_filter`; `params = none` is NULL with `n_params = 0` -/
def setFilter (h : Heap) (i : Nat) (filter : Nat) (params : Option (List Int)) : Heap × Bool :=
  let h := touch h i
  let im := h.img i
  -- if (params == common->filter_params && filter == common->filter) return TRUE
  if params = none ∧ im.filterParams.ptr = none ∧ filter = im.filter then (h, true)
  else
    let p := params.getD []
    let n : Int := p.length
    let sepOK : Bool :=
      if filter = 6 then
        let width := fixedToInt (p.getD 0 0)
        let height := fixedToInt (p.getD 1 0)
        let nx : Int := 2 ^ (fixedToInt (p.getD 2 0)).toNat
        let ny : Int := 2 ^ (fixedToInt (p.getD 3 0)).toNat
        decide (n = 4 + nx * width + ny * height)
      else true
    if !sepOK then (h, false)
    else
      -- new_params = malloc; free (common->filter_params); common->filter_params = new_params
      let h := h.modify i fun im =>
        { im with filter := filter
                  filterParams := if params.isSome then im.filterParams.free.alloc
                                  else im.filterParams.free.clear
                  nFilterParams := n }
      (h, true)

/-- `pixman_image_set_clip_region32 (image, region)`; `none` = NULL, `some n` = a region of `n`
    rectangles (its data is a heap block exactly when `n >= 2`): `pixman_region32_copy` -/
def setClip32 (h : Heap) (i : Nat) (n : Option Nat) : Heap × Bool :=
  let h := touch h i
  match n with
  | none => (h.modify i fun im => { im with haveClip := false }, true)
  | some n =>
    let h := h.modify i fun im =>
      if n ≤ 1 then
        -- FREE_DATA (dst); dst->data = src->data
        { im with clipData := im.clipData.free.clear, clipSize := 0, clipRects := n, haveClip := true }
      else if im.clipData.ptr = none ∨ im.clipSize < n then
        -- FREE_DATA (dst); dst->data = alloc_data (n); size = n
        { im with clipData := im.clipData.free.alloc, clipSize := n, clipRects := n, haveClip := true }
      else { im with clipRects := n, haveClip := true }
    (h, true)

/-- `pixman_image_set_clip_region (image, region16)`: `pixman_region32_copy_from_region16` =
    `pixman_region32_fini (dst)` + `pixman_region32_init_rects (dst, boxes, n)` -/
def setClip16 (h : Heap) (i : Nat) (n : Option Nat) : Heap × Bool :=
  let h := touch h i
  match n with
  | none => (h.modify i fun im => { im with haveClip := false }, true)
  | some n =>
    let h := h.modify i fun im =>
      if n ≤ 1 then
        { im with clipData := im.clipData.free.clear, clipSize := 0, clipRects := n, haveClip := true }
      else
        { im with clipData := im.clipData.free.alloc, clipSize := n, clipRects := n, haveClip := true }
    (h, true)

def touchOpt (h : Heap) : Option Nat → Heap
  | some a => touch h a
  | none => h

def mapNotBits (h : Heap) : Option Nat → Bool
  | some a => decide ((h.img a).kind ≠ .bits)
  | none => false

def mapHasMap (h : Heap) : Option Nat → Bool
  | some a => (h.img a).alphaMap.isSome
  | none => false

/-- `if (common->alpha_map) { common->alpha_map->common.alpha_count--;
    pixman_image_unref (common->alpha_map); }` — the field itself keeps its (now stale) value -/
def detachOld (h : Heap) (i : Nat) : Heap :=
  match (h.img i).alphaMap with
  | some old =>
    let h := (touch h old).modify old fun im => { im with alphaCount := im.alphaCount - 1 }
    (unref h old).1
  | none => h

/-- `if (alpha_map) { common->alpha_map = pixman_image_ref (alpha_map); alpha_map->alpha_count++; }
    else common->alpha_map = NULL;` -/
def attachNew (h : Heap) (i : Nat) : Option Nat → Heap
  | some a =>
    let h := ref h a
    let h := h.modify i fun im => { im with alphaMap := some a }
    h.modify a fun im => { im with alphaCount := im.alphaCount + 1 }
  | none => h.modify i fun im => { im with alphaMap := none }

/-- `pixman_image_set_alpha_map (image, alpha_map, x, y)` -/
def setAlphaMap (h : Heap) (i : Nat) (m : Option Nat) (x y : Int) : Heap :=
  let h := touch h i
  -- return_if_fail (!alpha_map || alpha_map->type == BITS)
  let h := touchOpt h m
  if mapNotBits h m then h
  -- if (alpha_map == image) return
  else if m = some i then h
  -- if (alpha_map && common->alpha_count > 0) return
  else if m.isSome ∧ (h.img i).alphaCount > 0 then h
  -- if (alpha_map && alpha_map->common.alpha_map) return
  else if mapHasMap h m then h
  else
    -- if (common->alpha_map != alpha_map) { ... }
    let h := if (h.img i).alphaMap ≠ m then attachNew (detachOld h i) i m else h
    h.modify i fun im => { im with alphaX := x, alphaY := y }

/-- `pixman_glyph_cache_create` -/
def cacheCreate (h : Heap) : Heap :=
  { h with cache := some {}, cachesMade := h.cachesMade + 1 }

def cacheFreeze (h : Heap) : Heap :=
  match h.cache with
  | some c => { h with cache := some { c with freeze := c.freeze + 1 } }
  | none => h

/-- `pixman_glyph_cache_thaw` (below the high-water mark: nothing is evicted) -/
def cacheThaw (h : Heap) : Heap :=
  match h.cache with
  | some c => { h with cache := some { c with freeze := c.freeze - 1 } }
  | none => h

/-- `free_glyph`: `pixman_image_unref (glyph->image); free (glyph)` -/
def freeGlyph (h : Heap) (g : Glyph) : Heap :=
  let h := (unref h g.image).1
  { h with glyphFrees := fun k => if k = g.blk then h.glyphFrees k + 1 else h.glyphFrees k }

/-- `pixman_glyph_cache_insert (cache, font, key, 0, 0, image)`: the cache keeps a private copy
    made by `pixman_image_create_bits (format, w, h, NULL, -1)` + a composite from `image`
    (which validates `image` and its alpha map) -/
def cacheInsert (h : Heap) (key i : Nat) : Heap × Bool :=
  match h.cache with
  | none => (h, false)
  | some c =>
    -- return_val_if_fail (cache->freeze_count > 0, NULL)
    if c.freeze ≤ 0 then (h, false)
    else
      let h := touch h i
      -- return_val_if_fail (image->type == BITS, NULL)
      if (h.img i).kind ≠ .bits then (h, false)
      else
        let blk := h.glyphsMade
        let h := { h with glyphsMade := blk + 1 }
        let (h, g) := createBits h (h.img i).width (h.img i).height true 0
        -- pixman_image_composite32 (SRC, image, NULL, glyph->image, ..)
        let h := touch h i
        let h := touchOpt h (h.img i).alphaMap
        ({ h with cache := some { c with entries := ⟨key, blk, g⟩ :: c.entries } }, true)

def findGlyph (es : List Glyph) (key : Nat) : Option Glyph := es.find? fun g => g.key = key

/-- `pixman_glyph_cache_remove` -/
def cacheRemove (h : Heap) (key : Nat) : Heap :=
  match h.cache with
  | none => h
  | some c =>
    match findGlyph c.entries key with
    | none => h
    | some g =>
      let h := { h with cache := some { c with entries := c.entries.erase g } }
      freeGlyph h g

/-- `clear_table`: `free_glyph (glyph); cache->glyphs[i] = NULL` for every slot.  (Here the slot is
    emptied first; `free_glyph` does not look at the table, so the order is not observable.) -/
def clearTable (h : Heap) (c : Cache) : List Glyph → Heap
  | [] => h
  | g :: gs => clearTable (freeGlyph { h with cache := some { c with entries := gs } } g) c gs

/-- `pixman_glyph_cache_destroy`: refused (return_if_fail) while frozen -/
def cacheDestroy (h : Heap) : Heap :=
  match h.cache with
  | none => h
  | some c =>
    if c.freeze ≠ 0 then h
    else
      let h := clearTable h c c.entries
      { h with cache := none, cachesFreed := h.cachesFreed + 1 }

/-! ### Histories -/

inductive Op where
  | createBits (w ht : Nat) (own : Bool)
  | createSolid
  | createGradient (k : Kind) (nStops : Int)
  | ref (i : Nat)
  | unref (i : Nat)
  | setAlphaMap (i : Nat) (m : Option Nat) (x y : Int)
  | setTransform (i : Nat) (t : Option Nat)
  | setFilter (i : Nat) (filter : Nat) (params : Option (List Int))
  | setClip32 (i : Nat) (n : Option Nat)
  | setClip16 (i : Nat) (n : Option Nat)
  | setDestroy (i : Nat) (func : Bool) (data : Nat)
  | setIndexed (i : Nat) (p : Option Nat)
  | cacheCreate | cacheDestroy | cacheFreeze | cacheThaw
  | cacheInsert (key i : Nat)
  | cacheRemove (key : Nat)
deriving Repr

/-- the calls that allocate, issued with "the k-th allocation inside this call fails" (`k = 0`: none) -/
inductive Call where
  | plain (op : Op)
  | failing (k : Nat) (op : Op)
deriving Repr

inductive Res where
  | created (id : Nat)
  | null
  | unit
  | bool (b : Bool)
  | refused              -- the client may not issue this call (it does not own the reference)
deriving Repr, DecidableEq

/-- The client owns a reference to `i` (so it may pass the pointer to the library). -/
def Heap.holds (h : Heap) (i : Nat) : Bool := decide (0 < h.ext i)

/-- The client may use `a` through a parent it holds: `a` is currently the alpha map of an image the
    client holds a reference to (that image keeps `a` alive).  Images held only by the glyph cache
    are not reachable this way. -/
def Heap.borrowed (h : Heap) (a : Nat) : Bool :=
  (List.range h.nimg).any fun p => h.holds p && decide ((h.img p).alphaMap = some a)

/-- Ownership discipline of the client: image arguments are references it holds (the `alpha_map`
    argument: held, or borrowed through a held parent); one cache at a
    time; a glyph key is inserted only while absent; separable-convolution parameters are
    well-formed (the library reads `params[0..3]` unconditionally). -/
def Op.ok (h : Heap) : Op → Bool
  | .createBits .. | .createSolid => true
  -- there is no constructor of a "gradient" of another image type
  | .createGradient k _ => decide (k = .linear ∨ k = .radial ∨ k = .conical)
  | .ref i | .unref i | .setTransform i _ | .setClip32 i _ | .setClip16 i _ | .setDestroy i _ _
  | .setIndexed i _ => h.holds i
  | .setFilter i f p =>
    h.holds i && (f != 6 || (match p with | some l => decide (4 ≤ l.length) | none => false))
  -- the `alpha_map` argument may also be a map borrowed through a held parent (e.g. to move the
  -- origin of a map whose own reference the client already dropped)
  | .setAlphaMap i m _ _ =>
    h.holds i && (match m with | some a => h.holds a || h.borrowed a | none => true)
  | .cacheCreate => h.cache.isNone
  | .cacheDestroy | .cacheFreeze | .cacheThaw | .cacheRemove _ => h.cache.isSome
  | .cacheInsert key i =>
    h.holds i && (match h.cache with | some c => (findGlyph c.entries key).isNone | none => false)

def dropExt (h : Heap) (i : Nat) : Heap :=
  { h with ext := fun j => if j = i then h.ext j - 1 else h.ext j }

def addExt (h : Heap) (i : Nat) : Heap :=
  { h with ext := fun j => if j = i then h.ext j + 1 else h.ext j }

/-- the library call itself (plus the ghost bookkeeping of the client's references) -/
def apply (h : Heap) : Op → Heap × Res
  | .createBits w ht own => let (h, id) := createBits h w ht own 1; (h, .created id)
  | .createSolid => let (h, id) := createSolid h; (h, .created id)
  | .createGradient k n =>
    match createGradient h k n with
    | (h, some id) => (h, .created id)
    | (h, none) => (h, .null)
  | .ref i => (addExt (ref h i) i, .unit)
  | .unref i => let (h, b) := unref (dropExt h i) i; (h, .bool b)
  | .setAlphaMap i m x y => (setAlphaMap h i m x y, .unit)
  | .setTransform i t => let (h, b) := setTransform h i t; (h, .bool b)
  | .setFilter i f p => let (h, b) := setFilter h i f p; (h, .bool b)
  | .setClip32 i n => let (h, b) := setClip32 h i n; (h, .bool b)
  | .setClip16 i n => let (h, b) := setClip16 h i n; (h, .bool b)
  | .setDestroy i f d => (setDestroy h i f d, .unit)
  | .setIndexed i p => (setIndexed h i p, .unit)
  | .cacheCreate => (cacheCreate h, .unit)
  | .cacheDestroy => (cacheDestroy h, .unit)
  | .cacheFreeze => (cacheFreeze h, .unit)
  | .cacheThaw => (cacheThaw h, .unit)
  | .cacheInsert key i => let (h, b) := cacheInsert h key i; (h, .bool b)
  | .cacheRemove key => (cacheRemove h key, .unit)

/-- `clip_region` after `pixman_break ()`: the old data freed, the static broken data installed -/
def breakClip (h : Heap) (i : Nat) : Heap :=
  (touch h i).modify i fun im => { im with clipData := im.clipData.free.clear, clipSize := 0, clipRects := 0 }

/-- number of allocations the call makes (in program order) -/
def allocsOf (h : Heap) : Op → Nat
  | .createBits w ht own => if own ∧ w ≠ 0 ∧ ht ≠ 0 then 2 else 1      -- struct, pixels
  | .createSolid => 1
  | .createGradient _ n => if n ≤ 0 then 1 else 2                      -- struct, stops
  | .setTransform i t => ((setTransform h i t).1.img i).transform.allocated - (h.img i).transform.allocated
  | .setFilter i f p => ((setFilter h i f p).1.img i).filterParams.allocated - (h.img i).filterParams.allocated
  | .setClip32 i n => ((setClip32 h i n).1.img i).clipData.allocated - (h.img i).clipData.allocated
  | .setClip16 _ (some n) => if n ≤ 1 then 0 else if 16 < n then 2 else 1   -- temporary boxes, region data
  | .cacheInsert key i =>                                                -- glyph_t, struct, pixels
    if (cacheInsert h key i).2 then (if (h.img i).width ≠ 0 ∧ (h.img i).height ≠ 0 then 3 else 2) else 0
  | _ => 0

/-- the call when its `k`-th allocation returns NULL (`1 ≤ k ≤ allocsOf`): creations and the glyph
    insert undo what they did and return NULL; `set_transform` / `set_filter` return FALSE with
    the image unchanged; a clip copy that cannot allocate leaves the region broken (old data
    freed), except when only the temporary boxes of the 16-bit path could not be allocated -/
def applyFail (h : Heap) (k : Nat) : Op → Heap × Res
  | .createBits .. | .createSolid | .createGradient .. => (h, .null)
  | .setClip32 i _ => (breakClip h i, .bool false)
  | .setClip16 i (some n) => if 16 < n ∧ k = 1 then (h, .bool false) else (breakClip h i, .bool false)
  | _ => (h, .bool false)

def Call.op : Call → Op
  | .plain op => op
  | .failing _ op => op

def applyCall (h : Heap) : Call → Heap × Res
  | .plain op => apply h op
  | .failing k op => if 1 ≤ k ∧ k ≤ allocsOf h op then applyFail h k op else apply h op

/-- one step of a client that respects ownership: calls it may not make are not made -/
def step (h : Heap) (c : Call) : Heap × Res :=
  if c.op.ok h then applyCall h c else (h, .refused)

def run (h : Heap) : List Call → Heap × List Res
  | [] => (h, [])
  | op :: ops =>
    let (h1, r) := step h op
    let (h2, rs) := run h1 ops
    (h2, r :: rs)

def Heap.empty : Heap := {}

/-- heap blocks currently allocated by the library on behalf of images and the cache -/
def Image.liveBlocks (im : Image) : Int :=
  (1 - (im.freed : Int)) + im.freeMe.liveBlocks + im.transform.liveBlocks + im.filterParams.liveBlocks
    + im.clipData.liveBlocks + im.stops.liveBlocks

def Heap.liveBlocks (h : Heap) : Int :=
  (((List.range h.nimg).map fun i => (h.img i).liveBlocks).sum)
    + ((h.cachesMade : Int) - h.cachesFreed)
    + ((h.glyphsMade : Int) - (((List.range h.glyphsMade).map h.glyphFrees).sum : Nat))

end Pixman.Model.Lifetime

import Pixman.Model.Lifetime
namespace Pixman.Props.C20
end Pixman.Props.C20
